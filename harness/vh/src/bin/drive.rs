//! Runs the implementation on case files (JSON lines on stdin → JSON lines on stdout).
use serde_json::{json, Value};
use sqlparser::tokenizer::Token;
use vh::*;

fn make_word(c: &Value) -> Value {
    let w = c["w"].as_str().unwrap().to_string();
    let q = c["q"].as_str().and_then(|s| s.chars().next());
    let r = std::panic::catch_unwind(|| Token::make_word(&w, q));
    match r {
        Ok(Token::Word(wd)) => json!({
            "value": wd.value, "quote": wd.quote_style.map(|c| c.to_string()),
            "keyword": format!("{:?}", wd.keyword)}),
        Ok(_) => json!({"error": "not a word"}),
        Err(e) => json!({"panic": panic_msg(e)}),
    }
}

/// C08 parser level: recase every keyword occurrence and compare trees.
/// Decision rule: identical tree, or trees that differ only at string leaves whose values are
/// equal ignoring ASCII case (a keyword spelled in an identifier position: spelling kept).
fn json_diff(a: &Value, b: &Value, path: &mut Vec<String>, out: &mut Vec<String>) {
    match (a, b) {
        (Value::Object(x), Value::Object(y)) => {
            if x.len() != y.len() || x.keys().ne(y.keys()) {
                out.push(format!("{}: different keys", path.join("/")));
                return;
            }
            for (k, v) in x {
                path.push(k.clone());
                json_diff(v, &y[k], path, out);
                path.pop();
            }
        }
        (Value::Array(x), Value::Array(y)) => {
            if x.len() != y.len() {
                out.push(format!("{}: different lengths", path.join("/")));
                return;
            }
            for (i, (v, w)) in x.iter().zip(y).enumerate() {
                path.push(i.to_string());
                json_diff(v, w, path, out);
                path.pop();
            }
        }
        (Value::String(x), Value::String(y)) => {
            if x != y {
                if x.eq_ignore_ascii_case(y) {
                    // a keyword spelled in a content position (identifier, type modifier,
                    // operator name, JSON key): the tree keeps the spelling of the text
                } else {
                    out.push(format!("{}: {:?} vs {:?}", path.join("/"), x, y));
                }
            }
        }
        _ => {
            if a != b {
                out.push(format!("{}: {} vs {}", path.join("/"), a, b));
            }
        }
    }
}

fn recase(c: &Value) -> Value {
    let sql = c["sql"].as_str().unwrap().to_string();
    let dn = c["dialect"].as_str().unwrap();
    let mode = c["mode"].as_str().unwrap_or("random").to_string();
    let seed = c["seed"].as_u64().unwrap_or(1);
    let d = dialect_by_name(dn);
    let r = std::panic::catch_unwind(std::panic::AssertUnwindSafe(|| {
        let toks = match tokenize_loc(d.as_ref(), &sql, true) { Ok(t) => t, Err(_) => return json!({"status":"skip"}) };
        let offs = token_offsets(&sql, &toks);
        let mut chars: Vec<char> = sql.chars().collect();
        let mut rng = Rng::new(seed);
        let mut nkw = 0;
        for (i, t) in toks.iter().enumerate() {
            if let Token::Word(w) = &t.token {
                if w.quote_style.is_none() && w.keyword != sqlparser::keywords::Keyword::NoKeyword {
                    let st = offs[i];
                    let n = w.value.chars().count();
                    if st == usize::MAX || st + n > chars.len() { return json!({"status":"skip"}); }
                    // the source slice must spell the word (guards against location bugs)
                    let slice: String = chars[st..st + n].iter().collect();
                    if slice != w.value { return json!({"status":"skip"}); }
                    nkw += 1;
                    for k in 0..n {
                        let ch = chars[st + k];
                        let up = match mode.as_str() {
                            "upper" => true, "lower" => false,
                            "alt" => k % 2 == 0,
                            _ => rng.below(2) == 0 };
                        chars[st + k] = if up { ch.to_ascii_uppercase() } else { ch.to_ascii_lowercase() };
                    }
                }
            }
        }
        let variant: String = chars.iter().collect();
        let a = parse_opts(d.as_ref(), &sql, true, false, None);
        let b = parse_opts(d.as_ref(), &variant, true, false, None);
        match (a, b) {
            (Ok(x), Ok(y)) => {
                if x == y { return json!({"status":"same","keywords":nkw}); }
                let (jx, jy) = (serde_json::to_value(&x).unwrap(), serde_json::to_value(&y).unwrap());
                let mut out = vec![];
                json_diff(&jx, &jy, &mut vec![], &mut out);
                if out.is_empty() { json!({"status":"case_only","keywords":nkw}) }
                else { json!({"status":"diff","variant":variant,"diffs":out.into_iter().take(5).collect::<Vec<_>>()}) }
            }
            (Err(_), Err(_)) => json!({"status":"both_rejected"}),
            (Ok(_), Err(e)) => json!({"status":"diff","variant":variant,"diffs":[format!("variant rejected: {e}")]}),
            (Err(e), Ok(_)) => json!({"status":"diff","variant":variant,"diffs":[format!("original rejected ({e}) but variant accepted")]}),
        }
    }));
    r.unwrap_or_else(|e| json!({"status":"panic","msg":panic_msg(e)}))
}

fn main() {
    quiet_panics();
    let args: Vec<String> = std::env::args().collect();
    let what = args.get(1).map(|s| s.as_str()).unwrap_or("");
    match what {
        "make_word" => for_each_case(make_word),
        "recase" => for_each_case(recase),
        _ => {
            eprintln!("usage: drive make_word < cases.jsonl");
            std::process::exit(2);
        }
    }
}
