//! Runs the implementation on case files (JSON lines on stdin → JSON lines on stdout).
use serde_json::{json, Value};
use sqlparser::tokenizer::Token;
use vh::*;

fn make_word(c: &Value) -> Value {
    let w = c["w"].as_str().unwrap().to_string();
    let q = c["q"].as_str().and_then(|s| s.chars().next());
    let r = std::panic::catch_unwind(|| Token::make_word(&w, q));
    match r {
        Ok(Token::Word(wd)) => json!({
            "value": wd.value, "quote": wd.quote_style.map(|c| c.to_string()),
            "keyword": format!("{:?}", wd.keyword)}),
        Ok(_) => json!({"error": "not a word"}),
        Err(e) => json!({"panic": panic_msg(e)}),
    }
}

/// C08 parser level: recase every keyword occurrence and compare trees.
/// Decision rule: identical tree, or trees that differ only at string leaves whose values are
/// equal ignoring ASCII case (a keyword spelled in an identifier position: spelling kept).
fn json_diff(a: &Value, b: &Value, path: &mut Vec<String>, out: &mut Vec<String>) {
    match (a, b) {
        (Value::Object(x), Value::Object(y)) => {
            if x.len() != y.len() || x.keys().ne(y.keys()) {
                out.push(format!("{}: different keys", path.join("/")));
                return;
            }
            for (k, v) in x {
                path.push(k.clone());
                json_diff(v, &y[k], path, out);
                path.pop();
            }
        }
        (Value::Array(x), Value::Array(y)) => {
            if x.len() != y.len() {
                out.push(format!("{}: different lengths", path.join("/")));
                return;
            }
            for (i, (v, w)) in x.iter().zip(y).enumerate() {
                path.push(i.to_string());
                json_diff(v, w, path, out);
                path.pop();
            }
        }
        (Value::String(x), Value::String(y)) => {
            if x != y {
                if x.eq_ignore_ascii_case(y) {
                    // a keyword spelled in a content position (identifier, type modifier,
                    // operator name, JSON key): the tree keeps the spelling of the text
                } else {
                    out.push(format!("{}: {:?} vs {:?}", path.join("/"), x, y));
                }
            }
        }
        _ => {
            if a != b {
                out.push(format!("{}: {} vs {}", path.join("/"), a, b));
            }
        }
    }
}

fn recase(c: &Value) -> Value {
    let sql = c["sql"].as_str().unwrap().to_string();
    let dn = c["dialect"].as_str().unwrap();
    let mode = c["mode"].as_str().unwrap_or("random").to_string();
    let seed = c["seed"].as_u64().unwrap_or(1);
    let d = dialect_by_name(dn);
    let r = std::panic::catch_unwind(std::panic::AssertUnwindSafe(|| {
        let toks = match tokenize_loc(d.as_ref(), &sql, true) { Ok(t) => t, Err(_) => return json!({"status":"skip"}) };
        let offs = token_offsets(&sql, &toks);
        let mut chars: Vec<char> = sql.chars().collect();
        let mut rng = Rng::new(seed);
        let mut nkw = 0;
        for (i, t) in toks.iter().enumerate() {
            if let Token::Word(w) = &t.token {
                if w.quote_style.is_none() && w.keyword != sqlparser::keywords::Keyword::NoKeyword {
                    let st = offs[i];
                    let n = w.value.chars().count();
                    if st == usize::MAX || st + n > chars.len() { return json!({"status":"skip"}); }
                    // the source slice must spell the word (guards against location bugs)
                    let slice: String = chars[st..st + n].iter().collect();
                    if slice != w.value { return json!({"status":"skip"}); }
                    nkw += 1;
                    for k in 0..n {
                        let ch = chars[st + k];
                        let up = match mode.as_str() {
                            "upper" => true, "lower" => false,
                            "alt" => k % 2 == 0,
                            _ => rng.below(2) == 0 };
                        chars[st + k] = if up { ch.to_ascii_uppercase() } else { ch.to_ascii_lowercase() };
                    }
                }
            }
        }
        let variant: String = chars.iter().collect();
        let a = parse_opts(d.as_ref(), &sql, true, false, None);
        let b = parse_opts(d.as_ref(), &variant, true, false, None);
        match (a, b) {
            (Ok(x), Ok(y)) => {
                if x == y { return json!({"status":"same","keywords":nkw}); }
                let (jx, jy) = (serde_json::to_value(&x).unwrap(), serde_json::to_value(&y).unwrap());
                let mut out = vec![];
                json_diff(&jx, &jy, &mut vec![], &mut out);
                if out.is_empty() { json!({"status":"case_only","keywords":nkw}) }
                else { json!({"status":"diff","variant":variant,"diffs":out.into_iter().take(5).collect::<Vec<_>>()}) }
            }
            (Err(_), Err(_)) => json!({"status":"both_rejected"}),
            (Ok(_), Err(e)) => json!({"status":"diff","variant":variant,"diffs":[format!("variant rejected: {e}")]}),
            (Err(e), Ok(_)) => json!({"status":"diff","variant":variant,"diffs":[format!("original rejected ({e}) but variant accepted")]}),
        }
    }));
    r.unwrap_or_else(|e| json!({"status":"panic","msg":panic_msg(e)}))
}

/// C09 on the implementation: tiling, true positions, per-kind spelling, suffix re-lexing.
fn fixed_spellings(t: &Token) -> Vec<String> {
    match t {
        Token::Neq => vec!["<>".into(), "!=".into()],
        other => vec![other.to_string()],
    }
}

fn lexprop(c: &Value) -> Value {
    use sqlparser::tokenizer::Whitespace as W;
    let d = dialect_by_name(c["dialect"].as_str().unwrap());
    let sql = c["sql"].as_str().unwrap();
    let unescape = c["unescape"].as_bool().unwrap_or(true);
    let r = std::panic::catch_unwind(std::panic::AssertUnwindSafe(|| {
        let toks = match tokenize_loc(d.as_ref(), sql, unescape) { Ok(t) => t, Err(_) => return json!({"status":"lexerr"}) };
        let chars: Vec<char> = sql.chars().collect();
        let offs = token_offsets(sql, &toks);
        let mut problems: Vec<String> = vec![];
        if toks.is_empty() {
            if !chars.is_empty() { problems.push("no tokens for a non-empty input".into()); }
            return json!({"status": if problems.is_empty() {"ok"} else {"bad"}, "problems": problems, "tokens": 0});
        }
        if offs[0] != 0 { problems.push(format!("first token does not start at offset 0 but {}", offs[0])); }
        for i in 0..toks.len() {
            if offs[i] == usize::MAX || offs[i] >= offs[i + 1] || offs[i + 1] > chars.len() {
                problems.push(format!("token {} ({}) has a position that is not strictly increasing / inside the input", i, toks[i].token));
                return json!({"status":"bad","problems":problems});
            }
        }
        for (i, t) in toks.iter().enumerate() {
            let slice: String = chars[offs[i]..offs[i + 1]].iter().collect();
            let ok = match &t.token {
                Token::Word(w) if w.quote_style.is_none() => slice == w.value,
                Token::Word(w) => {
                    let q = w.quote_style.unwrap();
                    let e = match q { '[' => ']', c => c };
                    let body_ok = if unescape { true } else { slice.chars().count() >= 2 && slice[q.len_utf8()..slice.len() - e.len_utf8()] == w.value };
                    slice.starts_with(q) && slice.ends_with(e) && slice.chars().count() >= 2 && body_ok
                }
                Token::Number(s, l) => slice == format!("{}{}", s, if *l { "L" } else { "" }),
                Token::Char(ch) => slice == ch.to_string(),
                Token::Placeholder(s) | Token::CustomBinaryOperator(s) => &slice == s,
                Token::Whitespace(W::Space) => slice.chars().count() == 1 && slice.chars().all(|c| c.is_whitespace()),
                Token::Whitespace(W::Tab) => slice == "\t",
                Token::Whitespace(W::Newline) => slice == "\n" || slice == "\r" || slice == "\r\n",
                Token::Whitespace(W::SingleLineComment { prefix, comment }) => slice == format!("{prefix}{comment}"),
                Token::Whitespace(W::MultiLineComment(s)) => slice == format!("/*{s}*/"),
                Token::HexStringLiteral(s) if slice.starts_with("0x") => slice == format!("0x{s}"),
                Token::SingleQuotedString(b) | Token::DoubleQuotedString(b) | Token::NationalStringLiteral(b) | Token::HexStringLiteral(b)
                | Token::SingleQuotedByteStringLiteral(b) | Token::DoubleQuotedByteStringLiteral(b)
                | Token::SingleQuotedRawStringLiteral(b) | Token::DoubleQuotedRawStringLiteral(b) => {
                    // prefix letter (any case) + quote + body + quote; body verbatim when un-escaping is off
                    let q = if matches!(&t.token, Token::DoubleQuotedString(_) | Token::DoubleQuotedByteStringLiteral(_) | Token::DoubleQuotedRawStringLiteral(_)) { '"' } else { '\'' };
                    let sc: Vec<char> = slice.chars().collect();
                    let p = if matches!(&t.token, Token::SingleQuotedString(_) | Token::DoubleQuotedString(_)) { 0 } else { 1 };
                    sc.len() >= p + 2 && sc[p] == q && sc[sc.len() - 1] == q
                        && (unescape || sc[p + 1..sc.len() - 1].iter().collect::<String>() == *b)
                }
                Token::TripleSingleQuotedString(b) | Token::TripleDoubleQuotedString(b)
                | Token::TripleSingleQuotedByteStringLiteral(b) | Token::TripleDoubleQuotedByteStringLiteral(b)
                | Token::TripleSingleQuotedRawStringLiteral(b) | Token::TripleDoubleQuotedRawStringLiteral(b) => {
                    let sc: Vec<char> = slice.chars().collect();
                    let p = if matches!(&t.token, Token::TripleSingleQuotedString(_) | Token::TripleDoubleQuotedString(_)) { 0 } else { 1 };
                    sc.len() >= p + 6 && (unescape || sc[p + 3..sc.len() - 3].iter().collect::<String>() == *b)
                }
                Token::EscapedStringLiteral(b) => {
                    let lc = slice.to_lowercase();
                    let shape = lc.starts_with("e'") && slice.ends_with('\'') && slice.chars().count() >= 3;
                    if shape && !unescape && slice[2..slice.len() - 1] != **b {
                        problems.push(format!("rawbody:escaped token {} E'..' body is not the source text {:?} with un-escaping off", i, slice));
                    }
                    shape
                }
                Token::UnicodeStringLiteral(b) => {
                    let lc = slice.to_lowercase();
                    let shape = lc.starts_with("u&'") && slice.ends_with('\'') && slice.chars().count() >= 4;
                    if shape && !unescape && slice[3..slice.len() - 1] != **b {
                        problems.push(format!("rawbody:unicode token {} U&'..' body is not the source text {:?} with un-escaping off", i, slice));
                    }
                    shape
                }
                Token::DollarQuotedString(dq) => {
                    let tag = dq.tag.clone().unwrap_or_default();
                    slice == format!("${tag}${}${tag}$", dq.value)
                }
                other => fixed_spellings(other).contains(&slice),
            };
            if !ok { problems.push(format!("token {} {:?} does not spell its source slice {:?}", i, t.token, slice)); }
        }
        // suffix re-lexing at a few token boundaries
        let n = toks.len();
        let picks: Vec<usize> = if n <= 6 { (1..n).collect() } else { vec![1, n / 3, n / 2, n - 1] };
        for i in picks {
            let suffix: String = chars[offs[i]..].iter().collect();
            match tokenize_loc(d.as_ref(), &suffix, unescape) {
                Ok(ts) => {
                    let a: Vec<&Token> = ts.iter().map(|t| &t.token).collect();
                    let b: Vec<&Token> = toks[i..].iter().map(|t| &t.token).collect();
                    if a != b { problems.push(format!("tokenizing the suffix at token {} gives different tokens", i)); }
                    else {
                        // relocated positions
                        let (l0, c0) = (toks[i].location.line, toks[i].location.column);
                        for (x, y) in ts.iter().zip(&toks[i..]) {
                            let (el, ec) = if y.location.line == l0 { (1, y.location.column - c0 + 1) } else { (y.location.line - l0 + 1, y.location.column) };
                            if (x.location.line, x.location.column) != (el, ec) { problems.push(format!("suffix at token {} relocates positions wrongly", i)); break; }
                        }
                    }
                }
                Err(e) => problems.push(format!("tokenizing the suffix at token {} fails: {}", i, e)),
            }
        }
        json!({"status": if problems.is_empty() {"ok"} else {"bad"}, "problems": problems, "tokens": toks.len()})
    }));
    r.unwrap_or_else(|e| json!({"status":"panic","problems":[panic_msg(e)]}))
}

/// C07 on the implementation: replace inter-token whitespace runs by other layouts.
fn wsvariant(c: &Value) -> Value {
    let dn = c["dialect"].as_str().unwrap();
    let d = dialect_by_name(dn);
    let sql = c["sql"].as_str().unwrap();
    let seed = c["seed"].as_u64().unwrap_or(1);
    let max_variants = c["max"].as_u64().unwrap_or(8) as usize;
    let r = std::panic::catch_unwind(std::panic::AssertUnwindSafe(|| {
        let toks = match tokenize_loc(d.as_ref(), sql, true) { Ok(t) => t, Err(_) => return json!({"status":"skip"}) };
        let chars: Vec<char> = sql.chars().collect();
        let offs = token_offsets(sql, &toks);
        for i in 0..toks.len() { if offs[i] == usize::MAX || offs[i] >= offs[i+1] || offs[i+1] > chars.len() { return json!({"status":"skip"}); } }
        // maximal whitespace runs strictly between two non-whitespace tokens
        let mut runs: Vec<(usize, usize)> = vec![];
        let mut i = 0;
        while i < toks.len() {
            if is_ws(&toks[i].token) {
                let st = i;
                while i < toks.len() && is_ws(&toks[i].token) { i += 1; }
                if st > 0 && i < toks.len() { runs.push((offs[st], offs[i])); }
            } else { i += 1; }
        }
        // blanks that separate tokens BY CONSTRUCTION of the text (given by the generator): they are varied even
        // when the tokenizer under test has glued them into a token
        if let Some(gs) = c["gaps"].as_array() {
            for g in gs {
                if let (Some(a), Some(b)) = (g[0].as_u64(), g[1].as_u64()) {
                    let r = (a as usize, b as usize);
                    if r.1 <= chars.len() && !runs.contains(&r) { runs.push(r); }
                }
            }
        }
        if runs.is_empty() { return json!({"status":"noruns"}); }
        let mut layouts: Vec<String> = vec![" ".into(), "  ".into(), "\t".into(), "\n".into(), "\r".into(), "\r\n".into(), "\u{a0}".into(),
            " /* c */ ".into(), " /* /* n */ */ ".into(), " -- c\n".into(), "\n-- c\n ".into(), " # c\n".into(), " // c\n".into(), "\t\n \r\n".into(), "\u{2003}".into()];
        // keep the layouts this dialect lexes purely as whitespace/comments
        layouts.retain(|w| match tokenize_loc(d.as_ref(), w, true) { Ok(ts) => !ts.is_empty() && ts.iter().all(|t| is_ws(&t.token)), Err(_) => false });
        let base_tokens: Vec<&Token> = toks.iter().map(|t| &t.token).filter(|t| !is_ws(t)).collect();
        let base_parse = parse_opts(d.as_ref(), sql, true, false, None);
        let mut rng = Rng::new(seed);
        let mut tried = 0;
        let total = runs.len() * layouts.len();
        let mut order: Vec<usize> = (0..total).collect();
        for k in (1..order.len()).rev() { let j = rng.below((k + 1) as u64) as usize; order.swap(k, j); }
        for idx in order.into_iter().take(max_variants) {
            let (a, b) = runs[idx / layouts.len()];
            let w = &layouts[idx % layouts.len()];
            let cur: String = chars[a..b].iter().collect();
            if &cur == w { continue; }
            let variant: String = chars[..a].iter().collect::<String>() + w + &chars[b..].iter().collect::<String>();
            tried += 1;
            match tokenize_loc(d.as_ref(), &variant, true) {
                Ok(vt) => {
                    let vtoks: Vec<&Token> = vt.iter().map(|t| &t.token).filter(|t| !is_ws(t)).collect();
                    if vtoks != base_tokens {
                        return json!({"status":"diff","level":"tokens","variant":variant,"replaced":cur,"by":w});
                    }
                }
                Err(e) => return json!({"status":"diff","level":"tokens","variant":variant,"replaced":cur,"by":w,"detail":format!("variant does not tokenize: {e}")}),
            }
            let vp = parse_opts(d.as_ref(), &variant, true, false, None);
            match (&base_parse, &vp) {
                (Ok(x), Ok(y)) if x == y => {}
                (Err(_), Err(_)) => {}
                (Ok(_), Ok(_)) => return json!({"status":"diff","level":"tree","variant":variant,"replaced":cur,"by":w,"detail":"different trees"}),
                (Ok(_), Err(e)) => return json!({"status":"diff","level":"tree","variant":variant,"replaced":cur,"by":w,"detail":format!("accepted text becomes rejected: {e}")}),
                (Err(e), Ok(_)) => return json!({"status":"diff","level":"tree","variant":variant,"replaced":cur,"by":w,"detail":format!("rejected text ({e}) becomes accepted")}),
            }
        }
        json!({"status":"same","variants":tried,"runs":runs.len(),"layouts":layouts.len(),"accepted":base_parse.is_ok()})
    }));
    r.unwrap_or_else(|e| json!({"status":"panic","detail":panic_msg(e)}))
}

/// C06: print a literal / quoted identifier node holding a payload, then tokenize the text.
fn literal(c: &Value) -> Value {
    use sqlparser::ast::{DollarQuotedString, Ident, Value as V};
    let d = dialect_by_name(c["dialect"].as_str().unwrap());
    let p = c["payload"].as_str().unwrap().to_string();
    let kind = c["kind"].as_str().unwrap();
    let r = std::panic::catch_unwind(std::panic::AssertUnwindSafe(|| {
        let printed = match kind {
            "KSingle" => V::SingleQuotedString(p.clone()).to_string(),
            "KDouble" => V::DoubleQuotedString(p.clone()).to_string(),
            "KTripleSingle" => V::TripleSingleQuotedString(p.clone()).to_string(),
            "KTripleDouble" => V::TripleDoubleQuotedString(p.clone()).to_string(),
            "KByteSingle" => V::SingleQuotedByteStringLiteral(p.clone()).to_string(),
            "KByteDouble" => V::DoubleQuotedByteStringLiteral(p.clone()).to_string(),
            "KTripleByteSingle" => V::TripleSingleQuotedByteStringLiteral(p.clone()).to_string(),
            "KTripleByteDouble" => V::TripleDoubleQuotedByteStringLiteral(p.clone()).to_string(),
            "KRawSingle" => V::SingleQuotedRawStringLiteral(p.clone()).to_string(),
            "KRawDouble" => V::DoubleQuotedRawStringLiteral(p.clone()).to_string(),
            "KTripleRawSingle" => V::TripleSingleQuotedRawStringLiteral(p.clone()).to_string(),
            "KTripleRawDouble" => V::TripleDoubleQuotedRawStringLiteral(p.clone()).to_string(),
            "KNational" => V::NationalStringLiteral(p.clone()).to_string(),
            "KEscaped" => V::EscapedStringLiteral(p.clone()).to_string(),
            "KUnicode" => V::UnicodeStringLiteral(p.clone()).to_string(),
            "KHex" => V::HexStringLiteral(p.clone()).to_string(),
            "Dollar" => V::DollarQuotedString(DollarQuotedString { value: p.clone(), tag: c["tag"].as_str().map(|s| s.to_string()) }).to_string(),
            "Ident" => Ident { value: p.clone(), quote_style: c["q"].as_str().and_then(|s| s.chars().next()) }.to_string(),
            _ => panic!("kind"),
        };
        let lexed = lex_outcome(d.as_ref(), &printed, true);
        json!({"printed": printed, "lex": lexed})
    }));
    r.unwrap_or_else(|e| json!({"panic": panic_msg(e)}))
}

/// C20 at statement level: raw-mode bodies survive parse -> print; both modes give the same shape.
fn literal_tokens(d: &dyn sqlparser::dialect::Dialect, sql: &str) -> Option<Vec<String>> {
    let toks = tokenize_loc(d, sql, false).ok()?;
    let chars: Vec<char> = sql.chars().collect();
    let offs = token_offsets(sql, &toks);
    let mut v = vec![];
    for (i, t) in toks.iter().enumerate() {
        match &t.token {
            // these two kinds have no raw branch in the tokenizer: take the body from the source text
            Token::EscapedStringLiteral(_) | Token::UnicodeStringLiteral(_)
                if offs[i] != usize::MAX && offs[i] < offs[i + 1] && offs[i + 1] <= chars.len() => {
                let slice: String = chars[offs[i]..offs[i + 1]].iter().collect();
                let skip = if matches!(&t.token, Token::EscapedStringLiteral(_)) { 2 } else { 3 };
                let body: String = slice.chars().skip(skip).take(slice.chars().count().saturating_sub(skip + 1)).collect();
                v.push(format!("{}:{}", if skip == 2 { "KEscaped" } else { "KUnicode" }, body));
            }
            Token::Word(w) if w.quote_style.is_some() => v.push(format!("W{}:{}", w.quote_style.unwrap(), w.value)),
            Token::Whitespace(_) | Token::Word(_) => {}
            other => {
                let j = tok_json(other);
                if j["k"] == "Str" { v.push(format!("{}:{}", j["kind"].as_str().unwrap(), j["s"].as_str().unwrap())); }
                if j["k"] == "Dollar" { v.push(format!("Dollar:{}:{}", j["tag"], j["v"].as_str().unwrap())); }
            }
        }
    }
    v.sort();
    Some(v)
}

const LITERAL_KEYS: [&str; 24] = ["value", "SingleQuotedString", "DoubleQuotedString", "TripleSingleQuotedString", "TripleDoubleQuotedString",
    "EscapedStringLiteral", "UnicodeStringLiteral", "SingleQuotedByteStringLiteral", "DoubleQuotedByteStringLiteral",
    "TripleSingleQuotedByteStringLiteral", "TripleDoubleQuotedByteStringLiteral", "SingleQuotedRawStringLiteral",
    "DoubleQuotedRawStringLiteral", "TripleSingleQuotedRawStringLiteral", "TripleDoubleQuotedRawStringLiteral",
    "NationalStringLiteral", "HexStringLiteral", "DollarQuotedString", "String", "comment", "Comment", "text", "pattern", "escape_char"];

fn shape_diff(a: &Value, b: &Value, path: &mut Vec<String>, out: &mut Vec<String>) {
    match (a, b) {
        (Value::Object(x), Value::Object(y)) => {
            if x.keys().ne(y.keys()) { out.push(format!("{}: different keys", path.join("/"))); return; }
            for (k, v) in x { path.push(k.clone()); shape_diff(v, &y[k], path, out); path.pop(); }
        }
        (Value::Array(x), Value::Array(y)) => {
            if x.len() != y.len() { out.push(format!("{}: different lengths", path.join("/"))); return; }
            for (i, (v, w)) in x.iter().zip(y).enumerate() { path.push(i.to_string()); shape_diff(v, w, path, out); path.pop(); }
        }
        (Value::String(x), Value::String(y)) => {
            if x != y {
                let allowed = path.iter().rev().take(3).any(|k| LITERAL_KEYS.contains(&k.as_str()));
                if !allowed { out.push(format!("{}: {:?} vs {:?}", path.join("/"), x, y)); }
            }
        }
        _ => { if a != b { out.push(format!("{}: {} vs {}", path.join("/"), a, b)); } }
    }
}

fn rawmode(c: &Value) -> Value {
    let d = dialect_by_name(c["dialect"].as_str().unwrap());
    let sql = c["sql"].as_str().unwrap();
    let r = std::panic::catch_unwind(std::panic::AssertUnwindSafe(|| {
        let raw = parse_opts(d.as_ref(), sql, false, false, None);
        let cooked = parse_opts(d.as_ref(), sql, true, false, None);
        let mut problems: Vec<String> = vec![];
        let mut bodies_problem: Option<Value> = None;
        let mut nlit = 0;
        if let Ok(stmts) = &raw {
            let printed = stmts.iter().map(|s| s.to_string()).collect::<Vec<_>>().join("; ");
            match (literal_tokens(d.as_ref(), sql), literal_tokens(d.as_ref(), &printed)) {
                (Some(a), Some(b)) => {
                    nlit = a.len();
                    // every body in the printed text must be one of the source bodies (bodies only:
                    // a literal the parser dropped or re-quoted is C05's business, not C20's)
                    let body = |x: &String| x.splitn(2, ':').nth(1).unwrap_or("").to_string();
                    let mut src: Vec<String> = a.iter().map(body).collect();
                    let mut extra: Vec<String> = vec![];
                    for x in &b {
                        let bx = body(x);
                        if let Some(pos) = src.iter().position(|y| *y == bx) { src.remove(pos); } else { extra.push(x.clone()); }
                    }
                    if !extra.is_empty() {
                        bodies_problem = Some(json!({"printed_not_in_source": extra, "source": a, "printed_text": printed}));
                    }
                }
                (Some(_), None) => bodies_problem = Some(json!({"printed_text_does_not_tokenize": printed})),
                _ => {}
            }
        }
        if let (Ok(x), Ok(y)) = (&raw, &cooked) {
            let (jx, jy) = (serde_json::to_value(x).unwrap(), serde_json::to_value(y).unwrap());
            let mut out = vec![];
            shape_diff(&jx, &jy, &mut vec![], &mut out);
            for o in out.into_iter().take(3) { problems.push(format!("shape:{o}")); }
        }
        json!({"status": if problems.is_empty() && bodies_problem.is_none() {"ok"} else {"bad"}, "problems": problems, "bodies": bodies_problem,
               "raw_ok": raw.is_ok(), "cooked_ok": cooked.is_ok(), "literals": nlit})
    }));
    r.unwrap_or_else(|e| json!({"status":"panic","problems":[panic_msg(e)]}))
}

/// C10 on the implementation: mutate an accepted text into rejected ones and check the error values.
fn check_error(d: &dyn sqlparser::dialect::Dialect, sql: &str) -> Option<String> {
    use sqlparser::parser::ParserError;
    let r1 = parse_opts(d, sql, true, false, None);
    let r2 = parse_opts(d, sql, true, false, None);
    let e = match (&r1, &r2) {
        (Err(a), Err(b)) => { if a != b { return Some(format!("same input, different errors: {a} / {b}")); } a.clone() }
        (Ok(a), Ok(b)) => { if a != b { return Some("same input, different trees".into()); } return None; }
        _ => return Some("same input accepted once and rejected once".into()),
    };
    let lexed = tokenize_loc(d, sql, true);
    let chars: Vec<char> = sql.chars().collect();
    // positions of every character (and one past the end)
    let mut charpos: Vec<(u64, u64)> = vec![];
    let (mut l, mut c) = (1u64, 1u64);
    for ch in &chars { charpos.push((l, c)); if *ch == '\n' { l += 1; c = 1; } else { c += 1; } }
    charpos.push((l, c));
    let msg = match &e { ParserError::TokenizerError(m) | ParserError::ParserError(m) => m.clone(), ParserError::RecursionLimitExceeded => String::new() };
    // trailing " at Line: l, Column: c"
    let mut pos: Option<(u64, u64)> = None;
    let mut head = msg.as_str();
    if let Some(i) = msg.rfind(" at Line: ") {
        let tail = &msg[i + 10..];
        let parts: Vec<&str> = tail.split(", Column: ").collect();
        if parts.len() == 2 {
            if let (Ok(a), Ok(b)) = (parts[0].parse::<u64>(), parts[1].parse::<u64>()) { pos = Some((a, b)); head = &msg[..i]; }
        }
    }
    match (&e, &lexed) {
        (ParserError::TokenizerError(_), Ok(_)) => return Some(format!("lexical error kind for an input that tokenizes: {msg}")),
        (ParserError::ParserError(_), Err(te)) => return Some(format!("syntactic error kind {msg:?} although tokenizing fails with {te}")),
        (ParserError::RecursionLimitExceeded, Err(_)) => return Some("recursion-limit error although tokenizing fails".into()),
        _ => {}
    }
    match &e {
        ParserError::TokenizerError(_) => {
            match pos { Some(p) => if !charpos.contains(&p) { return Some(format!("lexical error position {p:?} is not a character position of the input: {msg}")); },
                        None => return Some(format!("lexical error without position: {msg}")) }
        }
        ParserError::ParserError(_) => {
            let toks = lexed.unwrap();
            if let Some(p) = pos {
                let hit = toks.iter().find(|t| (t.location.line, t.location.column) == p);
                match hit {
                    None => return Some(format!("error position {p:?} is not the start of a token: {msg}")),
                    Some(t) => {
                        if let Some(i) = head.rfind(", found: ") {
                            if head.starts_with("Expected: ") {
                                let found = &head[i + 9..];
                                if found != t.token.to_string() { return Some(format!("message says found {found:?} but the token at {p:?} is {:?}", t.token.to_string())); }
                                // independent of the tokenizer's own positions: the source text at that
                                // line/column must spell the token (words, numbers, punctuation)
                                if let Token::Word(sqlparser::tokenizer::Word { quote_style: None, .. }) | Token::Number(..) = &t.token {
                                    if let Some(off) = charpos.iter().position(|q| *q == p) {
                                        let here: String = chars[off..].iter().take(found.chars().count()).collect();
                                        if here != found { return Some(format!("error position {p:?} is not where {found:?} is in the text (there: {here:?})")); }
                                    }
                                }
                            }
                        }
                    }
                }
            } else if head.starts_with("Expected: ") && head.contains(", found: ") && !head.ends_with(", found: EOF") {
                // a found-token message without a position is only legitimate at end of input
                return Some(format!("found-token message without position: {msg}"));
            }
            if head.ends_with(", found: EOF") && pos.is_some() { return Some(format!("end-of-input error carries a position: {msg}")); }
        }
        ParserError::RecursionLimitExceeded => {}
    }
    None
}

fn errprop(c: &Value) -> Value {
    let d = dialect_by_name(c["dialect"].as_str().unwrap());
    let sql = c["sql"].as_str().unwrap();
    let seed = c["seed"].as_u64().unwrap_or(1);
    let n = c["mutants"].as_u64().unwrap_or(8);
    let r = std::panic::catch_unwind(std::panic::AssertUnwindSafe(|| {
        let toks = match tokenize_loc(d.as_ref(), sql, true) {
            Ok(t) => t,
            // a text the tokenizer rejects: the error value of the text itself is what is checked
            Err(_) => return match check_error(d.as_ref(), sql) {
                Some(p) => json!({"status":"bad","variant":sql,"problem":p}),
                None => json!({"status":"ok","rejected":1,"accepted":0}),
            },
        };
        let chars: Vec<char> = sql.chars().collect();
        let offs = token_offsets(sql, &toks);
        for i in 0..toks.len() { if offs[i] == usize::MAX || offs[i] >= offs[i+1] || offs[i+1] > chars.len() { return json!({"status":"skip"}); } }
        let slice = |i: usize| -> String { chars[offs[i]..offs[i + 1]].iter().collect() };
        let nt = toks.len();
        if nt == 0 { return json!({"status":"skip"}); }
        let mut rng = Rng::new(seed);
        let subst = ["SELECT", "FROM", ")", "(", ",", "'x", "1", "AND", ";", "\"q", "/*", "$a$", "@", "U&'\\00zz'", "E'\\", "..", "NOT", "BY"];
        let (mut rejected, mut accepted) = (0, 0);
        for k in 0..n {
            let kind = if k == 0 { 0 } else { rng.below(4) };
            let i = rng.below(nt as u64) as usize;
            let mut parts: Vec<String> = (0..nt).map(slice).collect();
            match kind {
                0 => { parts.truncate(i.max(1)); }
                1 => { parts.remove(i); }
                2 => { let x = parts[i].clone(); parts.insert(i, x); parts.insert(i + 1, " ".into()); }
                _ => { parts[i] = subst[rng.below(subst.len() as u64) as usize].to_string(); }
            }
            let variant: String = parts.concat();
            let ok = parse_opts(d.as_ref(), &variant, true, false, None).is_ok();
            if ok { accepted += 1; } else { rejected += 1; }
            if let Some(p) = check_error(d.as_ref(), &variant) {
                return json!({"status":"bad","variant":variant,"problem":p});
            }
        }
        json!({"status":"ok","rejected":rejected,"accepted":accepted})
    }));
    r.unwrap_or_else(|e| json!({"status":"panic","problem":panic_msg(e)}))
}

/// C02: hostile variants of a text under several option sets; everything must return, and
/// every accepted statement must survive Display / Debug / Clone / ==.
fn exercise(d: &dyn sqlparser::dialect::Dialect, sql: &str, unescape: bool, trailing: bool, limit: Option<usize>) -> Result<u64, String> {
    sqlparser::parser::verif_hooks::reset();
    let r = std::panic::catch_unwind(std::panic::AssertUnwindSafe(|| {
        let toks = sqlparser::tokenizer::Tokenizer::new(d, sql).with_unescape(unescape).tokenize();
        if let Ok(ts) = &toks { for t in ts { let _ = t.to_string(); let _ = format!("{:?}", t); } }
        match parse_opts(d, sql, unescape, trailing, limit) {
            Ok(stmts) => {
                for st in &stmts {
                    let _ = st.to_string();
                    let _ = format!("{:?}", st);
                    let c = st.clone();
                    if &c != st { panic!("clone is not equal to the original"); }
                }
            }
            Err(e) => { let _ = e.to_string(); let _ = format!("{:?}", e); }
        }
    }));
    let steps = sqlparser::parser::verif_hooks::steps();
    r.map(|_| steps).map_err(panic_msg)
}

fn stress(c: &Value) -> Value {
    let d = dialect_by_name(c["dialect"].as_str().unwrap());
    let sql = c["sql"].as_str().unwrap();
    let seed = c["seed"].as_u64().unwrap_or(1);
    let n = c["mutants"].as_u64().unwrap_or(12);
    let all_truncations = c["all_truncations"].as_bool().unwrap_or(false);
    let chars: Vec<char> = sql.chars().collect();
    // the tokenizer itself may panic on the base text: that is a finding, not a harness crash
    let toks = match std::panic::catch_unwind(std::panic::AssertUnwindSafe(|| tokenize_loc(d.as_ref(), sql, true))) {
        Ok(t) => t.unwrap_or_default(),
        Err(e) => return json!({"status":"panic","variant":sql,"unescape":true,"trailing_commas":false,"limit":Value::Null,"panic":panic_msg(e)}),
    };
    let offs = if toks.is_empty() { vec![0, chars.len()] } else { token_offsets(sql, &toks) };
    let valid = offs.iter().all(|o| *o != usize::MAX && *o <= chars.len());
    let mut rng = Rng::new(seed);
    let subst = ["(", ")", ",", "'", "\"", "`", "[", "$$", "/*", "--", "\\", ";", "SELECT", "DIV", "NOT", "INTERVAL", "CASE", "::", ".", "@", "?", "{", "}", "ARRAY[", "U&'\\", "E'\\u", "0x", "1e", "\u{0}", "\u{a0}", "\u{1F600}", "FOR", "BY", "AS", "WITH"];
    let mut variants: Vec<String> = vec![sql.to_string()];
    if valid && toks.len() > 1 {
        if all_truncations { for i in 1..toks.len() { variants.push(chars[..offs[i]].iter().collect()); } }
        for _ in 0..n {
            let i = rng.below(toks.len() as u64) as usize;
            let (a, b) = (offs[i], offs[i + 1].min(chars.len()));
            let pre: String = chars[..a].iter().collect();
            let mid: String = chars[a..b].iter().collect();
            let post: String = chars[b..].iter().collect();
            variants.push(match rng.below(5) {
                0 => pre.clone(),
                1 => pre.clone() + &post,
                2 => pre.clone() + &mid + " " + &mid + &post,
                3 => pre.clone() + subst[rng.below(subst.len() as u64) as usize] + &post,
                _ => { let j = rng.below(chars.len() as u64 + 1) as usize; chars[..j].iter().collect::<String>() + subst[rng.below(subst.len() as u64) as usize] + &chars[j..].iter().collect::<String>() }
            });
        }
    }
    let option_sets: [(bool, bool, Option<usize>); 6] = [(true, false, None), (false, true, None), (true, false, Some(0)), (true, true, Some(1)), (false, false, Some(2)), (true, false, Some(7))];
    let (mut runs, mut max_ratio, mut worst) = (0u64, 0f64, String::new());
    for v in &variants {
        let len = v.chars().count().max(8) as f64;
        for (k, (un, tc, lim)) in option_sets.iter().enumerate() {
            if k > 0 && rng.below(3) != 0 { continue; }
            runs += 1;
            set_current(&json!({"variant": v, "unescape": un, "trailing_commas": tc, "limit": lim}).to_string());
            match exercise(d.as_ref(), v, *un, *tc, *lim) {
                Ok(steps) => { let r = steps as f64 / len; if r > max_ratio { max_ratio = r; worst = v.clone(); } }
                Err(msg) => return json!({"status":"panic","variant":v,"unescape":un,"trailing_commas":tc,"limit":lim,"panic":msg}),
            }
        }
    }
    json!({"status":"ok","runs":runs,"variants":variants.len(),"max_steps_per_char":max_ratio,"worst":worst})
}

/// C02/C03: nested inputs for growth ladders. Returns steps, outcome.
fn nest_text(template: &str, n: usize) -> Option<String> {
    let rep = |s: &str| s.repeat(n);
    Some(match template {
        "parens" => format!("SELECT {}1{}", rep("("), rep(")")),
        "position" => format!("SELECT {}'a' IN 'b'{}", rep("POSITION("), rep(" IN 'c')").replacen(" IN 'c')", ")", 1)),
        "func" => format!("SELECT {}1{}", rep("f("), rep(")")),
        "position_fn" => format!("SELECT {}1{}", rep("POSITION("), rep(")")),
        "paren_tuple_lambda" => format!("SELECT {}a, b{}", rep("f(("), rep("))")),
        "typed_paren" => format!("SELECT {}1{}", rep("a("), rep(")")),
        "interval_paren" => format!("SELECT {}1{}", rep("INTERVAL ("), rep(") DAY")),
        "derived_join" => format!("SELECT * FROM {}a{}", rep("("), rep(" JOIN b ON 1)")),
        "explain_paren" => format!("EXPLAIN {}SELECT 1{}", rep("("), rep(")")),
        "case" => format!("SELECT {}1{}", rep("CASE WHEN a THEN "), rep(" END")),
        "subquery" => format!("SELECT {}1{}", rep("(SELECT "), rep(")")),
        "derived" => format!("SELECT * FROM {}t{}", rep("("), rep(")")),
        "derived_select" => format!("SELECT * FROM {}t{}", rep("(SELECT * FROM "), rep(") AS x")),
        "array" => format!("SELECT {}1{}", rep("ARRAY["), rep("]")),
        "bracket" => format!("SELECT {}1{}", rep("["), rep("]")),
        "not" => format!("SELECT {}x", rep("NOT ")),
        "neg" => format!("SELECT {}x", rep("- ")),
        "cast" => format!("SELECT {}1{}", rep("CAST("), rep(" AS INT)")),
        "interval" => format!("SELECT {}'1' DAY", rep("INTERVAL ")),
        "extract" => format!("SELECT {}d{}", rep("EXTRACT(YEAR FROM "), rep(")")),
        "substring" => format!("SELECT {}'a'{}", rep("SUBSTRING("), rep(" FROM 1)")),
        "trim" => format!("SELECT {}'a'{}", rep("TRIM("), rep(")")),
        "ceil" => format!("SELECT {}1{}", rep("CEIL("), rep(")")),
        "overlay" => format!("SELECT {}'a'{}", rep("OVERLAY("), rep(" PLACING 'b' FROM 1)")),
        "exists" => format!("SELECT {}1{}", rep("EXISTS (SELECT "), rep(")")),
        "struct" => format!("SELECT {}1{}", rep("STRUCT("), rep(")")),
        "map" => format!("SELECT {}1{}", rep("MAP {'a': "), rep("}")),
        "dict" => format!("SELECT {}1{}", rep("{'a': "), rep("}")),
        "typed" => format!("SELECT {}x", rep("a ")),
        "convert" => format!("SELECT {}1{}", rep("CONVERT("), rep(", INT)")),
        "join_parens" => format!("SELECT * FROM {}a JOIN b ON 1{}", rep("("), rep(")")),
        "in_list" => format!("SELECT {}1{}", rep("1 IN ("), rep(")")),
        "tuple" => format!("SELECT {}1, 2{}", rep("("), rep(")")),
        "between" => format!("SELECT {}1", rep("1 BETWEEN 2 AND ")),
        "window" => format!("SELECT {}1{}", rep("sum(x) OVER (ORDER BY "), rep(")")),
        "lambda" => format!("SELECT {}1{}", rep("f(x -> "), rep(")")),
        "lambda_paren" => format!("SELECT {}1", rep("(a) -> ")),
        "explain" => format!("{}SELECT 1", rep("EXPLAIN ")),
        "datatype_array" => format!("SELECT CAST(x AS {}INT{})", rep("ARRAY<"), rep(">")),
        "datatype_struct" => format!("SELECT CAST(x AS {}INT{})", rep("STRUCT<a "), rep(">")),
        "pattern" => format!("SELECT * FROM t MATCH_RECOGNIZE(PATTERN ({}A{}) DEFINE A AS true)", rep("("), rep(")")),
        "pattern_alt" => format!("SELECT * FROM t MATCH_RECOGNIZE(PATTERN ({}A{}) DEFINE A AS true)", rep("A | ("), rep(")")),
        "prior" => format!("SELECT a FROM t START WITH a = 1 CONNECT BY a = {}b", rep("PRIOR ")),
        "union_paren" => format!("{}SELECT 1{}", rep("("), rep(") UNION SELECT 2").replacen(" UNION SELECT 2", "", 1)),
        "cte" => format!("{}SELECT 1{}", rep("WITH a AS ("), rep(") SELECT 1")),
        "subscript" => format!("SELECT a{}", rep("[1]")),
        _ => return None,
    })
}

fn ladder(c: &Value) -> Value {
    let d = dialect_by_name(c["dialect"].as_str().unwrap());
    let t = c["template"].as_str().unwrap();
    let n = c["n"].as_u64().unwrap() as usize;
    let limit = c["limit"].as_u64().map(|x| x as usize);
    let mut sql = match nest_text(t, n) { Some(s) => s, None => return json!({"status":"unknown-template"}) };
    if c["fail"].as_bool().unwrap_or(false) {
        // failing variant: the nest is cut at its innermost point (the common prefix of depth n and n+1) and ends in a
        // token no operand can start with, so every speculative parse on the way in fails at the very end
        let deeper = nest_text(t, n + 1).unwrap();
        let cut = sql.char_indices().zip(deeper.chars()).take_while(|((_, a), b)| a == b).map(|((i, a), _)| i + a.len_utf8()).last().unwrap_or(0);
        sql = format!("{} +", &sql[..cut]);
    }
    sqlparser::parser::verif_hooks::reset();
    let t0 = std::time::Instant::now();
    let r = std::panic::catch_unwind(std::panic::AssertUnwindSafe(|| parse_opts(d.as_ref(), &sql, true, false, limit)));
    let steps = sqlparser::parser::verif_hooks::steps();
    let ms = t0.elapsed().as_millis() as u64;
    match r {
        Ok(Ok(_)) => json!({"status":"ok","steps":steps,"ms":ms,"len":sql.len()}),
        Ok(Err(e)) => json!({"status": if matches!(e, sqlparser::parser::ParserError::RecursionLimitExceeded) {"limit"} else {"error"}, "steps":steps,"ms":ms,"len":sql.len(),"error":e.to_string()}),
        Err(e) => json!({"status":"panic","panic":panic_msg(e),"steps":steps}),
    }
}

/// C02: a very deep nest must come back (value, error or limit error), never abort the process.
/// The result is leaked: dropping or printing a huge tree is not what is probed here.
fn deep(c: &Value) -> Value {
    let d = dialect_by_name(c["dialect"].as_str().unwrap());
    let t = c["template"].as_str().unwrap();
    let n = c["n"].as_u64().unwrap() as usize;
    let sql = match nest_text(t, n) { Some(s) => s, None => return json!({"status":"unknown-template"}) };
    set_current(&json!({"template": t, "n": n}).to_string());
    let r = std::panic::catch_unwind(std::panic::AssertUnwindSafe(|| parse_opts(d.as_ref(), &sql, true, false, None)));
    let out = match &r {
        Ok(Ok(_)) => json!({"status":"ok","len":sql.len()}),
        Ok(Err(e)) => json!({"status": if matches!(e, sqlparser::parser::ParserError::RecursionLimitExceeded) {"limit"} else {"error"}, "len":sql.len()}),
        Err(_) => json!({"status":"panic"}),
    };
    std::mem::forget(r);
    out
}

fn parse(c: &Value) -> Value {
    let d = dialect_by_name(c["dialect"].as_str().unwrap());
    let sql = c["sql"].as_str().unwrap();
    let r = std::panic::catch_unwind(std::panic::AssertUnwindSafe(|| {
        parse_opts(d.as_ref(), sql, c["unescape"].as_bool().unwrap_or(true), c["trailing_commas"].as_bool().unwrap_or(false), c["limit"].as_u64().map(|x| x as usize))
    }));
    match r {
        Ok(Ok(v)) => json!({"ok": v.iter().map(|s| s.to_string()).collect::<Vec<_>>(), "n": v.len()}),
        Ok(Err(e)) => json!({"err": e.to_string()}),
        Err(e) => json!({"panic": panic_msg(e)}),
    }
}

fn lex(c: &Value) -> Value {
    let d = dialect_by_name(c["dialect"].as_str().unwrap());
    lex_outcome(d.as_ref(), c["sql"].as_str().unwrap(), c["unescape"].as_bool().unwrap_or(true))
}

fn main() {
    quiet_panics();
    let args: Vec<String> = std::env::args().collect();
    let what = args.get(1).map(|s| s.as_str()).unwrap_or("");
    match what {
        "make_word" => for_each_case(make_word),
        "recase" => for_each_case(recase),
        "lex" => for_each_case(lex),
        "parse" => for_each_case(parse),
        "deep" => for_each_case(deep),
        "lexprop" => for_each_case(lexprop),
        "literal" => for_each_case(literal),
        "rawmode" => for_each_case(rawmode),
        "errprop" => for_each_case(errprop),
        "stress" => for_each_case(stress),
        "ladder" => for_each_case(ladder),
        "wsvariant" => for_each_case(wsvariant),
        _ => {
            eprintln!("usage: drive make_word < cases.jsonl");
            std::process::exit(2);
        }
    }
}
