//! Harvests SQL strings from the repository's own tests (every string literal of tests/*.rs
//! and of #[cfg(test)] code under src/), keeps those accepted by at least one dialect as a
//! list of statements, and prints one JSON line per string: {"sql":…, "dialects":[…]}.
use serde_json::json;
use sqlparser::parser::Parser;
use std::collections::BTreeSet;
use syn::visit::Visit;
use vh::*;

struct Lits(BTreeSet<String>);
impl<'ast> Visit<'ast> for Lits {
    fn visit_lit_str(&mut self, l: &'ast syn::LitStr) {
        self.0.insert(l.value());
    }
    fn visit_macro(&mut self, m: &'ast syn::Macro) {
        // string literals inside macro invocations (assert_eq!, format!, vec!, …)
        fn walk(ts: proc_macro2::TokenStream, out: &mut BTreeSet<String>) {
            for tt in ts {
                match tt {
                    proc_macro2::TokenTree::Group(g) => walk(g.stream(), out),
                    proc_macro2::TokenTree::Literal(l) => {
                        if let Ok(syn::Lit::Str(s)) = syn::parse_str::<syn::Lit>(&l.to_string()) {
                            out.insert(s.value());
                        }
                    }
                    _ => {}
                }
            }
        }
        walk(m.tokens.clone(), &mut self.0);
    }
}

fn main() {
    quiet_panics();
    let repo = std::env::args().nth(1).unwrap_or("/repo".into());
    let mut files: Vec<std::path::PathBuf> = vec![];
    for d in ["tests", "src", "src/parser", "src/dialect", "src/ast"] {
        if let Ok(rd) = std::fs::read_dir(format!("{repo}/{d}")) {
            for e in rd.flatten() {
                let p = e.path();
                if p.extension().map(|x| x == "rs").unwrap_or(false) {
                    files.push(p);
                }
            }
        }
    }
    files.sort();
    let mut lits = Lits(BTreeSet::new());
    for f in files {
        let src = std::fs::read_to_string(&f).unwrap();
        if let Ok(file) = syn::parse_file(&src) {
            lits.visit_file(&file);
        }
    }
    let dialects: Vec<_> = DIALECT_NAMES.iter().map(|n| (*n, dialect_by_name(n))).collect();
    for s in lits.0 {
        if s.len() < 4 || s.len() > 4000 || !s.contains(' ') {
            continue;
        }
        let mut ok = vec![];
        for (n, d) in &dialects {
            let r = std::panic::catch_unwind(std::panic::AssertUnwindSafe(|| {
                Parser::parse_sql(d.as_ref(), &s)
            }));
            if let Ok(Ok(v)) = r {
                if !v.is_empty() {
                    ok.push(*n);
                }
            }
        }
        if !ok.is_empty() {
            println!("{}", json!({"sql": s, "dialects": ok}));
        }
    }
}
