//! Translator, dynamic part: dumps values computed by the *current* /repo crate as JSON.
use serde_json::json;
use sqlparser::keywords::{ALL_KEYWORDS, ALL_KEYWORDS_INDEX, RESERVED_FOR_COLUMN_ALIAS, RESERVED_FOR_TABLE_ALIAS};

fn keywords() -> serde_json::Value {
    json!({
        "all_keywords": ALL_KEYWORDS,
        "all_keywords_index": ALL_KEYWORDS_INDEX.iter().map(|k| format!("{:?}", k)).collect::<Vec<_>>(),
        "reserved_for_column_alias": RESERVED_FOR_COLUMN_ALIAS.iter().map(|k| format!("{:?}", k)).collect::<Vec<_>>(),
        "reserved_for_table_alias": RESERVED_FOR_TABLE_ALIAS.iter().map(|k| format!("{:?}", k)).collect::<Vec<_>>(),
    })
}

fn charset(f: &dyn Fn(char) -> bool) -> serde_json::Value {
    let mut mask: u128 = 0;
    for c in 0u32..128 {
        if f(char::from_u32(c).unwrap()) {
            mask |= 1u128 << c;
        }
    }
    let mut ranges: Vec<(u32, u32)> = vec![];
    let mut cur: Option<(u32, u32)> = None;
    for c in 128u32..=0x10FFFF {
        let inside = match char::from_u32(c) { Some(ch) => f(ch), None => false };
        match (inside, cur) {
            (true, None) => cur = Some((c, c)),
            (true, Some((lo, _))) => cur = Some((lo, c)),
            (false, Some(r)) => { ranges.push(r); cur = None; }
            (false, None) => {}
        }
    }
    if let Some(r) = cur { ranges.push(r); }
    json!({"mask": mask.to_string(), "ranges": ranges})
}

fn dialects() -> serde_json::Value {
    use sqlparser::dialect::*;
    let mut out = serde_json::Map::new();
    for name in vh::DIALECT_NAMES {
        let d = vh::dialect_by_name(name);
        let d = d.as_ref();
        // classify is_proper_identifier_inside_quotes by probing
        let probe = |s: &str| d.is_proper_identifier_inside_quotes(s.chars().peekable());
        let probes = ["[a]", "[ a]", "[1]", "[ 1]", "[", "[ ]", "\"a\"", "\"1\"", "[\u{a0}_x]", "[#]", "[\t\n_]"];
        let answers: Vec<bool> = probes.iter().map(|s| probe(s)).collect();
        let always = answers.iter().all(|b| *b);
        let redshift_like: Vec<bool> = probes.iter().map(|s| {
            let mut it = s.chars(); it.next();
            match it.skip_while(|c| c.is_whitespace()).next() { Some(c) => d.is_identifier_start(c), None => false }
        }).collect();
        let piq = if always { "always" } else if answers == redshift_like { "redshift" } else { "unknown" };
        out.insert(name.to_string(), json!({
            "ident_start": charset(&|c| d.is_identifier_start(c)),
            "ident_part": charset(&|c| d.is_identifier_part(c)),
            "delim_start": charset(&|c| d.is_delimited_identifier_start(c)),
            "custom_op": charset(&|c| d.is_custom_operator_part(c)),
            "piq": piq,
            "backslash": d.supports_string_literal_backslash_escape(),
            "unicode_lit": d.supports_unicode_string_literal(),
            "triple": d.supports_triple_quoted_string(),
            "numeric_prefix": d.supports_numeric_prefix(),
            "is_bigquery": d.is::<BigQueryDialect>(), "is_generic": d.is::<GenericDialect>(),
            "is_snowflake": d.is::<SnowflakeDialect>(), "is_duckdb": d.is::<DuckDbDialect>(),
            "is_postgresql": d.is::<PostgreSqlDialect>(),
            "identifier_quote_style": d.identifier_quote_style("x").map(|c| c.to_string()),
        }));
    }
    json!({"dialects": out, "uni": {
        "whitespace": charset(&|c| c.is_whitespace()),
        "numeric": charset(&|c| c.is_numeric()),
        "alphanumeric": charset(&|c| c.is_alphanumeric()),
        "alphabetic": charset(&|c| c.is_alphabetic()),
    }})
}

fn main() {
    let args: Vec<String> = std::env::args().collect();
    let what = args.get(1).map(|s| s.as_str()).unwrap_or("");
    let v = match what {
        "keywords" => keywords(),
        "dialects" => dialects(),
        _ => {
            eprintln!("usage: extract keywords");
            std::process::exit(2);
        }
    };
    println!("{}", v);
}
