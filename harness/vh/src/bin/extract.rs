//! Translator, dynamic part: dumps values computed by the *current* /repo crate as JSON.
use serde_json::json;
use sqlparser::keywords::{ALL_KEYWORDS, ALL_KEYWORDS_INDEX, RESERVED_FOR_COLUMN_ALIAS, RESERVED_FOR_TABLE_ALIAS};

fn keywords() -> serde_json::Value {
    json!({
        "all_keywords": ALL_KEYWORDS,
        "all_keywords_index": ALL_KEYWORDS_INDEX.iter().map(|k| format!("{:?}", k)).collect::<Vec<_>>(),
        "reserved_for_column_alias": RESERVED_FOR_COLUMN_ALIAS.iter().map(|k| format!("{:?}", k)).collect::<Vec<_>>(),
        "reserved_for_table_alias": RESERVED_FOR_TABLE_ALIAS.iter().map(|k| format!("{:?}", k)).collect::<Vec<_>>(),
    })
}

fn main() {
    let args: Vec<String> = std::env::args().collect();
    let what = args.get(1).map(|s| s.as_str()).unwrap_or("");
    let v = match what {
        "keywords" => keywords(),
        _ => {
            eprintln!("usage: extract keywords");
            std::process::exit(2);
        }
    };
    println!("{}", v);
}
