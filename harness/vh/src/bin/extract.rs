//! Translator, dynamic part: dumps values computed by the *current* /repo crate as JSON.
use serde_json::json;
use sqlparser::keywords::{ALL_KEYWORDS, ALL_KEYWORDS_INDEX, RESERVED_FOR_COLUMN_ALIAS, RESERVED_FOR_TABLE_ALIAS};

fn keywords() -> serde_json::Value {
    json!({
        "all_keywords": ALL_KEYWORDS,
        "all_keywords_index": ALL_KEYWORDS_INDEX.iter().map(|k| format!("{:?}", k)).collect::<Vec<_>>(),
        "reserved_for_column_alias": RESERVED_FOR_COLUMN_ALIAS.iter().map(|k| format!("{:?}", k)).collect::<Vec<_>>(),
        "reserved_for_table_alias": RESERVED_FOR_TABLE_ALIAS.iter().map(|k| format!("{:?}", k)).collect::<Vec<_>>(),
    })
}

fn charset(f: &dyn Fn(char) -> bool) -> serde_json::Value {
    let mut mask: u128 = 0;
    for c in 0u32..128 {
        if f(char::from_u32(c).unwrap()) {
            mask |= 1u128 << c;
        }
    }
    let mut ranges: Vec<(u32, u32)> = vec![];
    let mut cur: Option<(u32, u32)> = None;
    for c in 128u32..=0x10FFFF {
        let inside = match char::from_u32(c) { Some(ch) => f(ch), None => false };
        match (inside, cur) {
            (true, None) => cur = Some((c, c)),
            (true, Some((lo, _))) => cur = Some((lo, c)),
            (false, Some(r)) => { ranges.push(r); cur = None; }
            (false, None) => {}
        }
    }
    if let Some(r) = cur { ranges.push(r); }
    json!({"mask": mask.to_string(), "ranges": ranges})
}

fn dialects() -> serde_json::Value {
    use sqlparser::dialect::*;
    let mut out = serde_json::Map::new();
    for name in vh::DIALECT_NAMES {
        let d = vh::dialect_by_name(name);
        let d = d.as_ref();
        // classify is_proper_identifier_inside_quotes by probing
        let probe = |s: &str| d.is_proper_identifier_inside_quotes(s.chars().peekable());
        let probes = ["[a]", "[ a]", "[1]", "[ 1]", "[", "[ ]", "\"a\"", "\"1\"", "[\u{a0}_x]", "[#]", "[\t\n_]"];
        let answers: Vec<bool> = probes.iter().map(|s| probe(s)).collect();
        let always = answers.iter().all(|b| *b);
        let redshift_like: Vec<bool> = probes.iter().map(|s| {
            let mut it = s.chars(); it.next();
            match it.skip_while(|c| c.is_whitespace()).next() { Some(c) => d.is_identifier_start(c), None => false }
        }).collect();
        let piq = if always { "always" } else if answers == redshift_like { "redshift" } else { "unknown" };
        out.insert(name.to_string(), json!({
            "ident_start": charset(&|c| d.is_identifier_start(c)),
            "ident_part": charset(&|c| d.is_identifier_part(c)),
            "delim_start": charset(&|c| d.is_delimited_identifier_start(c)),
            "custom_op": charset(&|c| d.is_custom_operator_part(c)),
            "piq": piq,
            "backslash": d.supports_string_literal_backslash_escape(),
            "unicode_lit": d.supports_unicode_string_literal(),
            "triple": d.supports_triple_quoted_string(),
            "numeric_prefix": d.supports_numeric_prefix(),
            "is_bigquery": d.is::<BigQueryDialect>(), "is_generic": d.is::<GenericDialect>(),
            "is_snowflake": d.is::<SnowflakeDialect>(), "is_duckdb": d.is::<DuckDbDialect>(),
            "is_postgresql": d.is::<PostgreSqlDialect>(),
            "identifier_quote_style": d.identifier_quote_style("x").map(|c| c.to_string()),
        }));
    }
    json!({"dialects": out, "uni": {
        "whitespace": charset(&|c| c.is_whitespace()),
        "numeric": charset(&|c| c.is_numeric()),
        "alphanumeric": charset(&|c| c.is_alphanumeric()),
        "alphabetic": charset(&|c| c.is_alphabetic()),
    }})
}

/// Static inventory of panic sites in non-test library code: every `unwrap()`/`expect()` call,
/// panicking macro, and `[...]` index expression, keyed by (file, enclosing fn, kind, text, ordinal).
mod panics {
    use serde_json::{json, Value};
    use std::collections::BTreeMap;
    use syn::visit::Visit;

    pub struct V {
        pub file: String,
        pub fn_stack: Vec<String>,
        pub out: Vec<Value>,
        pub ord: BTreeMap<String, usize>,
        pub in_test: usize,
        /// variables (let-bound or closure parameters) known to hold one of a keyword list
        pub kw_vars: Vec<(String, Vec<String>)>,
        pub kw_checks: Vec<Value>,
    }
    /// first array literal of `Keyword::X` paths inside an expression
    struct KwArr(Option<Vec<String>>);
    impl<'ast> Visit<'ast> for KwArr {
        fn visit_expr_array(&mut self, a: &'ast syn::ExprArray) {
            if self.0.is_some() { return; }
            let mut v = vec![];
            for e in &a.elems {
                if let syn::Expr::Path(p) = e {
                    let segs: Vec<String> = p.path.segments.iter().map(|s| s.ident.to_string()).collect();
                    if segs.len() == 2 && segs[0] == "Keyword" { v.push(segs[1].clone()); continue; }
                }
                return;
            }
            if !v.is_empty() { self.0 = Some(v); }
        }
    }
    fn kw_array(e: &syn::Expr) -> Option<Vec<String>> {
        let mut k = KwArr(None);
        k.visit_expr(e);
        k.0
    }
    fn pat_keywords(p: &syn::Pat, out: &mut Vec<String>) {
        match p {
            syn::Pat::Path(pp) => {
                let segs: Vec<String> = pp.path.segments.iter().map(|s| s.ident.to_string()).collect();
                if segs.len() == 2 && segs[0] == "Keyword" { out.push(segs[1].clone()); }
            }
            syn::Pat::TupleStruct(t) => { for e in &t.elems { pat_keywords(e, out); } }
            syn::Pat::Or(o) => { for c in &o.cases { pat_keywords(c, out); } }
            syn::Pat::Paren(pp) => pat_keywords(&pp.pat, out),
            _ => {}
        }
    }
    fn pat_ident(p: &syn::Pat) -> Option<String> {
        match p { syn::Pat::Ident(i) => Some(i.ident.to_string()), syn::Pat::Type(t) => pat_ident(&t.pat), _ => None }
    }
    fn is_test_attr(attrs: &[syn::Attribute]) -> bool {
        attrs.iter().any(|a| {
            let p = a.path();
            if p.is_ident("test") { return true; }
            if p.is_ident("cfg") {
                let mut t = false;
                let _ = a.parse_nested_meta(|m| { if m.path.is_ident("test") { t = true; } Ok(()) });
                return t;
            }
            false
        })
    }
    impl V {
        fn push(&mut self, kind: &str, text: String) {
            let f = self.fn_stack.last().cloned().unwrap_or_else(|| "<top>".into());
            let text: String = text.split_whitespace().collect::<Vec<_>>().join(" ");
            let text = if text.len() > 90 { text[..90].to_string() } else { text };
            let base = format!("{}::{}::{}::{}", self.file, f, kind, text);
            let n = self.ord.entry(base.clone()).or_insert(0);
            *n += 1;
            self.out.push(json!({"key": format!("{}#{}", base, n), "file": self.file, "fn": f, "kind": kind, "text": text}));
        }
    }
    impl<'ast> Visit<'ast> for V {
        fn visit_item_mod(&mut self, m: &'ast syn::ItemMod) {
            if is_test_attr(&m.attrs) { return; }
            syn::visit::visit_item_mod(self, m);
        }
        fn visit_item_fn(&mut self, f: &'ast syn::ItemFn) {
            if is_test_attr(&f.attrs) { return; }
            self.fn_stack.push(f.sig.ident.to_string());
            syn::visit::visit_item_fn(self, f);
            self.fn_stack.pop();
        }
        fn visit_expr_let(&mut self, l: &'ast syn::ExprLet) {
            // `if let Some(kw) = self.parse_one_of_keywords(&[..])` / `while let Some(kw) = ..`
            if let Some(list) = kw_array(&l.expr) {
                if let syn::Pat::TupleStruct(t) = &*l.pat {
                    if let Some(name) = t.elems.first().and_then(pat_ident) { self.kw_vars.push((name, list)); }
                }
            }
            syn::visit::visit_expr_let(self, l);
        }
        fn visit_impl_item_fn(&mut self, f: &'ast syn::ImplItemFn) {
            if is_test_attr(&f.attrs) { return; }
            self.kw_vars.clear();
            self.fn_stack.push(f.sig.ident.to_string());
            syn::visit::visit_impl_item_fn(self, f);
            self.fn_stack.pop();
        }
        fn visit_trait_item_fn(&mut self, f: &'ast syn::TraitItemFn) {
            self.fn_stack.push(f.sig.ident.to_string());
            syn::visit::visit_trait_item_fn(self, f);
            self.fn_stack.pop();
        }
        fn visit_expr_method_call(&mut self, e: &'ast syn::ExprMethodCall) {
            let m = e.method.to_string();
            if m == "unwrap" || m == "expect" {
                use quote::ToTokens;
                self.push(&m, e.receiver.to_token_stream().to_string());
            }
            // `x.parse_one_of_keywords(&[..]).map(|kw| match kw { .. })`: the closure parameter holds one of the list
            if m == "map" || m == "and_then" || m == "map_or" {
                if let (Some(list), Some(syn::Expr::Closure(c))) = (kw_array(&e.receiver), e.args.last()) {
                    if let Some(name) = c.inputs.first().and_then(pat_ident) { self.kw_vars.push((name, list)); }
                }
            }
            syn::visit::visit_expr_method_call(self, e);
        }
        fn visit_local(&mut self, l: &'ast syn::Local) {
            if let (Some(name), Some(init)) = (pat_ident(&l.pat), &l.init) {
                if let Some(list) = kw_array(&init.expr) { self.kw_vars.push((name, list)); }
            }
            syn::visit::visit_local(self, l);
        }
        fn visit_expr_match(&mut self, m: &'ast syn::ExprMatch) {
            // `match self.parse_one_of_keywords(&[..]) { Some(kw) => .., None => .. }` binds kw
            if let Some(list) = kw_array(&m.expr) {
                for a in &m.arms {
                    if let syn::Pat::TupleStruct(t) = &a.pat {
                        if let Some(name) = t.elems.first().and_then(pat_ident) { self.kw_vars.push((name, list.clone())); }
                    }
                }
            }
            let has_unreachable = m.arms.iter().any(|a| {
                use quote::ToTokens;
                let b = a.body.to_token_stream().to_string();
                matches!(&a.pat, syn::Pat::Wild(_)) && b.starts_with("unreachable !")
            });
            if has_unreachable {
                use quote::ToTokens;
                let mut arms = vec![];
                let mut none_arm = false;
                for a in &m.arms {
                    pat_keywords(&a.pat, &mut arms);
                    if a.pat.to_token_stream().to_string() == "None" { none_arm = true; }
                }
                // where does the scrutinee come from?
                let mut list = kw_array(&m.expr);
                let mut optional = false;
                let scr = m.expr.to_token_stream().to_string();
                if list.is_some() && scr.contains("parse_one_of_keywords") && !scr.contains("expect_one_of_keywords") { optional = true; }
                if list.is_none() {
                    if let syn::Expr::Path(p) = &*m.expr {
                        if let Some(id) = p.path.get_ident() {
                            let id = id.to_string();
                            if let Some((_, l)) = self.kw_vars.iter().rev().find(|(n, _)| *n == id) { list = Some(l.clone()); }
                        }
                    }
                }
                let f = self.fn_stack.last().cloned().unwrap_or_default();
                let n = self.kw_checks.iter().filter(|c| c["fn"] == f.as_str()).count();
                let verdict = match &list {
                    Some(l) => {
                        let mut a = arms.clone(); a.sort(); a.dedup();
                        let mut b = l.clone(); b.sort(); b.dedup();
                        // every keyword the scrutinee can hold has an arm (and a possible None has one too)
                        if b.iter().all(|k| a.contains(k)) && (!optional || none_arm) { "covered" } else { "NOT-covered" }
                    }
                    None => "unknown-origin",
                };
                self.kw_checks.push(json!({"file": self.file, "fn": f, "ordinal": n, "list": list, "arms": arms, "verdict": verdict}));
            }
            syn::visit::visit_expr_match(self, m);
        }
        fn visit_expr_index(&mut self, e: &'ast syn::ExprIndex) {
            use quote::ToTokens;
            self.push("index", e.to_token_stream().to_string());
            syn::visit::visit_expr_index(self, e);
        }
        fn visit_macro(&mut self, m: &'ast syn::Macro) {
            let name = m.path.segments.last().map(|s| s.ident.to_string()).unwrap_or_default();
            if ["panic", "unreachable", "unimplemented", "todo", "assert", "assert_eq", "assert_ne"].contains(&name.as_str()) {
                self.push(&format!("{}!", name), m.tokens.to_string());
            }
            // descend into macro arguments that are expressions (e.g. write!(f, "{}", x.unwrap()))
            if let Ok(args) = m.parse_body_with(syn::punctuated::Punctuated::<syn::Expr, syn::Token![,]>::parse_terminated) {
                for a in args.iter() { self.visit_expr(a); }
            }
        }
    }
    pub fn run(repo: &str) -> Value {
        let mut files: Vec<std::path::PathBuf> = vec![];
        fn walk(d: &std::path::Path, out: &mut Vec<std::path::PathBuf>) {
            if let Ok(rd) = std::fs::read_dir(d) {
                for e in rd.flatten() {
                    let p = e.path();
                    if p.is_dir() { walk(&p, out); } else if p.extension().map(|x| x == "rs").unwrap_or(false) { out.push(p); }
                }
            }
        }
        walk(std::path::Path::new(&format!("{repo}/src")), &mut files);
        files.sort();
        let mut all = vec![];
        let mut kwc: Vec<Value> = vec![];
        let mut unparsed = vec![];
        for f in files {
            let rel = f.strip_prefix(repo).unwrap().to_string_lossy().trim_start_matches('/').to_string();
            if rel == "src/test_utils.rs" { continue; }
            let src = std::fs::read_to_string(&f).unwrap();
            match syn::parse_file(&src) {
                Ok(file) => {
                    let mut v = V { file: rel, fn_stack: vec![], out: vec![], ord: BTreeMap::new(), in_test: 0, kw_vars: vec![], kw_checks: vec![] };
                    v.visit_file(&file);
                    all.extend(v.out);
                    kwc.extend(v.kw_checks);
                }
                Err(e) => unparsed.push(format!("{rel}: {e}")),
            }
        }
        json!({"sites": all, "unparsed": unparsed, "unreachable_keyword_matches": kwc})
    }
}

/// C08: every place outside `Token::make_word` where the SPELLING of a word takes part in a
/// decision: comparisons of a `.value` / `to_string()` with a string, keyword-table searches, and
/// the case-folding calls themselves.  Keyed by (file, fn, kind, normalised text, ordinal).
mod spelling {
    use quote::ToTokens;
    use serde_json::{json, Value};
    use std::collections::BTreeMap;
    use syn::visit::Visit;

    fn is_test_attr(attrs: &[syn::Attribute]) -> bool {
        attrs.iter().any(|a| {
            let t = a.to_token_stream().to_string();
            t.contains("cfg (test)") || t.contains("cfg(test)") || t == "# [test]"
        })
    }
    struct V { file: String, fn_stack: Vec<String>, out: Vec<Value>, ord: BTreeMap<String, usize> }
    impl V {
        fn push(&mut self, kind: &str, text: String) {
            let f = self.fn_stack.last().cloned().unwrap_or_default();
            let text = text.split_whitespace().collect::<Vec<_>>().join(" ");
            let base = format!("{}:{}:{}:{}", self.file.trim_start_matches("src/").trim_end_matches(".rs"), f, kind, text);
            let n = self.ord.entry(base.clone()).or_insert(0);
            let key = format!("{}#{}", base, *n);
            *n += 1;
            let folded = ["to_uppercase", "to_lowercase", "to_ascii_uppercase", "to_ascii_lowercase", "eq_ignore_ascii_case"].iter().any(|m| text.contains(m));
            self.out.push(json!({"key": key, "file": self.file, "fn": f, "kind": kind, "text": text, "folded": folded}));
        }
    }
    fn mentions_spelling(t: &str) -> bool {
        t.contains(". value") || t.contains(".value") || t.contains("to_string ()") || t.contains("word") || t.contains("ident")
    }
    impl<'ast> Visit<'ast> for V {
        fn visit_item_mod(&mut self, m: &'ast syn::ItemMod) {
            if is_test_attr(&m.attrs) { return; }
            syn::visit::visit_item_mod(self, m);
        }
        fn visit_item_fn(&mut self, f: &'ast syn::ItemFn) {
            if is_test_attr(&f.attrs) { return; }
            self.fn_stack.push(f.sig.ident.to_string());
            syn::visit::visit_item_fn(self, f);
            self.fn_stack.pop();
        }
        fn visit_impl_item_fn(&mut self, f: &'ast syn::ImplItemFn) {
            if is_test_attr(&f.attrs) { return; }
            self.fn_stack.push(f.sig.ident.to_string());
            syn::visit::visit_impl_item_fn(self, f);
            self.fn_stack.pop();
        }
        fn visit_expr_binary(&mut self, e: &'ast syn::ExprBinary) {
            if matches!(e.op, syn::BinOp::Eq(_) | syn::BinOp::Ne(_)) {
                let (l, r) = (e.left.to_token_stream().to_string(), e.right.to_token_stream().to_string());
                let lit = |x: &syn::Expr| matches!(x, syn::Expr::Lit(syn::ExprLit { lit: syn::Lit::Str(_), .. }));
                if (lit(&e.left) && mentions_spelling(&r)) || (lit(&e.right) && mentions_spelling(&l)) {
                    self.push("cmp", e.to_token_stream().to_string());
                }
            }
            syn::visit::visit_expr_binary(self, e);
        }
        fn visit_expr_method_call(&mut self, e: &'ast syn::ExprMethodCall) {
            let m = e.method.to_string();
            if ["to_uppercase", "to_lowercase", "to_ascii_uppercase", "to_ascii_lowercase"].contains(&m.as_str()) {
                self.push("fold", e.to_token_stream().to_string());
            } else if ["binary_search", "eq_ignore_ascii_case"].contains(&m.as_str()) {
                self.push("lookup", e.to_token_stream().to_string());
            } else if ["starts_with", "ends_with", "contains", "eq"].contains(&m.as_str()) {
                let t = e.to_token_stream().to_string();
                let str_arg = e.args.iter().any(|a| matches!(a, syn::Expr::Lit(syn::ExprLit { lit: syn::Lit::Str(_), .. })));
                if str_arg && mentions_spelling(&e.receiver.to_token_stream().to_string()) { self.push("cmp", t); }
            }
            syn::visit::visit_expr_method_call(self, e);
        }
        fn visit_expr_match(&mut self, m: &'ast syn::ExprMatch) {
            // match on the text of a word: `match w.value.as_str() { "x" => .. }`
            let scr = m.expr.to_token_stream().to_string();
            let str_arms = m.arms.iter().any(|a| a.pat.to_token_stream().to_string().contains('"'));
            if str_arms && (scr.contains("as_str") || scr.contains("as_ref")) {
                self.push("match", scr);
            }
            syn::visit::visit_expr_match(self, m);
        }
        fn visit_macro(&mut self, m: &'ast syn::Macro) {
            if let Ok(args) = m.parse_body_with(syn::punctuated::Punctuated::<syn::Expr, syn::Token![,]>::parse_terminated) {
                for a in args.iter() { self.visit_expr(a); }
            }
        }
    }
    pub fn run(repo: &str) -> Value {
        let mut all = vec![];
        let mut unparsed = vec![];
        let mut files: Vec<std::path::PathBuf> = vec![];
        for d in ["src/parser", "src/dialect"] {
            if let Ok(rd) = std::fs::read_dir(format!("{repo}/{d}")) {
                for e in rd.flatten() {
                    let p = e.path();
                    if p.extension().map(|x| x == "rs").unwrap_or(false) { files.push(p); }
                }
            }
        }
        files.push(std::path::PathBuf::from(format!("{repo}/src/tokenizer.rs")));
        files.sort();
        for f in files {
            let rel = f.strip_prefix(repo).unwrap().to_string_lossy().trim_start_matches('/').to_string();
            let src = match std::fs::read_to_string(&f) { Ok(s) => s, Err(e) => { unparsed.push(format!("{rel}: {e}")); continue; } };
            match syn::parse_file(&src) {
                Ok(file) => {
                    let mut v = V { file: rel, fn_stack: vec![], out: vec![], ord: BTreeMap::new() };
                    v.visit_file(&file);
                    all.extend(v.out);
                }
                Err(e) => unparsed.push(format!("{rel}: {e}")),
            }
        }
        json!({"sites": all, "unparsed": unparsed})
    }
}

fn main() {
    let args: Vec<String> = std::env::args().collect();
    let what = args.get(1).map(|s| s.as_str()).unwrap_or("");
    let v = match what {
        "keywords" => keywords(),
        "dialects" => dialects(),
        "spelling" => spelling::run(args.get(2).map(|s| s.as_str()).unwrap_or("/repo")),
        "panics" => panics::run(args.get(2).map(|s| s.as_str()).unwrap_or("/repo")),
        _ => {
            eprintln!("usage: extract keywords");
            std::process::exit(2);
        }
    };
    println!("{}", v);
}
