//! Shared helpers for the verification harness binaries.
use sqlparser::dialect::*;
use std::io::{BufRead, Write};

pub const DIALECT_NAMES: [&str; 13] = [
    "generic", "ansi", "bigquery", "clickhouse", "databricks", "duckdb", "hive", "mssql",
    "mysql", "postgresql", "redshift", "snowflake", "sqlite",
];

pub fn dialect_by_name(name: &str) -> Box<dyn Dialect> {
    match name {
        "generic" => Box::new(GenericDialect {}),
        "ansi" => Box::new(AnsiDialect {}),
        "bigquery" => Box::new(BigQueryDialect {}),
        "clickhouse" => Box::new(ClickHouseDialect {}),
        "databricks" => Box::new(DatabricksDialect {}),
        "duckdb" => Box::new(DuckDbDialect {}),
        "hive" => Box::new(HiveDialect {}),
        "mssql" => Box::new(MsSqlDialect {}),
        "mysql" => Box::new(MySqlDialect {}),
        "postgresql" => Box::new(PostgreSqlDialect {}),
        "redshift" => Box::new(RedshiftSqlDialect {}),
        "snowflake" => Box::new(SnowflakeDialect {}),
        "sqlite" => Box::new(SQLiteDialect {}),
        _ => panic!("unknown dialect {name}"),
    }
}

/// Run `f` on every JSON line of stdin, print one JSON line per case.
pub fn for_each_case<F: FnMut(&serde_json::Value) -> serde_json::Value>(mut f: F) {
    let stdin = std::io::stdin();
    let stdout = std::io::stdout();
    let mut out = std::io::BufWriter::new(stdout.lock());
    for line in stdin.lock().lines() {
        let line = line.expect("stdin");
        if line.trim().is_empty() {
            continue;
        }
        let v: serde_json::Value = serde_json::from_str(&line).expect("case json");
        let r = f(&v);
        writeln!(out, "{}", r).unwrap();
    }
}

/// Silence the default panic hook (we catch panics and report them as outcomes).
pub fn quiet_panics() {
    std::panic::set_hook(Box::new(|_| {}));
}

pub fn panic_msg(e: Box<dyn std::any::Any + Send>) -> String {
    if let Some(s) = e.downcast_ref::<&str>() {
        s.to_string()
    } else if let Some(s) = e.downcast_ref::<String>() {
        s.clone()
    } else {
        "<non-string panic>".to_string()
    }
}

pub fn cps(s: &str) -> Vec<u32> {
    s.chars().map(|c| c as u32).collect()
}

use sqlparser::tokenizer::{Token, TokenWithLocation, Tokenizer};

/// Character offset of each token start, from its (line, column), plus the total length.
pub fn token_offsets(sql: &str, toks: &[TokenWithLocation]) -> Vec<usize> {
    let chars: Vec<char> = sql.chars().collect();
    let mut line_start = vec![0usize, 0usize]; // 1-based lines
    for (i, c) in chars.iter().enumerate() {
        if *c == '\n' {
            line_start.push(i + 1);
        }
    }
    let mut v: Vec<usize> = toks
        .iter()
        .map(|t| {
            let l = t.location.line as usize;
            let c = t.location.column as usize;
            if l == 0 || l >= line_start.len() { usize::MAX } else { line_start[l] + c - 1 }
        })
        .collect();
    v.push(chars.len());
    v
}

pub fn tokenize_loc(d: &dyn Dialect, sql: &str, unescape: bool) -> Result<Vec<TokenWithLocation>, String> {
    Tokenizer::new(d, sql)
        .with_unescape(unescape)
        .tokenize_with_location()
        .map_err(|e| e.to_string())
}

pub fn is_ws(t: &Token) -> bool {
    matches!(t, Token::Whitespace(_))
}

/// Small deterministic PRNG (xorshift*), seeded per case.
pub struct Rng(pub u64);
impl Rng {
    pub fn new(seed: u64) -> Self { Rng(seed.wrapping_mul(0x9E3779B97F4A7C15) | 1) }
    pub fn next(&mut self) -> u64 {
        let mut x = self.0;
        x ^= x >> 12; x ^= x << 25; x ^= x >> 27;
        self.0 = x;
        x.wrapping_mul(0x2545F4914F6CDD1D)
    }
    pub fn below(&mut self, n: u64) -> u64 { if n == 0 { 0 } else { self.next() % n } }
}

pub fn parse_opts(d: &dyn Dialect, sql: &str, unescape: bool, trailing: bool, limit: Option<usize>)
    -> Result<Vec<sqlparser::ast::Statement>, sqlparser::parser::ParserError> {
    use sqlparser::parser::{Parser, ParserOptions};
    let mut p = Parser::new(d).with_options(ParserOptions::new().with_unescape(unescape).with_trailing_commas(trailing));
    if let Some(l) = limit { p = p.with_recursion_limit(l); }
    p.try_with_sql(sql)?.parse_statements()
}
