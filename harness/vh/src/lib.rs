//! Shared helpers for the verification harness binaries.
use sqlparser::dialect::*;
use std::io::{BufRead, Write};

pub const DIALECT_NAMES: [&str; 13] = [
    "generic", "ansi", "bigquery", "clickhouse", "databricks", "duckdb", "hive", "mssql",
    "mysql", "postgresql", "redshift", "snowflake", "sqlite",
];

pub fn dialect_by_name(name: &str) -> Box<dyn Dialect> {
    match name {
        "generic" => Box::new(GenericDialect {}),
        "ansi" => Box::new(AnsiDialect {}),
        "bigquery" => Box::new(BigQueryDialect {}),
        "clickhouse" => Box::new(ClickHouseDialect {}),
        "databricks" => Box::new(DatabricksDialect {}),
        "duckdb" => Box::new(DuckDbDialect {}),
        "hive" => Box::new(HiveDialect {}),
        "mssql" => Box::new(MsSqlDialect {}),
        "mysql" => Box::new(MySqlDialect {}),
        "postgresql" => Box::new(PostgreSqlDialect {}),
        "redshift" => Box::new(RedshiftSqlDialect {}),
        "snowflake" => Box::new(SnowflakeDialect {}),
        "sqlite" => Box::new(SQLiteDialect {}),
        _ => panic!("unknown dialect {name}"),
    }
}

static CURRENT: std::sync::Mutex<String> = std::sync::Mutex::new(String::new());

/// Drivers that try several inputs per case announce the one they are about to run, so that the
/// watchdog can name it if it never returns.
pub fn set_current(s: &str) {
    if let Ok(mut c) = CURRENT.lock() {
        c.clear();
        c.push_str(s);
    }
}

/// Run `f` on every JSON line of stdin, print one JSON line per case.
///
/// A watchdog thread ends the process (exit status 3) when one case runs longer than
/// VH_CASE_TIMEOUT seconds (default 120), after printing `{"status":"hang",..}` as that case's
/// result: a parse that never returns is an outcome to report, not a reason to block the run.
/// The caller (lib/common.py run_bin_parallel) restarts the driver on the remaining cases.
pub fn for_each_case<F: FnMut(&serde_json::Value) -> serde_json::Value>(mut f: F) {
    use std::sync::{Arc, Mutex};
    let limit: u64 = std::env::var("VH_CASE_TIMEOUT").ok().and_then(|x| x.parse().ok()).unwrap_or(120);
    let out = Arc::new(Mutex::new(std::io::BufWriter::new(std::io::stdout())));
    let started: Arc<Mutex<Option<std::time::Instant>>> = Arc::new(Mutex::new(None));
    {
        let (out, started) = (out.clone(), started.clone());
        std::thread::spawn(move || loop {
            std::thread::sleep(std::time::Duration::from_millis(500));
            let t = *started.lock().unwrap();
            if let Some(t) = t {
                if t.elapsed().as_secs() >= limit {
                    let mut o = out.lock().unwrap();
                    let _ = writeln!(o, "{}", serde_json::json!({"status": "hang", "harness": "watchdog", "seconds": limit, "current": CURRENT.lock().map(|c| c.clone()).unwrap_or_default()}));
                    let _ = o.flush();
                    std::process::exit(3);
                }
            }
        });
    }
    let stdin = std::io::stdin();
    for line in stdin.lock().lines() {
        let line = line.expect("stdin");
        if line.trim().is_empty() {
            continue;
        }
        let v: serde_json::Value = serde_json::from_str(&line).expect("case json");
        set_current("");
        *started.lock().unwrap() = Some(std::time::Instant::now());
        let r = f(&v);
        *started.lock().unwrap() = None;
        // flushed per case: when a later case aborts the process, the results so far must not be lost
        // (the caller attributes the crash to the first case without a result)
        let mut o = out.lock().unwrap();
        writeln!(o, "{}", r).unwrap();
        o.flush().unwrap();
    }
    out.lock().unwrap().flush().unwrap();
}

/// Silence the default panic hook (we catch panics and report them as outcomes).
pub fn quiet_panics() {
    std::panic::set_hook(Box::new(|_| {}));
}

pub fn panic_msg(e: Box<dyn std::any::Any + Send>) -> String {
    if let Some(s) = e.downcast_ref::<&str>() {
        s.to_string()
    } else if let Some(s) = e.downcast_ref::<String>() {
        s.clone()
    } else {
        "<non-string panic>".to_string()
    }
}

pub fn cps(s: &str) -> Vec<u32> {
    s.chars().map(|c| c as u32).collect()
}

use sqlparser::tokenizer::{Token, TokenWithLocation, Tokenizer};

/// Character offset of each token start, from its (line, column), plus the total length.
pub fn token_offsets(sql: &str, toks: &[TokenWithLocation]) -> Vec<usize> {
    let chars: Vec<char> = sql.chars().collect();
    let mut line_start = vec![0usize, 0usize]; // 1-based lines
    for (i, c) in chars.iter().enumerate() {
        if *c == '\n' {
            line_start.push(i + 1);
        }
    }
    let mut v: Vec<usize> = toks
        .iter()
        .map(|t| {
            let l = t.location.line as usize;
            let c = t.location.column as usize;
            if l == 0 || l >= line_start.len() { usize::MAX } else { line_start[l] + c - 1 }
        })
        .collect();
    v.push(chars.len());
    v
}

pub fn tokenize_loc(d: &dyn Dialect, sql: &str, unescape: bool) -> Result<Vec<TokenWithLocation>, String> {
    Tokenizer::new(d, sql)
        .with_unescape(unescape)
        .tokenize_with_location()
        .map_err(|e| e.to_string())
}

pub fn is_ws(t: &Token) -> bool {
    matches!(t, Token::Whitespace(_))
}

/// Small deterministic PRNG (xorshift*), seeded per case.
pub struct Rng(pub u64);
impl Rng {
    pub fn new(seed: u64) -> Self { Rng(seed.wrapping_mul(0x9E3779B97F4A7C15) | 1) }
    pub fn next(&mut self) -> u64 {
        let mut x = self.0;
        x ^= x >> 12; x ^= x << 25; x ^= x >> 27;
        self.0 = x;
        x.wrapping_mul(0x2545F4914F6CDD1D)
    }
    pub fn below(&mut self, n: u64) -> u64 { if n == 0 { 0 } else { self.next() % n } }
}

pub fn parse_opts(d: &dyn Dialect, sql: &str, unescape: bool, trailing: bool, limit: Option<usize>)
    -> Result<Vec<sqlparser::ast::Statement>, sqlparser::parser::ParserError> {
    use sqlparser::parser::{Parser, ParserOptions};
    let mut p = Parser::new(d).with_options(ParserOptions::new().with_unescape(unescape).with_trailing_commas(trailing));
    if let Some(l) = limit { p = p.with_recursion_limit(l); }
    p.try_with_sql(sql)?.parse_statements()
}

use serde_json::{json, Value};
use sqlparser::tokenizer::Whitespace;

/// Canonical JSON form of a token (shared by all correspondence drivers).
pub fn tok_json(t: &Token) -> Value {
    macro_rules! strk { ($k:expr, $s:expr) => { json!({"k":"Str","kind":$k,"s":$s}) }; }
    match t {
        Token::EOF => json!({"k":"EOF"}),
        Token::Word(w) => json!({"k":"Word","v":w.value,"q":w.quote_style.map(|c| c.to_string()),"kw":format!("{:?}", w.keyword)}),
        Token::Number(s, l) => json!({"k":"Number","s":s,"long":l}),
        Token::Char(c) => json!({"k":"Char","c":c.to_string()}),
        Token::SingleQuotedString(s) => strk!("KSingle", s),
        Token::DoubleQuotedString(s) => strk!("KDouble", s),
        Token::TripleSingleQuotedString(s) => strk!("KTripleSingle", s),
        Token::TripleDoubleQuotedString(s) => strk!("KTripleDouble", s),
        Token::SingleQuotedByteStringLiteral(s) => strk!("KByteSingle", s),
        Token::DoubleQuotedByteStringLiteral(s) => strk!("KByteDouble", s),
        Token::TripleSingleQuotedByteStringLiteral(s) => strk!("KTripleByteSingle", s),
        Token::TripleDoubleQuotedByteStringLiteral(s) => strk!("KTripleByteDouble", s),
        Token::SingleQuotedRawStringLiteral(s) => strk!("KRawSingle", s),
        Token::DoubleQuotedRawStringLiteral(s) => strk!("KRawDouble", s),
        Token::TripleSingleQuotedRawStringLiteral(s) => strk!("KTripleRawSingle", s),
        Token::TripleDoubleQuotedRawStringLiteral(s) => strk!("KTripleRawDouble", s),
        Token::NationalStringLiteral(s) => strk!("KNational", s),
        Token::EscapedStringLiteral(s) => strk!("KEscaped", s),
        Token::UnicodeStringLiteral(s) => strk!("KUnicode", s),
        Token::HexStringLiteral(s) => strk!("KHex", s),
        Token::DollarQuotedString(d) => json!({"k":"Dollar","v":d.value,"tag":d.tag}),
        Token::Whitespace(w) => match w {
            Whitespace::Space => json!({"k":"Ws","w":"Space"}),
            Whitespace::Newline => json!({"k":"Ws","w":"Newline"}),
            Whitespace::Tab => json!({"k":"Ws","w":"Tab"}),
            Whitespace::SingleLineComment { comment, prefix } => json!({"k":"Ws","w":"Line","prefix":prefix,"comment":comment}),
            Whitespace::MultiLineComment(s) => json!({"k":"Ws","w":"Block","s":s}),
        },
        Token::Placeholder(s) => json!({"k":"Placeholder","s":s}),
        Token::CustomBinaryOperator(s) => json!({"k":"Custom","s":s}),
        other => json!({"k":"Fix","f":format!("{:?}", other)}),
    }
}

/// Tokenize and describe the outcome: tokens with locations, or the error (with the tokens
/// produced before it), or a panic.
pub fn lex_outcome(d: &dyn Dialect, sql: &str, unescape: bool) -> Value {
    let r = std::panic::catch_unwind(std::panic::AssertUnwindSafe(|| {
        let mut buf = vec![];
        let r = Tokenizer::new(d, sql).with_unescape(unescape).tokenize_with_location_into_buf(&mut buf);
        let toks: Vec<Value> = buf.iter().map(|t| json!([tok_json(&t.token), t.location.line, t.location.column])).collect();
        match r {
            Ok(()) => json!({"ok": toks}),
            Err(e) => json!({"err": {"msg": e.message, "line": e.location.line, "col": e.location.column}, "before": toks}),
        }
    }));
    r.unwrap_or_else(|e| json!({"panic": panic_msg(e)}))
}
