//! The DML core of C01 (coq/theories/DmlCore.v, lib/props/c01dml.py):
//!
//!   prattx dml       < cases {dialect, sql}  -> {tokens, tkind, result}
//!   prattx dmltables                         -> reserved-word lists + per-dialect probes
//!
//! `dml` runs the tokenizer and `Parser::parse_statement`; for a `Statement::Insert` / `Update` /
//! `Delete` inside the fragment of the model (every other field at its default: "out_of_fragment"
//! otherwise) it dumps the tree - embedded queries, tables and expressions through the dump of the
//! `query` mode -, the number of unconsumed tokens, the text `to_string()` prints for it, that
//! text's tokens and its re-parse.
use serde_json::{json, Value};
use sqlparser::ast::*;
use sqlparser::dialect::Dialect;
use sqlparser::parser::{Parser, ParserError};
use sqlparser::tokenizer::Token;
use vh::*;

fn m_name(n: &ObjectName) -> Option<Value> {
    if n.0.len() == 1 {
        Some(super::q_ident(&n.0[0]))
    } else {
        None
    }
}

fn m_items(r: &Option<Vec<SelectItem>>) -> Option<Value> {
    match r {
        None => Some(Value::Null),
        Some(l) => Some(Value::Array(l.iter().map(super::q_item).collect::<Option<Vec<_>>>()?)),
    }
}

fn m_twjs(l: &[TableWithJoins]) -> Option<Value> {
    Some(Value::Array(l.iter().map(super::q_tref).collect::<Option<Vec<_>>>()?))
}

fn m_insert(i: &Insert) -> Option<Value> {
    if i.or.is_some() || i.ignore || i.overwrite || i.table || i.table_alias.is_some() || i.partitioned.is_some()
        || !i.after_columns.is_empty() || i.on.is_some() || i.replace_into || i.priority.is_some()
        || i.insert_alias.is_some()
    {
        return None;
    }
    let source = match &i.source {
        None => Value::Null,
        Some(q) => super::q_query(q)?,
    };
    Some(json!({"k": "insert", "into": i.into, "table": m_name(&i.table_name)?,
                "cols": i.columns.iter().map(super::q_ident).collect::<Vec<_>>(),
                "source": source, "returning": m_items(&i.returning)?}))
}

fn m_assignment(a: &Assignment) -> Option<Value> {
    let target = match &a.target {
        AssignmentTarget::ColumnName(n) => json!({"k": "col", "name": m_name(n)?}),
        AssignmentTarget::Tuple(l) => json!({"k": "tuple", "names": l.iter().map(m_name).collect::<Option<Vec<_>>>()?}),
    };
    Some(json!({"target": target, "value": super::qx(&a.value)}))
}

fn m_stmt(s: &Statement) -> Option<Value> {
    match s {
        Statement::Insert(i) => m_insert(i),
        Statement::Update { table, assignments, from, selection, returning } => {
            let from = match from {
                None => Value::Null,
                Some(t) => super::q_tref(t)?,
            };
            Some(json!({"k": "update", "table": super::q_tref(table)?,
                        "assignments": assignments.iter().map(m_assignment).collect::<Option<Vec<_>>>()?,
                        "from": from, "where": selection.as_ref().map(super::qx), "returning": m_items(returning)?}))
        }
        Statement::Delete(d) => {
            let (from_kw, from) = match &d.from {
                FromTable::WithFromKeyword(l) => (true, l),
                FromTable::WithoutKeyword(l) => (false, l),
            };
            let using = match &d.using {
                None => Value::Null,
                Some(l) => m_twjs(l)?,
            };
            let mut order_by = vec![];
            for o in &d.order_by {
                if o.nulls_first.is_some() || o.with_fill.is_some() {
                    return None;
                }
                order_by.push(json!({"e": super::qx(&o.expr), "asc": o.asc}));
            }
            Some(json!({"k": "delete", "tables": d.tables.iter().map(m_name).collect::<Option<Vec<_>>>()?,
                        "from_kw": from_kw, "from": m_twjs(from)?, "using": using,
                        "where": d.selection.as_ref().map(super::qx), "returning": m_items(&d.returning)?,
                        "order_by": order_by, "limit": d.limit.as_ref().map(super::qx)}))
        }
        _ => None,
    }
}

fn parse_stmt_rest(d: &dyn Dialect, toks: Vec<Token>) -> Result<(Result<Statement, ParserError>, usize), String> {
    let n = toks.len();
    std::panic::catch_unwind(std::panic::AssertUnwindSafe(|| {
        let mut p = Parser::new(d).with_tokens(toks);
        let r = p.parse_statement();
        let mut rest = 0usize;
        while p.next_token().token != Token::EOF && rest <= n {
            rest += 1;
        }
        (r, rest)
    }))
    .map_err(panic_msg)
}

fn kind_of(s: &Statement) -> String {
    let dbg = format!("{:?}", s);
    dbg.split(|c: char| !c.is_alphanumeric()).next().unwrap_or("").to_string()
}

pub fn run_dml(d: &dyn Dialect, sql: &str) -> Value {
    let (toks, view, kinds) = match super::lex_view(d, sql) {
        Ok(x) => x,
        Err(e) => return json!({"tokens": Value::Null, "result": {"tokerr": e}}),
    };
    let result = match parse_stmt_rest(d, toks) {
        Err(p) => json!({"panic": p}),
        Ok((Err(e), _)) => json!({"err": e.to_string()}),
        Ok((Ok(s), rest)) => {
            let text = s.to_string();
            let again = match super::lex_view(d, &text) {
                Err(e) => json!({"tokerr": e}),
                Ok((t2, v2, k2)) => match parse_stmt_rest(d, t2) {
                    Err(p) => json!({"ptokens": v2, "pkind": k2, "panic": p}),
                    Ok((Err(e), _)) => json!({"ptokens": v2, "pkind": k2, "err": e.to_string()}),
                    Ok((Ok(s2), rest2)) => json!({"ptokens": v2, "pkind": k2, "same": s2 == s, "rest": rest2,
                        "text2": s2.to_string()}),
                },
            };
            json!({"ok": m_stmt(&s).unwrap_or_else(|| json!("out_of_fragment")), "kind": kind_of(&s), "rest": rest,
                   "text": text, "again": again})
        }
    };
    json!({"tokens": view, "tkind": kinds, "result": result})
}

fn m_probe(d: &dyn Dialect, sql: &str) -> Value {
    let r = std::panic::catch_unwind(std::panic::AssertUnwindSafe(|| {
        let mut p = Parser::new(d).try_with_sql(sql)?;
        let s = p.parse_statement()?;
        let at_end = p.peek_token().token == Token::EOF;
        Ok::<_, ParserError>((s, at_end))
    }));
    match r {
        Ok(Ok((s, at_end))) => {
            let mut v = json!({"ok": true, "at_end": at_end, "text": s.to_string()});
            match &s {
                Statement::Insert(i) => {
                    v["table_alias"] = json!(i.table_alias.is_some());
                    v["insert_alias"] = json!(i.insert_alias.is_some());
                    v["after_columns"] = json!(!i.after_columns.is_empty());
                    v["columns"] = json!(i.columns.len());
                }
                Statement::Update { from, .. } => {
                    v["from"] = json!(from.is_some());
                }
                Statement::Delete(x) => {
                    v["from_kw"] = json!(matches!(x.from, FromTable::WithFromKeyword(_)));
                    v["tables"] = json!(x.tables.len());
                }
                _ => {}
            }
            v
        }
        Ok(Err(e)) => json!({"ok": false, "err": e.to_string()}),
        Err(e) => json!({"ok": false, "panic": panic_msg(e)}),
    }
}

pub fn dmltables() -> Value {
    let names = |l: &[sqlparser::keywords::Keyword]| l.iter().map(|k| format!("{:?}", k)).collect::<Vec<_>>();
    let mut out = serde_json::Map::new();
    for name in DIALECT_NAMES {
        let d = dialect_by_name(name);
        let d: &dyn Dialect = &*d;
        out.insert(name.to_string(), json!({
            "probes": {
                "ins_tab_alias": m_probe(d, "INSERT INTO x1 AS x2 VALUES (1)"),
                "ins_row_alias": m_probe(d, "INSERT INTO x1 VALUES (1) AS x2"),
                "ins_empty_cols": m_probe(d, "INSERT INTO x1 () VALUES (1)"),
                "ins_after_cols": m_probe(d, "INSERT INTO x1 (x2) (x3) VALUES (1)"),
                "upd_from": m_probe(d, "UPDATE x1 SET x2 = 1 FROM x3"),
                "del_nofrom": m_probe(d, "DELETE x1 WHERE x2"),
                "del_multi": m_probe(d, "DELETE x1, x2 FROM x3"),
            },
        }));
    }
    json!({"reserved_for_column_alias": names(sqlparser::keywords::RESERVED_FOR_COLUMN_ALIAS),
           "reserved_for_table_alias": names(sqlparser::keywords::RESERVED_FOR_TABLE_ALIAS),
           "dialects": out})
}
