//! C04 harness: (a) dynamic dumps of the precedence tables of the *running* crate,
//! (b) driver: run `Parser::parse_expr` / a set-operation query and dump the tree restricted
//! to the operator core (operator name + operands; everything else an opaque atom).
//!
//!   prattx tables                      -> one JSON object
//!   prattx expr   < cases {dialect, sql}        -> {tokens, result}
//!   prattx setop  < cases {dialect, sql}        -> {result}
//!   prattx qtables / prattx query                 -> the query core of C01 (see below)
use serde_json::{json, Value};
use sqlparser::ast::*;
use sqlparser::dialect::{Dialect, Precedence};
use sqlparser::keywords::{Keyword, ALL_KEYWORDS, ALL_KEYWORDS_INDEX};
use sqlparser::parser::Parser;
use sqlparser::tokenizer::{Token, Tokenizer};
use vh::*;

// the DDL core of C01 (CREATE TABLE): modes `ddl` / `ddltables`
#[path = "../ddl_mode.rs"]
mod ddl_mode;
// the DML core of C01 (INSERT / UPDATE / DELETE): modes `dml` / `dmltables`
#[path = "../dml_mode.rs"]
mod dml_mode;

/// Exhaustive on purpose: a new `Precedence` variant makes this crate fail to build, which the
/// check reports (the pinned published order has no place for it).
fn class_name(p: Precedence) -> &'static str {
    match p {
        Precedence::DoubleColon => "DoubleColon",
        Precedence::AtTz => "AtTz",
        Precedence::MulDivModOp => "MulDivModOp",
        Precedence::PlusMinus => "PlusMinus",
        Precedence::Xor => "Xor",
        Precedence::Ampersand => "Ampersand",
        Precedence::Caret => "Caret",
        Precedence::Pipe => "Pipe",
        Precedence::Between => "Between",
        Precedence::Eq => "Eq",
        Precedence::Like => "Like",
        Precedence::Is => "Is",
        Precedence::PgOther => "PgOther",
        Precedence::UnaryNot => "UnaryNot",
        Precedence::And => "And",
        Precedence::Or => "Or",
    }
}

const CLASSES: [Precedence; 16] = [
    Precedence::DoubleColon, Precedence::AtTz, Precedence::MulDivModOp, Precedence::PlusMinus,
    Precedence::Xor, Precedence::Ampersand, Precedence::Caret, Precedence::Pipe,
    Precedence::Between, Precedence::Eq, Precedence::Like, Precedence::Is, Precedence::PgOther,
    Precedence::UnaryNot, Precedence::And, Precedence::Or,
];

/// Every payload-free token variant plus one representative of each payload-carrying one.
fn punct_tokens() -> Vec<Token> {
    use Token::*;
    vec![
        EOF, Comma, DoubleEq, Eq, Neq, Lt, Gt, LtEq, GtEq, Spaceship, Plus, Minus, Mul, Div,
        DuckIntDiv, Mod, StringConcat, LParen, RParen, Period, Colon, DoubleColon, Assignment,
        SemiColon, Backslash, LBracket, RBracket, Ampersand, Pipe, Caret, LBrace, RBrace, RArrow,
        Sharp, Tilde, TildeAsterisk, ExclamationMarkTilde, ExclamationMarkTildeAsterisk,
        DoubleTilde, DoubleTildeAsterisk, ExclamationMarkDoubleTilde,
        ExclamationMarkDoubleTildeAsterisk, ShiftLeft, ShiftRight, Overlap, ExclamationMark,
        DoubleExclamationMark, AtSign, CaretAt, PGSquareRoot, PGCubeRoot, Arrow, LongArrow,
        HashArrow, HashLongArrow, AtArrow, ArrowAt, HashMinus, AtQuestion, AtAt, Question,
        QuestionAnd, QuestionPipe,
        CustomBinaryOperator("<->".to_string()),
        Placeholder("$1".to_string()),
        Number("1".to_string(), false),
        SingleQuotedString("s".to_string()),
        Char('\u{1}'),
    ]
}

fn tok_name(t: &Token) -> String {
    let s = format!("{:?}", t);
    match s.find(|c| c == '(' || c == ' ' || c == '{') {
        Some(i) => s[..i].to_string(),
        None => s,
    }
}

fn np_of(d: &dyn Dialect, toks: Vec<Token>) -> Value {
    let r = std::panic::catch_unwind(std::panic::AssertUnwindSafe(|| {
        Parser::new(d).with_tokens(toks).get_next_precedence()
    }));
    match r {
        Ok(Ok(n)) => json!(n),
        Ok(Err(e)) => json!({"err": e.to_string()}),
        Err(e) => json!({"panic": panic_msg(e)}),
    }
}

fn kw(s: &str) -> Token {
    Token::make_keyword(s)
}

fn probe_expr(d: &dyn Dialect, sql: &str) -> Value {
    run_expr(d, sql)["result"].clone()
}

fn tables() -> Value {
    let mut out = serde_json::Map::new();
    for name in DIALECT_NAMES {
        let d = dialect_by_name(name);
        let d: &dyn Dialect = &*d;
        let mut pv = serde_json::Map::new();
        for c in CLASSES {
            pv.insert(class_name(c).to_string(), json!(d.prec_value(c)));
        }
        let mut np = serde_json::Map::new();
        for t in punct_tokens() {
            np.insert(tok_name(&t), np_of(d, vec![t.clone(), Token::make_word("zz", None)]));
        }
        // an ordinary identifier
        np.insert("ident".to_string(), np_of(d, vec![Token::make_word("zz", None)]));
        // every keyword as a single word followed by an identifier
        let mut kwnp = serde_json::Map::new();
        for k in ALL_KEYWORDS {
            kwnp.insert(k.to_string(), np_of(d, vec![kw(k), Token::make_word("zz", None)]));
        }
        // keyword sequences that get_next_precedence looks at
        let mut seq = serde_json::Map::new();
        for k in ALL_KEYWORDS {
            let v = np_of(d, vec![kw("NOT"), kw(k), Token::make_word("zz", None)]);
            seq.insert(format!("NOT {}", k), v);
        }
        seq.insert("NOT ident".into(), np_of(d, vec![kw("NOT"), Token::make_word("zz", None)]));
        seq.insert("AT TIME ZONE".into(), np_of(d, vec![kw("AT"), kw("TIME"), kw("ZONE"), Token::make_word("zz", None)]));
        seq.insert("AT TIME ident".into(), np_of(d, vec![kw("AT"), kw("TIME"), Token::make_word("zz", None)]));
        seq.insert("AT ident ZONE".into(), np_of(d, vec![kw("AT"), Token::make_word("zz", None), kw("ZONE")]));
        let flags = json!({
            "lambda": d.supports_lambda_functions(),
            "in_empty_list": d.supports_in_empty_list(),
        });
        // behavioural probes: which operand level IS [NOT] DISTINCT FROM and MySQL DIV use
        let probes = json!({
            "isdf_and": probe_expr(d, "a IS DISTINCT FROM b AND c"),
            "isdf_is": probe_expr(d, "a IS DISTINCT FROM b IS NULL"),
            "isdf_eq": probe_expr(d, "a IS DISTINCT FROM b = c"),
            "isndf_and": probe_expr(d, "a IS NOT DISTINCT FROM b AND c"),
            "isndf_is": probe_expr(d, "a IS NOT DISTINCT FROM b IS NULL"),
            "isndf_eq": probe_expr(d, "a IS NOT DISTINCT FROM b = c"),
            "div_and": probe_expr(d, "a DIV b AND c"),
            "div_mul": probe_expr(d, "a DIV b * c"),
            "div_cast": probe_expr(d, "a DIV b :: INT"),
        });
        out.insert(name.to_string(), json!({
            "prec_value": pv, "unknown": d.prec_unknown(), "np": np, "np_kw": kwnp, "np_seq": seq,
            "flags": flags, "probes": probes,
        }));
    }
    json!({"dialects": out, "classes": CLASSES.iter().map(|c| class_name(*c)).collect::<Vec<_>>(),
           "keywords": ALL_KEYWORDS, "n_keywords_index": ALL_KEYWORDS_INDEX.len()})
}

// ------------------------------------------------------------------ token view

const CORE_KW: [&str; 30] = [
    "AND", "OR", "XOR", "NOT", "IS", "NULL", "TRUE", "FALSE", "UNKNOWN", "DISTINCT", "FROM", "IN",
    "BETWEEN", "LIKE", "ILIKE", "SIMILAR", "TO", "RLIKE", "REGEXP", "ESCAPE", "AT", "TIME", "ZONE",
    "ANY", "ALL", "SOME", "COLLATE", "DIV", "UNNEST", "OPERATOR",
];
const TYPE_KW: [&str; 4] = ["INT", "TEXT", "BOOLEAN", "DATE"];

fn tok_view(t: &Token) -> Value {
    match t {
        Token::Word(w) => {
            if w.quote_style.is_some() || w.keyword == Keyword::NoKeyword {
                json!(["atom", w.value])
            } else {
                let k = format!("{:?}", w.keyword);
                if CORE_KW.contains(&k.as_str()) {
                    json!(["kw", k])
                } else if TYPE_KW.contains(&k.as_str()) {
                    json!(["type", k])
                } else {
                    json!(["other", k])
                }
            }
        }
        Token::Number(s, false) => json!(["atom", s]),
        Token::SingleQuotedString(s) => json!(["str", s]),
        Token::LParen | Token::RParen | Token::Comma | Token::LBracket | Token::RBracket
        | Token::Period | Token::SemiColon | Token::EOF | Token::LBrace | Token::RBrace
        | Token::Backslash | Token::Assignment | Token::RArrow => json!(["p", tok_name(t)]),
        Token::Number(_, true) | Token::Char(_) | Token::Placeholder(_) => json!(["other", tok_name(t)]),
        Token::CustomBinaryOperator(s) => json!(["op", "CustomBinaryOperator", s]),
        _ => {
            let n = tok_name(t);
            if n.ends_with("String") || n.ends_with("Literal") {
                json!(["other", n])
            } else {
                json!(["op", n])
            }
        }
    }
}

// ------------------------------------------------------------------ tree view

fn binop_name(op: &BinaryOperator) -> String {
    let s = format!("{:?}", op);
    match s.find('(') {
        Some(i) => s[..i].to_string(),
        None => s,
    }
}

fn opaque(e: &Expr) -> Value {
    let s = format!("{:?}", e);
    let n = s.find(|c: char| !c.is_alphanumeric()).map(|i| s[..i].to_string()).unwrap_or(s);
    json!({"k": "opaque", "v": n})
}

fn tree_x(e: &Expr, sq: bool) -> Value {
    let tree = |x: &Expr| tree_x(x, sq);
    match e {
        Expr::Identifier(id) => json!({"k": "atom", "v": id.value}),
        Expr::Value(sqlparser::ast::Value::Number(s, false)) => json!({"k": "atom", "v": s.to_string()}),
        Expr::Value(sqlparser::ast::Value::SingleQuotedString(s)) => json!({"k": "str", "v": s}),
        Expr::Nested(x) => json!({"k": "nested", "e": tree(x)}),
        Expr::Tuple(l) => json!({"k": "tuple", "list": l.iter().map(|x| tree(x)).collect::<Vec<_>>()}),
        Expr::UnaryOp { op, expr } => json!({"k": "un", "op": format!("{:?}", op), "e": tree(expr)}),
        Expr::BinaryOp { left, op, right } => {
            json!({"k": "bin", "op": binop_name(op), "l": tree(left), "r": tree(right)})
        }
        Expr::AnyOp { left, compare_op, right, is_some } => json!({"k": "anyall",
            "q": if *is_some { "SOME" } else { "ANY" }, "op": binop_name(compare_op), "l": tree(left), "r": tree(right)}),
        Expr::AllOp { left, compare_op, right } => {
            json!({"k": "anyall", "q": "ALL", "op": binop_name(compare_op), "l": tree(left), "r": tree(right)})
        }
        Expr::IsNull(x) => json!({"k": "is", "v": "IsNull", "e": tree(x)}),
        Expr::IsNotNull(x) => json!({"k": "is", "v": "IsNotNull", "e": tree(x)}),
        Expr::IsTrue(x) => json!({"k": "is", "v": "IsTrue", "e": tree(x)}),
        Expr::IsNotTrue(x) => json!({"k": "is", "v": "IsNotTrue", "e": tree(x)}),
        Expr::IsFalse(x) => json!({"k": "is", "v": "IsFalse", "e": tree(x)}),
        Expr::IsNotFalse(x) => json!({"k": "is", "v": "IsNotFalse", "e": tree(x)}),
        Expr::IsUnknown(x) => json!({"k": "is", "v": "IsUnknown", "e": tree(x)}),
        Expr::IsNotUnknown(x) => json!({"k": "is", "v": "IsNotUnknown", "e": tree(x)}),
        Expr::IsDistinctFrom(a, b) => json!({"k": "isdf", "neg": false, "l": tree(a), "r": tree(b)}),
        Expr::IsNotDistinctFrom(a, b) => json!({"k": "isdf", "neg": true, "l": tree(a), "r": tree(b)}),
        Expr::InList { expr, list, negated } => json!({"k": "inlist", "neg": negated, "e": tree(expr),
            "list": list.iter().map(|x| tree(x)).collect::<Vec<_>>()}),
        Expr::InUnnest { expr, array_expr, negated } => {
            json!({"k": "inunnest", "neg": negated, "e": tree(expr), "arr": tree(array_expr)})
        }
        Expr::Between { expr, negated, low, high } => {
            json!({"k": "between", "neg": negated, "e": tree(expr), "lo": tree(low), "hi": tree(high)})
        }
        Expr::Like { negated, any, expr, pattern, escape_char } => json!({"k": "like", "kind": "Like",
            "neg": negated, "any": any, "e": tree(expr), "pat": tree(pattern), "esc": escape_char}),
        Expr::ILike { negated, any, expr, pattern, escape_char } => json!({"k": "like", "kind": "ILike",
            "neg": negated, "any": any, "e": tree(expr), "pat": tree(pattern), "esc": escape_char}),
        Expr::SimilarTo { negated, expr, pattern, escape_char } => json!({"k": "like", "kind": "SimilarTo",
            "neg": negated, "any": false, "e": tree(expr), "pat": tree(pattern), "esc": escape_char}),
        Expr::RLike { negated, expr, pattern, regexp } => json!({"k": "like",
            "kind": if *regexp { "Regexp" } else { "RLike" },
            "neg": negated, "any": false, "e": tree(expr), "pat": tree(pattern), "esc": Value::Null}),
        Expr::AtTimeZone { timestamp, time_zone } => json!({"k": "attz", "l": tree(timestamp), "r": tree(time_zone)}),
        Expr::Cast { kind: CastKind::DoubleColon, expr, data_type, format: None } => {
            json!({"k": "cast", "e": tree(expr), "ty": format!("{}", data_type)})
        }
        Expr::Collate { expr, collation } => json!({"k": "collate", "e": tree(expr), "name": format!("{}", collation)}),
        Expr::Subscript { expr, subscript } => match &**subscript {
            Subscript::Index { index } => json!({"k": "subscript", "e": tree(expr), "i": tree(index)}),
            _ => opaque(e),
        },
        Expr::MapAccess { column, keys } => {
            if keys.iter().all(|k| k.syntax == MapAccessSyntax::Bracket) {
                json!({"k": "mapaccess", "e": tree(column), "keys": keys.iter().map(|k| tree(&k.key)).collect::<Vec<_>>()})
            } else {
                opaque(e)
            }
        }
        Expr::JsonAccess { value, path } => json!({"k": "json", "e": tree(value),
            "path": path.path.iter().map(|p| match p {
                JsonPathElem::Dot { key, quoted } => json!({"dot": key, "quoted": quoted}),
                JsonPathElem::Bracket { key } => json!({"br": tree(key)}),
            }).collect::<Vec<_>>()}),
        Expr::Subquery(q) if sq => json!({"k": "subquery", "q": q_tree(q)}),
        Expr::InSubquery { expr, subquery, negated } if sq => {
            json!({"k": "insubquery", "neg": negated, "e": tree(expr), "q": q_tree(subquery)})
        }
        Expr::Exists { subquery, negated } if sq => json!({"k": "exists", "neg": negated, "q": q_tree(subquery)}),
        _ => opaque(e),
    }
}

/// the operator core only (modes `expr`, `setop`): subqueries are opaque
fn tree(e: &Expr) -> Value {
    tree_x(e, false)
}

/// query mode: subquery expressions carry their query
fn qx(e: &Expr) -> Value {
    tree_x(e, true)
}

fn run_expr(d: &dyn Dialect, sql: &str) -> Value {
    let toks = match Tokenizer::new(d, sql).tokenize() {
        Ok(t) => t,
        Err(e) => return json!({"tokens": Value::Null, "result": {"tokerr": e.to_string()}}),
    };
    let toks: Vec<Token> = toks.into_iter().filter(|t| !matches!(t, Token::Whitespace(_))).collect();
    let view: Vec<Value> = toks.iter().map(tok_view).collect();
    let n = toks.len();
    let r = std::panic::catch_unwind(std::panic::AssertUnwindSafe(|| {
        let mut p = Parser::new(d).with_tokens(toks);
        let r = p.parse_expr();
        let mut rest = 0usize;
        loop {
            if p.next_token().token == Token::EOF {
                break;
            }
            rest += 1;
            if rest > n + 1 {
                break;
            }
        }
        (r, rest)
    }));
    let result = match r {
        Ok((Ok(e), rest)) => {
            // C01/C05: print, re-tokenize the printed text, parse it again
            let text = e.to_string();
            let again = std::panic::catch_unwind(std::panic::AssertUnwindSafe(|| {
                match Tokenizer::new(d, &text).tokenize() {
                    Err(er) => json!({"tokerr": er.to_string()}),
                    Ok(t2) => {
                        let t2: Vec<Token> = t2.into_iter().filter(|t| !matches!(t, Token::Whitespace(_))).collect();
                        let v2: Vec<Value> = t2.iter().map(tok_view).collect();
                        let mut p2 = Parser::new(d).with_tokens(t2);
                        let r2 = p2.parse_expr();
                        let mut rest2 = 0usize;
                        while p2.next_token().token != Token::EOF && rest2 < 100000 {
                            rest2 += 1;
                        }
                        match r2 {
                            Ok(e2) => json!({"ptokens": v2, "same": e2 == e, "rest": rest2, "text2": e2.to_string(), "ok": tree(&e2)}),
                            Err(er) => json!({"ptokens": v2, "err": er.to_string()}),
                        }
                    }
                }
            }));
            let again = match again { Ok(v) => v, Err(p) => json!({"panic": panic_msg(p)}) };
            json!({"ok": tree(&e), "rest": rest, "text": text, "again": again})
        }
        Ok((Err(e), _)) => json!({"err": e.to_string()}),
        Err(e) => json!({"panic": panic_msg(e)}),
    };
    json!({"tokens": view, "result": result})
}

// ------------------------------------------------------------------ set operations

fn setexpr(b: &SetExpr) -> Value {
    match b {
        SetExpr::Select(s) => {
            let v = if s.projection.len() == 1 { format!("{}", s.projection[0]) } else { "?".to_string() };
            let plain = s.from.is_empty() && s.selection.is_none();
            json!({"k": "select", "v": v, "plain": plain})
        }
        SetExpr::Query(q) => {
            let plain = q.with.is_none() && q.order_by.is_none() && q.limit.is_none() && q.offset.is_none()
                && q.fetch.is_none() && q.limit_by.is_empty() && q.locks.is_empty();
            json!({"k": "query", "plain": plain, "e": setexpr(&q.body)})
        }
        SetExpr::SetOperation { op, set_quantifier, left, right } => json!({"k": "setop",
            "op": format!("{:?}", op), "q": format!("{:?}", set_quantifier), "l": setexpr(left), "r": setexpr(right)}),
        _ => json!({"k": "opaque"}),
    }
}

fn run_setop(d: &dyn Dialect, sql: &str) -> Value {
    let r = std::panic::catch_unwind(std::panic::AssertUnwindSafe(|| {
        let mut p = Parser::new(d).try_with_sql(sql)?;
        let q = p.parse_query()?;
        let mut rest = 0usize;
        loop {
            if p.next_token().token == Token::EOF || rest > 10000 {
                break;
            }
            rest += 1;
        }
        Ok::<_, sqlparser::parser::ParserError>((q, rest))
    }));
    match r {
        Ok(Ok((q, rest))) => {
            let plain = q.with.is_none() && q.order_by.is_none() && q.limit.is_none() && q.offset.is_none()
                && q.fetch.is_none() && q.limit_by.is_empty() && q.locks.is_empty();
            json!({"ok": setexpr(&q.body), "rest": rest, "plain": plain})
        }
        Ok(Err(e)) => json!({"err": e.to_string()}),
        Err(e) => json!({"panic": panic_msg(e)}),
    }
}


// ------------------------------------------------------------------ query core (C01)
//
//   prattx query   < cases {dialect, sql}  -> {tokens, tkind, result}
//   prattx qtables                         -> reserved-word lists + per-dialect flags / probes
//
// `query` runs the tokenizer and `Parser::parse_query` and dumps the `Query` tree restricted to the
// fragment of coq/theories/QueryCore.v ("out_of_fragment" when any other field is set), the text
// `to_string()` prints for it, that text's tokens and its re-parse.

/// per token: "num" for numeric literals, "qid" for quoted identifiers, "" otherwise
/// (the C04 token view shows both as atoms)
fn tok_kind(t: &Token) -> &'static str {
    match t {
        Token::Number(_, _) => "num",
        Token::Word(w) if w.quote_style.is_some() => "qid",
        _ => "",
    }
}

fn q_ident(i: &Ident) -> Value {
    json!({"v": i.value, "q": i.quote_style.map(|c| c.to_string())})
}

fn q_alias(a: &Option<TableAlias>) -> Option<Value> {
    match a {
        None => Some(Value::Null),
        Some(ta) if ta.columns.is_empty() => Some(q_ident(&ta.name)),
        Some(_) => None,
    }
}

fn q_factor(t: &TableFactor) -> Option<Value> {
    match t {
        TableFactor::Table { name, alias, args: None, with_hints, version: None, partitions, with_ordinality: false }
            if with_hints.is_empty() && partitions.is_empty() && name.0.len() == 1 =>
        {
            Some(json!({"k": "table", "name": q_ident(&name.0[0]), "alias": q_alias(alias)?}))
        }
        TableFactor::Derived { lateral: false, subquery, alias } => {
            Some(json!({"k": "derived", "q": q_query(subquery)?, "alias": q_alias(alias)?}))
        }
        TableFactor::NestedJoin { table_with_joins, alias } => {
            Some(json!({"k": "nested", "t": q_tref(table_with_joins)?, "alias": q_alias(alias)?}))
        }
        _ => None,
    }
}

fn q_constraint(c: &JoinConstraint) -> Option<Value> {
    Some(match c {
        JoinConstraint::On(e) => json!({"k": "on", "e": qx(e)}),
        JoinConstraint::Using(cols) => json!({"k": "using", "cols": cols.iter().map(q_ident).collect::<Vec<_>>()}),
        JoinConstraint::Natural => json!({"k": "natural"}),
        JoinConstraint::None => json!({"k": "none"}),
    })
}

fn q_join(j: &Join) -> Option<Value> {
    if j.global {
        return None;
    }
    let (kind, c) = match &j.join_operator {
        JoinOperator::Inner(c) => ("JInner", Some(c)),
        JoinOperator::LeftOuter(c) => ("JLeft", Some(c)),
        JoinOperator::RightOuter(c) => ("JRight", Some(c)),
        JoinOperator::FullOuter(c) => ("JFull", Some(c)),
        JoinOperator::CrossJoin => ("JCross", None),
        _ => return None,
    };
    let c = match c {
        Some(c) => q_constraint(c)?,
        None => Value::Null,
    };
    Some(json!({"kind": kind, "c": c, "rel": q_factor(&j.relation)?}))
}

/// one element of FROM: a table factor with its joins
fn q_tref(t: &TableWithJoins) -> Option<Value> {
    let joins = t.joins.iter().map(q_join).collect::<Option<Vec<_>>>()?;
    Some(json!({"rel": q_factor(&t.relation)?, "joins": joins}))
}

fn q_with(w: &With) -> Option<Value> {
    let mut ctes = vec![];
    for c in &w.cte_tables {
        if c.from.is_some() || c.materialized.is_some() {
            return None;
        }
        ctes.push(json!({"name": q_ident(&c.alias.name), "cols": c.alias.columns.iter().map(q_ident).collect::<Vec<_>>(),
            "q": q_query(&c.query)?}));
    }
    Some(json!({"recursive": w.recursive, "ctes": ctes}))
}

fn q_item(i: &SelectItem) -> Option<Value> {
    match i {
        SelectItem::Wildcard(o) if *o == WildcardAdditionalOptions::default() => Some(json!({"k": "wild"})),
        SelectItem::UnnamedExpr(e) => Some(json!({"k": "expr", "e": qx(e)})),
        SelectItem::ExprWithAlias { expr, alias } => Some(json!({"k": "alias", "e": qx(expr), "a": q_ident(alias)})),
        _ => None,
    }
}

fn q_select(s: &Select) -> Option<Value> {
    let distinct = match &s.distinct {
        None => false,
        Some(Distinct::Distinct) => true,
        Some(_) => return None,
    };
    if s.top.is_some() || s.into.is_some() || !s.lateral_views.is_empty() || s.prewhere.is_some()
        || !s.cluster_by.is_empty() || !s.distribute_by.is_empty() || !s.sort_by.is_empty()
        || !s.named_window.is_empty() || s.qualify.is_some() || s.value_table_mode.is_some()
        || s.connect_by.is_some()
    {
        return None;
    }
    let group_by = match &s.group_by {
        GroupByExpr::Expressions(l, m) if m.is_empty() => l.iter().map(qx).collect::<Vec<_>>(),
        _ => return None,
    };
    let items = s.projection.iter().map(q_item).collect::<Option<Vec<_>>>()?;
    let from = s.from.iter().map(q_tref).collect::<Option<Vec<_>>>()?;
    Some(json!({"k": "select", "distinct": distinct, "items": items, "from": from,
        "where": s.selection.as_ref().map(qx), "group_by": group_by, "having": s.having.as_ref().map(qx)}))
}

fn q_setexpr(b: &SetExpr) -> Option<Value> {
    match b {
        SetExpr::Select(s) => q_select(s),
        SetExpr::Query(q) => Some(json!({"k": "nested", "q": q_query(q)?})),
        SetExpr::SetOperation { op, set_quantifier, left, right } => {
            let q = match set_quantifier {
                SetQuantifier::None => "None",
                SetQuantifier::All => "All",
                SetQuantifier::Distinct => "Distinct",
                _ => return None,
            };
            Some(json!({"k": "setop", "op": format!("{:?}", op), "q": q, "l": q_setexpr(left)?, "r": q_setexpr(right)?}))
        }
        SetExpr::Values(v) if !v.explicit_row => Some(json!({"k": "values",
            "rows": v.rows.iter().map(|r| r.iter().map(qx).collect::<Vec<_>>()).collect::<Vec<_>>()})),
        SetExpr::Table(t) if t.schema_name.is_none() && t.table_name.is_some() => {
            Some(json!({"k": "table_body", "name": {"v": t.table_name.clone().unwrap(), "q": Value::Null}}))
        }
        _ => None,
    }
}

fn q_query(q: &Query) -> Option<Value> {
    if !q.limit_by.is_empty() || q.fetch.is_some() || !q.locks.is_empty()
        || q.for_clause.is_some() || q.settings.is_some() || q.format_clause.is_some()
    {
        return None;
    }
    let with = match &q.with {
        None => Value::Null,
        Some(w) => q_with(w)?,
    };
    let order_by = match &q.order_by {
        None => vec![],
        Some(ob) => {
            if ob.interpolate.is_some() || ob.exprs.is_empty() {
                return None;
            }
            let mut v = vec![];
            for o in &ob.exprs {
                if o.nulls_first.is_some() || o.with_fill.is_some() {
                    return None;
                }
                v.push(json!({"e": qx(&o.expr), "asc": o.asc}));
            }
            v
        }
    };
    let offset = match &q.offset {
        None => Value::Null,
        Some(Offset { value, rows: OffsetRows::None }) => qx(value),
        Some(_) => return None,
    };
    Some(json!({"with": with, "body": q_setexpr(&q.body)?, "order_by": order_by, "limit": q.limit.as_ref().map(qx), "offset": offset}))
}

fn q_tree(q: &Query) -> Value {
    q_query(q).unwrap_or_else(|| json!("out_of_fragment"))
}

fn lex_view(d: &dyn Dialect, sql: &str) -> Result<(Vec<Token>, Vec<Value>, Vec<&'static str>), String> {
    let toks = Tokenizer::new(d, sql).tokenize().map_err(|e| e.to_string())?;
    let toks: Vec<Token> = toks.into_iter().filter(|t| !matches!(t, Token::Whitespace(_))).collect();
    let view = toks.iter().map(tok_view).collect();
    let kinds = toks.iter().map(tok_kind).collect();
    Ok((toks, view, kinds))
}

fn parse_query_rest(d: &dyn Dialect, toks: Vec<Token>) -> Result<(Result<Query, sqlparser::parser::ParserError>, usize), String> {
    let n = toks.len();
    std::panic::catch_unwind(std::panic::AssertUnwindSafe(|| {
        let mut p = Parser::new(d).with_tokens(toks);
        let r = p.parse_query();
        let mut rest = 0usize;
        while p.next_token().token != Token::EOF && rest <= n {
            rest += 1;
        }
        (r, rest)
    }))
    .map_err(panic_msg)
}

fn run_query(d: &dyn Dialect, sql: &str) -> Value {
    let (toks, view, kinds) = match lex_view(d, sql) {
        Ok(x) => x,
        Err(e) => return json!({"tokens": Value::Null, "result": {"tokerr": e}}),
    };
    let result = match parse_query_rest(d, toks) {
        Err(p) => json!({"panic": p}),
        Ok((Err(e), _)) => json!({"err": e.to_string()}),
        Ok((Ok(q), rest)) => {
            let text = q.to_string();
            let again = match lex_view(d, &text) {
                Err(e) => json!({"tokerr": e}),
                Ok((t2, v2, k2)) => match parse_query_rest(d, t2) {
                    Err(p) => json!({"ptokens": v2, "pkind": k2, "panic": p}),
                    Ok((Err(e), _)) => json!({"ptokens": v2, "pkind": k2, "err": e.to_string()}),
                    Ok((Ok(q2), rest2)) => json!({"ptokens": v2, "pkind": k2, "same": q2 == q, "rest": rest2,
                        "text2": q2.to_string()}),
                },
            };
            json!({"ok": q_tree(&q), "rest": rest, "text": text, "again": again})
        }
    };
    json!({"tokens": view, "tkind": kinds, "result": result})
}

fn probe_query(d: &dyn Dialect, sql: &str) -> Value {
    let r = std::panic::catch_unwind(std::panic::AssertUnwindSafe(|| {
        let mut p = Parser::new(d).try_with_sql(sql)?;
        let q = p.parse_query()?;
        let at_end = p.peek_token().token == Token::EOF;
        Ok::<_, sqlparser::parser::ParserError>((q, at_end))
    }));
    match r {
        Ok(Ok((q, at_end))) => {
            let (sel, from0) = match &*q.body {
                SetExpr::Select(s) => (Some(s.clone()), s.from.first().map(|t| t.relation.clone())),
                _ => (None, None),
            };
            json!({"ok": true, "at_end": at_end, "text": q.to_string(),
                "limit_by": !q.limit_by.is_empty(), "offset": q.offset.is_some(),
                "value_table_mode": sel.as_ref().map(|s| s.value_table_mode.is_some()),
                "wild_opts": sel.as_ref().map(|s| matches!(s.projection.first(), Some(SelectItem::Wildcard(o)) if *o != WildcardAdditionalOptions::default())),
                "from_kind": from0.map(|f| { let s = format!("{:?}", f); s.split(|c: char| !c.is_alphanumeric()).next().unwrap_or("").to_string() }),
                "group_by": sel.as_ref().map(|s| format!("{}", s.group_by)),
                "item0_kind": sel.as_ref().and_then(|s| s.projection.first().map(|i| match i {
                    SelectItem::UnnamedExpr(e) | SelectItem::ExprWithAlias { expr: e, .. } => {
                        let s = format!("{:?}", e); s.split(|c: char| !c.is_alphanumeric()).next().unwrap_or("").to_string() }
                    _ => "other".to_string() })),
            })
        }
        Ok(Err(e)) => json!({"ok": false, "err": e.to_string()}),
        Err(e) => json!({"ok": false, "panic": panic_msg(e)}),
    }
}

fn qtables() -> Value {
    let names = |l: &[Keyword]| l.iter().map(|k| format!("{:?}", k)).collect::<Vec<_>>();
    let mut out = serde_json::Map::new();
    for name in DIALECT_NAMES {
        let d = dialect_by_name(name);
        let d: &dyn Dialect = &*d;
        out.insert(name.to_string(), json!({
            "flags": {
                "limit_comma": d.supports_limit_comma(),
                "proj_trailing": d.supports_projection_trailing_commas(),
                "trailing": d.supports_trailing_commas(),
                "wild_except": d.supports_select_wildcard_except(),
                "group_by_expr": d.supports_group_by_expr(),
            },
            "named_arg_eq": d.supports_named_fn_args_with_eq_operator(),
            "probes": {
                "limit_comma": probe_query(d, "SELECT x1 LIMIT 1, 2"),
                "limit_by": probe_query(d, "SELECT x1 LIMIT 1 BY x2"),
                "proj_trailing": probe_query(d, "SELECT x1, FROM x2"),
                "trailing": probe_query(d, "SELECT x1 GROUP BY x2, HAVING x3"),
                "wild_except": probe_query(d, "SELECT * EXCEPT (x1) FROM x2"),
                "wild_ilike": probe_query(d, "SELECT * ILIKE 's1' FROM x2"),
                "select_as": probe_query(d, "SELECT AS VALUE x1 FROM x2"),
                "unnest_table": probe_query(d, "SELECT x1 FROM UNNEST(x2)"),
                "hyphen_table": probe_query(d, "SELECT x1 FROM x2-x3"),
                "group_by_expr": probe_query(d, "SELECT x1 GROUP BY ()"),
                "paren_tables": probe_query(d, "SELECT x1 FROM (x2)"),
                "group_with": probe_query(d, "SELECT x1 GROUP BY x2 WITH ROLLUP"),
                "exists_nested": probe_query(d, "SELECT EXISTS ((SELECT x1))"),
                "values_empty": probe_query(d, "VALUES ()"),
            },
        }));
    }
    json!({"reserved_for_column_alias": names(sqlparser::keywords::RESERVED_FOR_COLUMN_ALIAS),
           "reserved_for_table_alias": names(sqlparser::keywords::RESERVED_FOR_TABLE_ALIAS),
           "dialects": out})
}

fn main() {
    quiet_panics();
    let args: Vec<String> = std::env::args().collect();
    match args.get(1).map(|s| s.as_str()).unwrap_or("") {
        "tables" => println!("{}", tables()),
        "expr" => for_each_case(|c| {
            let d = dialect_by_name(c["dialect"].as_str().unwrap());
            run_expr(&*d, c["sql"].as_str().unwrap())
        }),
        "setop" => for_each_case(|c| {
            let d = dialect_by_name(c["dialect"].as_str().unwrap());
            run_setop(&*d, c["sql"].as_str().unwrap())
        }),
        "qtables" => println!("{}", qtables()),
        "ddltables" => println!("{}", ddl_mode::ddltables()),
        "ddl" => for_each_case(|c| {
            let d = dialect_by_name(c["dialect"].as_str().unwrap());
            ddl_mode::run_ddl(&*d, c["sql"].as_str().unwrap())
        }),
        "dmltables" => println!("{}", dml_mode::dmltables()),
        "dml" => for_each_case(|c| {
            let d = dialect_by_name(c["dialect"].as_str().unwrap());
            dml_mode::run_dml(&*d, c["sql"].as_str().unwrap())
        }),
        "query" => for_each_case(|c| {
            let d = dialect_by_name(c["dialect"].as_str().unwrap());
            run_query(&*d, c["sql"].as_str().unwrap())
        }),
        _ => {
            eprintln!("usage: prattx tables|expr|setop|qtables|query");
            std::process::exit(2);
        }
    }
}
