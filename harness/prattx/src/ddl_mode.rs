//! The DDL core of C01 (coq/theories/DdlCore.v, lib/props/c01ddl.py):
//!
//!   prattx ddl       < cases {dialect, sql}  -> {tokens, ctokens, result}
//!   prattx ddltables                         -> reserved words + per-dialect switches / probes
//!
//! `ddl` runs the tokenizer and `Parser::parse_sql`; for a single `Statement::CreateTable` inside the
//! fragment of the model (every other field of the struct at its default: "out_of_fragment"
//! otherwise) it dumps the tree, the text `to_string()` prints for it, that text's tokens and its
//! re-parse.
use serde_json::{json, Value};
use sqlparser::ast::helpers::stmt_create_table::CreateTableBuilder;
use sqlparser::ast::*;
use sqlparser::dialect::Dialect;
use sqlparser::parser::Parser;
use sqlparser::tokenizer::{Token, Tokenizer};
use vh::*;

/// statement-level token view: ["w", value] unquoted word, ["q", value, quote] quoted identifier,
/// ["n", text] number, ["s", payload] single-quoted string, ["t", variant] anything else
fn d_tok(t: &Token) -> Value {
    match t {
        Token::Word(w) => match w.quote_style {
            None => json!(["w", w.value]),
            Some(q) => json!(["q", w.value, q.to_string()]),
        },
        Token::Number(s, false) => json!(["n", s]),
        Token::SingleQuotedString(s) => json!(["s", s]),
        Token::CustomBinaryOperator(_) => json!(["t", "CustomBinaryOperator"]),
        _ => {
            let s = format!("{:?}", t);
            let n = match s.find(|c| c == '(' || c == ' ' || c == '{') {
                Some(i) => s[..i].to_string(),
                None => s,
            };
            json!(["t", n])
        }
    }
}

/// (statement-level view, the C04 expression-level view of the same tokens)
fn d_lex(d: &dyn Dialect, sql: &str) -> Result<(Vec<Value>, Vec<Value>), String> {
    let toks = Tokenizer::new(d, sql).tokenize().map_err(|e| e.to_string())?;
    let toks: Vec<&Token> = toks.iter().filter(|t| !matches!(t, Token::Whitespace(_))).collect();
    Ok((toks.iter().map(|t| d_tok(t)).collect(), toks.iter().map(|t| super::tok_view(t)).collect()))
}

fn d_ident(i: &Ident) -> Value {
    json!({"v": i.value, "q": i.quote_style.map(|c| c.to_string())})
}

fn d_idents(l: &[Ident]) -> Value {
    Value::Array(l.iter().map(d_ident).collect())
}

fn d_option(o: &ColumnOption) -> Option<Value> {
    Some(match o {
        ColumnOption::NotNull => json!({"k": "notnull"}),
        ColumnOption::Null => json!({"k": "null"}),
        ColumnOption::Default(e) => json!({"k": "default", "e": super::tree(e)}),
        ColumnOption::Unique { is_primary, characteristics: None } => {
            json!({"k": if *is_primary { "primary" } else { "unique" }})
        }
        ColumnOption::Check(e) => json!({"k": "check", "e": super::tree(e)}),
        ColumnOption::ForeignKey { foreign_table, referred_columns, on_delete: None, on_update: None, characteristics: None } => {
            json!({"k": "references", "table": d_idents(&foreign_table.0), "cols": d_idents(referred_columns)})
        }
        _ => return None,
    })
}

fn d_column(c: &ColumnDef) -> Option<Value> {
    if c.collation.is_some() {
        return None;
    }
    let mut opts = vec![];
    for o in &c.options {
        opts.push(json!({"name": o.name.as_ref().map(d_ident), "opt": d_option(&o.option)?}));
    }
    Some(json!({"name": d_ident(&c.name), "type": serde_json::to_value(&c.data_type).ok()?, "options": opts}))
}

fn d_constraint(c: &TableConstraint) -> Option<Value> {
    Some(match c {
        TableConstraint::Unique { name, index_name: None, index_type_display: KeyOrIndexDisplay::None, index_type: None,
                                  columns, index_options, characteristics: None } if index_options.is_empty() => {
            json!({"name": name.as_ref().map(d_ident), "k": "unique", "cols": d_idents(columns)})
        }
        TableConstraint::PrimaryKey { name, index_name: None, index_type: None, columns, index_options, characteristics: None }
            if index_options.is_empty() =>
        {
            json!({"name": name.as_ref().map(d_ident), "k": "primary", "cols": d_idents(columns)})
        }
        TableConstraint::ForeignKey { name, columns, foreign_table, referred_columns, on_delete: None, on_update: None,
                                      characteristics: None } => {
            json!({"name": name.as_ref().map(d_ident), "k": "foreign", "cols": d_idents(columns),
                   "table": d_idents(&foreign_table.0), "rcols": d_idents(referred_columns)})
        }
        TableConstraint::Check { name, expr } => {
            json!({"name": name.as_ref().map(d_ident), "k": "check", "e": super::tree(expr)})
        }
        _ => return None,
    })
}

/// the tree restricted to the fragment; None: some other field of the struct is set
fn d_create(s: &Statement) -> Option<Value> {
    let ct = match s {
        Statement::CreateTable(ct) => ct,
        _ => return None,
    };
    // everything but the six fields of the fragment is what the builder puts there
    let plain = |hf: Option<HiveFormat>| {
        CreateTableBuilder::new(ct.name.clone())
            .or_replace(ct.or_replace)
            .temporary(ct.temporary)
            .if_not_exists(ct.if_not_exists)
            .columns(ct.columns.clone())
            .constraints(ct.constraints.clone())
            .hive_formats(hf)
            .build()
    };
    if *s != plain(Some(HiveFormat::default())) && *s != plain(None) {
        return None;
    }
    let cols = ct.columns.iter().map(d_column).collect::<Option<Vec<_>>>()?;
    let cons = ct.constraints.iter().map(d_constraint).collect::<Option<Vec<_>>>()?;
    Some(json!({"or_replace": ct.or_replace, "temporary": ct.temporary, "if_not_exists": ct.if_not_exists,
                "name": d_idents(&ct.name.0), "columns": cols, "constraints": cons}))
}

fn d_parse(d: &dyn Dialect, sql: &str) -> Result<Result<Vec<Statement>, String>, String> {
    std::panic::catch_unwind(std::panic::AssertUnwindSafe(|| Parser::parse_sql(d, sql).map_err(|e| e.to_string())))
        .map_err(panic_msg)
}

pub fn run_ddl(d: &dyn Dialect, sql: &str) -> Value {
    let (view, cview) = match d_lex(d, sql) {
        Ok(v) => v,
        Err(e) => return json!({"tokens": Value::Null, "result": {"tokerr": e}}),
    };
    let result = match d_parse(d, sql) {
        Err(p) => json!({"panic": p}),
        Ok(Err(e)) => json!({"err": e}),
        Ok(Ok(stmts)) => {
            if stmts.len() != 1 {
                json!({"ok": "out_of_fragment", "n": stmts.len()})
            } else {
                let s = &stmts[0];
                let text = s.to_string();
                let again = match d_lex(d, &text) {
                    Err(e) => json!({"tokerr": e}),
                    Ok((v2, _)) => match d_parse(d, &text) {
                        Err(p) => json!({"ptokens": v2, "panic": p}),
                        Ok(Err(e)) => json!({"ptokens": v2, "err": e}),
                        Ok(Ok(s2)) => json!({"ptokens": v2, "same": s2.len() == 1 && s2[0] == *s, "n": s2.len(),
                                               "text2": s2.iter().map(|x| x.to_string()).collect::<Vec<_>>().join("; ")}),
                    },
                };
                let kind = {
                    let dbg = format!("{:?}", s);
                    dbg.split(|c: char| !c.is_alphanumeric()).next().unwrap_or("").to_string()
                };
                json!({"ok": d_create(s).unwrap_or_else(|| json!("out_of_fragment")), "n": 1, "kind": kind,
                       "text": text, "again": again})
            }
        }
    };
    json!({"tokens": view, "ctokens": cview, "result": result})
}

fn d_probe(d: &dyn Dialect, sql: &str) -> Value {
    match d_parse(d, sql) {
        Ok(Ok(s)) => json!({"ok": true, "text": s.iter().map(|x| x.to_string()).collect::<Vec<_>>().join("; ")}),
        Ok(Err(e)) => json!({"ok": false, "err": e}),
        Err(p) => json!({"ok": false, "panic": p}),
    }
}

pub fn ddltables() -> Value {
    let names = |l: &[sqlparser::keywords::Keyword]| l.iter().map(|k| format!("{:?}", k)).collect::<Vec<_>>();
    let mut out = serde_json::Map::new();
    for name in DIALECT_NAMES {
        let d = dialect_by_name(name);
        let d: &dyn Dialect = &*d;
        out.insert(name.to_string(), json!({
            "flags": {
                "trailing": d.supports_trailing_commas(),
                "asc_desc": d.supports_asc_desc_in_column_definition(),
            },
            "probes": {
                "trailing": d_probe(d, "CREATE TABLE x1 (x2 INT,)"),
                "trailing_list": d_probe(d, "CREATE TABLE x1 (x2 INT, PRIMARY KEY (x2,))"),
                "asc_desc": d_probe(d, "CREATE TABLE x1 (x2 INT ASC)"),
            },
        }));
    }
    json!({"reserved_for_column_alias": names(sqlparser::keywords::RESERVED_FOR_COLUMN_ALIAS), "dialects": out})
}
