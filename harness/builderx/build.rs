//! Generates `$OUT_DIR/setter_table.rs`: one entry per public `self -> Self` method (and `new`)
//! of CreateTableBuilder *as defined by the sqlparser source this crate is compiled against*,
//! each deserialising its arguments from JSON.  A setter added to /repo is therefore driven
//! without touching the harness.
#[path = "src/translate.rs"]
mod translate;

fn sqlparser_path() -> String {
    let manifest = std::fs::read_to_string(std::path::Path::new(&std::env::var("CARGO_MANIFEST_DIR").unwrap()).join("Cargo.toml")).unwrap();
    for l in manifest.lines() {
        let t = l.trim();
        if t.starts_with("sqlparser") {
            if let Some(i) = t.find("path") {
                let rest = &t[i..];
                let a = rest.find('"').unwrap();
                let b = rest[a + 1..].find('"').unwrap();
                return rest[a + 1..a + 1 + b].to_string();
            }
        }
    }
    "/repo".to_string()
}

fn main() {
    let repo = sqlparser_path();
    println!("cargo:rustc-env=SQLPARSER_SRC={repo}");
    println!("cargo:rerun-if-changed=build.rs");
    println!("cargo:rerun-if-changed=Cargo.toml");
    println!("cargo:rerun-if-changed=src/translate.rs");
    println!("cargo:rerun-if-changed={repo}/src/ast");
    println!("cargo:rerun-if-changed={repo}/src/ast/helpers/stmt_create_table.rs");
    let found = translate::load(&repo);
    let mut out = String::new();
    out.push_str("pub type SetterFn = fn(CreateTableBuilder, Vec<serde_json::Value>) -> Result<CreateTableBuilder, String>;\n");
    out.push_str("pub const SETTERS: &[(&str, usize, SetterFn)] = &[\n");
    let mut new_fn = String::from("pub fn call_new(_a: Vec<serde_json::Value>) -> Result<CreateTableBuilder, String> { Err(\"no public fn new\".into()) }\npub const NEW_ARITY: usize = 0;\n");
    let mut skipped = vec![];
    for (_, m) in translate::inherent_fns(&found) {
        let sg = translate::sig_of(&m);
        let mut lets = String::new();
        let mut args = vec![];
        for (i, (_, ty)) in sg.params.iter().enumerate() {
            lets.push_str(&format!(
                "let p{i}: {ty} = serde_json::from_value(a.get({i}).cloned().ok_or(\"missing argument\")?).map_err(|e| format!(\"argument {i}: {{e}}\"))?; "
            ));
            args.push(format!("p{i}"));
        }
        if sg.name == "new" && sg.public && !sg.has_receiver && !sg.generics {
            new_fn = format!(
                "pub fn call_new(a: Vec<serde_json::Value>) -> Result<CreateTableBuilder, String> {{ {lets}Ok(CreateTableBuilder::new({})) }}\npub const NEW_ARITY: usize = {};\n",
                args.join(", "), sg.params.len());
        } else if sg.by_value_self && sg.returns_self && sg.name != "build" {
            if !sg.public || sg.generics {
                skipped.push(sg.name.clone());
                continue;
            }
            out.push_str(&format!(
                "  (\"{}\", {}, |b, a| {{ {lets}Ok(b.{}({})) }}),\n",
                sg.name, sg.params.len(), sg.name, args.join(", ")));
        }
    }
    out.push_str("];\n");
    out.push_str(&new_fn);
    out.push_str(&format!("pub const SKIPPED_SETTERS: &[&str] = &{:?};\n", skipped));
    let dir = std::env::var("OUT_DIR").unwrap();
    std::fs::write(std::path::Path::new(&dir).join("setter_table.rs"), out).unwrap();
}
