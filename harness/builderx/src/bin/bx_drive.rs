//! Dynamic driver for C19 (JSON lines on stdin → one JSON line per case on stdout).
//!   info     (no stdin)  setters known to the generated call table, source path compiled against
//!   stmt     {"stmt": <Statement as serde JSON>}   try_from, then build; equality with the input
//!   builder  {"builder": <CreateTableBuilder JSON>} build, then try_from; equality with the input
//!   setter   {"builder": .., "setter": name, "args": [..]}  builder after the call
//!   new      {"args": [..]}                         CreateTableBuilder::new(args)
//!   sql      {"sql": .., "dialects": [..]}          parse; per statement: CREATE TABLE → round
//!            trip through the builder, other kinds → try_from must be Err (no panic)
use serde_json::{json, Value as J};
use sqlparser::ast::helpers::stmt_create_table::CreateTableBuilder;
use sqlparser::ast::Statement;
use sqlparser::parser::Parser;
use std::panic::{catch_unwind, AssertUnwindSafe};
use vh::*;

mod table {
    #![allow(unused_imports, clippy::all)]
    use sqlparser::ast::helpers::stmt_create_table::*;
    use sqlparser::ast::*;
    include!(concat!(env!("OUT_DIR"), "/setter_table.rs"));
}

fn variant_of(j: &J) -> String {
    match j {
        J::String(s) => s.clone(),
        J::Object(m) => m.keys().next().cloned().unwrap_or_default(),
        _ => String::new(),
    }
}

/// try_from then build on one statement value
fn through(stmt: &Statement) -> J {
    let s2 = stmt.clone();
    match catch_unwind(AssertUnwindSafe(move || CreateTableBuilder::try_from(s2))) {
        Err(e) => json!({"try": "panic", "msg": panic_msg(e)}),
        Ok(Err(e)) => json!({"try": "err", "msg": e.to_string()}),
        Ok(Ok(b)) => {
            let bj = serde_json::to_value(&b).unwrap_or(J::Null);
            match catch_unwind(AssertUnwindSafe(move || b.build())) {
                Err(e) => json!({"try": "ok", "builder": bj, "build": "panic", "msg": panic_msg(e)}),
                Ok(r) => {
                    let rj = serde_json::to_value(&r).unwrap_or(J::Null);
                    json!({"try": "ok", "builder": bj, "build": "ok", "rebuilt": rj, "equal": &r == stmt})
                }
            }
        }
    }
}

fn do_stmt(c: &J) -> J {
    let st: Statement = match serde_json::from_value(c["stmt"].clone()) {
        Ok(s) => s,
        Err(e) => return json!({"error": format!("statement does not deserialise: {e}")}),
    };
    let back = serde_json::to_value(&st).unwrap_or(J::Null);
    let mut r = through(&st);
    r["variant"] = json!(variant_of(&back));
    // SQL rendering of the statement, for reports only (Display may panic: C02's ledger)
    let st2 = st.clone();
    r["display"] = match catch_unwind(AssertUnwindSafe(move || st2.to_string())) {
        Ok(s) => json!(s),
        Err(_) => J::Null,
    };
    r["input_reserialised_equal"] = json!(back == c["stmt"]);
    r
}

fn do_builder(c: &J) -> J {
    let b: CreateTableBuilder = match serde_json::from_value(c["builder"].clone()) {
        Ok(s) => s,
        Err(e) => return json!({"error": format!("builder does not deserialise: {e}")}),
    };
    let b2 = b.clone();
    match catch_unwind(AssertUnwindSafe(move || b2.build())) {
        Err(e) => json!({"build": "panic", "msg": panic_msg(e)}),
        Ok(st) => {
            let sj = serde_json::to_value(&st).unwrap_or(J::Null);
            let st2 = st.clone();
            match catch_unwind(AssertUnwindSafe(move || CreateTableBuilder::try_from(st2))) {
                Err(e) => json!({"build": "ok", "stmt": sj, "try": "panic", "msg": panic_msg(e)}),
                Ok(Err(e)) => json!({"build": "ok", "stmt": sj, "try": "err", "msg": e.to_string()}),
                Ok(Ok(b3)) => json!({"build": "ok", "stmt": sj, "try": "ok", "equal": b3 == b,
                                     "builder": serde_json::to_value(&b3).unwrap_or(J::Null)}),
            }
        }
    }
}

fn do_setter(c: &J) -> J {
    let b: CreateTableBuilder = match serde_json::from_value(c["builder"].clone()) {
        Ok(s) => s,
        Err(e) => return json!({"error": format!("builder does not deserialise: {e}")}),
    };
    let name = c["setter"].as_str().unwrap_or("");
    let args: Vec<J> = c["args"].as_array().cloned().unwrap_or_default();
    for (n, _, f) in table::SETTERS {
        if *n == name {
            return match catch_unwind(AssertUnwindSafe(move || f(b, args))) {
                Err(e) => json!({"panic": panic_msg(e)}),
                Ok(Err(e)) => json!({"error": e}),
                Ok(Ok(b2)) => json!({"after": serde_json::to_value(&b2).unwrap_or(J::Null)}),
            };
        }
    }
    json!({"error": format!("no public setter named {name} in the compiled crate")})
}

fn do_new(c: &J) -> J {
    let args: Vec<J> = c["args"].as_array().cloned().unwrap_or_default();
    match catch_unwind(AssertUnwindSafe(move || table::call_new(args))) {
        Err(e) => json!({"panic": panic_msg(e)}),
        Ok(Err(e)) => json!({"error": e}),
        Ok(Ok(b)) => json!({"builder": serde_json::to_value(&b).unwrap_or(J::Null)}),
    }
}

fn do_sql(c: &J) -> J {
    let sql = c["sql"].as_str().unwrap_or("").to_string();
    let mut results = vec![];
    for dn in c["dialects"].as_array().cloned().unwrap_or_default() {
        let dn = dn.as_str().unwrap_or("generic").to_string();
        let d = dialect_by_name(&dn);
        let parsed = catch_unwind(AssertUnwindSafe(|| Parser::parse_sql(d.as_ref(), &sql)));
        let stmts = match parsed {
            Ok(Ok(v)) => v,
            _ => continue,
        };
        for (i, st) in stmts.iter().enumerate() {
            let sj = serde_json::to_value(st).unwrap_or(J::Null);
            let variant = variant_of(&sj);
            let is_ct = matches!(st, Statement::CreateTable(_));
            let r = through(st);
            let outcome = match (r["try"].as_str().unwrap_or(""), is_ct) {
                ("panic", _) => "panic",
                ("err", false) => "err",
                ("err", true) => "ct-rejected",
                ("ok", true) => {
                    if r["build"] == "ok" && r["equal"] == true { "roundtrip-ok" } else { "roundtrip-diff" }
                }
                ("ok", false) => "other-accepted",
                _ => "unknown",
            };
            let mut o = json!({"dialect": dn, "idx": i, "variant": variant, "outcome": outcome});
            if is_ct {
                o["stmt"] = sj;
                if outcome != "roundtrip-ok" {
                    o["detail"] = r;
                }
            } else if outcome != "err" {
                o["detail"] = r;
            } else {
                o["msg_len"] = json!(r["msg"].as_str().map(|s| s.len()).unwrap_or(0));
            }
            results.push(o);
        }
    }
    json!({"results": results})
}

fn main() {
    quiet_panics();
    let mode = std::env::args().nth(1).unwrap_or_default();
    match mode.as_str() {
        "info" => {
            println!("{}", json!({
                "setters": table::SETTERS.iter().map(|(n, k, _)| json!({"name": n, "arity": k})).collect::<Vec<_>>(),
                "new_arity": table::NEW_ARITY, "skipped": table::SKIPPED_SETTERS, "src": env!("SQLPARSER_SRC")}));
        }
        "stmt" => for_each_case(do_stmt),
        "builder" => for_each_case(do_builder),
        "setter" => for_each_case(do_setter),
        "new" => for_each_case(do_new),
        "sql" => for_each_case(do_sql),
        _ => {
            eprintln!("usage: bx_drive info|stmt|builder|setter|new|sql");
            std::process::exit(2);
        }
    }
}
