//! `bx_extract [repo-root]` — prints the routings of CreateTableBuilder::{build, try_from, new,
//! setters} extracted from the source tree as one JSON object (see src/translate.rs).
fn main() {
    let repo = std::env::args().nth(1).unwrap_or_else(|| env!("SQLPARSER_SRC").to_string());
    println!("{}", builderx::translate::translate(&repo));
}
