//! C19 translator: a small symbolic evaluator (syn 2) over the CREATE TABLE builder.
//!
//! It reads the *source* of the sqlparser crate (all `.rs` files under `<repo>/src/ast`),
//! finds `struct CreateTableBuilder`, its inherent impl(s), `impl TryFrom<Statement> for
//! CreateTableBuilder`, the statement struct named by `build()`'s struct literal and
//! `enum Statement`, and evaluates `build`, `try_from`, `new` and every `self -> Self` method
//! symbolically.  The result is *data*: for every constructed field the symbolic value it
//! receives (`field g of the source record` / `parameter i` / `constant <text>` / `opaque <text>`).
//! Items are keyed by shape (function, arm ordinal, field name) and never by line number.
//! Anything the evaluator cannot interpret (rest patterns, struct-update bases, clone()/unwrap_or
//! and other non-move expressions, unknown statement or body shapes, guards) is reported as an
//! *unresolved obligation*; nothing is dropped silently.  The translator decides nothing.
//!
//! This file is also compiled into build.rs (via #[path]) which uses `find_setter_sigs` to
//! generate the table of setter calls for the dynamic driver.
#![allow(dead_code)]
use quote::ToTokens;
use serde_json::{json, Value};
use std::collections::{BTreeMap, HashMap};

pub const BUILDER: &str = "CreateTableBuilder";
pub const STATEMENT: &str = "Statement";

/// Source text of a syntax node, independent of the formatting of the source: tokens are
/// joined without blanks except between two word-like tokens; literals are kept verbatim.
pub fn text<T: ToTokens>(t: &T) -> String {
    fn go(ts: proc_macro2::TokenStream, out: &mut String) {
        for tt in ts {
            let piece = match &tt {
                proc_macro2::TokenTree::Group(g) => {
                    let (o, c) = match g.delimiter() {
                        proc_macro2::Delimiter::Parenthesis => ("(", ")"),
                        proc_macro2::Delimiter::Brace => ("{", "}"),
                        proc_macro2::Delimiter::Bracket => ("[", "]"),
                        proc_macro2::Delimiter::None => ("", ""),
                    };
                    out.push_str(o);
                    go(g.stream(), out);
                    out.push_str(c);
                    continue;
                }
                other => other.to_string(),
            };
            let wordy = |x: char| x.is_alphanumeric() || x == '_' || x == '"' || x == '\'';
            if let (Some(a), Some(b)) = (out.chars().last(), piece.chars().next()) {
                if wordy(a) && wordy(b) {
                    out.push(' ');
                }
            }
            out.push_str(&piece);
        }
    }
    let mut out = String::new();
    go(t.to_token_stream(), &mut out);
    out
}

// ------------------------------------------------------------------ source loading

pub struct Found {
    pub files: Vec<String>,
    pub builder_struct: Option<(String, syn::ItemStruct)>,
    pub structs: Vec<(String, syn::ItemStruct)>,
    pub statement_enum: Option<(String, syn::ItemEnum)>,
    pub inherent: Vec<(String, syn::ItemImpl)>,
    pub try_from: Vec<(String, syn::ItemImpl)>,
    pub errors: Vec<String>,
}

fn is_cfg_test(attrs: &[syn::Attribute]) -> bool {
    attrs.iter().any(|a| a.path().is_ident("cfg") && text(&a.meta).contains("test"))
}

fn last_seg(p: &syn::Path) -> String {
    p.segments.last().map(|s| s.ident.to_string()).unwrap_or_default()
}

fn type_last_seg(t: &syn::Type) -> String {
    match t {
        syn::Type::Path(tp) => last_seg(&tp.path),
        syn::Type::Paren(p) => type_last_seg(&p.elem),
        syn::Type::Group(p) => type_last_seg(&p.elem),
        _ => String::new(),
    }
}

fn walk_items(file: &str, items: &[syn::Item], f: &mut Found) {
    for it in items {
        match it {
            syn::Item::Mod(m) => {
                if is_cfg_test(&m.attrs) {
                    continue;
                }
                if let Some((_, items)) = &m.content {
                    walk_items(file, items, f);
                }
            }
            syn::Item::Struct(s) => {
                if s.ident == BUILDER {
                    f.builder_struct = Some((file.to_string(), s.clone()));
                }
                f.structs.push((file.to_string(), s.clone()));
            }
            syn::Item::Enum(e) => {
                if e.ident == STATEMENT {
                    f.statement_enum = Some((file.to_string(), e.clone()));
                }
            }
            syn::Item::Impl(i) => {
                if type_last_seg(&i.self_ty) != BUILDER {
                    continue;
                }
                match &i.trait_ {
                    None => f.inherent.push((file.to_string(), i.clone())),
                    Some((_, p, _)) => {
                        if last_seg(p) == "TryFrom" {
                            f.try_from.push((file.to_string(), i.clone()));
                        }
                    }
                }
            }
            _ => {}
        }
    }
}

fn rs_files(dir: &std::path::Path, out: &mut Vec<std::path::PathBuf>) {
    if let Ok(rd) = std::fs::read_dir(dir) {
        let mut es: Vec<_> = rd.flatten().map(|e| e.path()).collect();
        es.sort();
        for p in es {
            if p.is_dir() {
                rs_files(&p, out);
            } else if p.extension().map(|x| x == "rs").unwrap_or(false) {
                out.push(p);
            }
        }
    }
}

pub fn load(repo: &str) -> Found {
    let mut f = Found {
        files: vec![],
        builder_struct: None,
        structs: vec![],
        statement_enum: None,
        inherent: vec![],
        try_from: vec![],
        errors: vec![],
    };
    let mut files = vec![];
    rs_files(&std::path::Path::new(repo).join("src").join("ast"), &mut files);
    for p in files {
        let rel = p.strip_prefix(repo).unwrap_or(&p).to_string_lossy().trim_start_matches('/').to_string();
        match std::fs::read_to_string(&p) {
            Ok(src) => match syn::parse_file(&src) {
                Ok(file) => {
                    f.files.push(rel.clone());
                    walk_items(&rel, &file.items, &mut f);
                }
                Err(e) => f.errors.push(format!("{rel}: {e}")),
            },
            Err(e) => f.errors.push(format!("{rel}: {e}")),
        }
    }
    f
}

// ------------------------------------------------------------------ setter signatures (build.rs)

pub struct Sig {
    pub name: String,
    pub public: bool,
    pub by_value_self: bool,
    pub has_receiver: bool,
    pub returns_self: bool,
    pub params: Vec<(String, String)>, // (name, type tokens)
    pub generics: bool,
}

pub fn sig_of(m: &syn::ImplItemFn) -> Sig {
    let mut by_value_self = false;
    let mut has_receiver = false;
    let mut params = vec![];
    for a in &m.sig.inputs {
        match a {
            syn::FnArg::Receiver(r) => {
                has_receiver = true;
                by_value_self = r.reference.is_none() && r.colon_token.is_none();
            }
            syn::FnArg::Typed(t) => {
                let n = match &*t.pat {
                    syn::Pat::Ident(i) => i.ident.to_string(),
                    p => text(p),
                };
                params.push((n, t.ty.to_token_stream().to_string()));
            }
        }
    }
    let returns_self = match &m.sig.output {
        syn::ReturnType::Type(_, t) => {
            let s = type_last_seg(t);
            s == "Self" || s == BUILDER
        }
        _ => false,
    };
    Sig {
        name: m.sig.ident.to_string(),
        public: matches!(m.vis, syn::Visibility::Public(_)),
        by_value_self,
        has_receiver,
        returns_self,
        params,
        generics: !m.sig.generics.params.is_empty(),
    }
}

pub fn inherent_fns(f: &Found) -> Vec<(String, syn::ImplItemFn)> {
    let mut v = vec![];
    for (file, i) in &f.inherent {
        for it in &i.items {
            if let syn::ImplItem::Fn(m) = it {
                v.push((file.clone(), m.clone()));
            }
        }
    }
    v
}

// ------------------------------------------------------------------ symbolic values

#[derive(Clone, Debug, PartialEq)]
pub enum Sym {
    /// the whole source record (self / the destructured statement struct)
    Whole,
    /// the enum-typed parameter of try_from
    Enum,
    Field(String),
    Param(usize),
    Const(String),
    Opaque(String),
    Rec { ty: String, fields: Vec<(String, Sym)>, base: Option<Box<Sym>> },
    Wrap(String, Vec<Sym>),
}

fn sym_json(s: &Sym) -> Value {
    match s {
        Sym::Field(g) => json!({"k": "field", "v": g}),
        Sym::Param(i) => json!({"k": "param", "v": i}),
        Sym::Const(t) => json!({"k": "const", "v": t}),
        Sym::Opaque(t) => json!({"k": "opaque", "v": t}),
        Sym::Whole => json!({"k": "opaque", "v": "<whole source record>"}),
        Sym::Enum => json!({"k": "opaque", "v": "<whole statement>"}),
        Sym::Rec { ty, .. } => json!({"k": "opaque", "v": format!("<struct literal {ty}>")}),
        Sym::Wrap(p, a) => json!({"k": "opaque", "v": format!("{p}(<{} args>)", a.len())}),
    }
}

pub struct Ev<'a> {
    pub env: HashMap<String, Sym>,
    /// pending writes `self.f = v` (setters); reads of `self.f` see them
    pub state: BTreeMap<String, Sym>,
    pub assigns: Vec<(String, Sym)>,
    pub obl: &'a mut Vec<Value>,
    pub key: String,
    pub self_names: Vec<String>,
}

impl<'a> Ev<'a> {
    fn oblige(&mut self, sub: &str, what: &str, txt: String) {
        self.obl.push(json!({"key": format!("{}/{}", self.key, sub), "what": what, "text": txt}));
    }

    fn read_field(&self, base: &Sym, member: &str) -> Sym {
        match base {
            Sym::Whole => self.state.get(member).cloned().unwrap_or(Sym::Field(member.to_string())),
            Sym::Rec { fields, base, .. } => {
                for (f, v) in fields {
                    if f == member {
                        return v.clone();
                    }
                }
                match base {
                    Some(b) => self.read_field(b, member),
                    None => Sym::Opaque(format!("<missing field {member}>")),
                }
            }
            _ => Sym::Opaque(format!("<field {member} of non-record>")),
        }
    }

    pub fn eval(&mut self, e: &syn::Expr) -> Sym {
        match e {
            syn::Expr::Paren(p) => self.eval(&p.expr),
            syn::Expr::Group(p) => self.eval(&p.expr),
            syn::Expr::Path(p) => {
                if p.qself.is_none() && p.path.segments.len() == 1 && p.path.segments[0].arguments.is_none() {
                    let id = p.path.segments[0].ident.to_string();
                    if let Some(v) = self.env.get(&id) {
                        return v.clone();
                    }
                    if id.chars().next().map(|c| c.is_uppercase()).unwrap_or(false) {
                        return Sym::Const(id); // None, unit structs, consts
                    }
                    return Sym::Opaque(id); // an identifier we do not track
                }
                Sym::Const(text(p)) // enum variant / associated const path
            }
            syn::Expr::Lit(l) => Sym::Const(text(l)),
            syn::Expr::Field(f) => {
                let b = self.eval(&f.base);
                match &f.member {
                    syn::Member::Named(id) => self.read_field(&b, &id.to_string()),
                    _ => Sym::Opaque(text(e)),
                }
            }
            syn::Expr::Macro(m) => {
                if m.mac.path.is_ident("vec") && m.mac.tokens.is_empty() {
                    Sym::Const("vec![]".into())
                } else {
                    Sym::Opaque(text(e))
                }
            }
            syn::Expr::Call(c) => {
                if let syn::Expr::Path(p) = &*c.func {
                    if c.args.is_empty() {
                        return Sym::Const(text(e)); // Vec::new(), Default::default(), …
                    }
                    let args: Vec<Sym> = c.args.iter().map(|a| self.eval(a)).collect();
                    return Sym::Wrap(text(&p.path), args);
                }
                Sym::Opaque(text(e))
            }
            syn::Expr::Struct(s) => {
                let mut fields = vec![];
                for fv in &s.fields {
                    let name = match &fv.member {
                        syn::Member::Named(id) => id.to_string(),
                        syn::Member::Unnamed(i) => i.index.to_string(),
                    };
                    let v = self.eval(&fv.expr);
                    fields.push((name, v));
                }
                let base = s.rest.as_ref().map(|b| Box::new(self.eval(b)));
                Sym::Rec { ty: last_seg(&s.path), fields, base }
            }
            syn::Expr::Block(b) if b.label.is_none() && b.attrs.is_empty() => {
                let saved = self.env.clone();
                let v = self.block(&b.block);
                self.env = saved;
                v.unwrap_or(Sym::Const("()".into()))
            }
            _ => Sym::Opaque(text(e)),
        }
    }

    /// binds the names of a struct pattern against a record value
    pub fn bind_struct_pat(&mut self, ps: &syn::PatStruct, src: &Sym, sub: &str) {
        for fp in &ps.fields {
            let member = match &fp.member {
                syn::Member::Named(id) => id.to_string(),
                syn::Member::Unnamed(i) => i.index.to_string(),
            };
            match &*fp.pat {
                syn::Pat::Ident(pi) if pi.by_ref.is_none() && pi.subpat.is_none() => {
                    let v = self.read_field(src, &member);
                    self.env.insert(pi.ident.to_string(), v);
                }
                syn::Pat::Wild(_) => {} // field dropped: visible to routing_ok as an unrouted field
                p => self.oblige(&format!("{sub}/pat.{member}"), "unsupported field pattern", text(p)),
            }
        }
        if ps.rest.is_some() {
            self.oblige(&format!("{sub}/rest"), "rest pattern `..` hides fields", text(ps));
        }
    }

    pub fn bind_pat(&mut self, p: &syn::Pat, v: Sym, sub: &str) {
        match p {
            syn::Pat::Ident(pi) if pi.by_ref.is_none() && pi.subpat.is_none() => {
                self.env.insert(pi.ident.to_string(), v);
            }
            syn::Pat::Type(t) => self.bind_pat(&t.pat, v, sub),
            syn::Pat::Paren(t) => self.bind_pat(&t.pat, v, sub),
            syn::Pat::Wild(_) => {}
            syn::Pat::Struct(ps) => match v {
                Sym::Whole | Sym::Rec { .. } => self.bind_struct_pat(ps, &v, sub),
                _ => self.oblige(sub, "destructuring of a non-record value", text(p)),
            },
            _ => self.oblige(sub, "unsupported pattern", text(p)),
        }
    }

    /// runs the statements of a block; returns the value of the tail expression
    pub fn block(&mut self, b: &syn::Block) -> Option<Sym> {
        let n = b.stmts.len();
        let mut tail = None;
        let mut ord = 0usize;
        for (i, st) in b.stmts.iter().enumerate() {
            match st {
                syn::Stmt::Local(l) => {
                    let sub = format!("let#{ord}");
                    ord += 1;
                    match &l.init {
                        Some(init) if init.diverge.is_none() => {
                            let v = self.eval(&init.expr);
                            self.bind_pat(&l.pat, v, &sub);
                        }
                        _ => self.oblige(&sub, "let without initialiser or with else", text(l)),
                    }
                }
                syn::Stmt::Expr(e, semi) => {
                    if semi.is_none() && i + 1 == n {
                        tail = Some(self.eval(e));
                        continue;
                    }
                    let sub = format!("stmt#{ord}");
                    ord += 1;
                    match e {
                        syn::Expr::Assign(a) => {
                            let target = match &*a.left {
                                syn::Expr::Field(f) => match (&*f.base, &f.member) {
                                    (syn::Expr::Path(p), syn::Member::Named(id))
                                        if p.path.is_ident("self") && self.env.get("self") == Some(&Sym::Whole) =>
                                    {
                                        Some(id.to_string())
                                    }
                                    _ => None,
                                },
                                _ => None,
                            };
                            match target {
                                Some(f) => {
                                    let v = self.eval(&a.right);
                                    self.state.insert(f.clone(), v.clone());
                                    self.assigns.push((f, v));
                                }
                                None => self.oblige(&sub, "assignment to something other than self.<field>", text(e)),
                            }
                        }
                        syn::Expr::Return(_) => {
                            self.oblige(&sub, "early return", text(e));
                        }
                        _ => self.oblige(&sub, "unsupported statement", text(e)),
                    }
                }
                syn::Stmt::Item(it) => {
                    let sub = format!("item#{ord}");
                    ord += 1;
                    self.oblige(&sub, "nested item", text(it));
                }
                syn::Stmt::Macro(m) => {
                    let sub = format!("macro#{ord}");
                    ord += 1;
                    self.oblige(&sub, "statement macro", text(m));
                }
            }
        }
        tail
    }
}

fn routing_json(key: &str, fields: &[(String, Sym)], obl: &mut Vec<Value>) -> Value {
    let mut v = vec![];
    for (f, s) in fields {
        let k = format!("{key}.{f}");
        match s {
            Sym::Field(_) | Sym::Param(_) | Sym::Const(_) => {}
            Sym::Opaque(t) => obl.push(json!({"key": k, "what": "non-move expression", "text": t})),
            other => obl.push(json!({"key": k, "what": "non-move expression", "text": sym_json(other)["v"]})),
        }
        v.push(json!({"field": f, "src": sym_json(s), "key": k}));
    }
    Value::Array(v)
}

/// `#[cfg(..)]` on a field makes the field list configuration dependent: an obligation
fn cfg_gated_fields(s: &syn::ItemStruct, obl: &mut Vec<Value>) {
    if let syn::Fields::Named(n) = &s.fields {
        for f in &n.named {
            if f.attrs.iter().any(|a| a.path().is_ident("cfg")) {
                let name = f.ident.as_ref().unwrap().to_string();
                obl.push(json!({"key": format!("struct:{}.{}", s.ident, name), "what": "cfg-gated field", "text": name}));
            }
        }
    } else {
        obl.push(json!({"key": format!("struct:{}", s.ident), "what": "not a struct with named fields", "text": ""}));
    }
}

fn struct_fields(s: &syn::ItemStruct) -> Value {
    let mut v = vec![];
    if let syn::Fields::Named(n) = &s.fields {
        for f in &n.named {
            v.push(json!({"name": f.ident.as_ref().unwrap().to_string(), "ty": text(&f.ty),
                          "public": matches!(f.vis, syn::Visibility::Public(_))}));
        }
    }
    Value::Array(v)
}

const PANICKY: [&str; 12] = [
    "panic", "unreachable", "todo", "unimplemented", "assert", "assert_eq", "assert_ne", "unwrap",
    "expect", "debug_assert", "unwrap_unchecked", "exit",
];

/// idents and string literals of a token stream, descending into groups and macro arguments
fn scan_tokens(ts: proc_macro2::TokenStream, idents: &mut Vec<String>, lits: &mut Vec<String>, index: &mut bool) {
    let mut prev_wordy = false;
    for tt in ts {
        match tt {
            proc_macro2::TokenTree::Group(g) => {
                if g.delimiter() == proc_macro2::Delimiter::Bracket && prev_wordy {
                    *index = true; // a[i] may panic
                }
                scan_tokens(g.stream(), idents, lits, index);
                prev_wordy = true;
            }
            proc_macro2::TokenTree::Ident(i) => {
                idents.push(i.to_string());
                prev_wordy = true;
            }
            proc_macro2::TokenTree::Literal(l) => {
                lits.push(l.to_string());
                prev_wordy = false;
            }
            proc_macro2::TokenTree::Punct(p) => {
                prev_wordy = p.as_char() == ')' || p.as_char() == ']';
                if p.as_char() == '!' {
                    // macro bang: the next group is the macro's argument list, not an index
                    prev_wordy = false;
                }
            }
        }
    }
}

fn peel(e: &syn::Expr) -> &syn::Expr {
    match e {
        syn::Expr::Paren(p) => peel(&p.expr),
        syn::Expr::Group(p) => peel(&p.expr),
        syn::Expr::Block(b) if b.label.is_none() && b.block.stmts.len() == 1 => match &b.block.stmts[0] {
            syn::Stmt::Expr(x, None) => peel(x),
            _ => e,
        },
        _ => e,
    }
}

// ------------------------------------------------------------------ the translation proper

pub fn translate(repo: &str) -> Value {
    let f = load(repo);
    let mut obl: Vec<Value> = vec![];
    for e in &f.errors {
        obl.push(json!({"key": "source", "what": "file does not parse", "text": e}));
    }
    let mut out = serde_json::Map::new();
    out.insert("repo".into(), json!(repo));
    out.insert("files_parsed".into(), json!(f.files.len()));

    let builder_fields = match &f.builder_struct {
        Some((file, s)) => {
            out.insert("builder_file".into(), json!(file));
            cfg_gated_fields(s, &mut obl);
            struct_fields(s)
        }
        None => {
            obl.push(json!({"key": "struct:CreateTableBuilder", "what": "builder struct not found", "text": ""}));
            json!([])
        }
    };
    out.insert("builder_fields".into(), builder_fields);
    if f.inherent.is_empty() {
        obl.push(json!({"key": "impl:CreateTableBuilder", "what": "inherent impl not found", "text": ""}));
    }

    // ---- inherent methods
    let mut build_v = Value::Null;
    let mut new_v = Value::Null;
    let mut setters = vec![];
    let mut others = vec![];
    let mut stmt_struct_name = String::new();
    let mut ct_variant = String::new();
    for (file, m) in inherent_fns(&f) {
        let sg = sig_of(&m);
        let name = sg.name.clone();
        if name == "build" {
            let key = "build".to_string();
            let mut ev = Ev { env: HashMap::new(), state: BTreeMap::new(), assigns: vec![], obl: &mut obl, key: key.clone(), self_names: vec![] };
            if !sg.by_value_self || !sg.params.is_empty() {
                ev.oblige("sig", "build does not have the signature (self)", text(&m.sig));
            }
            ev.env.insert("self".into(), Sym::Whole);
            let tail = ev.block(&m.block);
            let mut routing = json!([]);
            let mut wrap = Value::Null;
            match tail {
                Some(Sym::Wrap(p, args)) if args.len() == 1 => match &args[0] {
                    Sym::Rec { ty, fields, base } => {
                        wrap = json!(p);
                        ct_variant = p.rsplit("::").next().unwrap_or("").to_string();
                        stmt_struct_name = ty.clone();
                        if base.is_some() {
                            ev.oblige("lit/base", "struct-update base `..expr` hides fields", ty.clone());
                        }
                        let k = format!("build/{ty}");
                        routing = routing_json(&k, fields, ev.obl);
                    }
                    other => ev.oblige("tail", "build does not return Variant(Struct { .. })", format!("{:?}", sym_json(other))),
                },
                other => {
                    let t = other.map(|s| sym_json(&s)["v"].to_string()).unwrap_or("<no tail expression>".into());
                    ev.oblige("tail", "build does not return Variant(Struct { .. })", t)
                }
            }
            build_v = json!({"key": key, "file": file, "wrap": wrap, "struct": stmt_struct_name, "routing": routing});
        } else if name == "new" || (!sg.has_receiver && sg.returns_self) {
            let key = format!("ctor:{name}");
            let mut ev = Ev { env: HashMap::new(), state: BTreeMap::new(), assigns: vec![], obl: &mut obl, key: key.clone(), self_names: vec![] };
            for (i, (p, _)) in sg.params.iter().enumerate() {
                ev.env.insert(p.clone(), Sym::Param(i));
            }
            let tail = ev.block(&m.block);
            let mut routing = json!([]);
            match tail {
                Some(Sym::Rec { ty, fields, base }) if ty == "Self" || ty == BUILDER => {
                    if base.is_some() {
                        ev.oblige("lit/base", "struct-update base `..expr` hides fields", ty.clone());
                    }
                    routing = routing_json(&format!("{key}/Self"), &fields, ev.obl);
                }
                other => {
                    let t = other.map(|s| sym_json(&s)["v"].to_string()).unwrap_or("<no tail expression>".into());
                    ev.oblige("tail", "constructor does not return Self { .. }", t)
                }
            }
            let v = json!({"key": key, "name": name, "file": file, "public": sg.public,
                "params": sg.params.iter().map(|(n, t)| json!({"name": n, "ty": text(&syn::parse_str::<syn::Type>(t).unwrap())})).collect::<Vec<_>>(),
                "routing": routing});
            if name == "new" {
                new_v = v;
            } else {
                others.push(json!({"name": name, "kind": "constructor", "detail": v}));
            }
        } else if sg.by_value_self && sg.returns_self {
            let key = format!("setter:{name}");
            let mut ev = Ev { env: HashMap::new(), state: BTreeMap::new(), assigns: vec![], obl: &mut obl, key: key.clone(), self_names: vec![] };
            ev.env.insert("self".into(), Sym::Whole);
            for (i, (p, _)) in sg.params.iter().enumerate() {
                ev.env.insert(p.clone(), Sym::Param(i));
            }
            if sg.generics {
                ev.oblige("sig", "generic setter", text(&m.sig));
            }
            let tail = ev.block(&m.block);
            let returns_self = tail == Some(Sym::Whole);
            if !returns_self {
                ev.oblige("tail", "setter does not end in `self`", tail.map(|s| sym_json(&s)["v"].to_string()).unwrap_or_default());
            }
            let assigns = ev.assigns.clone();
            let mut av = vec![];
            for (i, (fld, s)) in assigns.iter().enumerate() {
                let k = format!("{key}/assign#{i}.{fld}");
                if !matches!(s, Sym::Field(_) | Sym::Param(_) | Sym::Const(_)) {
                    ev.obl.push(json!({"key": k, "what": "non-move expression", "text": sym_json(s)["v"]}));
                }
                av.push(json!({"field": fld, "src": sym_json(s), "key": k}));
            }
            setters.push(json!({"key": key, "name": name, "file": file, "public": sg.public,
                "params": sg.params.iter().map(|(n, t)| json!({"name": n, "ty": text(&syn::parse_str::<syn::Type>(t).unwrap())})).collect::<Vec<_>>(),
                "assigns": av, "returns_self": returns_self}));
        } else {
            others.push(json!({"name": name, "kind": "other-method", "sig": text(&m.sig)}));
        }
    }
    if build_v.is_null() {
        obl.push(json!({"key": "build", "what": "fn build not found", "text": ""}));
    }
    if new_v.is_null() {
        obl.push(json!({"key": "ctor:new", "what": "fn new not found", "text": ""}));
    }
    out.insert("build".into(), build_v);
    out.insert("new".into(), new_v);
    out.insert("setters".into(), Value::Array(setters));
    out.insert("other_methods".into(), Value::Array(others));
    out.insert("ct_variant".into(), json!(ct_variant));

    // ---- the statement struct
    let cands: Vec<_> = f.structs.iter().filter(|(_, s)| s.ident == stmt_struct_name.as_str() && !stmt_struct_name.is_empty()).collect();
    if cands.len() == 1 {
        out.insert("stmt_struct".into(), json!(stmt_struct_name));
        out.insert("stmt_file".into(), json!(cands[0].0));
        out.insert("stmt_fields".into(), struct_fields(&cands[0].1));
        cfg_gated_fields(&cands[0].1, &mut obl);
    } else {
        obl.push(json!({"key": format!("struct:{stmt_struct_name}"), "what": "statement struct not found or ambiguous", "text": format!("{} candidates", cands.len())}));
        out.insert("stmt_struct".into(), json!(stmt_struct_name));
        out.insert("stmt_fields".into(), json!([]));
    }

    // ---- enum Statement
    let mut variants = vec![];
    if let Some((_, e)) = &f.statement_enum {
        for v in &e.variants {
            variants.push(v.ident.to_string());
        }
    } else {
        obl.push(json!({"key": "enum:Statement", "what": "enum Statement not found", "text": ""}));
    }
    out.insert("statement_variants".into(), json!(variants));

    // ---- try_from
    let mut try_v = Value::Null;
    if f.try_from.len() != 1 {
        obl.push(json!({"key": "try_from", "what": "expected exactly one impl TryFrom<..> for CreateTableBuilder", "text": format!("{}", f.try_from.len())}));
    }
    if let Some((file, imp)) = f.try_from.first() {
        for it in &imp.items {
            if let syn::ImplItem::Fn(m) = it {
                if m.sig.ident != "try_from" {
                    continue;
                }
                let sg = sig_of(m);
                let key = "try_from".to_string();
                let mut ev = Ev { env: HashMap::new(), state: BTreeMap::new(), assigns: vec![], obl: &mut obl, key: key.clone(), self_names: vec![] };
                let pname = sg.params.first().map(|p| p.0.clone()).unwrap_or_default();
                if sg.params.len() != 1 {
                    ev.oblige("sig", "try_from does not take exactly one parameter", text(&m.sig));
                }
                ev.env.insert(pname.clone(), Sym::Enum);
                // statements before the tail are evaluated (lets), the tail must be a match
                let n = m.block.stmts.len();
                let mut arms_v = vec![];
                let mut shape_ok = false;
                if n >= 1 {
                    let head = syn::Block { brace_token: m.block.brace_token, stmts: m.block.stmts[..n - 1].to_vec() };
                    let _ = ev.block(&head);
                    if let syn::Stmt::Expr(te, None) = &m.block.stmts[n - 1] {
                        if let syn::Expr::Match(mt) = peel(te) {
                            if ev.eval(&mt.expr) == Sym::Enum {
                                shape_ok = true;
                                let mut ord: HashMap<String, usize> = HashMap::new();
                                for arm in &mt.arms {
                                    let alts: Vec<&syn::Pat> = match &arm.pat {
                                        syn::Pat::Or(o) => o.cases.iter().collect(),
                                        p => vec![p],
                                    };
                                    for p in alts {
                                        let saved = ev.env.clone();
                                        let (pk, pv) = classify_pat(&mut ev, p, &ct_variant);
                                        let label = match &pv {
                                            Some(v) => v.clone(),
                                            None => pk.to_string(),
                                        };
                                        let o = ord.entry(label.clone()).or_insert(0);
                                        let akey = format!("try_from/arm[{label}#{o}]");
                                        *o += 1;
                                        ev.key = akey.clone();
                                        if arm.attrs.iter().any(|a| a.path().is_ident("cfg")) {
                                            ev.oblige("cfg", "cfg-gated match arm", text(&arm.pat));
                                        }
                                        let body = if let Some((_, g)) = &arm.guard {
                                            ev.oblige("guard", "match guard", text(&**g));
                                            json!({"k": "other", "text": format!("guard: {}", text(&**g))})
                                        } else {
                                            classify_body(&mut ev, &arm.body, &pname, &akey)
                                        };
                                        ev.key = key.clone();
                                        ev.env = saved;
                                        arms_v.push(json!({"key": akey, "pat": {"k": pk, "v": pv}, "body": body}));
                                    }
                                }
                            }
                        }
                    }
                }
                if !shape_ok {
                    ev.oblige("body", "try_from is not `match <parameter> { .. }`", text(&m.block));
                }
                try_v = json!({"key": key, "file": file, "param": pname, "arms": arms_v, "shape_ok": shape_ok});
            }
        }
    }
    if try_v.is_null() {
        obl.push(json!({"key": "try_from", "what": "fn try_from not found", "text": ""}));
    }
    out.insert("try_from".into(), try_v);
    out.insert("obligations".into(), Value::Array(obl));
    Value::Object(out)
}

/// pattern kinds: "ct" (the CREATE TABLE variant, fields bound), "variant" (another variant),
/// "wild" (matches everything), "unknown"
fn classify_pat(ev: &mut Ev, p: &syn::Pat, ct_variant: &str) -> (&'static str, Option<String>) {
    match p {
        syn::Pat::Paren(x) => classify_pat(ev, &x.pat, ct_variant),
        syn::Pat::Wild(_) => ("wild", None),
        syn::Pat::Ident(pi) if pi.subpat.is_none() && pi.by_ref.is_none() => {
            // a lower-case identifier is a catch-all binding; an upper-case one would be a
            // unit variant / constant brought into scope
            let id = pi.ident.to_string();
            if id.chars().next().map(|c| c.is_uppercase()).unwrap_or(false) {
                ("variant", Some(id))
            } else {
                ev.env.insert(id, Sym::Enum);
                ("wild", None)
            }
        }
        syn::Pat::TupleStruct(ts) => {
            let v = last_seg(&ts.path);
            if v == ct_variant && !ct_variant.is_empty() {
                if ts.elems.len() == 1 {
                    match &ts.elems[0] {
                        syn::Pat::Struct(ps) => ev.bind_struct_pat(ps, &Sym::Whole, "pat"),
                        syn::Pat::Ident(pi) if pi.subpat.is_none() && pi.by_ref.is_none() => {
                            ev.env.insert(pi.ident.to_string(), Sym::Whole);
                        }
                        syn::Pat::Wild(_) => {}
                        other => ev.oblige("pat", "unsupported payload pattern", text(other)),
                    }
                } else {
                    ev.oblige("pat", "unexpected arity of the CREATE TABLE variant pattern", text(p));
                }
                ("ct", Some(v))
            } else {
                ("variant", Some(v))
            }
        }
        syn::Pat::Struct(ps) => {
            let v = last_seg(&ps.path);
            if v == ct_variant && !ct_variant.is_empty() {
                ev.oblige("pat", "CREATE TABLE variant matched with a struct pattern", text(p));
                ("ct", Some(v))
            } else {
                ("variant", Some(v))
            }
        }
        syn::Pat::Path(pp) => ("variant", Some(last_seg(&pp.path))),
        other => {
            ev.oblige("pat", "unsupported arm pattern", text(other));
            ("unknown", None)
        }
    }
}

fn classify_body(ev: &mut Ev, body: &syn::Expr, scrutinee: &str, akey: &str) -> Value {
    let b = peel(body);
    if let syn::Expr::Call(c) = b {
        if let syn::Expr::Path(p) = &*c.func {
            let callee = last_seg(&p.path);
            if callee == "Err" && c.args.len() == 1 {
                let mut idents = vec![];
                let mut lits = vec![];
                let mut index = false;
                scan_tokens(c.args.to_token_stream(), &mut idents, &mut lits, &mut index);
                let panicky: Vec<String> = idents.iter().filter(|i| PANICKY.contains(&i.as_str())).cloned().collect();
                if !panicky.is_empty() || index {
                    return json!({"k": "other", "text": text(b), "why": format!("error value may panic: {:?}{}", panicky, if index { " indexing" } else { "" })});
                }
                let displays = idents.iter().any(|i| i == scrutinee || i == "to_string")
                    || lits.iter().any(|l| l.contains('{') && l.replace("{{", "").contains('{'));
                return json!({"k": "err", "displays": displays, "text": text(b)});
            }
        }
    }
    // general case: evaluate symbolically (handles lets inside a block body)
    match ev.eval(body) {
        Sym::Wrap(p, args) if p == "Ok" && args.len() == 1 => match &args[0] {
            Sym::Rec { ty, fields, base } if ty == "Self" || ty == BUILDER => {
                if base.is_some() {
                    ev.oblige("lit/base", "struct-update base `..expr` hides fields", ty.clone());
                }
                let r = routing_json(&format!("{akey}/Self"), fields, ev.obl);
                json!({"k": "ok", "routing": r})
            }
            _ => json!({"k": "other", "text": text(b)}),
        },
        _ => json!({"k": "other", "text": text(b)}),
    }
}
