//! C19 harness: translator (symbolic evaluation of the CREATE TABLE builder source) shared by
//! build.rs, bx_extract and the tests.
pub mod translate;
