use sqlparser::ast::Statement;
use sqlparser::parser::ParserError;

pub fn abbreviate(s: String) -> String {
    if s.len() > 300 {
        let mut k = 300;
        while !s.is_char_boundary(k) {
            k -= 1;
        }
        format!("{}…", &s[..k])
    } else {
        s
    }
}

#[derive(PartialEq, Clone, Debug)]
pub enum Out<T> {
    Ok(T),
    Err(ParserError),
    Panic(String),
}
impl<T: std::fmt::Debug> Out<T> {
    pub fn show(&self) -> String {
        match self {
            Out::Ok(v) => abbreviate(format!("Ok {:?}", v)),
            Out::Err(e) => format!("Err {:?}", e),
            Out::Panic(m) => format!("PANIC {}", m),
        }
    }
    pub fn class(&self) -> &'static str {
        match self {
            Out::Ok(_) => "ok",
            Out::Err(ParserError::RecursionLimitExceeded) => "limit",
            Out::Err(ParserError::TokenizerError(_)) => "lex",
            Out::Err(_) => "syntax",
            Out::Panic(_) => "panic",
        }
    }
}
pub type SOut = Out<Vec<Statement>>;

pub fn show_stmts(o: &SOut) -> String {
    match o {
        Out::Ok(v) => abbreviate(format!("Ok [{}]", v.iter().map(|s| s.to_string()).collect::<Vec<_>>().join(" ;; "))),
        other => other.show(),
    }
}

pub fn guarded<T>(f: impl FnOnce() -> Result<T, ParserError>) -> Out<T> {
    match std::panic::catch_unwind(std::panic::AssertUnwindSafe(f)) {
        Ok(Ok(v)) => Out::Ok(v),
        Ok(Err(e)) => Out::Err(e),
        Err(e) => Out::Panic(vh::panic_msg(e)),
    }
}

/// An error message without its position suffix " at Line: l, Column: c".
pub fn strip_position(m: &str) -> String {
    match m.rfind(" at Line: ") {
        Some(i) => {
            let tail = &m[i + 10..];
            let ok = tail.split(", Column: ").count() == 2
                && tail.chars().all(|c| c.is_ascii_digit() || ", Column:".contains(c));
            if ok { m[..i].to_string() } else { m.to_string() }
        }
        None => m.to_string(),
    }
}

/// Equal trees, or errors equal up to the position text.
pub fn same_up_to_position<T: PartialEq>(a: &Out<T>, b: &Out<T>) -> bool {
    match (a, b) {
        (Out::Ok(x), Out::Ok(y)) => x == y,
        (Out::Err(ParserError::ParserError(x)), Out::Err(ParserError::ParserError(y))) => strip_position(x) == strip_position(y),
        (Out::Err(x), Out::Err(y)) => x == y,
        (Out::Panic(_), Out::Panic(_)) => true,
        _ => false,
    }
}
