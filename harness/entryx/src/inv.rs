//! syn-based conformance inventories for C14 (parser-state discipline) and C15 (dialect
//! identity discipline).  Every item carries a shape key (file:fn/kind/detail#ordinal).
use proc_macro2::{TokenStream, TokenTree};
use quote::ToTokens;
use serde_json::{json, Value};
use std::collections::BTreeMap;
use syn::visit::{self, Visit};

const STATE_FIELDS: &[&str] = &["tokens", "index", "state", "options", "recursion_counter"];
const STICKY: &[&str] = &["state", "options", "recursion_counter"];
/// functions whose bodies are the modelled constructors / primitives (writes there are the model's)
pub const MODELLED: &[&str] = &[
    "new", "with_recursion_limit", "with_options", "with_tokens_with_locations", "with_tokens", "try_with_sql",
    "next_token", "next_token_no_skip", "prev_token", "parse_keywords", "consume_tokens", "maybe_parse",
    "with_state", "parse_projection",
];

fn short(ts: impl ToTokens) -> String {
    let s = ts.to_token_stream().to_string();
    let s: String = s.split_whitespace().collect::<Vec<_>>().join(" ");
    if s.len() > 140 {
        let mut k = 140;
        while !s.is_char_boundary(k) { k -= 1; }
        format!("{}…", &s[..k])
    } else { s }
}
fn has_cfg_test(attrs: &[syn::Attribute]) -> bool {
    attrs.iter().any(|a| {
        let s = a.to_token_stream().to_string().replace(' ', "");
        s.contains("cfg(test)") || s == "#[test]"
    })
}
/// `root.a.b.c` -> Some(["a","b","c"]) when the root is a plain identifier
fn field_chain(e: &syn::Expr) -> Option<Vec<String>> {
    match e {
        syn::Expr::Field(f) => {
            let m = match &f.member { syn::Member::Named(i) => i.to_string(), syn::Member::Unnamed(i) => i.index.to_string() };
            match &*f.base {
                syn::Expr::Path(_) => Some(vec![m]),
                b => field_chain(b).map(|mut v| { v.push(m); v }),
            }
        }
        syn::Expr::Paren(p) => field_chain(&p.expr),
        _ => None,
    }
}
fn is_state_chain(c: &[String]) -> bool {
    c.first().map(|f| STATE_FIELDS.contains(&f.as_str())).unwrap_or(false)
}

#[derive(Clone)]
struct Item { file: String, func: String, kind: String, detail: String, text: String, line: usize, extra: Value }

struct V {
    file: String,
    func: String,
    in_dialect_impl: bool,
    items: Vec<Item>,
    dialect_of_uses: usize,
    /// local variables of the current function bound to a located token (`let t = self.peek_token()`)
    twl_locals: std::collections::HashSet<String>,
}
/// methods of Parser that return a TokenWithLocation
const TWL_CALLS: &[&str] = &["peek_token", "next_token", "peek_nth_token", "peek_token_no_skip", "next_token_no_skip"];
impl V {
    /// does this expression denote a located token (as opposed to a bare Token)?  `==` between two of them is the
    /// derived PartialEq of TokenWithLocation, which compares the location too
    fn is_twl(&self, e: &syn::Expr) -> bool {
        match e {
            syn::Expr::Paren(p) => self.is_twl(&p.expr),
            syn::Expr::Group(p) => self.is_twl(&p.expr),
            syn::Expr::Reference(r) => self.is_twl(&r.expr),
            syn::Expr::Unary(u) => matches!(u.op, syn::UnOp::Deref(_)) && self.is_twl(&u.expr),
            syn::Expr::MethodCall(m) => {
                let n = m.method.to_string();
                TWL_CALLS.contains(&n.as_str()) || (matches!(n.as_str(), "clone" | "to_owned" | "borrow") && self.is_twl(&m.receiver))
            }
            syn::Expr::Path(p) => p.path.get_ident().map(|i| self.twl_locals.contains(&i.to_string())).unwrap_or(false),
            _ => false,
        }
    }
    fn push(&mut self, kind: &str, detail: &str, text: String, line: usize, extra: Value) {
        self.items.push(Item { file: self.file.clone(), func: self.func.clone(), kind: kind.into(), detail: detail.into(), text, line, extra });
    }
}
struct EarlyExit(bool);
impl<'ast> Visit<'ast> for EarlyExit {
    fn visit_expr_try(&mut self, _e: &'ast syn::ExprTry) { self.0 = true; }
    fn visit_expr_return(&mut self, _e: &'ast syn::ExprReturn) { self.0 = true; }
    fn visit_expr_closure(&mut self, _e: &'ast syn::ExprClosure) {}
    fn visit_macro(&mut self, m: &'ast syn::Macro) {
        let s = m.tokens.to_string();
        if s.contains('?') || s.contains("return") { self.0 = true; }
    }
}
fn stmt_has_early_exit(s: &syn::Stmt) -> bool {
    let mut v = EarlyExit(false);
    v.visit_stmt(s);
    v.0
}
fn tokens_count(ts: TokenStream, pred: &dyn Fn(&[TokenTree], usize) -> bool) -> usize {
    let v: Vec<TokenTree> = ts.into_iter().collect();
    let mut n = 0;
    for i in 0..v.len() {
        if pred(&v, i) { n += 1; }
        if let TokenTree::Group(g) = &v[i] { n += tokens_count(g.stream(), pred); }
    }
    n
}
fn line_of(e: &impl syn::spanned::Spanned) -> usize { e.span().start().line }

impl<'ast> Visit<'ast> for V {
    fn visit_item_mod(&mut self, m: &'ast syn::ItemMod) {
        if has_cfg_test(&m.attrs) || m.ident == "tests" || m.ident == "recursion" || m.ident == "verif_hooks" { return; }
        visit::visit_item_mod(self, m);
    }
    fn visit_item_impl(&mut self, i: &'ast syn::ItemImpl) {
        let was = self.in_dialect_impl;
        if let Some((_, p, _)) = &i.trait_ {
            if p.segments.last().map(|s| s.ident == "Dialect").unwrap_or(false) { self.in_dialect_impl = true; }
        }
        visit::visit_item_impl(self, i);
        self.in_dialect_impl = was;
    }
    fn visit_item_fn(&mut self, f: &'ast syn::ItemFn) {
        if has_cfg_test(&f.attrs) { return; }
        let old = std::mem::replace(&mut self.func, f.sig.ident.to_string());
        self.twl_locals.clear();
        visit::visit_item_fn(self, f);
        self.func = old;
    }
    fn visit_impl_item_fn(&mut self, f: &'ast syn::ImplItemFn) {
        if has_cfg_test(&f.attrs) { return; }
        let old = std::mem::replace(&mut self.func, f.sig.ident.to_string());
        self.twl_locals.clear();
        visit::visit_impl_item_fn(self, f);
        self.func = old;
    }
    fn visit_trait_item_fn(&mut self, f: &'ast syn::TraitItemFn) {
        let old = std::mem::replace(&mut self.func, f.sig.ident.to_string());
        visit::visit_trait_item_fn(self, f);
        self.func = old;
    }
    fn visit_expr_assign(&mut self, e: &'ast syn::ExprAssign) {
        if let Some(c) = field_chain(&e.left) {
            if is_state_chain(&c) {
                self.push("write", &c.join("."), short(e), line_of(e), json!({"how":"assign","rhs":short(&e.right)}));
            }
        }
        visit::visit_expr_assign(self, e);
    }
    fn visit_expr_binary(&mut self, e: &'ast syn::ExprBinary) {
        use syn::BinOp::*;
        if matches!(e.op, AddAssign(_) | SubAssign(_) | MulAssign(_) | DivAssign(_) | RemAssign(_) | BitXorAssign(_) | BitAndAssign(_) | BitOrAssign(_) | ShlAssign(_) | ShrAssign(_)) {
            if let Some(c) = field_chain(&e.left) {
                if is_state_chain(&c) {
                    self.push("write", &c.join("."), short(e), line_of(e), json!({"how":"op-assign"}));
                }
            }
        }
        if matches!(e.op, Eq(_) | Ne(_)) && self.is_twl(&e.left) && self.is_twl(&e.right) {
            self.push("location", "compare", short(e), line_of(e), json!({"how": "TokenWithLocation == TokenWithLocation"}));
        }
        visit::visit_expr_binary(self, e);
    }
    fn visit_local(&mut self, l: &'ast syn::Local) {
        if let (syn::Pat::Ident(pi), Some(init)) = (&l.pat, &l.init) {
            if self.is_twl(&init.expr) { self.twl_locals.insert(pi.ident.to_string()); }
        }
        visit::visit_local(self, l);
    }
    fn visit_expr_reference(&mut self, e: &'ast syn::ExprReference) {
        if e.mutability.is_some() {
            if let Some(c) = field_chain(&e.expr) {
                if is_state_chain(&c) {
                    self.push("write", &c.join("."), short(e), line_of(e), json!({"how":"&mut"}));
                }
            }
        }
        visit::visit_expr_reference(self, e);
    }
    fn visit_expr_method_call(&mut self, e: &'ast syn::ExprMethodCall) {
        let m = e.method.to_string();
        if let Some(c) = field_chain(&e.receiver) {
            if is_state_chain(&c) && matches!(m.as_str(), "push" | "pop" | "clear" | "truncate" | "insert" | "remove" | "extend" | "set" | "swap" | "drain" | "retain" | "replace" | "take" | "append" | "sort" | "reverse" | "iter_mut" | "get_mut" | "last_mut" | "first_mut") {
                self.push("write", &c.join("."), short(e), line_of(e), json!({"how": format!(".{}()", m)}));
            }
        }
        if matches!(m.as_str(), "type_id" | "downcast_ref" | "downcast" | "downcast_mut") {
            self.push("identity", &m, short(e), line_of(e), json!({}));
        }
        visit::visit_expr_method_call(self, e);
    }
    fn visit_expr_field(&mut self, e: &'ast syn::ExprField) {
        if let syn::Member::Named(i) = &e.member {
            if i == "location" {
                self.push("location", "-", short(e), line_of(e), json!({}));
            }
        }
        visit::visit_expr_field(self, e);
    }
    fn visit_path(&mut self, p: &'ast syn::Path) {
        let segs: Vec<String> = p.segments.iter().map(|s| s.ident.to_string()).collect();
        let last = segs.last().cloned().unwrap_or_default();
        let prev = if segs.len() >= 2 { segs[segs.len() - 2].clone() } else { String::new() };
        if segs.iter().any(|s| s == "TypeId") || (last == "Any" && (segs.len() == 1 || prev == "any")) || segs.iter().any(|s| s == "any") {
            self.push("identity", &segs.join("::"), short(p), line_of(p), json!({}));
        }
        visit::visit_path(self, p);
    }
    fn visit_item_use(&mut self, u: &'ast syn::ItemUse) {
        let s = u.to_token_stream().to_string();
        if s.contains("any ::") || s.contains("TypeId") {
            self.push("identity", "use", short(u), line_of(u), json!({}));
        }
    }
    fn visit_expr_struct(&mut self, e: &'ast syn::ExprStruct) {
        if let Some(s) = e.path.segments.last() {
            let n = s.ident.to_string();
            if n.ends_with("Dialect") && n != "Dialect" {
                let d = self.in_dialect_impl;
                self.push("concrete_dialect", &n, short(e), line_of(e), json!({"in_dialect_impl": d}));
            }
        }
        visit::visit_expr_struct(self, e);
    }
    fn visit_macro(&mut self, m: &'ast syn::Macro) {
        let name = m.path.segments.last().map(|s| s.ident.to_string()).unwrap_or_default();
        if name == "dialect_of" { self.dialect_of_uses += 1; }
        // `.location` reads and identity tokens hidden in macro arguments
        let loc = tokens_count(m.tokens.clone(), &|v, i| matches!((&v[i], v.get(i + 1)), (TokenTree::Punct(p), Some(TokenTree::Ident(id))) if p.as_char() == '.' && id == "location"));
        for _ in 0..loc { self.push("location", "-", short(m), line_of(m), json!({"in_macro": name})); }
        let idn = tokens_count(m.tokens.clone(), &|v, i| matches!(&v[i], TokenTree::Ident(id) if id == "type_id" || id == "TypeId" || id == "downcast_ref" || id == "downcast"));
        for _ in 0..idn { self.push("identity", "macro", short(m), line_of(m), json!({"in_macro": name})); }
        if name != "dialect_of" {
            let cd = tokens_count(m.tokens.clone(), &|v, i| matches!((&v[i], v.get(i + 1)), (TokenTree::Ident(id), Some(TokenTree::Group(g)))
                if id.to_string().ends_with("Dialect") && id != "Dialect" && g.delimiter() == proc_macro2::Delimiter::Brace));
            for _ in 0..cd { self.push("concrete_dialect", "macro", short(m), line_of(m), json!({"in_dialect_impl": self.in_dialect_impl, "in_macro": name})); }
        }
    }
}

/// save / modify / restore shapes of the sticky fields, per function body block
struct Shapes { file: String, func: String, out: Vec<Value> }
impl Shapes {
    fn scan_block(&mut self, b: &syn::Block) {
        // saved[local] = field path
        let mut saved: BTreeMap<String, (String, usize)> = BTreeMap::new();
        let mut modified: BTreeMap<String, usize> = BTreeMap::new();
        for (i, st) in b.stmts.iter().enumerate() {
            if let syn::Stmt::Local(l) = st {
                if let (syn::Pat::Ident(id), Some(init)) = (&l.pat, &l.init) {
                    if let Some(c) = field_chain(&init.expr) {
                        if STICKY.contains(&c[0].as_str()) { saved.insert(id.ident.to_string(), (c.join("."), i)); }
                    }
                }
            }
            let (lhs, rhs): (Option<Vec<String>>, Option<&syn::Expr>) = match st {
                syn::Stmt::Expr(syn::Expr::Assign(a), _) => (field_chain(&a.left), Some(&a.right)),
                syn::Stmt::Expr(syn::Expr::Binary(bn), _) => (field_chain(&bn.left), None),
                _ => (None, None),
            };
            if let Some(c) = lhs {
                if !STICKY.contains(&c[0].as_str()) { continue; }
                let path = c.join(".");
                let restoring = match rhs {
                    Some(syn::Expr::Path(p)) => p.path.get_ident().and_then(|id| saved.get(&id.to_string())).filter(|(f, _)| *f == path).map(|x| x.1),
                    _ => None,
                };
                match restoring {
                    Some(_) => {
                        let from = modified.get(&path).copied();
                        let early = match from {
                            Some(j) => b.stmts[j + 1..i].iter().any(stmt_has_early_exit) || stmt_has_early_exit(&b.stmts[j]),
                            None => false,
                        };
                        self.out.push(json!({"fn": format!("{}:{}", self.file, self.func), "field": path,
                            "shape": if from.is_some() {"save-modify-restore"} else {"restore-without-modify"}, "early_exit_between": early}));
                        modified.remove(&path);
                    }
                    None => { modified.insert(path, i); }
                }
            }
        }
        for (path, _) in modified {
            self.out.push(json!({"fn": format!("{}:{}", self.file, self.func), "field": path, "shape": "write-without-restore", "early_exit_between": false}));
        }
    }
}
impl<'ast> Visit<'ast> for Shapes {
    fn visit_item_mod(&mut self, m: &'ast syn::ItemMod) {
        if has_cfg_test(&m.attrs) || m.ident == "tests" || m.ident == "recursion" || m.ident == "verif_hooks" { return; }
        visit::visit_item_mod(self, m);
    }
    fn visit_impl_item_fn(&mut self, f: &'ast syn::ImplItemFn) {
        if has_cfg_test(&f.attrs) { return; }
        let old = std::mem::replace(&mut self.func, f.sig.ident.to_string());
        visit::visit_impl_item_fn(self, f);
        self.func = old;
    }
    fn visit_block(&mut self, b: &'ast syn::Block) {
        self.scan_block(b);
        visit::visit_block(self, b);
    }
}

pub fn inventory(repo: &str) -> Value {
    let mut files: Vec<std::path::PathBuf> = vec![];
    for d in ["src/parser", "src/dialect"] {
        if let Ok(rd) = std::fs::read_dir(format!("{repo}/{d}")) {
            for e in rd.flatten() {
                let p = e.path();
                if p.extension().map(|x| x == "rs").unwrap_or(false) { files.push(p); }
            }
        }
    }
    files.push(format!("{repo}/src/tokenizer.rs").into());
    files.sort();
    let mut items: Vec<Item> = vec![];
    let mut shapes = vec![];
    let mut unparsed = vec![];
    let mut dialect_of_uses = 0;
    let mut trait_methods: Vec<String> = vec![];
    let mut macro_through_is = false;
    for f in &files {
        let src = std::fs::read_to_string(f).unwrap_or_default();
        let stem = format!("{}/{}", f.parent().unwrap().file_name().unwrap().to_string_lossy(), f.file_stem().unwrap().to_string_lossy());
        match syn::parse_file(&src) {
            Ok(file) => {
                let mut v = V { file: stem.clone(), func: "<module>".into(), in_dialect_impl: false, items: vec![], dialect_of_uses: 0, twl_locals: Default::default() };
                v.visit_file(&file);
                items.extend(v.items);
                dialect_of_uses += v.dialect_of_uses;
                let mut s = Shapes { file: stem.clone(), func: "<module>".into(), out: vec![] };
                s.visit_file(&file);
                shapes.extend(s.out);
                if stem == "dialect/mod" {
                    for it in &file.items {
                        match it {
                            syn::Item::Trait(t) if t.ident == "Dialect" => {
                                for ti in &t.items { if let syn::TraitItem::Fn(m) = ti { trait_methods.push(m.sig.ident.to_string()); } }
                            }
                            syn::Item::Macro(m) => {
                                if m.ident.as_ref().map(|i| i == "dialect_of").unwrap_or(false) {
                                    macro_through_is = m.mac.tokens.to_string().replace(' ', "").contains(".dialect.is::<");
                                }
                            }
                            _ => {}
                        }
                    }
                }
            }
            Err(e) => unparsed.push(format!("{}: {}", f.display(), e)),
        }
    }
    let mut counts: BTreeMap<String, usize> = BTreeMap::new();
    let mut out = vec![];
    for it in &items {
        let base = format!("{}:{}/{}/{}", it.file, it.func, it.kind, it.detail);
        let n = counts.entry(base.clone()).or_insert(0);
        let key = format!("{}#{}", base, *n);
        *n += 1;
        out.push(json!({"key": key, "file": it.file, "fn": it.func, "kind": it.kind, "detail": it.detail, "text": it.text, "line": it.line,
                        "modelled": it.file == "parser/mod" && MODELLED.contains(&it.func.as_str()), "extra": it.extra}));
    }
    json!({"files": files.iter().map(|f| f.display().to_string()).collect::<Vec<_>>(), "unparsed": unparsed, "items": out, "shapes": shapes,
           "dialect_of_uses": dialect_of_uses, "dialect_of_through_is": macro_through_is, "trait_methods": trait_methods})
}
