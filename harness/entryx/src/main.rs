//! entryx — harness of C14 (entry points agree) and C15 (dialect only through its interface).
//!   entryx routes|subparsers|reuse|wrapped < cases     entryx inv <repo>     entryx methods
mod c14;
mod c15;
mod inv;
mod util;
mod wrapper;
use vh::*;

fn main() {
    quiet_panics();
    let args: Vec<String> = std::env::args().collect();
    match args.get(1).map(|s| s.as_str()).unwrap_or("") {
        "routes" => for_each_case(c14::routes),
        "subparsers" => for_each_case(c14::subparsers),
        "reuse" => for_each_case(c14::reuse),
        "wrapped" => for_each_case(c15::wrapped),
        "methods" => println!("{}", c15::methods()),
        "identity" => println!("{}", c15::identity()),
        "inv" => println!("{}", inv::inventory(args.get(2).map(|s| s.as_str()).unwrap_or("/repo"))),
        _ => {
            eprintln!("usage: entryx routes|subparsers|reuse|wrapped|methods|inv");
            std::process::exit(2);
        }
    }
}
