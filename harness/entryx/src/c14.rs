//! C14: all public entry points agree; sub-parsers standalone vs embedded; reuse histories.
use crate::util::*;
use serde_json::{json, Value};
use sqlparser::ast::{self, Expr, SelectItem, SetExpr, Statement, TableFactor};
use sqlparser::dialect::Dialect;
use sqlparser::parser::{Parser, ParserError, ParserOptions};
use sqlparser::tokenizer::{Token, TokenWithLocation, Tokenizer};
use std::ops::ControlFlow;
use vh::*;

fn options(d: &dyn Dialect, c: &Value) -> ParserOptions {
    let tc = c["tc"].as_bool().unwrap_or_else(|| d.supports_trailing_commas());
    ParserOptions::new().with_trailing_commas(tc).with_unescape(c["unescape"].as_bool().unwrap_or(true))
}
fn limit(c: &Value) -> usize {
    c["limit"].as_u64().unwrap_or(50) as usize
}
fn configured<'a>(d: &'a dyn Dialect, c: &Value) -> Parser<'a> {
    Parser::new(d).with_options(options(d, c)).with_recursion_limit(limit(c))
}

/// Four routes on the same text.
pub fn routes(c: &Value) -> Value {
    let sql = c["sql"].as_str().unwrap();
    let d = dialect_by_name(c["dialect"].as_str().unwrap());
    let d = d.as_ref();
    let mut viol = vec![];
    // R1 vs R2: the convenience function = explicit route with the defaults of the dialect
    let r1: SOut = guarded(|| Parser::parse_sql(d, sql));
    let r2: SOut = guarded(|| {
        Parser::new(d)
            .with_options(ParserOptions::new().with_trailing_commas(d.supports_trailing_commas()).with_unescape(true))
            .with_recursion_limit(50)
            .try_with_sql(sql)?
            .parse_statements()
    });
    let r2b: SOut = guarded(|| Parser::new(d).try_with_sql(sql)?.parse_statements());
    if r1 != r2 {
        viol.push(json!({"what":"parse_sql vs explicit default route","observed":show_stmts(&r1),"expected":show_stmts(&r2)}));
    }
    if r1 != r2b {
        viol.push(json!({"what":"parse_sql vs Parser::new(d).try_with_sql(s)?.parse_statements()","observed":show_stmts(&r1),"expected":show_stmts(&r2b)}));
    }
    // configured routes
    let e1: SOut = guarded(|| configured(d, c).try_with_sql(sql)?.parse_statements());
    let toks: Result<Vec<TokenWithLocation>, ParserError> = Tokenizer::new(d, sql)
        .with_unescape(c["unescape"].as_bool().unwrap_or(true))
        .tokenize_with_location()
        .map_err(ParserError::from);
    let e3: SOut = guarded(|| configured(d, c).with_tokens_with_locations(toks.clone()?).parse_statements());
    let e4: SOut = guarded(|| {
        configured(d, c).with_tokens(toks.clone()?.into_iter().map(|t| t.token).collect()).parse_statements()
    });
    if e1 != e3 {
        viol.push(json!({"what":"try_with_sql vs with_tokens_with_locations","observed":show_stmts(&e3),"expected":show_stmts(&e1)}));
    }
    if !same_up_to_position(&e3, &e4) {
        viol.push(json!({"what":"with_tokens (no locations) vs with_tokens_with_locations","observed":show_stmts(&e4),"expected":show_stmts(&e3)}));
    }
    // options order must not matter
    let e5: SOut = guarded(|| {
        Parser::new(d).with_recursion_limit(limit(c)).with_options(options(d, c)).try_with_sql(sql)?.parse_statements()
    });
    if e1 != e5 {
        viol.push(json!({"what":"with_options/with_recursion_limit order","observed":show_stmts(&e5),"expected":show_stmts(&e1)}));
    }
    json!({"status": if viol.is_empty() {"ok"} else {"violation"}, "class": e1.class(), "default_class": r1.class(),
           "differs_from_default": e1 != r1, "viol": viol})
}

fn first_projection_expr(v: &[Statement]) -> Option<Expr> {
    if let Some(Statement::Query(q)) = v.first() {
        if let SetExpr::Select(s) = &*q.body {
            if s.projection.len() == 1 {
                if let SelectItem::UnnamedExpr(e) = &s.projection[0] {
                    return Some(e.clone());
                }
            }
        }
    }
    None
}
/// the second item of `SELECT 0, <e> FROM t` (the first position is not neutral: ALL / DISTINCT / TOP there
/// belong to the SELECT head)
fn second_projection_expr(v: &[Statement]) -> Option<Expr> {
    if let Some(Statement::Query(q)) = v.first() {
        if let SetExpr::Select(s) = &*q.body {
            if s.projection.len() == 2 {
                if let SelectItem::UnnamedExpr(e) = &s.projection[1] {
                    return Some(e.clone());
                }
            }
        }
    }
    None
}
fn starts_with_reserved(d: &dyn sqlparser::dialect::Dialect, e: &str) -> bool {
    match Tokenizer::new(d, e).tokenize() {
        Ok(toks) => match toks.iter().find(|t| !matches!(t, Token::Whitespace(_))) {
            Some(Token::Word(w)) => w.quote_style.is_none() && sqlparser::keywords::RESERVED_FOR_COLUMN_ALIAS.contains(&w.keyword),
            _ => false,
        },
        Err(_) => false,
    }
}
fn selection_expr(v: &[Statement]) -> Option<Expr> {
    if let Some(Statement::Query(q)) = v.first() {
        if let SetExpr::Select(s) = &*q.body {
            return s.selection.clone();
        }
    }
    None
}
fn first_relation(v: &[Statement]) -> Option<ast::ObjectName> {
    if let Some(Statement::Query(q)) = v.first() {
        if let SetExpr::Select(s) = &*q.body {
            if let Some(t) = s.from.first() {
                if let TableFactor::Table { name, .. } = &t.relation {
                    return Some(name.clone());
                }
            }
        }
    }
    None
}

/// Sub-parsers standalone vs the subtree harvested from a statement embedding the same text.
pub fn subparsers(c: &Value) -> Value {
    let sql = c["sql"].as_str().unwrap();
    let dn = c["dialect"].as_str().unwrap();
    let d = dialect_by_name(dn);
    let d = d.as_ref();
    let stmts = match guarded(|| Parser::parse_sql(d, sql)) {
        Out::Ok(v) => v,
        _ => return json!({"status":"skip"}),
    };
    let max = c["max"].as_u64().unwrap_or(6) as usize;
    let mut exprs: Vec<String> = vec![];
    let mut types: Vec<String> = vec![];
    let mut names: Vec<String> = vec![];
    let _ = ast::visit_expressions(&stmts, |e: &Expr| {
        let s = e.to_string();
        if s.len() < 200 && !exprs.contains(&s) && exprs.len() < max {
            exprs.push(s);
        }
        if let Expr::Cast { data_type, .. } = e {
            let t = data_type.to_string();
            if !types.contains(&t) && types.len() < max {
                types.push(t);
            }
        }
        ControlFlow::<()>::Continue(())
    });
    let _ = ast::visit_relations(&stmts, |n: &ast::ObjectName| {
        let s = n.to_string();
        if !names.contains(&s) && names.len() < max {
            names.push(s);
        }
        ControlFlow::<()>::Continue(())
    });
    if let Some(extra) = c["exprs"].as_array() {
        exprs.extend(extra.iter().filter_map(|x| x.as_str().map(String::from)));
    }
    if let Some(extra) = c["types"].as_array() {
        types.extend(extra.iter().filter_map(|x| x.as_str().map(String::from)));
    }
    let mut viol = vec![];
    let (mut ne, mut nt, mut nn) = (0, 0, 0);
    for e in &exprs {
        let alone = guarded(|| {
            let mut p = Parser::new(d).try_with_sql(e)?;
            let x = p.parse_expr()?;
            Ok((x, p.peek_token().token))
        });
        let (x, rest) = match alone {
            Out::Ok(v) => v,
            _ => continue,
        };
        if rest != Token::EOF {
            continue; // the printed text is not ONE expression for the standalone parser
        }
        ne += 1;
        for (tpl, text, harvest) in [
            ("SELECT 0, {e} FROM t", format!("SELECT 0, {e} FROM t"), second_projection_expr as fn(&[Statement]) -> Option<Expr>),
            ("SELECT 1 FROM t WHERE {e}", format!("SELECT 1 FROM t WHERE {e}"), selection_expr),
            ("SELECT ({e})", format!("SELECT ({e})"), |v: &[Statement]| match first_projection_expr(v) { Some(Expr::Nested(b)) => Some(*b), o => o }),
        ] {
            // the list position is not neutral for an expression that starts with a word reserved as a column
            // alias (OFFSET(2), ALL, ...): after a comma such a word ends a projection with a trailing comma
            if tpl.starts_with("SELECT 0,") && starts_with_reserved(d, e) {
                continue;
            }
            let emb = guarded(|| Parser::parse_sql(d, &text));
            let got = match &emb { Out::Ok(v) => harvest(v), _ => None };
            if got.as_ref() != Some(&x) {
                viol.push(json!({"what":"expr","template":tpl,"text":text,"sub":e,
                    "observed": match &got { Some(g) => abbreviate(format!("{:?}", g)), None => show_stmts(&emb) },
                    "expected": abbreviate(format!("{:?}", x))}));
            }
        }
    }
    for t in &types {
        let alone = guarded(|| {
            let mut p = Parser::new(d).try_with_sql(t)?;
            let x = p.parse_data_type()?;
            Ok((x, p.peek_token().token))
        });
        let (x, rest) = match alone { Out::Ok(v) => v, _ => continue };
        if rest != Token::EOF { continue; }
        nt += 1;
        let text = format!("SELECT CAST(x AS {t})");
        let emb = guarded(|| Parser::parse_sql(d, &text));
        let got = match &emb {
            Out::Ok(v) => match first_projection_expr(v) { Some(Expr::Cast { data_type, .. }) => Some(data_type), _ => None },
            _ => None,
        };
        if got.as_ref() != Some(&x) {
            viol.push(json!({"what":"data_type","template":"SELECT CAST(x AS {T})","text":text,"sub":t,
                "observed": match &got { Some(g) => abbreviate(format!("{:?}", g)), None => show_stmts(&emb) },
                "expected": abbreviate(format!("{:?}", x))}));
        }
    }
    for n in &names {
        let alone = guarded(|| {
            let mut p = Parser::new(d).try_with_sql(n)?;
            let x = p.parse_object_name(false)?;
            Ok((x, p.peek_token().token))
        });
        let (x, rest) = match alone { Out::Ok(v) => v, _ => continue };
        if rest != Token::EOF { continue; }
        nn += 1;
        // a bare keyword in FROM position may start other syntax (TABLE(..), LATERAL ..): use DROP TABLE only
        let bare_keyword = x.0.len() == 1 && x.0[0].quote_style.is_none()
            && matches!(Token::make_word(&x.0[0].value, None), Token::Word(w) if w.keyword != sqlparser::keywords::Keyword::NoKeyword);
        if !bare_keyword {
            let text = format!("SELECT * FROM {n}");
            let emb = guarded(|| Parser::parse_sql(d, &text));
            let got = match &emb { Out::Ok(v) => first_relation(v), _ => None };
            if got.as_ref() != Some(&x) {
                viol.push(json!({"what":"object_name","template":"SELECT * FROM {n}","text":text,"sub":n,
                    "observed": match &got { Some(g) => abbreviate(format!("{:?}", g)), None => show_stmts(&emb) },
                    "expected": abbreviate(format!("{:?}", x))}));
            }
        }
        let text = format!("DROP TABLE {n}");
        let emb = guarded(|| Parser::parse_sql(d, &text));
        let got = match &emb { Out::Ok(v) => match v.first() { Some(Statement::Drop { names, .. }) => names.first().cloned(), _ => None }, _ => None };
        if got.as_ref() != Some(&x) {
            viol.push(json!({"what":"object_name","template":"DROP TABLE {n}","text":text,"sub":n,
                "observed": match &got { Some(g) => abbreviate(format!("{:?}", g)), None => show_stmts(&emb) },
                "expected": abbreviate(format!("{:?}", x))}));
        }
    }
    json!({"status": if viol.is_empty() {"ok"} else {"violation"}, "exprs": ne, "types": nt, "names": nn, "viol": viol})
}

#[derive(PartialEq, Debug, Clone)]
enum Res {
    Stmts(Vec<Statement>),
    Stmt(Statement),
    Expr(Expr),
    Query(Box<ast::Query>),
    Type(ast::DataType),
}

fn call(p: &mut Parser, op: &str) -> Result<Res, ParserError> {
    match op {
        "statement" => p.parse_statement().map(Res::Stmt),
        "expr" => p.parse_expr().map(Res::Expr),
        "query" => p.parse_query().map(|q| Res::Query(Box::new(q))),
        "data_type" => p.parse_data_type().map(Res::Type),
        _ => p.parse_statements().map(Res::Stmts),
    }
}

fn retarget<'a>(p: Parser<'a>, via: &str, text: &str, toks: &[TokenWithLocation]) -> Result<Parser<'a>, ParserError> {
    Ok(match via {
        "sql" => p.try_with_sql(text)?,
        "tokens" => p.with_tokens(toks.iter().map(|t| t.token.clone()).collect()),
        _ => p.with_tokens_with_locations(toks.to_vec()),
    })
}

/// One Parser value re-targeted over a history of texts vs a fresh parser per text; parser
/// state observed through the cfg(sqlparser_verif) hooks after every call.
pub fn reuse(c: &Value) -> Value {
    let d = dialect_by_name(c["dialect"].as_str().unwrap());
    let d = d.as_ref();
    let texts: Vec<&str> = c["texts"].as_array().unwrap().iter().map(|t| t.as_str().unwrap()).collect();
    let ops: Vec<&str> = c["ops"].as_array().map(|a| a.iter().map(|t| t.as_str().unwrap()).collect()).unwrap_or_default();
    let vias: Vec<&str> = c["vias"].as_array().map(|a| a.iter().map(|t| t.as_str().unwrap()).collect()).unwrap_or_default();
    let opts = options(d, c);
    let lim = limit(c);
    let mut reused = Some(configured(d, c));
    let mut viol = vec![];
    let mut steps = vec![];
    for (i, text) in texts.iter().enumerate() {
        let op = ops.get(i).copied().unwrap_or("statements");
        let toks = match Tokenizer::new(d, text).with_unescape(opts.unescape).tokenize_with_location() {
            Ok(t) => t,
            Err(_) => { steps.push(json!([i, "lex-error-skipped"])); continue; }
        };
        // the entry point through which the parser is (re-)targeted at this step
        let via = vias.get(i).copied().unwrap_or("tokens_loc");
        let fresh: Out<Res> = guarded(|| {
            let mut p = retarget(configured(d, c), via, text, &toks)?;
            call(&mut p, op)
        });
        let mut p = match retarget(reused.take().unwrap(), via, text, &toks) {
            Ok(p) => p,
            Err(e) => {
                viol.push(json!({"what":"re-targeting a used parser failed although the text lexes","step":i,"via":via,"text":text,"observed":e.to_string()}));
                break;
            }
        };
        #[cfg(sqlparser_verif)]
        {
            if p.verif_index() != 0 {
                viol.push(json!({"what":"re-targeting did not reset the index","step":i,"via":via,"text":text,"observed":p.verif_index(),"expected":0}));
            }
        }
        let got: Out<Res> = guarded(|| call(&mut p, op));
        steps.push(json!([i, op, got.class()]));
        if got != fresh {
            viol.push(json!({"what":"re-targeted parser differs from a fresh parser","step":i,"op":op,"via":via,"text":text,
                "observed":got.show(),"expected":fresh.show()}));
        }
        if let Out::Panic(_) = got {
            break; // the parser value is abandoned after a panic
        }
        #[cfg(sqlparser_verif)]
        {
            let st = (p.verif_state_is_normal(), p.verif_trailing_commas(), p.verif_remaining_depth());
            let want = (true, opts.trailing_commas, lim);
            if st != want {
                viol.push(json!({"what":"parser state not restored after a public call returned","step":i,"op":op,"text":text,"outcome":got.class(),
                    "observed":format!("state_is_normal={} trailing_commas={} remaining_depth={}", st.0, st.1, st.2),
                    "expected":format!("state_is_normal={} trailing_commas={} remaining_depth={}", want.0, want.1, want.2)}));
            }
        }
        reused = Some(p);
    }
    json!({"status": if viol.is_empty() {"ok"} else {"violation"}, "steps": steps, "viol": viol,
           "hooks": cfg!(sqlparser_verif)})
}
