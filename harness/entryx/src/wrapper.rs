//! The forwarding wrapper dialect (generated at build time, see build.rs).
#![allow(unused_imports, clippy::all)]
use core::iter::Peekable;
use core::str::Chars;
use sqlparser::ast::*;
use sqlparser::dialect::*;
use sqlparser::keywords::*;
use sqlparser::parser::*;
use sqlparser::tokenizer::*;
use std::any::TypeId;
include!(concat!(env!("OUT_DIR"), "/wrapper.rs"));
