//! C15: parse and tokenize through the generated forwarding wrapper vs the built-in dialect.
use crate::util::*;
use crate::wrapper::{Wrapped, FORWARDED_METHODS};
use serde_json::{json, Value};
use sqlparser::parser::{Parser, ParserError};
use sqlparser::tokenizer::{TokenWithLocation, Tokenizer};
use vh::*;

fn tokens(d: &dyn sqlparser::dialect::Dialect, sql: &str) -> Out<Vec<TokenWithLocation>> {
    guarded(|| Tokenizer::new(d, sql).tokenize_with_location().map_err(ParserError::from))
}

pub fn wrapped(c: &Value) -> Value {
    let sql = c["sql"].as_str().unwrap();
    let dn = c["dialect"].as_str().unwrap();
    let builtin = dialect_by_name(dn);
    let same_id = Wrapped { inner: dialect_by_name(dn), own_identity: false };
    let own_id = Wrapped { inner: dialect_by_name(dn), own_identity: true };
    let mut viol = vec![];
    let t0 = tokens(builtin.as_ref(), sql);
    let t1 = tokens(&same_id, sql);
    if t0 != t1 {
        viol.push(json!({"what":"tokenize","observed":t1.show(),"expected":t0.show()}));
    }
    let p0: SOut = guarded(|| Parser::parse_sql(builtin.as_ref(), sql));
    let p1: SOut = guarded(|| Parser::parse_sql(&same_id, sql));
    if p0 != p1 {
        viol.push(json!({"what":"parse","observed":show_stmts(&p1),"expected":show_stmts(&p0)}));
    }
    // own identity: any result, but no panic (unless the built-in panics as well)
    let t2 = tokens(&own_id, sql);
    let p2: SOut = guarded(|| Parser::parse_sql(&own_id, sql));
    if let (Out::Panic(m), false) = (&t2, matches!(t0, Out::Panic(_))) {
        viol.push(json!({"what":"own-identity tokenize panics","observed":m,"expected":"no panic"}));
    }
    if let (Out::Panic(m), false) = (&p2, matches!(p0, Out::Panic(_))) {
        viol.push(json!({"what":"own-identity parse panics","observed":m,"expected":"no panic"}));
    }
    json!({"status": if viol.is_empty() {"ok"} else {"violation"}, "class": p0.class(),
           "own_identity_differs": p2 != p0, "own_class": p2.class(), "viol": viol})
}

pub fn methods() -> Value {
    json!({"forwarded": FORWARDED_METHODS.to_vec()})
}

/// `<dyn Dialect>::is::<T>()` for the built-in, the identity-forwarding wrapper and the
/// own-identity wrapper, against every built-in type and the wrapper type itself.
pub fn identity() -> Value {
    use sqlparser::dialect::*;
    macro_rules! row {
        ($d:expr, $($t:ty),*) => { vec![$($d.is::<$t>()),*] };
    }
    let mut rows = vec![];
    for n in DIALECT_NAMES {
        let b = dialect_by_name(n);
        let w: Box<dyn Dialect> = Box::new(Wrapped { inner: dialect_by_name(n), own_identity: false });
        let o: Box<dyn Dialect> = Box::new(Wrapped { inner: dialect_by_name(n), own_identity: true });
        let f = |d: &dyn Dialect| row!(d, GenericDialect, AnsiDialect, BigQueryDialect, ClickHouseDialect, DatabricksDialect, DuckDbDialect,
            HiveDialect, MsSqlDialect, MySqlDialect, PostgreSqlDialect, RedshiftSqlDialect, SnowflakeDialect, SQLiteDialect, Wrapped);
        rows.push(json!({"dialect": n, "builtin": f(b.as_ref()), "same_identity": f(w.as_ref()), "own_identity": f(o.as_ref())}));
    }
    json!({"rows": rows})
}
