//! machx — harness of the Machine.v cluster (C12, C13, C11).
//!   machx prims            < cases   primitive/combinator correspondence (public API)
//!   machx maybe_probe               how maybe_parse treats each error kind
//!   machx inv <repo>                syn-based inventories (C12 discard sites, C13 lists, C11 consumers)
//!   machx ladder|tc|script|single  < cases   sampling drivers
mod inv;
mod prims;
mod sample;
use vh::*;

fn main() {
    quiet_panics();
    let args: Vec<String> = std::env::args().collect();
    let what = args.get(1).map(|s| s.as_str()).unwrap_or("");
    match what {
        "prims" => for_each_case(prims::case),
        "maybe_probe" => println!("{}", prims::maybe_probe()),
        "inv" => println!("{}", inv::inventory(args.get(2).map(|s| s.as_str()).unwrap_or("/repo"))),
        "flags" => {
            let v: Vec<serde_json::Value> = DIALECT_NAMES.iter().map(|n| {
                let d = dialect_by_name(n);
                serde_json::json!({"dialect": n, "trailing_commas": d.supports_trailing_commas(),
                    "projection_trailing_commas": d.supports_projection_trailing_commas()})
            }).collect();
            println!("{}", serde_json::Value::Array(v));
        }
        "ladder" => for_each_case(sample::ladder),
        "tc" => for_each_case(sample::tc),
        "script" => for_each_case(sample::script),
        "single" => for_each_case(sample::single),
        "parse" => for_each_case(sample::parse),
        _ => {
            eprintln!("usage: machx prims|maybe_probe|inv|ladder|tc|script|single");
            std::process::exit(2);
        }
    }
}
