//! syn-based inventories over src/parser/*.rs and src/dialect/*.rs, keyed by shape
//! (file stem, enclosing fn, kind, head callee, ordinal) — never by line number.
//!  C12: every construct that can discard a ParserError, with a name-based over-approximation
//!       of "the discarded computation can reach a depth guard";
//!  C13: every call of the shared comma-list combinators and every hand-rolled comma loop;
//!  C11: every place that looks at EOF / `;` or advances the cursor in a bare loop.
use proc_macro2::{TokenStream, TokenTree};
use quote::ToTokens;
use serde_json::{json, Value};
use std::collections::{BTreeMap, BTreeSet};
use syn::visit::{self, Visit};

struct FnInfo {
    file: String,
    name: String,
    returns_result: bool,
    calls: BTreeSet<String>,
    guarded: bool,
    block: syn::Block,
}

fn has_cfg_test(attrs: &[syn::Attribute]) -> bool {
    attrs.iter().any(|a| {
        let s = a.to_token_stream().to_string().replace(' ', "");
        s.contains("cfg(test)") || s == "#[test]"
    })
}

fn macro_call_names(ts: TokenStream, out: &mut BTreeSet<String>) {
    let v: Vec<TokenTree> = ts.into_iter().collect();
    for i in 0..v.len() {
        match &v[i] {
            TokenTree::Ident(id) => {
                if let Some(TokenTree::Group(g)) = v.get(i + 1) {
                    if g.delimiter() == proc_macro2::Delimiter::Parenthesis {
                        out.insert(id.to_string());
                    }
                }
                // function references such as Parser::parse_expr
                let s = id.to_string();
                if s.starts_with("parse_") || s.starts_with("try_parse") {
                    out.insert(s);
                }
            }
            TokenTree::Group(g) => macro_call_names(g.stream(), out),
            _ => {}
        }
    }
}

/// names called (method calls, path calls, function references, calls inside macros)
struct Calls(BTreeSet<String>);
impl<'ast> Visit<'ast> for Calls {
    fn visit_expr_method_call(&mut self, e: &'ast syn::ExprMethodCall) {
        self.0.insert(e.method.to_string());
        visit::visit_expr_method_call(self, e);
    }
    fn visit_expr_path(&mut self, e: &'ast syn::ExprPath) {
        if let Some(s) = e.path.segments.last() {
            self.0.insert(s.ident.to_string());
        }
    }
    fn visit_macro(&mut self, m: &'ast syn::Macro) {
        macro_call_names(m.tokens.clone(), &mut self.0);
    }
}
/// method calls only (a local variable named `next_token` is not a call)
struct MethodCalls(BTreeSet<String>);
impl<'ast> Visit<'ast> for MethodCalls {
    fn visit_expr_method_call(&mut self, e: &'ast syn::ExprMethodCall) {
        self.0.insert(e.method.to_string());
        visit::visit_expr_method_call(self, e);
    }
    fn visit_expr_closure(&mut self, _e: &'ast syn::ExprClosure) {}
}
fn calls_of<T: ToTokens>(x: &T, parse: impl Fn(&mut Calls)) -> BTreeSet<String> {
    let _ = x;
    let mut c = Calls(BTreeSet::new());
    parse(&mut c);
    c.0
}
fn calls_of_expr(e: &syn::Expr) -> BTreeSet<String> {
    calls_of(e, |c| c.visit_expr(e))
}
/// names in source order (for the head of a key)
struct CallSeq(Vec<String>);
impl<'ast> Visit<'ast> for CallSeq {
    fn visit_expr_method_call(&mut self, e: &'ast syn::ExprMethodCall) {
        visit::visit_expr_method_call(self, e);
        self.0.push(e.method.to_string());
    }
    fn visit_expr_path(&mut self, e: &'ast syn::ExprPath) {
        if let Some(s) = e.path.segments.last() {
            self.0.push(s.ident.to_string());
        }
    }
    fn visit_macro(&mut self, m: &'ast syn::Macro) {
        let mut s = BTreeSet::new();
        macro_call_names(m.tokens.clone(), &mut s);
        self.0.extend(s);
    }
}

struct Collect {
    file: String,
    fns: Vec<FnInfo>,
}
impl Collect {
    fn add(&mut self, name: String, sig: &syn::Signature, block: &syn::Block) {
        let ret = sig.output.to_token_stream().to_string();
        let mut c = Calls(BTreeSet::new());
        c.visit_block(block);
        let guarded = c.0.contains("try_decrease");
        self.fns.push(FnInfo {
            file: self.file.clone(),
            name,
            returns_result: ret.contains("ParserError"),
            calls: c.0,
            guarded,
            block: block.clone(),
        });
    }
}
impl<'ast> Visit<'ast> for Collect {
    fn visit_item_mod(&mut self, m: &'ast syn::ItemMod) {
        if has_cfg_test(&m.attrs) || m.ident == "tests" || m.ident == "recursion" {
            return;
        }
        visit::visit_item_mod(self, m);
    }
    fn visit_item_fn(&mut self, f: &'ast syn::ItemFn) {
        if has_cfg_test(&f.attrs) {
            return;
        }
        self.add(f.sig.ident.to_string(), &f.sig, &f.block);
    }
    fn visit_impl_item_fn(&mut self, f: &'ast syn::ImplItemFn) {
        if has_cfg_test(&f.attrs) {
            return;
        }
        self.add(f.sig.ident.to_string(), &f.sig, &f.block);
    }
    fn visit_trait_item_fn(&mut self, f: &'ast syn::TraitItemFn) {
        if let Some(b) = &f.default {
            self.add(f.sig.ident.to_string(), &f.sig, b);
        }
    }
}

pub struct Site {
    pub file: String,
    pub func: String,
    pub kind: String,
    pub head: String,
    pub names: BTreeSet<String>,
    pub text: String,
    pub line: usize,
}

struct Ctx<'a> {
    result_fns: &'a BTreeSet<String>,
    file: String,
    func: String,
    loop_depth: usize,
    c12: Vec<Site>,
    c13: Vec<Site>,
    c11: Vec<Site>,
    guards: Vec<Site>,
}

fn short(ts: impl ToTokens) -> String {
    let s = ts.to_token_stream().to_string();
    let s: String = s.split_whitespace().collect::<Vec<_>>().join(" ");
    if s.len() > 160 {
        let mut k = 160;
        while !s.is_char_boundary(k) {
            k -= 1;
        }
        format!("{}…", &s[..k])
    } else {
        s
    }
}

fn line_of(e: &impl syn::spanned::Spanned) -> usize {
    e.span().start().line
}

impl<'a> Ctx<'a> {
    /// Is `e` (syntactically) a parser Result value?
    fn is_result_expr(&self, e: &syn::Expr) -> bool {
        match e {
            syn::Expr::MethodCall(m) => {
                let n = m.method.to_string();
                if self.result_fns.contains(&n) {
                    return true;
                }
                matches!(n.as_str(), "map" | "and_then" | "map_err" | "or_else") && self.is_result_expr(&m.receiver)
            }
            syn::Expr::Call(c) => {
                if let syn::Expr::Path(p) = &*c.func {
                    if let Some(s) = p.path.segments.last() {
                        return self.result_fns.contains(&s.ident.to_string());
                    }
                }
                false
            }
            syn::Expr::Paren(p) => self.is_result_expr(&p.expr),
            syn::Expr::Reference(r) => self.is_result_expr(&r.expr),
            _ => false,
        }
    }
    fn mentions_result_fn(&self, e: &syn::Expr) -> bool {
        calls_of_expr(e).iter().any(|n| self.result_fns.contains(n))
    }
    fn head(&self, e: &syn::Expr) -> String {
        let mut s = CallSeq(vec![]);
        s.visit_expr(e);
        s.0.into_iter()
            .find(|n| self.result_fns.contains(n) && n != "maybe_parse")
            .unwrap_or_else(|| "-".into())
    }
    fn site(&self, kind: &str, body: &syn::Expr, whole: &dyn ToTokensLine) -> Site {
        Site {
            file: self.file.clone(),
            func: self.func.clone(),
            kind: kind.into(),
            head: self.head(body),
            names: calls_of_expr(body),
            text: whole.text(),
            line: whole.line(),
        }
    }
}

impl<'a> Ctx<'a> {
    /// A loop that advances the cursor unconditionally on every iteration (a top-level statement
    /// of the loop body calls next_token directly): a potential greedy consumer.
    fn greedy(&mut self, body: &syn::Block) {
        for st in &body.stmts {
            let e: Option<&syn::Expr> = match st {
                syn::Stmt::Local(l) => l.init.as_ref().map(|i| &*i.expr),
                syn::Stmt::Expr(e, _) => Some(e),
                _ => None,
            };
            if let Some(e) = e {
                let probe: &syn::Expr = match e {
                    syn::Expr::Match(m) => &m.expr, // the scrutinee is evaluated on every iteration
                    syn::Expr::If(_) | syn::Expr::Loop(_) | syn::Expr::While(_) | syn::Expr::ForLoop(_)
                    | syn::Expr::Block(_) => continue,
                    other => other,
                };
                let mut cs = MethodCalls(BTreeSet::new());
                cs.visit_expr(probe);
                let c = cs.0;
                if c.contains("next_token") || c.contains("next_token_no_skip") {
                    self.c11.push(Site {
                        file: self.file.clone(), func: self.func.clone(), kind: "next_loop".into(), head: "-".into(),
                        names: BTreeSet::new(), text: short(e), line: line_of(e),
                    });
                }
            }
        }
    }
}

trait ToTokensLine {
    fn text(&self) -> String;
    fn line(&self) -> usize;
}
impl<T: ToTokens + syn::spanned::Spanned> ToTokensLine for T {
    fn text(&self) -> String {
        short(self)
    }
    fn line(&self) -> usize {
        line_of(self)
    }
}

fn pat_is(p: &syn::Pat, name: &str) -> bool {
    match p {
        syn::Pat::TupleStruct(t) => t.path.segments.last().map(|s| s.ident == name).unwrap_or(false),
        syn::Pat::Or(o) => o.cases.iter().any(|c| pat_is(c, name)),
        syn::Pat::Paren(q) => pat_is(&q.pat, name),
        _ => false,
    }
}
fn pat_err_wild(p: &syn::Pat) -> bool {
    match p {
        syn::Pat::TupleStruct(t) => {
            t.path.segments.last().map(|s| s.ident == "Err").unwrap_or(false)
                && t.elems.iter().all(|e| matches!(e, syn::Pat::Wild(_) | syn::Pat::Rest(_)))
        }
        syn::Pat::Wild(_) => true,
        syn::Pat::Or(o) => o.cases.iter().any(pat_err_wild),
        _ => false,
    }
}

fn tokens_mention(ts: TokenStream, name: &str) -> usize {
    let mut n = 0;
    for t in ts {
        match t {
            TokenTree::Ident(i) if i == name => n += 1,
            TokenTree::Group(g) => n += tokens_mention(g.stream(), name),
            _ => {}
        }
    }
    n
}

impl<'a, 'ast> Visit<'ast> for Ctx<'a> {
    fn visit_expr_method_call(&mut self, e: &'ast syn::ExprMethodCall) {
        let m = e.method.to_string();
        let whole = syn::Expr::MethodCall(e.clone());
        match m.as_str() {
            "maybe_parse" => {
                if let Some(a) = e.args.first() {
                    let s = self.site("maybe_parse", a, &whole);
                    self.c12.push(s);
                }
            }
            "ok" | "is_ok" | "is_err" if e.args.is_empty() => {
                if self.is_result_expr(&e.receiver) || self.mentions_result_fn(&e.receiver) {
                    let s = self.site(&m, &e.receiver, &whole);
                    self.c12.push(s);
                }
            }
            "unwrap_or" | "unwrap_or_default" | "unwrap_or_else" | "map_or" | "map_or_else" | "or" | "or_else"
            | "map_err" => {
                if self.is_result_expr(&e.receiver) {
                    let s = self.site(&m, &e.receiver, &whole);
                    self.c12.push(s);
                }
            }
            "consume_token" | "expect_token" | "consume_tokens" if tokens_mention(e.args.to_token_stream(), "SemiColon") > 0 => {
                // a statement parser that consumes the separator
                let mut s = self.site("semi", &whole, &whole);
                s.head = m.clone();
                self.c11.push(s);
            }
            "try_decrease" => {
                let s = self.site("guard", &whole, &whole);
                self.guards.push(s);
            }
            "parse_comma_separated" | "parse_comma_separated0" | "parse_projection" | "parse_actions_list"
            | "parse_keyword_separated" => {
                let mut s = self.site("shared", &whole, &whole);
                s.head = m.clone();
                self.c13.push(s);
            }
            _ => {}
        }
        visit::visit_expr_method_call(self, e);
    }
    fn visit_expr_let(&mut self, e: &'ast syn::ExprLet) {
        if (pat_is(&e.pat, "Ok") || pat_is(&e.pat, "Err")) && (self.is_result_expr(&e.expr) || self.mentions_result_fn(&e.expr))
        {
            let whole = syn::Expr::Let(e.clone());
            let s = self.site("let_ok", &e.expr, &whole);
            self.c12.push(s);
        }
        visit::visit_expr_let(self, e);
    }
    fn visit_expr_match(&mut self, e: &'ast syn::ExprMatch) {
        // a match whose arm `Err(ParserError::RecursionLimitExceeded) => <re-raises it>` precedes the
        // wildcard error arm is limit-transparent: it cannot swallow the limit error
        let wild_at = e.arms.iter().position(|a| pat_err_wild(&a.pat));
        let reraise_at = e.arms.iter().position(|a| {
            tokens_mention(a.pat.to_token_stream(), "RecursionLimitExceeded") > 0
                && tokens_mention(a.pat.to_token_stream(), "Err") > 0
                && a.guard.is_none()
                && tokens_mention(a.body.to_token_stream(), "RecursionLimitExceeded") > 0
                && tokens_mention(a.body.to_token_stream(), "Err") > 0
        });
        let transparent = matches!((wild_at, reraise_at), (Some(w), Some(r)) if r < w);
        if self.is_result_expr(&e.expr) && wild_at.is_some() && !transparent {
            let s = Site {
                file: self.file.clone(),
                func: self.func.clone(),
                kind: "match_err_wild".into(),
                head: self.head(&e.expr),
                names: calls_of_expr(&e.expr),
                text: format!("match {} {{ .. Err(_) => .. }}", short(&e.expr)),
                line: line_of(&e.expr),
            };
            self.c12.push(s);
        }
        visit::visit_expr_match(self, e);
    }
    fn visit_local(&mut self, l: &'ast syn::Local) {
        if let (syn::Pat::Wild(_), Some(init)) = (&l.pat, &l.init) {
            if self.is_result_expr(&init.expr) {
                let s = self.site("let_underscore", &init.expr, &*init.expr);
                self.c12.push(s);
            }
        }
        visit::visit_local(self, l);
    }
    fn visit_expr_loop(&mut self, e: &'ast syn::ExprLoop) {
        self.greedy(&e.body);
        self.loop_depth += 1;
        visit::visit_expr_loop(self, e);
        self.loop_depth -= 1;
    }
    fn visit_expr_while(&mut self, e: &'ast syn::ExprWhile) {
        self.greedy(&e.body);
        self.loop_depth += 1;
        visit::visit_expr_while(self, e);
        self.loop_depth -= 1;
    }
    fn visit_expr_for_loop(&mut self, e: &'ast syn::ExprForLoop) {
        self.loop_depth += 1;
        visit::visit_expr_for_loop(self, e);
        self.loop_depth -= 1;
    }
    fn visit_path(&mut self, p: &'ast syn::Path) {
        // Token::EOF / Token::SemiColon in expressions and patterns
        let segs: Vec<String> = p.segments.iter().map(|s| s.ident.to_string()).collect();
        if segs.len() >= 2 && segs[segs.len() - 2] == "Token" {
            let last = &segs[segs.len() - 1];
            if last == "Comma" && self.loop_depth > 0 {
                self.c13.push(Site {
                    file: self.file.clone(), func: self.func.clone(), kind: "comma_loop".into(), head: "Token::Comma".into(),
                    names: BTreeSet::new(), text: short(p), line: line_of(p),
                });
            }
            if last == "EOF" {
                self.c11.push(Site {
                    file: self.file.clone(),
                    func: self.func.clone(),
                    kind: "eof".into(),
                    head: "-".into(),
                    names: BTreeSet::new(),
                    text: short(p),
                    line: line_of(p),
                });
            }
        }
        visit::visit_path(self, p);
    }
    fn visit_macro(&mut self, m: &'ast syn::Macro) {
        if self.loop_depth > 0 {
            for _ in 0..tokens_mention(m.tokens.clone(), "Comma") {
                self.c13.push(Site {
                    file: self.file.clone(), func: self.func.clone(), kind: "comma_loop".into(), head: "Token::Comma".into(),
                    names: BTreeSet::new(), text: short(m), line: line_of(m),
                });
            }
        }
        for (name, kind) in [("EOF", "eof")] {
            for _ in 0..tokens_mention(m.tokens.clone(), name) {
                self.c11.push(Site {
                    file: self.file.clone(),
                    func: self.func.clone(),
                    kind: kind.into(),
                    head: "-".into(),
                    names: BTreeSet::new(),
                    text: short(m),
                    line: line_of(m),
                });
            }
        }
        // discard constructs hidden in macro arguments are not interpreted: report the
        // macro as an obligation if it mentions one
        let s = m.tokens.to_string();
        if s.contains("maybe_parse") || s.contains(". ok ()") || s.contains("is_ok ()") || s.contains("is_err ()") {
            self.c12.push(Site {
                file: self.file.clone(),
                func: self.func.clone(),
                kind: "macro_uninterpreted".into(),
                head: "-".into(),
                names: {
                    let mut b = BTreeSet::new();
                    macro_call_names(m.tokens.clone(), &mut b);
                    b
                },
                text: short(m),
                line: line_of(m),
            });
        }
    }
}

/// functions that ARE the modelled interface (their bodies are covered by the Coq model and
/// the primitive correspondence, not by the client inventories)
pub const INTERFACE_FNS: &[&str] = &[
    "peek_token", "peek_tokens", "peek_tokens_with_location", "peek_nth_token", "peek_token_no_skip",
    "peek_nth_token_no_skip", "next_token", "next_token_no_skip", "prev_token", "expected", "parse_keyword",
    "parse_keyword_with_tokens", "parse_keywords", "parse_one_of_keywords", "expect_one_of_keywords",
    "expect_keyword", "expect_keywords", "consume_token", "consume_tokens", "expect_token",
    "parse_comma_separated", "parse_comma_separated0", "parse_keyword_separated", "parse_parenthesized",
    "is_parse_comma_separated_end", "parse_actions_list", "maybe_parse", "with_state", "parse_statements", "parse_statement_list",
    "parse_projection",
];

fn keyed(sites: &[Site]) -> Vec<(String, &Site)> {
    let mut counts: BTreeMap<String, usize> = BTreeMap::new();
    let mut out = vec![];
    for s in sites {
        let base = format!("{}:{}/{}/{}", s.file, s.func, s.kind, s.head);
        let n = counts.entry(base.clone()).or_insert(0);
        out.push((format!("{}#{}", base, *n), s));
        *n += 1;
    }
    out
}

pub fn inventory(repo: &str) -> Value {
    let mut files: Vec<std::path::PathBuf> = vec![];
    for d in ["src/parser", "src/dialect"] {
        if let Ok(rd) = std::fs::read_dir(format!("{repo}/{d}")) {
            for e in rd.flatten() {
                let p = e.path();
                if p.extension().map(|x| x == "rs").unwrap_or(false) {
                    files.push(p);
                }
            }
        }
    }
    files.sort();
    let mut fns: Vec<FnInfo> = vec![];
    let mut unparsed = vec![];
    for f in &files {
        let src = std::fs::read_to_string(f).unwrap();
        let stem = format!(
            "{}/{}",
            f.parent().unwrap().file_name().unwrap().to_string_lossy(),
            f.file_stem().unwrap().to_string_lossy()
        );
        match syn::parse_file(&src) {
            Ok(file) => {
                let mut c = Collect { file: stem, fns: vec![] };
                c.visit_file(&file);
                fns.extend(c.fns);
            }
            Err(e) => unparsed.push(format!("{}: {}", f.display(), e)),
        }
    }
    // name-based tables
    let mut result_fns: BTreeSet<String> = BTreeSet::new();
    let mut calls: BTreeMap<String, BTreeSet<String>> = BTreeMap::new();
    let mut guarded: BTreeSet<String> = BTreeSet::new();
    for f in &fns {
        if f.returns_result {
            result_fns.insert(f.name.clone());
        }
        calls.entry(f.name.clone()).or_default().extend(f.calls.iter().cloned());
        if f.guarded {
            guarded.insert(f.name.clone());
        }
    }
    // reach: names from which a guarded function is reachable (over-approximation by name)
    let mut reach: BTreeSet<String> = guarded.clone();
    loop {
        let mut ch = false;
        for (n, cs) in &calls {
            if !reach.contains(n) && cs.iter().any(|c| reach.contains(c)) {
                reach.insert(n.clone());
                ch = true;
            }
        }
        if !ch {
            break;
        }
    }
    let (mut c12, mut c13, mut c11, mut guards) = (vec![], vec![], vec![], vec![]);
    for f in &fns {
        let mut cx = Ctx {
            result_fns: &result_fns,
            file: f.file.clone(),
            func: f.name.clone(),
            loop_depth: 0,
            c12: vec![],
            c13: vec![],
            c11: vec![],
            guards: vec![],
        };
        cx.visit_block(&f.block);
        let iface = INTERFACE_FNS.contains(&f.name.as_str()) && f.file == "parser/mod";
        if !(iface && f.name == "maybe_parse") {
            c12.extend(cx.c12);
        }
        if !iface {
            c13.extend(cx.c13);
            c11.extend(cx.c11);
        } else {
            // the combinators call each other; their own comma handling is the model's
        }
        guards.extend(cx.guards);
    }
    // guard shape: `let _guard = self.recursion_counter.try_decrease()?;` as a statement of fn
    let mut guard_shapes = vec![];
    for f in &fns {
        if !f.guarded {
            continue;
        }
        let mut ok = 0;
        for st in &f.block.stmts {
            if let syn::Stmt::Local(l) = st {
                if let (syn::Pat::Ident(id), Some(init)) = (&l.pat, &l.init) {
                    if let syn::Expr::Try(t) = &*init.expr {
                        if let syn::Expr::MethodCall(m) = &*t.expr {
                            if m.method == "try_decrease" && id.ident.to_string().starts_with('_') && id.ident != "_" {
                                ok += 1;
                            }
                        }
                    }
                }
            }
        }
        let total = f.block.to_token_stream().to_string().matches("try_decrease").count();
        guard_shapes.push(json!({"fn": format!("{}:{}", f.file, f.name), "raii_question_mark": ok, "mentions": total}));
    }
    let j = |v: &[Site], with_limit: bool| -> Vec<Value> {
        keyed(v)
            .into_iter()
            .map(|(k, s)| {
                let lim: Vec<&String> = s.names.iter().filter(|n| reach.contains(*n)).collect();
                let mut o = json!({"key": k, "fn": s.func, "file": s.file, "kind": s.kind, "head": s.head,
                                   "text": s.text, "line": s.line});
                if with_limit {
                    o["can_limit"] = json!(!lim.is_empty());
                    o["via"] = json!(lim.into_iter().take(4).collect::<Vec<_>>());
                }
                o
            })
            .collect()
    };
    json!({
        "files": files.iter().map(|f| f.display().to_string()).collect::<Vec<_>>(),
        "unparsed": unparsed,
        "functions": fns.len(),
        "result_fns": result_fns.len(),
        "guarded": guarded,
        "reach_guard": reach.len(),
        "guard_shapes": guard_shapes,
        "c12": j(&c12, true),
        "c13": j(&c13, false),
        "c11": j(&c11, false),
    })
}
