//! Primitive / combinator correspondence driver: executes operation sequences written in a
//! small closure language through the PUBLIC API of `Parser` and dumps every returned value.
//! The same language is interpreted by the Coq model (`Machine.denote`).
use serde_json::{json, Value};
use sqlparser::dialect::GenericDialect;
use sqlparser::keywords::{Keyword, ALL_KEYWORDS_INDEX};
use sqlparser::parser::{Parser, ParserError, ParserOptions};
use sqlparser::tokenizer::{Location, Token, TokenWithLocation, Whitespace, Word};
use std::cell::Cell;

thread_local! { static STEPS: Cell<u64> = Cell::new(0); }
thread_local! { static OUTSIDE: Cell<bool> = Cell::new(false); }
const STEP_BUDGET: u64 = 20_000;

/// The case left the fragment the model covers (the statement parsers other than COMMIT / END).
/// The flag survives a `maybe_parse` that swallows the error value: the case is discarded.
fn out_of_fragment(what: impl std::fmt::Display) -> ParserError {
    OUTSIDE.with(|o| o.set(true));
    ParserError::ParserError(format!("<<OUT-OF-FRAGMENT {}>>", what))
}

/// The tokens of the driver's vocabulary that start a statement outside the fragment
/// (`parse_statement` dispatches on them; the model says "Expected: an SQL statement"):
/// `(` starts a query, CREATE and BEGIN their statements.
fn starts_foreign_statement(t: &Token) -> bool {
    matches!(t, Token::Word(w) if w.keyword == Keyword::CREATE || w.keyword == Keyword::BEGIN) || *t == Token::LParen
}

/// Number of such words among the next 64 raw tokens (token vectors of the driver are shorter).
fn foreign_starts_ahead(ps: &Parser) -> usize {
    (0..64).filter(|k| starts_foreign_statement(&ps.peek_nth_token_no_skip(*k).token)).count()
}

fn commit_values(v: Vec<sqlparser::ast::Statement>) -> Result<Val, ParserError> {
    let mut out = vec![];
    for st in v {
        match st {
            sqlparser::ast::Statement::Commit { chain } => out.push(Val::Bool(chain)),
            other => return Err(out_of_fragment(other)),
        }
    }
    Ok(Val::List(out))
}

/// Both signatures of `maybe_parse` (current: `Option<T>`; repaired: `Result<Option<T>, _>`)
/// are accepted, so that the harness builds before and after a repair.
pub trait MaybeOut<T> {
    fn norm(self) -> Result<Option<T>, ParserError>;
}
impl<T> MaybeOut<T> for Option<T> {
    fn norm(self) -> Result<Option<T>, ParserError> {
        Ok(self)
    }
}
impl<T> MaybeOut<T> for Result<Option<T>, ParserError> {
    fn norm(self) -> Result<Option<T>, ParserError> {
        self
    }
}

pub fn keyword_by_name(name: &str) -> Keyword {
    for k in ALL_KEYWORDS_INDEX.iter() {
        if format!("{:?}", k) == name {
            return *k;
        }
    }
    if name == "NoKeyword" {
        return Keyword::NoKeyword;
    }
    panic!("unknown keyword {name}")
}

pub fn token_of_json(v: &Value) -> Token {
    let k = v["k"].as_str().unwrap();
    match k {
        "eof" => Token::EOF,
        "space" => Token::Whitespace(Whitespace::Space),
        "newline" => Token::Whitespace(Whitespace::Newline),
        "tab" => Token::Whitespace(Whitespace::Tab),
        "word" => Token::make_word(
            v["v"].as_str().unwrap(),
            v["q"].as_str().and_then(|s| s.chars().next()),
        ),
        "num" => Token::Number(v["v"].as_str().unwrap().to_string(), v["l"].as_bool().unwrap_or(false)),
        "sq" => Token::SingleQuotedString(v["v"].as_str().unwrap().to_string()),
        "comma" => Token::Comma,
        "semi" => Token::SemiColon,
        "lparen" => Token::LParen,
        "rparen" => Token::RParen,
        "lbracket" => Token::LBracket,
        "rbracket" => Token::RBracket,
        "lbrace" => Token::LBrace,
        "rbrace" => Token::RBrace,
        "eq" => Token::Eq,
        "period" => Token::Period,
        "colon" => Token::Colon,
        "mul" => Token::Mul,
        "plus" => Token::Plus,
        "minus" => Token::Minus,
        _ => panic!("unknown token kind {k}"),
    }
}

pub fn json_of_token(t: &Token) -> Value {
    match t {
        Token::EOF => json!({"k":"eof"}),
        Token::Whitespace(Whitespace::Space) => json!({"k":"space"}),
        Token::Whitespace(Whitespace::Newline) => json!({"k":"newline"}),
        Token::Whitespace(Whitespace::Tab) => json!({"k":"tab"}),
        Token::Word(Word { value, quote_style, keyword }) => json!({
            "k":"word","v":value,"q":quote_style.map(|c| c.to_string()),"kw":format!("{:?}", keyword)}),
        Token::Number(s, l) => json!({"k":"num","v":s,"l":l}),
        Token::SingleQuotedString(s) => json!({"k":"sq","v":s}),
        Token::Comma => json!({"k":"comma"}),
        Token::SemiColon => json!({"k":"semi"}),
        Token::LParen => json!({"k":"lparen"}),
        Token::RParen => json!({"k":"rparen"}),
        Token::LBracket => json!({"k":"lbracket"}),
        Token::RBracket => json!({"k":"rbracket"}),
        Token::LBrace => json!({"k":"lbrace"}),
        Token::RBrace => json!({"k":"rbrace"}),
        Token::Eq => json!({"k":"eq"}),
        Token::Period => json!({"k":"period"}),
        Token::Colon => json!({"k":"colon"}),
        Token::Mul => json!({"k":"mul"}),
        Token::Plus => json!({"k":"plus"}),
        Token::Minus => json!({"k":"minus"}),
        other => json!({"k":"other","v":other.to_string()}),
    }
}

fn json_of_twl(t: &TokenWithLocation) -> Value {
    json!({"tok": json_of_token(&t.token), "line": t.location.line, "col": t.location.column})
}

#[derive(Debug, Clone)]
pub enum Val {
    Unit,
    Bool(bool),
    Tok(TokenWithLocation),
    Opt(Option<Box<Val>>),
    List(Vec<Val>),
    Kw(String),
}

fn json_of_val(v: &Val) -> Value {
    match v {
        Val::Unit => json!({"u":null}),
        Val::Bool(b) => json!({"b":b}),
        Val::Tok(t) => json!({"t":json_of_twl(t)}),
        Val::Opt(None) => json!({"o":null}),
        Val::Opt(Some(x)) => json!({"o":json_of_val(x)}),
        Val::List(l) => json!({"l": l.iter().map(json_of_val).collect::<Vec<_>>()}),
        Val::Kw(k) => json!({"kw":k}),
    }
}

fn json_of_err(e: &ParserError) -> Value {
    match e {
        ParserError::ParserError(m) => json!({"err":"syntax","msg":m}),
        ParserError::TokenizerError(m) => json!({"err":"lex","msg":m}),
        ParserError::RecursionLimitExceeded => json!({"err":"limit"}),
    }
}

fn truthy(v: &Val) -> bool {
    matches!(v, Val::Bool(true) | Val::Opt(Some(_)))
}

fn kws(v: &Value) -> Vec<Keyword> {
    v.as_array().unwrap().iter().map(|k| keyword_by_name(k.as_str().unwrap())).collect()
}

/// Interpreter of the closure language against the real parser (public API only).
pub fn run<'a>(p: &Value, ps: &mut Parser<'a>) -> Result<Val, ParserError> {
    let n = STEPS.with(|s| {
        s.set(s.get() + 1);
        s.get()
    });
    if n > STEP_BUDGET {
        return Err(ParserError::ParserError("<<STALL>>".into()));
    }
    let a = p.as_array().unwrap();
    let op = a[0].as_str().unwrap();
    match op {
        "next" => Ok(Val::Tok(ps.next_token())),
        "peek" => Ok(Val::Tok(ps.peek_nth_token(a[1].as_u64().unwrap() as usize))),
        "peek0" => Ok(Val::Tok(ps.peek_token())),
        "prev" => {
            ps.prev_token();
            Ok(Val::Unit)
        }
        "next_ns" => Ok(Val::Opt(ps.next_token_no_skip().cloned().map(|t| Box::new(Val::Tok(t))))),
        "peek_ns" => Ok(Val::Tok(ps.peek_nth_token_no_skip(a[1].as_u64().unwrap() as usize))),
        "kw" => Ok(Val::Bool(ps.parse_keyword(keyword_by_name(a[1].as_str().unwrap())))),
        "kws" => Ok(Val::Bool(ps.parse_keywords(&kws(&a[1])))),
        "oneof" => Ok(Val::Opt(
            ps.parse_one_of_keywords(&kws(&a[1])).map(|k| Box::new(Val::Kw(format!("{:?}", k)))),
        )),
        "expect_kw" => ps.expect_keyword(keyword_by_name(a[1].as_str().unwrap())).map(|_| Val::Unit),
        "consume" => Ok(Val::Bool(ps.consume_token(&token_of_json(&a[1])))),
        "consumes" => {
            let ts: Vec<Token> = a[1].as_array().unwrap().iter().map(token_of_json).collect();
            Ok(Val::Bool(ps.consume_tokens(&ts)))
        }
        "expect_tok" => ps.expect_token(&token_of_json(&a[1])).map(|_| Val::Unit),
        "fail" => Err(match a[1].as_str().unwrap() {
            "syntax" => ParserError::ParserError("boom".into()),
            "lex" => ParserError::TokenizerError("lexboom".into()),
            _ => ParserError::RecursionLimitExceeded,
        }),
        "expected" => {
            let t = ps.peek_token();
            ps.expected(a[1].as_str().unwrap(), t)
        }
        "seq" => {
            run(&a[1], ps)?;
            run(&a[2], ps)
        }
        "if" => {
            let c = run(&a[1], ps)?;
            if truthy(&c) {
                run(&a[2], ps)
            } else {
                run(&a[3], ps)
            }
        }
        "maybe" => {
            let body = a[1].clone();
            let r = ps.maybe_parse(|q| run(&body, q)).norm()?;
            Ok(Val::Opt(r.map(Box::new)))
        }
        "comma" => {
            let body = a[1].clone();
            ps.parse_comma_separated(|q| run(&body, q)).map(Val::List)
        }
        "comma0" => {
            let body = a[1].clone();
            ps.parse_comma_separated0(|q| run(&body, q), token_of_json(&a[2])).map(Val::List)
        }
        "kwsep" => {
            let body = a[2].clone();
            ps.parse_keyword_separated(keyword_by_name(a[1].as_str().unwrap()), |q| run(&body, q))
                .map(Val::List)
        }
        "paren" => {
            let body = a[1].clone();
            ps.parse_parenthesized(|q| run(&body, q))
        }
        // statement probe: the only public route to the depth guard with a tiny body.
        // If the next token is `(` the probe is a no-op (a query would start there).
        "stmt" => {
            if ps.peek_token().token == Token::LParen {
                return Ok(Val::Unit);
            }
            if starts_foreign_statement(&ps.peek_token().token) {
                return Err(out_of_fragment("statement start"));
            }
            match ps.parse_statement()? {
                sqlparser::ast::Statement::Commit { chain } => Ok(Val::Bool(chain)),
                other => Err(out_of_fragment(other)),
            }
        }
        "stmts" => {
            // token vectors of the driver are shorter than 64
            for k in 0..64 {
                if ps.peek_nth_token_no_skip(k).token == Token::LParen {
                    return Ok(Val::Unit);
                }
            }
            if foreign_starts_ahead(ps) > 0 {
                return Err(out_of_fragment("statement start ahead"));
            }
            commit_values(ps.parse_statements()?)
        }
        // block probe: the only public route to parse_statement_list(true), the body of
        //   CREATE PROCEDURE <name> AS BEGIN <statements> END.
        // A no-op unless the five non-whitespace tokens at the cursor are exactly
        //   CREATE PROCEDURE <unquoted non-keyword word> AS BEGIN
        // (the same bounded look-ahead as Machine.block_probe).
        "block" => {
            let kw = |t: &Token, k: Keyword| matches!(t, Token::Word(w) if w.keyword == k);
            let t: Vec<Token> = (0..5).map(|n| ps.peek_nth_token(n).token).collect();
            let plain = matches!(&t[2], Token::Word(w) if w.quote_style.is_none() && w.keyword == Keyword::NoKeyword);
            if !(kw(&t[0], Keyword::CREATE)
                && kw(&t[1], Keyword::PROCEDURE)
                && plain
                && kw(&t[3], Keyword::AS)
                && kw(&t[4], Keyword::BEGIN))
            {
                return Ok(Val::Unit);
            }
            // the header holds one CREATE and one BEGIN; any further one, or a `(`, could start a
            // statement of the body that is outside the fragment (a nested procedure, BEGIN
            // TRANSACTION, a query)
            if foreign_starts_ahead(ps) > 2 {
                return Err(out_of_fragment("statement start in the body"));
            }
            match ps.parse_statement()? {
                sqlparser::ast::Statement::CreateProcedure { body, .. } => commit_values(body),
                other => Err(out_of_fragment(other)),
            }
        }
        // element parser: one word
        "word" => {
            let t = ps.next_token();
            match t.token {
                Token::Word(_) => Ok(Val::Tok(t)),
                _ => ps.expected("identifier", t),
            }
        }
        _ => panic!("unknown op {op}"),
    }
}

pub fn case(c: &Value) -> Value {
    let toks: Vec<TokenWithLocation> = c["toks"]
        .as_array()
        .unwrap()
        .iter()
        .map(|t| TokenWithLocation {
            token: token_of_json(&t["tok"]),
            location: Location { line: t["line"].as_u64().unwrap(), column: t["col"].as_u64().unwrap() },
        })
        .collect();
    let echo: Vec<Value> = toks.iter().map(json_of_twl).collect();
    let d = GenericDialect {};
    let mut ps = Parser::new(&d)
        .with_options(ParserOptions::new().with_trailing_commas(c["tc"].as_bool().unwrap_or(false)))
        .with_recursion_limit(c["limit"].as_u64().unwrap_or(50) as usize)
        .with_tokens_with_locations(toks);
    let mut res = vec![];
    let mut status = "ok";
    STEPS.with(|s| s.set(0));
    OUTSIDE.with(|o| o.set(false));
    for op in c["ops"].as_array().unwrap() {
        let r = std::panic::catch_unwind(std::panic::AssertUnwindSafe(|| run(op, &mut ps)));
        if OUTSIDE.with(|o| o.get()) {
            status = "discard";
            break;
        }
        match r {
            Ok(Ok(v)) => res.push(json_of_val(&v)),
            Ok(Err(e)) => {
                if let ParserError::ParserError(m) = &e {
                    if m.starts_with("<<") {
                        status = "discard";
                        break;
                    }
                }
                res.push(json_of_err(&e))
            }
            Err(_) => {
                res.push(json!({"panic":true}));
                break;
            }
        }
    }
    json!({"status": status, "res": res, "toks": echo})
}

/// How does `maybe_parse` treat a closure that fails with each error kind?  Selects the model
/// variant (`maybe_reraises_limit`) on every run.
pub fn maybe_probe() -> Value {
    let d = GenericDialect {};
    let mk = || {
        Parser::new(&d).with_tokens(vec![Token::make_word("a", None), Token::Comma, Token::make_word("b", None)])
    };
    let mut out = serde_json::Map::new();
    for (name, e) in [
        ("limit", ParserError::RecursionLimitExceeded),
        ("syntax", ParserError::ParserError("x".into())),
        ("lex", ParserError::TokenizerError("x".into())),
    ] {
        let mut ps = mk();
        let r = ps
            .maybe_parse(|q| -> Result<(), ParserError> {
                q.next_token();
                Err(e.clone())
            })
            .norm();
        let after = ps.peek_token_no_skip();
        out.insert(
            name.to_string(),
            json!({"result": match &r { Ok(None) => json!("none"), Ok(Some(_)) => json!("some"), Err(e) => json_of_err(e) },
                   "index_restored": after.token == Token::make_word("a", None)}),
        );
    }
    // through the real guard
    let mut ps = Parser::new(&d).with_recursion_limit(0).with_tokens(vec![Token::make_word("COMMIT", None)]);
    let r = ps.maybe_parse(|q| q.parse_statement()).norm();
    out.insert(
        "guarded_statement_at_limit_0".into(),
        match &r { Ok(None) => json!("none"), Ok(Some(_)) => json!("some"), Err(e) => json_of_err(e) },
    );
    Value::Object(out)
}
