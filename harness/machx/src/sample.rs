//! Sampling drivers: the properties themselves evaluated on the implementation.
use serde_json::{json, Value};
use sqlparser::ast::Statement;
use sqlparser::keywords::{Keyword, RESERVED_FOR_COLUMN_ALIAS};
use sqlparser::parser::{Parser, ParserError, ParserOptions};
use sqlparser::tokenizer::{Token, TokenWithLocation};
use vh::*;

pub fn stmt_kind(s: &Statement) -> String {
    let d = format!("{:?}", s);
    d.split(|c: char| !(c.is_alphanumeric() || c == '_')).next().unwrap_or("?").to_string()
}

fn abbreviate(s: String) -> String {
    if s.len() > 300 {
        let mut k = 300;
        while !s.is_char_boundary(k) {
            k -= 1;
        }
        format!("{}…", &s[..k])
    } else {
        s
    }
}

#[derive(PartialEq, Clone)]
enum Out {
    Ok(Vec<Statement>),
    Err(ParserError),
    Panic(String),
}
impl Out {
    fn show(&self) -> String {
        match self {
            Out::Ok(v) => abbreviate(format!("Ok [{}]", v.iter().map(|s| s.to_string()).collect::<Vec<_>>().join(" ;; "))),
            Out::Err(e) => format!("Err {:?}", e),
            Out::Panic(m) => format!("PANIC {}", m),
        }
    }
    fn class(&self) -> &'static str {
        match self {
            Out::Ok(_) => "ok",
            Out::Err(ParserError::RecursionLimitExceeded) => "limit",
            Out::Err(ParserError::TokenizerError(_)) => "lex",
            Out::Err(_) => "syntax",
            Out::Panic(_) => "panic",
        }
    }
}

fn parse_with(d: &dyn sqlparser::dialect::Dialect, sql: &str, tc: Option<bool>, limit: Option<usize>) -> Out {
    let r = std::panic::catch_unwind(std::panic::AssertUnwindSafe(|| {
        let mut p = Parser::new(d);
        if let Some(b) = tc {
            p = p.with_options(ParserOptions::new().with_trailing_commas(b));
        }
        if let Some(l) = limit {
            p = p.with_recursion_limit(l);
        }
        p.try_with_sql(sql)?.parse_statements()
    }));
    match r {
        Ok(Ok(v)) => Out::Ok(v),
        Ok(Err(e)) => Out::Err(e),
        Err(e) => Out::Panic(panic_msg(e)),
    }
}

/// C12: limit ladder. Every outcome must be RecursionLimitExceeded or equal to the outcome at
/// the largest limit.
pub fn ladder(c: &Value) -> Value {
    let sql = c["sql"].as_str().unwrap();
    let d = dialect_by_name(c["dialect"].as_str().unwrap());
    let limits: Vec<usize> = c["limits"].as_array().unwrap().iter().map(|x| x.as_u64().unwrap() as usize).collect();
    let top = *limits.iter().max().unwrap();
    let want = parse_with(d.as_ref(), sql, None, Some(top));
    let kind = match &want {
        Out::Ok(v) if !v.is_empty() => stmt_kind(&v[0]),
        Out::Ok(_) => "Empty".into(),
        _ => "Rejected".into(),
    };
    let mut viol = vec![];
    let mut classes = vec![];
    let mut need: Option<usize> = None;
    for &n in &limits {
        let got = if n == top { want.clone() } else { parse_with(d.as_ref(), sql, None, Some(n)) };
        classes.push(json!([n, got.class()]));
        if got == want {
            if need.is_none() {
                need = Some(n);
            }
        } else {
            need = None;
            if got != Out::Err(ParserError::RecursionLimitExceeded) {
                viol.push(json!({"limit": n, "observed": got.show(), "expected": format!("RecursionLimitExceeded or {}", want.show())}));
            }
        }
    }
    json!({"status": if viol.is_empty() {"ok"} else {"violation"}, "kind": kind, "top_class": want.class(),
           "depth_needed": need, "viol": viol, "classes": classes})
}

fn is_term(t: &Token) -> bool {
    match t {
        Token::RParen | Token::SemiColon | Token::EOF | Token::RBracket | Token::RBrace => true,
        Token::Word(w) => w.quote_style.is_none() && RESERVED_FOR_COLUMN_ALIAS.contains(&w.keyword),
        _ => false,
    }
}

fn char_offsets(sql: &str) -> Vec<usize> {
    // char index -> byte index
    let mut v: Vec<usize> = sql.char_indices().map(|(i, _)| i).collect();
    v.push(sql.len());
    v
}

/// C13: trailing-comma insertion at list ends (option on), and option on/off on the
/// unmodified text.
pub fn tc(c: &Value) -> Value {
    let sql = c["sql"].as_str().unwrap();
    let d = dialect_by_name(c["dialect"].as_str().unwrap());
    let off = parse_with(d.as_ref(), sql, Some(false), None);
    // where did the parser itself end a comma-separated list (hook in parse_comma_separated; lists of
    // abandoned maybe_parse attempts are dropped)?  Only those places are list ends in the sense of the property.
    sqlparser::parser::verif_hooks::reset();
    let on = parse_with(d.as_ref(), sql, Some(true), None);
    let list_ends: Vec<usize> = sqlparser::parser::verif_hooks::list_ends();
    let toks = match tokenize_loc(d.as_ref(), sql, true) {
        Ok(t) => t,
        Err(_) => return json!({"status":"skip"}),
    };
    // a recorded index points at the token after the last element (often whitespace): the list end is in front
    // of the next non-whitespace token
    let mut end_before: std::collections::BTreeSet<usize> = std::collections::BTreeSet::new();
    for &i in &list_ends {
        let mut k = i;
        while k < toks.len() && is_ws(&toks[k].token) {
            k += 1;
        }
        end_before.insert(k);
    }
    let offs = token_offsets(sql, &toks);
    let bytes = char_offsets(sql);
    let nws: Vec<(usize, &TokenWithLocation)> = toks.iter().enumerate().filter(|(_, t)| !is_ws(&t.token)).collect();
    // does a comma precede a terminator somewhere?  (documented ambiguity / already-trailing comma)
    let mut comma_then_term = false;
    for w in nws.windows(2) {
        if w[0].1.token == Token::Comma && is_term(&w[1].1.token) {
            comma_then_term = true;
        }
    }
    if let Some((_, last)) = nws.last() {
        if last.token == Token::Comma {
            comma_then_term = true;
        }
    }
    let mut out = serde_json::Map::new();
    out.insert("status".into(), json!("ok"));
    out.insert("comma_then_term".into(), json!(comma_then_term));
    let mut viol = vec![];
    // (1) option on/off on the unmodified text
    let accepted_off = matches!(off, Out::Ok(_));
    if accepted_off && !comma_then_term && on != off {
        viol.push(json!({"what":"onoff","ctx":"onoff","observed_on": on.show(), "observed_off": off.show()}));
    }
    out.insert("onoff_checked".into(), json!(accepted_off && !comma_then_term));
    // (2) insertion at list ends
    // a "run" lives at one bracket depth between clause keywords; it is a list once it has a comma
    struct Frame {
        commas: usize,
        ctx: String,
        elem_ok: bool, // the current element consists of names, literals, operators, brackets only
    }
    let mut stack: Vec<Frame> = vec![Frame { commas: 0, ctx: "top".into(), elem_ok: true }];
    let mut cands: Vec<(usize, String)> = vec![]; // (char offset where to insert, ctx)
    let mut prev: Option<&Token> = None;
    let mut prev_word: String = String::new();
    let mut clause: Vec<String> = vec!["top".into()];
    let end_off = offs[offs.len() - 1];
    // character offsets in front of which a parser-level list ended (the end of the text counts when a list ended there)
    let ends_at: std::collections::BTreeSet<usize> = end_before.iter().map(|&k| if k < toks.len() { offs[k] } else { end_off }).collect();
    let handle_term = |stack: &Vec<Frame>, clause: &Vec<String>, at: usize, prev: Option<&Token>, cands: &mut Vec<(usize, String)>, closing: bool| {
        let f = stack.last().unwrap();
        if f.commas > 0 && f.elem_ok && ends_at.contains(&at) {
            if let Some(p) = prev {
                if *p != Token::Comma && !matches!(p, Token::LParen | Token::LBracket | Token::LBrace | Token::Colon | Token::Period | Token::DoubleColon) {
                    let ctx = if closing && clause.last().map(|s| s == "(").unwrap_or(false) { f.ctx.clone() } else { format!("{}", clause.last().unwrap()) };
                    cands.push((at, ctx));
                }
            }
        }
    };
    for (i, t) in &nws {
        let at = offs[*i];
        match &t.token {
            Token::LParen | Token::LBracket | Token::LBrace => {
                let open = match &t.token { Token::LParen => "(", Token::LBracket => "[", _ => "{" };
                let ctx = if prev_word.is_empty() { format!("{}:{}", clause.last().unwrap(), open) } else { format!("{}{}", prev_word, open) };
                stack.push(Frame { commas: 0, ctx, elem_ok: true });
                clause.push("(".into());
            }
            Token::RParen | Token::RBracket | Token::RBrace => {
                handle_term(&stack, &clause, at, prev, &mut cands, true);
                if stack.len() > 1 {
                    stack.pop();
                    clause.pop();
                }
            }
            Token::SemiColon => {
                handle_term(&stack, &clause, at, prev, &mut cands, false);
                stack.last_mut().unwrap().commas = 0;
                *clause.last_mut().unwrap() = "top".into();
            }
            Token::Comma => {
                stack.last_mut().unwrap().commas += 1;
                stack.last_mut().unwrap().elem_ok = true;
            }
            Token::Word(w) if w.quote_style.is_none() && RESERVED_FOR_COLUMN_ALIAS.contains(&w.keyword) => {
                handle_term(&stack, &clause, at, prev, &mut cands, false);
                stack.last_mut().unwrap().commas = 0;
                stack.last_mut().unwrap().elem_ok = true;
                *clause.last_mut().unwrap() = format!("{:?}", w.keyword);
            }
            Token::Word(w) if w.quote_style.is_none() && matches!(w.keyword, Keyword::BY | Keyword::SET | Keyword::VALUES | Keyword::SELECT | Keyword::ON | Keyword::TO | Keyword::USING | Keyword::RETURNING) => {
                stack.last_mut().unwrap().commas = 0;
                stack.last_mut().unwrap().elem_ok = true;
                *clause.last_mut().unwrap() = format!("{:?}", w.keyword);
            }
            Token::Word(w) if w.quote_style.is_none() && w.keyword != Keyword::NoKeyword
                && !matches!(w.keyword, Keyword::AS | Keyword::ASC | Keyword::DESC | Keyword::NULL | Keyword::TRUE | Keyword::FALSE | Keyword::AND | Keyword::OR | Keyword::NOT) => {
                // a keyword inside the element: the run may have ended before (e.g. ORDER BY a, b ROWS ...)
                stack.last_mut().unwrap().elem_ok = false;
            }
            _ => {}
        }
        prev_word = match &t.token {
            Token::Word(w) => w.value.to_uppercase(),
            _ => String::new(),
        };
        prev = Some(&t.token);
    }
    handle_term(&stack, &clause, end_off, prev, &mut cands, false);
    let max_c = c["max_insertions"].as_u64().unwrap_or(6) as usize;
    let mut tried = 0;
    let mut ctxs = vec![];
    if let Out::Ok(_) = on {
        for (at, ctx) in cands.iter().take(max_c) {
            if *at == usize::MAX || *at >= bytes.len() {
                continue;
            }
            let b = bytes[*at];
            let variant = format!("{},{}", &sql[..b], &sql[b..]);
            let got = parse_with(d.as_ref(), &variant, Some(true), None);
            tried += 1;
            ctxs.push(ctx.clone());
            if got != on {
                viol.push(json!({"what":"insert","ctx":ctx,"variant":variant,"observed":got.show(),"expected":on.show()}));
            }
        }
    }
    out.insert("insertions".into(), json!(tried));
    out.insert("ctxs".into(), json!(ctxs));
    if !viol.is_empty() {
        out.insert("status".into(), json!("violation"));
    }
    out.insert("viol".into(), json!(viol));
    Value::Object(out)
}

fn first_word(sql: &str) -> String {
    sql.split_whitespace().next().unwrap_or("").to_uppercase()
}

/// C11: script concatenation. `s`, `t` accepted single statements.
pub fn script(c: &Value) -> Value {
    let s = c["s"].as_str().unwrap();
    let t = c["t"].as_str().unwrap();
    let d = dialect_by_name(c["dialect"].as_str().unwrap());
    let ps = parse_with(d.as_ref(), s, None, None);
    let pt = parse_with(d.as_ref(), t, None, None);
    let (a, b) = match (&ps, &pt) {
        (Out::Ok(a), Out::Ok(b)) if a.len() == 1 && b.len() == 1 => (a.clone(), b.clone()),
        _ => return json!({"status":"skip"}),
    };
    // s must consume its whole input as ONE statement without a separator inside
    let kind = stmt_kind(&a[0]);
    let sel = parse_with(d.as_ref(), "SELECT 1", None, None);
    let sel = match sel { Out::Ok(v) => v, _ => vec![] };
    let cat = |x: &Vec<Statement>, y: &Vec<Statement>| -> Out {
        let mut v = x.clone();
        v.extend(y.iter().cloned());
        Out::Ok(v)
    };
    let empty = vec![];
    // a text that ends in a single-line comment cannot be followed by anything on its line
    let has_line_comment = |x: &str| -> bool {
        match tokenize_loc(d.as_ref(), x, true) {
            Ok(t) => t.iter().any(|k| matches!(&k.token, Token::Whitespace(sqlparser::tokenizer::Whitespace::SingleLineComment { .. }))),
            Err(_) => true,
        }
    };
    if has_line_comment(s) || has_line_comment(t) {
        return json!({"status":"skip"});
    }
    let tail = {
        let toks = tokenize_loc(d.as_ref(), s, true).unwrap_or_default();
        let nws: Vec<&TokenWithLocation> = toks.iter().filter(|k| !is_ws(&k.token)).collect();
        let mut kws = vec![];
        for k in nws.iter().rev().take(4).rev() {
            if let Token::Word(w) = &k.token {
                if w.quote_style.is_none() && w.keyword != Keyword::NoKeyword {
                    kws.push(format!("{:?}", w.keyword));
                }
            }
        }
        let n = kws.len();
        kws[n.saturating_sub(2)..].join(" ")
    };
    let s_only: Vec<(String, String, Out)> = vec![
        ("s;".into(), format!("{s};"), cat(&a, &empty)),
        ("s; SELECT 1".into(), format!("{s}; SELECT 1"), cat(&a, &sel)),
        ("s\n;\n".into(), format!("{s}\n;\n"), cat(&a, &empty)),
    ];
    let t_ok = [format!("{t};"), format!("{t}; SELECT 1")].iter().zip([cat(&b, &empty), cat(&b, &sel)].iter())
        .all(|(text, want)| parse_with(d.as_ref(), text, None, None) == *want);
    let mut viol = vec![];
    let mut s_ok = true;
    for (name, text, want) in &s_only {
        let got = parse_with(d.as_ref(), text, None, None);
        if got != *want {
            s_ok = false;
            viol.push(json!({"what":"script","layout":name,"script":text,"observed":got.show(),"expected":want.show()}));
        }
    }
    let scripts: Vec<(String, String, Out)> = if s_ok && t_ok { vec![
        ("s; t".into(), format!("{s}; {t}"), cat(&a, &b)),
        ("t; s".into(), format!("{t}; {s}"), cat(&b, &a)),
        (";s;;t;".into(), format!(";{s};;{t};"), cat(&a, &b)),
        ("layout".into(), format!(" ;\n{s}\n;\t;\n {t} \n; "), cat(&a, &b)),
        ("s;s;t".into(), format!("{s};{s};{t}"), { let mut v = a.clone(); v.extend(a.iter().cloned()); v.extend(b.iter().cloned()); Out::Ok(v) }),
    ] } else { vec![] };
    for (name, text, want) in &scripts {
        let got = parse_with(d.as_ref(), text, None, None);
        if got != *want {
            viol.push(json!({"what":"combo","layout":name,"script":text,"observed":got.show(),"expected":want.show()}));
        }
    }
    // Local: parse_statement stops before the separator and is blind to what follows it
    for (name, text) in [("s; SELECT 2", format!("{s}; SELECT 2")), ("s;", format!("{s};")), ("s ; SELECT 1", format!("{s} ; SELECT 1"))] {
        let r = std::panic::catch_unwind(std::panic::AssertUnwindSafe(|| -> Result<(Statement, Token), ParserError> {
            let mut p = Parser::new(d.as_ref()).try_with_sql(&text)?;
            let st = p.parse_statement()?;
            Ok((st, p.peek_token().token))
        }));
        match r {
            Ok(Ok((st, tk))) => {
                if st != a[0] || tk != Token::SemiColon {
                    viol.push(json!({"what":"local","layout":name,"script":text,
                        "observed": abbreviate(format!("statement `{}` then next token `{}`", st, tk)),
                        "expected": abbreviate(format!("statement `{}` then next token `;`", a[0]))}));
                }
            }
            Ok(Err(e)) => viol.push(json!({"what":"local","layout":name,"script":text,"observed":format!("Err {:?}", e),
                        "expected": abbreviate(format!("statement `{}` then next token `;`", a[0]))})),
            Err(e) => viol.push(json!({"what":"local","layout":name,"script":text,"observed":format!("PANIC {}", panic_msg(e)),"expected":"no panic"})),
        }
    }
    // Local, second half: a statement leaves the parser's persistent configuration (options,
    // ParserState, remaining recursion depth) as it found it, so that the next statement of the
    // script is parsed as it would be alone.  On a leak, look for a successor that shows it.
    {
        let r = std::panic::catch_unwind(std::panic::AssertUnwindSafe(|| -> Result<Option<(String, String)>, ParserError> {
            let mut p = Parser::new(d.as_ref()).try_with_sql(&format!("{s};"))?;
            let before = persistent(&p);
            p.parse_statement()?;
            let after = persistent(&p);
            Ok(if before != after { Some((format!("{:?}", before), format!("{:?}", after))) } else { None })
        }));
        if let Ok(Ok(Some((before, after)))) = r {
            let mut witness = None;
            for probe in state_probes(d.as_ref()) {
                let alone = parse_with(d.as_ref(), &probe, None, None);
                if alone.class() == "panic" {
                    continue;
                }
                let text = format!("{s}; {probe}");
                let got = parse_with(d.as_ref(), &text, None, None);
                let want = match &alone {
                    Out::Ok(v) => cat(&a, v),
                    other => other.clone(),
                };
                if got != want {
                    witness = Some(json!({"what":"combo","layout":"s; probe","script":text,"observed":got.show(),"expected":want.show()}));
                    break;
                }
            }
            match witness {
                Some(w) => viol.push(w),
                None => viol.push(json!({"what":"state","layout":"s;","script":format!("{s};"),
                    "observed": format!("(trailing_commas, state_is_normal, remaining_depth) after the statement: {after}"),
                    "expected": format!("as before the statement: {before}")})),
            }
        }
    }
    // negative half: without a separator the loop must not accept two statements silently
    let glued = format!("{s} {t}");
    let g = parse_with(d.as_ref(), &glued, None, None);
    let mut glued_two = false;
    if let Out::Ok(v) = &g {
        if v.len() >= 2 && first_word(t) != "END" {
            glued_two = true;
            viol.push(json!({"what":"no_separator","layout":"s t","script":glued,"observed":g.show(),"expected":"an error or a single statement: two statements need `;` between them"}));
        }
    }
    json!({"status": if viol.is_empty() {"ok"} else {"violation"}, "kind": kind, "kind_t": stmt_kind(&b[0]), "tail": tail,
           "combined": s_ok && t_ok, "viol": viol, "glued_two": glued_two})
}

/// The parser configuration that outlives a statement (read through the cfg-guarded hooks).
fn persistent(p: &Parser) -> (bool, bool, usize) {
    (p.verif_trailing_commas(), p.verif_state_is_normal(), p.verif_remaining_depth())
}

/// Successor statements whose parse depends on the trailing-comma option, on ParserState, or on
/// the remaining recursion depth.
fn state_probes(d: &dyn sqlparser::dialect::Dialect) -> Vec<String> {
    let mut v: Vec<String> = [
        "SELECT a FROM t GROUP BY a, having - 1", "SELECT a FROM t ORDER BY a, limit", "SELECT a FROM t GROUP BY a, b,",
        "CREATE TABLE t (a INT, b INT,)", "SELECT PRIOR a FROM t", "SELECT a FROM t WHERE PRIOR a = 1",
        "SELECT a, from FROM t", "INSERT INTO t (a, b,) VALUES (1, 2)", "SELECT f(a, b,)", "SELECT * FROM t ORDER BY a, b,",
    ].iter().map(|x| x.to_string()).collect();
    // the deepest parenthesised expression accepted at the default limit
    let nest = |n: usize| format!("SELECT {}1{}", "(".repeat(n), ")".repeat(n));
    let mut best = 0;
    for n in 1..60 {
        if parse_with(d, &nest(n), None, None).class() == "ok" {
            best = n;
        } else {
            break;
        }
    }
    if best > 0 {
        v.push(nest(best));
    }
    v
}

/// Is `sql` accepted as exactly one statement whose text has no top-level `;`?
pub fn single(c: &Value) -> Value {
    let sql = c["sql"].as_str().unwrap();
    let d = dialect_by_name(c["dialect"].as_str().unwrap());
    let has_semi = match tokenize_loc(d.as_ref(), sql, true) {
        Ok(t) => t.iter().any(|x| x.token == Token::SemiColon),
        Err(_) => true,
    };
    match parse_with(d.as_ref(), sql, None, None) {
        Out::Ok(v) if v.len() == 1 && !has_semi => json!({"single": true, "kind": stmt_kind(&v[0])}),
        _ => json!({"single": false}),
    }
}

/// Plain parse with explicit option/limit (replay, witnesses).
pub fn parse(c: &Value) -> Value {
    let sql = c["sql"].as_str().unwrap();
    let d = dialect_by_name(c["dialect"].as_str().unwrap());
    let o = parse_with(d.as_ref(), sql, c["tc"].as_bool(), c["limit"].as_u64().map(|x| x as usize));
    json!({"class": o.class(), "show": o.show(), "n": match &o { Out::Ok(v) => v.len(), _ => 0 }})
}
