//! C01 / C05 harness: the two properties evaluated on the implementation itself.
//!
//!   rtx roundtrip < {dialect, sql, unescape, trailing}  -> parse -> print -> parse fixpoint, per
//!                                                          statement and for the "; "-joined script
//!   rtx content   < {dialect, sql, unescape, trailing}  -> multiset of content tokens of the input
//!                                                          vs of the printed script
//!   rtx splice    < {dialect, sql, expr, seed[, unescape, trailing, sites, paren]}
//!                                                       -> replace one token (sites: "num" Number, "str" '..'
//!                                                          literal, "ident" unquoted non-keyword word; default
//!                                                          num+str) by (expr) (paren=false: by expr as is),
//!                                                          then both checks on the mutated text
//!
//! One JSON line per case; every case runs under catch_unwind.
use serde_json::{json, Value};
use sqlparser::ast::Statement;
use sqlparser::dialect::Dialect;
use sqlparser::keywords::Keyword;
use sqlparser::tokenizer::{Token, Tokenizer};
use std::collections::{BTreeMap, BTreeSet};
use std::panic::{catch_unwind, AssertUnwindSafe};
use vh::*;

const PRINT_MAX: usize = 3000;
const AST_MAX: usize = 1000000;

fn trunc(s: &str, n: usize) -> String {
    if s.chars().count() <= n {
        s.to_string()
    } else {
        let mut t: String = s.chars().take(n).collect();
        t.push('…');
        t
    }
}

fn to_json(s: &Statement) -> Value {
    serde_json::to_value(s).unwrap_or(Value::Null)
}

/// Name of the `Statement` variant, read off the serde encoding (externally tagged enum).
fn variant_name(v: &Value) -> String {
    match v {
        Value::String(s) => s.clone(),
        Value::Object(m) => m.keys().next().cloned().unwrap_or_else(|| "?".into()),
        _ => "?".into(),
    }
}

fn stmt_kind(s: &Statement) -> String {
    variant_name(&to_json(s))
}

fn ast_text(s: &Statement) -> Value {
    let t = to_json(s).to_string();
    if t.len() <= AST_MAX {
        Value::String(t)
    } else {
        Value::Null
    }
}

/// First differing position of two JSON trees: (path, left leaf, right leaf).
fn first_diff(a: &Value, b: &Value, path: &mut String) -> Option<(String, String, String)> {
    if a == b {
        return None;
    }
    match (a, b) {
        (Value::Object(x), Value::Object(y)) => {
            let kx: Vec<&String> = x.keys().collect();
            let ky: Vec<&String> = y.keys().collect();
            if kx != ky {
                return Some((path.clone(), format!("{{{}}}", kx.iter().map(|s| s.as_str()).collect::<Vec<_>>().join(",")),
                             format!("{{{}}}", ky.iter().map(|s| s.as_str()).collect::<Vec<_>>().join(","))));
            }
            for (k, vx) in x {
                let l = path.len();
                if !path.is_empty() {
                    path.push('.');
                }
                path.push_str(k);
                if let Some(d) = first_diff(vx, &y[k], path) {
                    return Some(d);
                }
                path.truncate(l);
            }
            None
        }
        (Value::Array(x), Value::Array(y)) => {
            if x.len() != y.len() {
                return Some((path.clone(), format!("[{} items] {}", x.len(), trunc(&a.to_string(), 120)),
                             format!("[{} items] {}", y.len(), trunc(&b.to_string(), 120))));
            }
            for (i, (vx, vy)) in x.iter().zip(y.iter()).enumerate() {
                let l = path.len();
                path.push_str(&format!("[{}]", i));
                if let Some(d) = first_diff(vx, vy, path) {
                    return Some(d);
                }
                path.truncate(l);
            }
            None
        }
        _ => Some((path.clone(), trunc(&a.to_string(), 160), trunc(&b.to_string(), 160))),
    }
}

fn print_stmt(s: &Statement) -> Result<String, String> {
    catch_unwind(AssertUnwindSafe(|| s.to_string())).map_err(panic_msg)
}

fn parse_caught(d: &dyn Dialect, sql: &str, unescape: bool, trailing: bool) -> Result<Result<Vec<Statement>, String>, String> {
    catch_unwind(AssertUnwindSafe(|| parse_opts(d, sql, unescape, trailing, None).map_err(|e| e.to_string()))).map_err(panic_msg)
}

fn fail(stmt: Value, kind: &str, printed: &str, detail: String, sk: &str, path: Option<String>, ast: Value) -> Value {
    json!({"stmt": stmt, "kind": kind, "printed": trunc(printed, PRINT_MAX), "detail": trunc(&detail, 500),
           "stmt_kind": sk, "path": path, "ast": ast})
}

/// The C01 property on one accepted script.
fn roundtrip_parsed(d: &dyn Dialect, v: &[Statement], unescape: bool, trailing: bool) -> Value {
    let mut fails: Vec<Value> = vec![];
    let mut printed_all: Vec<String> = vec![];
    let mut panicked = false;
    for (i, a) in v.iter().enumerate() {
        let sk = stmt_kind(a);
        let s1 = match print_stmt(a) {
            Ok(s) => s,
            Err(m) => {
                panicked = true;
                fails.push(fail(json!(i), "panic", "", format!("Display panicked: {m}"), &sk, None, ast_text(a)));
                printed_all.push(String::new());
                continue;
            }
        };
        printed_all.push(s1.clone());
        match parse_caught(d, &s1, unescape, trailing) {
            Err(m) => {
                panicked = true;
                fails.push(fail(json!(i), "panic", &s1, format!("re-parse panicked: {m}"), &sk, None, ast_text(a)));
            }
            Ok(Err(e)) => fails.push(fail(json!(i), "reparse-error", &s1, e, &sk, None, ast_text(a))),
            Ok(Ok(v2)) => {
                if v2.len() != 1 {
                    let kinds: Vec<String> = v2.iter().map(stmt_kind).collect();
                    fails.push(fail(json!(i), "count", &s1, format!("printed statement re-parses to {} statements {:?}", v2.len(), kinds), &sk, None, ast_text(a)));
                    continue;
                }
                let a2 = &v2[0];
                if a2 != a {
                    let mut p = String::new();
                    let dd = first_diff(&to_json(a), &to_json(a2), &mut p);
                    let (path, detail) = match dd {
                        Some((p, l, r)) => (Some(p.clone()), format!("{p}: {l} <> {r}")),
                        None => (None, "trees differ under PartialEq but have equal serde encodings".to_string()),
                    };
                    fails.push(fail(json!(i), "different-tree", &s1, detail, &sk, path, ast_text(a)));
                }
                match print_stmt(a2) {
                    Ok(s2) => {
                        if s2 != s1 {
                            // only reported on its own when the tree was equal (else it is a consequence)
                            if a2 == a {
                                fails.push(fail(json!(i), "not-idempotent", &s1, format!("second print: {}", trunc(&s2, 300)), &sk, None, ast_text(a)));
                            }
                        }
                    }
                    Err(m) => {
                        panicked = true;
                        fails.push(fail(json!(i), "panic", &s1, format!("Display of the re-parsed tree panicked: {m}"), &sk, None, ast_text(a)));
                    }
                }
            }
        }
    }
    if v.len() >= 2 && !panicked {
        let script = printed_all.join("; ");
        let kinds: Vec<String> = v.iter().map(stmt_kind).collect();
        let sk = kinds.join("+");
        match parse_caught(d, &script, unescape, trailing) {
            Err(m) => fails.push(fail(json!("script"), "panic", &script, format!("re-parse panicked: {m}"), &sk, None, Value::Null)),
            Ok(Err(e)) => fails.push(fail(json!("script"), "reparse-error", &script, e, &sk, None, Value::Null)),
            Ok(Ok(v2)) => {
                if v2.len() != v.len() {
                    let k2: Vec<String> = v2.iter().map(stmt_kind).collect();
                    fails.push(fail(json!("script"), "count", &script, format!("{} statements re-parse to {} {:?}", v.len(), v2.len(), k2), &sk, None, Value::Null));
                } else if v2.as_slice() != v {
                    let ja = Value::Array(v.iter().map(to_json).collect());
                    let jb = Value::Array(v2.iter().map(to_json).collect());
                    let mut p = String::new();
                    let (path, detail) = match first_diff(&ja, &jb, &mut p) {
                        Some((p, l, r)) => (Some(p.clone()), format!("{p}: {l} <> {r}")),
                        None => (None, "scripts differ under PartialEq only".to_string()),
                    };
                    fails.push(fail(json!("script"), "different-tree", &script, detail, &sk, path, Value::Null));
                }
            }
        }
    }
    let status = if panicked { "panic" } else if fails.is_empty() { "ok" } else { "fail" };
    let kinds: Vec<String> = v.iter().map(stmt_kind).collect();
    json!({"status": status, "n": v.len(), "fails": fails, "stmt_kinds": kinds})
}

fn roundtrip(d: &dyn Dialect, sql: &str, unescape: bool, trailing: bool) -> Value {
    match parse_caught(d, sql, unescape, trailing) {
        Err(m) => json!({"status": "panic", "n": 0, "fails": [fail(json!("input"), "panic", "", format!("parse panicked: {m}"), "?", None, Value::Null)]}),
        Ok(Err(_)) => json!({"status": "rejected"}),
        Ok(Ok(v)) => {
            let mut r = roundtrip_parsed(d, &v, unescape, trailing);
            if r["status"] != "ok" {
                r["lits"] = lits_of(d, sql, unescape);
            }
            r
        }
    }
}

// ------------------------------------------------------------------ content tokens

struct Content {
    bag: BTreeMap<String, i64>,   // JSON text of the content token -> multiplicity
    kw_words: Vec<String>,        // unquoted keyword words, as written
    words_upper: BTreeSet<String>, // every word (quoted or not), ASCII upper-cased
}

fn content_of(toks: &[Token]) -> Content {
    let mut c = Content { bag: BTreeMap::new(), kw_words: vec![], words_upper: BTreeSet::new() };
    for t in toks {
        let item: Option<Value> = match t {
            Token::Word(w) => {
                c.words_upper.insert(w.value.to_ascii_uppercase());
                if w.quote_style.is_some() || w.keyword == Keyword::NoKeyword {
                    Some(json!(["w", w.quote_style.map(|q| q.to_string()), w.value]))
                } else {
                    c.kw_words.push(w.value.clone());
                    None
                }
            }
            Token::Number(s, l) => Some(json!(["n", s, l])),
            Token::Placeholder(s) => Some(json!(["p", s])),
            Token::DollarQuotedString(dq) => Some(json!(["Dollar", dq.tag, dq.value])),
            other => {
                let j = tok_json(other);
                if j["k"] == "Str" {
                    Some(json!([j["kind"], j["s"]]))
                } else {
                    None
                }
            }
        };
        if let Some(v) = item {
            *c.bag.entry(v.to_string()).or_insert(0) += 1;
        }
    }
    c
}

fn bag_minus(a: &BTreeMap<String, i64>, b: &BTreeMap<String, i64>) -> Vec<Value> {
    let mut out = vec![];
    for (k, n) in a {
        let m = b.get(k).copied().unwrap_or(0);
        for _ in 0..(n - m).max(0) {
            if out.len() < 40 {
                out.push(serde_json::from_str::<Value>(k).unwrap_or(Value::Null));
            }
        }
    }
    out
}

/// String-literal, dollar-quoted and quoted-identifier tokens of a text (for classifying a
/// failure by the literal-printer classes of C06); at most 24, duplicates removed.
fn lits_of(d: &dyn Dialect, sql: &str, unescape: bool) -> Value {
    let mut out: Vec<Value> = vec![];
    if let Ok(toks) = tokens_plain(d, sql, unescape) {
        for t in &toks {
            let j = match t {
                Token::Word(w) if w.quote_style.is_some() => tok_json(t),
                Token::DollarQuotedString(_) => tok_json(t),
                Token::Word(_) => continue,
                other => {
                    let j = tok_json(other);
                    if j["k"] == "Str" { j } else { continue }
                }
            };
            if !out.contains(&j) && out.len() < 24 {
                out.push(j);
            }
        }
    }
    Value::Array(out)
}

fn tokens_plain(d: &dyn Dialect, sql: &str, unescape: bool) -> Result<Vec<Token>, String> {
    Tokenizer::new(d, sql).with_unescape(unescape).tokenize().map_err(|e| e.to_string())
}

/// COPY .. FROM STDIN with an inline payload: the documented free-form exemption.
fn has_copy_payload(v: &[Statement]) -> bool {
    v.iter().any(|s| match s {
        Statement::Copy { values, .. } => !values.is_empty(),
        _ => false,
    })
}

/// Compare the content of one text with the content of the printed form of its statements.
fn content_cmp(d: &dyn Dialect, sql: &str, v: &[Statement], unescape: bool) -> Value {
    let kinds: Vec<String> = v.iter().map(stmt_kind).collect();
    let printed = match catch_unwind(AssertUnwindSafe(|| v.iter().map(|s| s.to_string()).collect::<Vec<_>>().join("; "))) {
        Ok(p) => p,
        Err(m) => return json!({"status": "panic", "detail": format!("Display panicked: {}", panic_msg(m)), "stmt_kinds": kinds}),
    };
    let tin = match tokens_plain(d, sql, unescape) {
        Ok(t) => t,
        Err(e) => return json!({"status": "input-untokenizable", "detail": e, "stmt_kinds": kinds}),
    };
    let tout = match tokens_plain(d, &printed, unescape) {
        Ok(t) => t,
        Err(e) => return json!({"status": "print-untokenizable", "detail": e, "printed": trunc(&printed, PRINT_MAX), "stmt_kinds": kinds, "lits": lits_of(d, sql, unescape),
                                "asts": v.iter().map(ast_text).collect::<Vec<_>>()}),
    };
    let ci = content_of(&tin);
    let co = content_of(&tout);
    let lost = bag_minus(&ci.bag, &co.bag);
    let invented = bag_minus(&co.bag, &ci.bag);
    let mut kw_lost: Vec<String> = vec![];
    for w in &ci.kw_words {
        if !co.words_upper.contains(&w.to_ascii_uppercase()) && !kw_lost.contains(w) {
            kw_lost.push(w.clone());
        }
    }
    let status = if lost.is_empty() && invented.is_empty() && kw_lost.is_empty() { "ok" } else { "diff" };
    let mut r = json!({"status": status, "lost": lost, "invented": invented, "kw_lost": kw_lost, "stmt_kinds": kinds,
                       "n_content": ci.bag.values().sum::<i64>()});
    if status != "ok" {
        r["lits"] = lits_of(d, sql, unescape);
        r["printed"] = json!(trunc(&printed, PRINT_MAX));
        r["asts"] = Value::Array(v.iter().map(ast_text).collect());
    }
    r
}

/// Split a text at its top-level `;` tokens (character ranges of the pieces).
fn pieces(d: &dyn Dialect, sql: &str, unescape: bool) -> Option<Vec<String>> {
    let toks = tokenize_loc(d, sql, unescape).ok()?;
    let offs = token_offsets(sql, &toks);
    if offs.iter().any(|o| *o == usize::MAX) {
        return None;
    }
    let chars: Vec<char> = sql.chars().collect();
    let mut out = vec![];
    let mut start = 0usize;
    for (i, t) in toks.iter().enumerate() {
        if t.token == Token::SemiColon {
            out.push(chars[start..offs[i]].iter().collect::<String>());
            start = offs[i + 1];
        }
    }
    out.push(chars[start..].iter().collect::<String>());
    Some(out.into_iter().filter(|p| !p.trim().is_empty()).collect())
}

fn content(d: &dyn Dialect, sql: &str, unescape: bool, trailing: bool) -> Value {
    let v = match parse_caught(d, sql, unescape, trailing) {
        Err(m) => return json!({"status": "panic", "detail": format!("parse panicked: {m}")}),
        Ok(Err(_)) => return json!({"status": "rejected"}),
        Ok(Ok(v)) => v,
    };
    if has_copy_payload(&v) {
        return json!({"status": "exempt-copy-payload", "stmt_kinds": v.iter().map(stmt_kind).collect::<Vec<_>>()});
    }
    let mut r = content_cmp(d, sql, &v, unescape);
    // attribution for scripts: when the text splits at `;` into as many accepted pieces as there
    // are statements, say which piece differs
    if r["status"] != "ok" && v.len() >= 2 {
        if let Some(ps) = pieces(d, sql, unescape) {
            if ps.len() == v.len() {
                let mut per = vec![];
                let mut all = true;
                for (i, p) in ps.iter().enumerate() {
                    match parse_caught(d, p, unescape, trailing) {
                        Ok(Ok(pv)) if pv.len() == 1 && pv[0] == v[i] => {
                            let c = content_cmp(d, p, &pv, unescape);
                            if c["status"] != "ok" {
                                per.push(json!({"stmt": i, "piece": trunc(p, PRINT_MAX), "result": c}));
                            }
                        }
                        _ => {
                            all = false;
                            break;
                        }
                    }
                }
                if all {
                    r["per_statement"] = Value::Array(per);
                }
            }
        }
    }
    r
}

// ------------------------------------------------------------------ neutralised literals
/// The text with the payload of every string literal / quoted identifier made benign (the
/// characters that the literal printers mishandle -- quotes, backslash, dollar, brackets, control
/// characters -- replaced by `_`), keeping kinds, delimiters and everything else.  Used to decide
/// whether a failure is CAUSED by a literal of a known class: if the neutralised text passes, it is.
fn neutralise(d: &dyn Dialect, sql: &str, unescape: bool, collapse: bool) -> Option<String> {
    let toks = tokenize_loc(d, sql, unescape).ok()?;
    let offs = token_offsets(sql, &toks);
    let chars: Vec<char> = sql.chars().collect();
    let mut out = String::new();
    let mut changed = false;
    for (i, t) in toks.iter().enumerate() {
        if offs[i] == usize::MAX || offs[i + 1] == usize::MAX || offs[i] > offs[i + 1] || offs[i + 1] > chars.len() {
            return None;
        }
        let src: String = chars[offs[i]..offs[i + 1]].iter().collect();
        let is_lit = match &t.token {
            Token::Word(w) => w.quote_style.is_some(),
            Token::DollarQuotedString(_) => true,
            other => tok_json(other)["k"] == "Str",
        };
        if !is_lit || src.chars().count() < 2 {
            out.push_str(&src);
            continue;
        }
        // keep the opening and closing delimiters (prefix letters, quotes, $tag$), clean the inside
        let cs: Vec<char> = src.chars().collect();
        let open_len = cs.iter().position(|c| matches!(c, '\'' | '"' | '`' | '[' | '$')).map(|p| {
            if cs[p] == '$' { cs.iter().skip(p + 1).position(|c| *c == '$').map(|q| p + q + 2).unwrap_or(p + 1) }
            else if p + 2 < cs.len() && cs[p + 1] == cs[p] && cs[p + 2] == cs[p] { p + 3 } else { p + 1 }
        })?;
        let close_len = if cs[open_len - 1] == '$' { open_len } else if open_len >= 3 && cs[open_len - 1] == cs[open_len - 2] { 3 } else { 1 };
        if open_len + close_len > cs.len() {
            out.push_str(&src);
            continue;
        }
        let mut inner: String = cs[open_len..cs.len() - close_len].iter()
            .map(|c| if matches!(c, '\'' | '"' | '`' | '\\' | '$' | '[' | ']') || c.is_control() { changed = true; '_' } else { *c }).collect();
        if collapse {
            // an escape sequence or a doubled quote is ONE payload character: where the grammar wants a one-character
            // string (COPY .. QUOTE 'c') the neutral text must not be longer than the payload was
            while inner.contains("__") { inner = inner.replace("__", "_"); }
        }
        out.extend(cs[..open_len].iter());
        out.push_str(&inner);
        out.extend(cs[cs.len() - close_len..].iter());
    }
    if changed { Some(out) } else { None }
}

fn neutral(d: &dyn Dialect, sql: &str, unescape: bool, trailing: bool) -> Value {
    match neutralise(d, sql, unescape, false) {
        None => json!({"status": "unchanged"}),
        Some(n) => {
            let mut n = n;
            let mut rt = roundtrip(d, &n, unescape, trailing);
            if rt["status"] == "rejected" {
                if let Some(n2) = neutralise(d, sql, unescape, true) {
                    let rt2 = roundtrip(d, &n2, unescape, trailing);
                    if rt2["status"] != "rejected" { n = n2; rt = rt2; }
                }
            }
            let ct = content(d, &n, unescape, trailing);
            // a difference in keywords only (optional noise words such as AS) is not a difference in content tokens
            let tokens_differ = ct["lost"].as_array().map(|a| !a.is_empty()).unwrap_or(false) || ct["invented"].as_array().map(|a| !a.is_empty()).unwrap_or(false);
            json!({"status": "neutralised", "sql": n, "roundtrip": rt["status"], "content": ct["status"], "content_tokens_differ": tokens_differ})
        }
    }
}

// ------------------------------------------------------------------ splice mutation

fn splice(d: &dyn Dialect, c: &Value) -> Value {
    let sql = c["sql"].as_str().unwrap_or("");
    let expr = c["expr"].as_str().unwrap_or("1");
    let seed = c["seed"].as_u64().unwrap_or(0);
    let unescape = c["unescape"].as_bool().unwrap_or(true);
    let trailing = c["trailing"].as_bool().unwrap_or(false);
    let toks = match tokenize_loc(d, sql, unescape) {
        Ok(t) => t,
        Err(_) => return json!({"status": "untokenizable"}),
    };
    let offs = token_offsets(sql, &toks);
    // which tokens may be replaced: "num" (Number), "str" ('..' literal), "ident" (unquoted non-keyword word)
    let kinds: Vec<String> = match c["sites"].as_array() {
        Some(a) => a.iter().filter_map(|x| x.as_str().map(|s| s.to_string())).collect(),
        None => vec!["num".into(), "str".into()],
    };
    let paren = c["paren"].as_bool().unwrap_or(true);
    let wanted = |t: &Token| match t {
        Token::Number(_, _) => kinds.iter().any(|k| k == "num"),
        Token::SingleQuotedString(_) => kinds.iter().any(|k| k == "str"),
        Token::Word(w) => w.quote_style.is_none() && w.keyword == Keyword::NoKeyword && kinds.iter().any(|k| k == "ident"),
        _ => false,
    };
    let sites: Vec<usize> = toks.iter().enumerate()
        .filter(|(i, t)| wanted(&t.token) && offs[*i] != usize::MAX && offs[*i + 1] != usize::MAX && offs[*i] < offs[*i + 1])
        .map(|(i, _)| i).collect();
    let mut rng = Rng::new(seed);
    let chars: Vec<char> = sql.chars().collect();
    let insert = c["insert"].as_bool().unwrap_or(false);
    let (i, m) = if insert {
        // insertion mode: the fragment is ADDED (blank-separated) after a random non-whitespace token;
        // whatever the parser then accepts must keep the fragment's content
        let ends: Vec<usize> = toks.iter().enumerate()
            .filter(|(i, t)| !matches!(t.token, Token::Whitespace(_) | Token::EOF) && offs[*i + 1] != usize::MAX && offs[*i + 1] <= chars.len())
            .map(|(i, _)| i).collect();
        if ends.is_empty() {
            return json!({"status": "no-site"});
        }
        let i = ends[rng.below(ends.len() as u64) as usize];
        let mut m: String = chars[..offs[i + 1]].iter().collect();
        m.push(' ');
        m.push_str(expr);
        m.push(' ');
        m.extend(chars[offs[i + 1]..].iter());
        (i, m)
    } else {
        if sites.is_empty() {
            return json!({"status": "no-site"});
        }
        let i = sites[rng.below(sites.len() as u64) as usize];
        let mut m: String = chars[..offs[i]].iter().collect();
        if paren {
            m.push('(');
        }
        m.push_str(expr);
        if paren {
            m.push(')');
        }
        m.extend(chars[offs[i + 1]..].iter());
        (i, m)
    };
    match parse_caught(d, &m, unescape, trailing) {
        Err(e) => json!({"status": "panic", "mutated": m, "detail": format!("parse panicked: {e}")}),
        Ok(Err(_)) => json!({"status": "rejected", "site": toks[i].token.to_string()}),
        Ok(Ok(v)) => {
            let mut rt = roundtrip_parsed(d, &v, unescape, trailing);
            if rt["status"] != "ok" {
                rt["lits"] = lits_of(d, &m, unescape);
            }
            let ct = if has_copy_payload(&v) { json!({"status": "exempt-copy-payload"}) } else { content_cmp(d, &m, &v, unescape) };
            json!({"status": "accepted", "mutated": m, "site": toks[i].token.to_string(), "roundtrip": rt, "content": ct})
        }
    }
}

/// Exhaustive insertion: every fragment after every non-whitespace token of the text.  Returns
/// the mutants that are ACCEPTED and fail the round trip or the content comparison (at most 8),
/// with counts; the caller re-runs those through `roundtrip` / `content` for the full report.
fn sweep(d: &dyn Dialect, c: &Value) -> Value {
    let sql = c["sql"].as_str().unwrap_or("");
    let unescape = c["unescape"].as_bool().unwrap_or(true);
    let trailing = c["trailing"].as_bool().unwrap_or(false);
    let frags: Vec<&str> = c["frags"].as_array().map(|a| a.iter().filter_map(|x| x.as_str()).collect()).unwrap_or_default();
    let toks = match tokenize_loc(d, sql, unescape) {
        Ok(t) => t,
        Err(_) => return json!({"status": "untokenizable"}),
    };
    let offs = token_offsets(sql, &toks);
    let chars: Vec<char> = sql.chars().collect();
    let ends: Vec<usize> = toks.iter().enumerate()
        .filter(|(i, t)| !matches!(t.token, Token::Whitespace(_) | Token::EOF) && offs[*i + 1] != usize::MAX && offs[*i + 1] <= chars.len())
        .map(|(i, _)| offs[i + 1]).collect();
    let (mut tried, mut accepted, mut panics) = (0u64, 0u64, 0u64);
    let mut fails: Vec<Value> = vec![];
    for &e in &ends {
        let pre: String = chars[..e].iter().collect();
        let post: String = chars[e..].iter().collect();
        for f in &frags {
            let m = format!("{pre} {f} {post}");
            tried += 1;
            match parse_caught(d, &m, unescape, trailing) {
                Err(msg) => {
                    panics += 1;
                    if fails.len() < 8 { fails.push(json!({"mutated": m, "frag": f, "why": "panic", "detail": msg})); }
                }
                Ok(Err(_)) => {}
                Ok(Ok(v)) => {
                    accepted += 1;
                    let rt = roundtrip_parsed(d, &v, unescape, trailing);
                    let ct = if has_copy_payload(&v) { json!({"status": "ok"}) } else { content_cmp(d, &m, &v, unescape) };
                    if (rt["status"] != "ok" || ct["status"] != "ok") && fails.len() < 8 {
                        fails.push(json!({"mutated": m, "frag": f, "why": if rt["status"] != "ok" { "roundtrip" } else { "content" }}));
                    }
                }
            }
        }
    }
    // deletion: the text without one of its tokens (an optional keyword or clause head dropped); what is still
    // accepted must round-trip and keep its content like any other accepted text
    for (i, t) in toks.iter().enumerate() {
        if matches!(t.token, Token::Whitespace(_) | Token::EOF) || offs[i] == usize::MAX || offs[i + 1] == usize::MAX || offs[i + 1] > chars.len() {
            continue;
        }
        let m: String = chars[..offs[i]].iter().collect::<String>() + " " + &chars[offs[i + 1]..].iter().collect::<String>();
        tried += 1;
        match parse_caught(d, &m, unescape, trailing) {
            Err(msg) => {
                panics += 1;
                if fails.len() < 8 { fails.push(json!({"mutated": m, "frag": "<delete>", "why": "panic", "detail": msg})); }
            }
            Ok(Err(_)) => {}
            Ok(Ok(v)) => {
                accepted += 1;
                let rt = roundtrip_parsed(d, &v, unescape, trailing);
                let ct = if has_copy_payload(&v) { json!({"status": "ok"}) } else { content_cmp(d, &m, &v, unescape) };
                if (rt["status"] != "ok" || ct["status"] != "ok") && fails.len() < 8 {
                    fails.push(json!({"mutated": m, "frag": "<delete>", "why": if rt["status"] != "ok" { "roundtrip" } else { "content" }}));
                }
            }
        }
    }
    // duplication: a span of 1..=6 consecutive tokens written twice (a clause given twice); a parser that keeps
    // only the last occurrence of a repeated clause shows as lost content
    let nws: Vec<usize> = toks.iter().enumerate()
        .filter(|(i, t)| !matches!(t.token, Token::Whitespace(_) | Token::EOF) && offs[*i] != usize::MAX && offs[*i + 1] != usize::MAX && offs[*i + 1] <= chars.len())
        .map(|(i, _)| i).collect();
    let max_span = c["dup_span"].as_u64().unwrap_or(6) as usize;
    for a in 0..nws.len() {
        for len in 1..=max_span {
            if a + len > nws.len() { break; }
            let (st, en) = (offs[nws[a]], offs[nws[a + len - 1] + 1]);
            let span: String = chars[st..en].iter().collect();
            let m: String = chars[..en].iter().collect::<String>() + " " + &span + " " + &chars[en..].iter().collect::<String>();
            tried += 1;
            match parse_caught(d, &m, unescape, trailing) {
                Err(msg) => {
                    panics += 1;
                    if fails.len() < 8 { fails.push(json!({"mutated": m, "frag": "<duplicate>", "why": "panic", "detail": msg})); }
                }
                Ok(Err(_)) => {}
                Ok(Ok(v)) => {
                    accepted += 1;
                    let rt = roundtrip_parsed(d, &v, unescape, trailing);
                    let ct = if has_copy_payload(&v) { json!({"status": "ok"}) } else { content_cmp(d, &m, &v, unescape) };
                    if (rt["status"] != "ok" || ct["status"] != "ok") && fails.len() < 8 {
                        fails.push(json!({"mutated": m, "frag": "<duplicate>", "why": if rt["status"] != "ok" { "roundtrip" } else { "content" }}));
                    }
                }
            }
        }
    }
    // transposition: two neighbouring tokens exchanged (clauses accepted in either order must still print in an
    // order the parser reads back, and a modifier accepted on the "wrong" side must not be dropped)
    for a in 0..nws.len().saturating_sub(1) {
        let (s1, e1, s2, e2) = (offs[nws[a]], offs[nws[a] + 1], offs[nws[a + 1]], offs[nws[a + 1] + 1]);
        if e1 > s2 { continue; }
        let t1: String = chars[s1..e1].iter().collect();
        let t2: String = chars[s2..e2].iter().collect();
        if t1 == t2 { continue; }
        let mid: String = chars[e1..s2].iter().collect();
        let m: String = chars[..s1].iter().collect::<String>() + &t2 + if mid.is_empty() { " " } else { &mid } + &t1 + &chars[e2..].iter().collect::<String>();
        tried += 1;
        match parse_caught(d, &m, unescape, trailing) {
            Err(msg) => {
                panics += 1;
                if fails.len() < 8 { fails.push(json!({"mutated": m, "frag": "<transpose>", "why": "panic", "detail": msg})); }
            }
            Ok(Err(_)) => {}
            Ok(Ok(v)) => {
                accepted += 1;
                let rt = roundtrip_parsed(d, &v, unescape, trailing);
                let ct = if has_copy_payload(&v) { json!({"status": "ok"}) } else { content_cmp(d, &m, &v, unescape) };
                if (rt["status"] != "ok" || ct["status"] != "ok") && fails.len() < 8 {
                    fails.push(json!({"mutated": m, "frag": "<transpose>", "why": if rt["status"] != "ok" { "roundtrip" } else { "content" }}));
                }
            }
        }
    }
    json!({"status": "swept", "tried": tried, "accepted": accepted, "panics": panics, "fails": fails})
}

fn main() {
    quiet_panics();
    let mode = std::env::args().nth(1).unwrap_or_default();
    for_each_case(|c| {
        let r = catch_unwind(AssertUnwindSafe(|| {
            let d = dialect_by_name(c["dialect"].as_str().unwrap_or("generic"));
            let sql = c["sql"].as_str().unwrap_or("");
            let unescape = c["unescape"].as_bool().unwrap_or(true);
            let trailing = c["trailing"].as_bool().unwrap_or(false);
            match mode.as_str() {
                "roundtrip" => roundtrip(&*d, sql, unescape, trailing),
                "content" => content(&*d, sql, unescape, trailing),
                "splice" => splice(&*d, c),
                "neutral" => neutral(&*d, sql, unescape, trailing),
                "sweep" => sweep(&*d, c),
                _ => json!({"status": "bad-mode"}),
            }
        }));
        r.unwrap_or_else(|e| json!({"status": "panic", "detail": panic_msg(e)}))
    });
}
