//! C03 translator: function-level call graph of src/parser/*.rs and src/dialect/*.rs.
//!
//!   callgraph <src-dir> [--known name,name,..] [--bounded "<from>-><to>:<k>:<hash|*>" ..]
//!
//! Output: one JSON object (nodes, edges with shape keys, guarded set, entry points, SCCs of
//! the unguarded subgraph, rank certificate, offending cycles, obligations).
//!
//! Node identity is (owner, name); closures are nodes of their own (owner = the enclosing
//! function).  A call is resolved from the *shape of its receiver / qualifier*; whatever is
//! not recognised falls back to every node of that name (sound over-approximation).  A stack
//! of the real parser, restricted to frames of functions defined in these files, is a path of
//! this graph (see notes in DESIGN.md / C03 for the argument and its limits).
use proc_macro2::{Delimiter, TokenStream, TokenTree};
use quote::ToTokens;
use serde_json::{json, Value};
use std::collections::{BTreeMap, BTreeSet, HashMap, HashSet};
use syn::punctuated::Punctuated;
use syn::visit::{self, Visit};
use syn::*;

#[derive(Clone, Debug, PartialEq, Eq)]
enum Fam {
    Parser,
    Dialect,
    Type(String),
    Free(String),
}

#[derive(Clone, Debug)]
struct Node {
    owner: String,
    name: String,
    fam: Fam,
    file: String,
    kind: &'static str, // fn | closure
    guarded: bool,
    guard_note: Option<String>,
    is_pub: bool,
    ho: bool,
    trait_impl_other: bool, // method of a trait impl other than Dialect (implicitly callable)
    body_hash: String,
}

struct FnItem {
    id: usize,
    sig: Signature,
    block: Block,
    self_fam: Fam,
    self_owner: String,
    generics: Vec<String>,
}

#[derive(Default)]
struct Graph {
    nodes: Vec<Node>,
    by_name: HashMap<String, Vec<usize>>,
    owners: HashSet<String>,
    modules: HashSet<String>,
    dialect_types: HashSet<String>,
}

fn has_cfg_excluded(attrs: &[Attribute]) -> bool {
    for a in attrs {
        if a.path().is_ident("cfg") {
            let s = a.meta.to_token_stream().to_string().replace(' ', "");
            if s.contains("cfg(test)") || s.contains("not(feature=\"std\")") {
                return true;
            }
        }
    }
    false
}

fn fnv(s: &str) -> String {
    let mut h: u64 = 0xcbf29ce484222325;
    for b in s.bytes() {
        h ^= b as u64;
        h = h.wrapping_mul(0x100000001b3);
    }
    format!("{:016x}", h)
}

fn type_name(t: &Type) -> String {
    match t {
        Type::Path(p) => p.path.segments.last().map(|s| s.ident.to_string()).unwrap_or_default(),
        Type::Reference(r) => type_name(&r.elem),
        Type::TraitObject(o) => o
            .bounds
            .iter()
            .filter_map(|b| match b {
                TypeParamBound::Trait(t) => t.path.segments.last().map(|s| s.ident.to_string()),
                _ => None,
            })
            .next()
            .unwrap_or_default(),
        _ => t.to_token_stream().to_string(),
    }
}

fn tokens_have_ident(ts: TokenStream, names: &[&str]) -> bool {
    for t in ts {
        match t {
            TokenTree::Ident(i) => {
                let s = i.to_string();
                if names.contains(&s.as_str()) {
                    return true;
                }
            }
            TokenTree::Group(g) => {
                if tokens_have_ident(g.stream(), names) {
                    return true;
                }
            }
            _ => {}
        }
    }
    false
}

fn count_ident(ts: TokenStream, name: &str) -> usize {
    let mut n = 0;
    for t in ts {
        match t {
            TokenTree::Ident(i) => {
                if i == name {
                    n += 1
                }
            }
            TokenTree::Group(g) => n += count_ident(g.stream(), name),
            _ => {}
        }
    }
    n
}

/// Guard recognition: the first statement of the body is
/// `let <named ident> = self.recursion_counter.try_decrease()?;` and the bound name is not
/// mentioned anywhere else in the body (so it cannot be dropped / forgotten / moved early).
fn guard_status(block: &Block) -> (bool, Option<String>) {
    let body_txt = block.to_token_stream().to_string();
    let mentions = body_txt.contains("try_decrease");
    let first = match block.stmts.first() {
        Some(s) => s,
        None => return (false, None),
    };
    let is_guard_expr = |e: &Expr| -> bool {
        let t = e.to_token_stream().to_string().replace(' ', "");
        t == "self.recursion_counter.try_decrease()?"
    };
    if let Stmt::Local(l) = first {
        if let Some(init) = &l.init {
            if is_guard_expr(&init.expr) && init.diverge.is_none() {
                let pat = match &l.pat {
                    Pat::Type(pt) => &*pt.pat,
                    p => p,
                };
                match pat {
                    Pat::Ident(pi) if pi.by_ref.is_none() && pi.subpat.is_none() => {
                        let name = pi.ident.to_string();
                        let uses = count_ident(block.to_token_stream(), &name);
                        if uses == 1 {
                            return (true, None);
                        }
                        return (false, Some(format!(
                            "guard local `{}` is mentioned {} more time(s) in the body (may be dropped, moved or shadowed early): not accepted as an RAII guard",
                            name, uses - 1)));
                    }
                    Pat::Wild(_) => {
                        return (false, Some("`let _ = ...try_decrease()?` drops the DepthGuard immediately: not a guard".into()));
                    }
                    _ => {
                        return (false, Some("try_decrease()? bound to a non-identifier pattern: not accepted as a guard".into()));
                    }
                }
            }
        }
    }
    if mentions {
        return (false, Some("try_decrease is mentioned but not as the first statement `let <name> = self.recursion_counter.try_decrease()?;`: not accepted as a guard".into()));
    }
    (false, None)
}

fn sig_is_ho(sig: &Signature) -> bool {
    let mut ts = TokenStream::new();
    for i in &sig.inputs {
        if let FnArg::Typed(t) = i {
            t.ty.to_tokens(&mut ts);
        }
    }
    sig.generics.to_tokens(&mut ts);
    if let Some(w) = &sig.generics.where_clause {
        w.to_tokens(&mut ts);
    }
    tokens_have_ident(ts, &["Fn", "FnMut", "FnOnce", "fn"])
}

struct Collector<'g> {
    g: &'g mut Graph,
    items: Vec<FnItem>,
    file: String,
    module: String,
    obligations: Vec<Value>,
}

impl<'g> Collector<'g> {
    fn add_fn(&mut self, owner: String, fam: Fam, sig: &Signature, block: &Block, vis_pub: bool,
              self_fam: Fam, self_owner: String, mut generics: Vec<String>, trait_impl_other: bool) {
        let id = self.g.nodes.len();
        let (guarded, note) = if fam == Fam::Parser { guard_status(block) } else {
            let (g, n) = guard_status(block);
            (false, if g { Some("guard statement outside impl Parser: ignored".into()) } else { n })
        };
        for p in sig.generics.params.iter() {
            if let GenericParam::Type(t) = p {
                generics.push(t.ident.to_string());
            }
        }
        let name = sig.ident.to_string();
        self.g.nodes.push(Node {
            owner: owner.clone(), name: name.clone(), fam, file: self.file.clone(), kind: "fn",
            guarded, guard_note: note, is_pub: vis_pub, ho: sig_is_ho(sig), trait_impl_other,
            body_hash: fnv(&format!("{}{}", sig.to_token_stream(), block.to_token_stream())),
        });
        self.g.by_name.entry(name).or_default().push(id);
        self.g.owners.insert(owner);
        self.items.push(FnItem { id, sig: sig.clone(), block: block.clone(), self_fam, self_owner, generics });
    }

    fn items(&mut self, items: &[Item]) {
        for it in items {
            match it {
                Item::Fn(f) => {
                    if has_cfg_excluded(&f.attrs) { continue; }
                    let owner = self.module.clone();
                    let fam = Fam::Free(self.module.clone());
                    self.add_fn(owner.clone(), fam.clone(), &f.sig, &f.block, matches!(f.vis, Visibility::Public(_)),
                                fam, owner, vec![], false);
                }
                Item::Impl(im) => {
                    if has_cfg_excluded(&im.attrs) { continue; }
                    let ty = type_name(&im.self_ty);
                    let trait_name = im.trait_.as_ref().map(|(_, p, _)| p.segments.last().unwrap().ident.to_string());
                    let (owner, fam, other) = match trait_name.as_deref() {
                        Some("Dialect") => { self.g.dialect_types.insert(ty.clone()); (ty.clone(), Fam::Dialect, false) }
                        Some(t) => (format!("<{} as {}>", ty, t), Fam::Type(ty.clone()), true),
                        None if ty == "Parser" => ("Parser".to_string(), Fam::Parser, false),
                        None if ty == "Dialect" => ("Dialect".to_string(), Fam::Dialect, false),
                        None => (ty.clone(), Fam::Type(ty.clone()), false),
                    };
                    let mut gens = vec![];
                    for p in im.generics.params.iter() {
                        if let GenericParam::Type(t) = p { gens.push(t.ident.to_string()); }
                    }
                    for ii in &im.items {
                        if let ImplItem::Fn(f) = ii {
                            if has_cfg_excluded(&f.attrs) { continue; }
                            self.add_fn(owner.clone(), fam.clone(), &f.sig, &f.block,
                                        matches!(f.vis, Visibility::Public(_)) || trait_name.is_some(),
                                        fam.clone(), owner.clone(), gens.clone(), other);
                        }
                    }
                }
                Item::Trait(t) => {
                    if has_cfg_excluded(&t.attrs) { continue; }
                    let tn = t.ident.to_string();
                    let (owner, fam) = if tn == "Dialect" { ("Dialect".to_string(), Fam::Dialect) } else { (tn.clone(), Fam::Type(tn.clone())) };
                    for ti in &t.items {
                        if let TraitItem::Fn(f) = ti {
                            if let Some(b) = &f.default {
                                self.add_fn(owner.clone(), fam.clone(), &f.sig, b, true, fam.clone(), owner.clone(), vec![], false);
                            }
                        }
                    }
                }
                Item::Mod(m) => {
                    if has_cfg_excluded(&m.attrs) { continue; }
                    if let Some((_, its)) = &m.content {
                        self.g.modules.insert(m.ident.to_string());
                        self.items(its);
                    }
                }
                Item::Macro(m) => {
                    // macro_rules! definitions: their bodies expand in the caller; they must not
                    // hide calls to graph nodes (checked after collection)
                    if m.mac.path.is_ident("macro_rules") {
                        self.obligations.push(json!({"kind": "macro_rules", "file": self.file,
                            "name": m.ident.as_ref().map(|i| i.to_string()), "tokens": m.mac.tokens.to_string()}));
                    }
                }
                Item::Type(t) => {
                    self.obligations.push(json!({"kind": "type_alias", "file": self.file, "name": t.ident.to_string(),
                        "tokens": t.ty.to_token_stream().to_string()}));
                }
                Item::Use(u) => {
                    let s = u.to_token_stream().to_string();
                    if s.contains(" as ") {
                        self.obligations.push(json!({"kind": "use_as", "file": self.file, "tokens": s}));
                    }
                }
                Item::Struct(s) => {
                    let ts = s.fields.to_token_stream();
                    if tokens_have_ident(ts, &["Fn", "FnMut", "FnOnce", "fn"]) {
                        self.obligations.push(json!({"kind": "fn_typed_field", "file": self.file, "name": s.ident.to_string()}));
                    }
                }
                _ => {}
            }
        }
    }
}

#[derive(Clone, Debug)]
struct Edge {
    from: usize,
    to: usize,
    callee: String,
    ord: usize,
    how: &'static str,
}

#[derive(Clone, Copy, PartialEq, Debug)]
enum Ty {
    Parser,
    Dialect,
    Other,
    Unknown,
}

struct BodyVisitor<'a> {
    g: &'a Graph,
    nodes_extra: Vec<Node>, // closure nodes created during this pass
    base_id: usize,
    cur: Vec<usize>,
    self_fam: Fam,
    self_owner: String,
    generics: Vec<String>,
    env: Vec<HashMap<String, Ty>>,
    let_bound: HashSet<String>,
    closure_locals: HashMap<String, usize>,
    ho_stack: Vec<Vec<usize>>,
    edges: Vec<Edge>,
    ord: HashMap<(usize, String), usize>,
    forwards: Vec<(usize, usize)>, // (H, G): H passes one of its fn-typed params on to G
    ho_pass: Vec<(usize, usize, String)>, // (ctx, fn value / closure, text): handed by ctx to a higher-order graph node
    free_closure_notes: Vec<String>,
    ho_params: Vec<HashSet<String>>,
    closure_count: HashMap<usize, usize>,
    foreign_qual: BTreeSet<String>,
    fallback_count: usize,
    free_closures: Vec<usize>,
    root: usize,
}

fn ty_of(t: &Type) -> Ty {
    let ts = t.to_token_stream();
    if tokens_have_ident(ts.clone(), &["Parser"]) {
        Ty::Parser
    } else if tokens_have_ident(ts, &["Dialect"]) {
        Ty::Dialect
    } else {
        Ty::Other
    }
}

impl<'a> BodyVisitor<'a> {
    fn node(&self, id: usize) -> &Node {
        if id < self.base_id { &self.g.nodes[id] } else { &self.nodes_extra[id - self.base_id] }
    }
    fn cur_id(&self) -> usize { *self.cur.last().unwrap() }

    fn add_edges(&mut self, targets: &[usize], callee: String, how: &'static str) {
        let from = self.cur_id();
        let k = (from, callee.clone());
        let o = *self.ord.entry(k).and_modify(|x| *x += 1).or_insert(0);
        for &t in targets {
            self.edges.push(Edge { from, to: t, callee: callee.clone(), ord: o, how });
        }
    }

    fn lookup_var(&self, name: &str) -> Ty {
        for m in self.env.iter().rev() {
            if let Some(t) = m.get(name) {
                if self.let_bound.contains(name) { return Ty::Unknown; }
                return *t;
            }
        }
        Ty::Unknown
    }

    fn recv_ty(&self, e: &Expr) -> Ty {
        match e {
            Expr::Path(p) if p.qself.is_none() && p.path.segments.len() == 1 => {
                let n = p.path.segments[0].ident.to_string();
                if n == "self" {
                    match self.self_fam {
                        Fam::Parser => Ty::Parser,
                        Fam::Dialect => Ty::Dialect,
                        _ => Ty::Other,
                    }
                } else {
                    self.lookup_var(&n)
                }
            }
            Expr::Field(f) => {
                if let Member::Named(m) = &f.member {
                    if m == "dialect" {
                        // only `self.dialect` of the parser is known to be the dialect object
                        if let Ty::Parser = self.recv_ty(&f.base) { return Ty::Dialect; }
                    }
                }
                Ty::Unknown
            }
            Expr::Call(c) => {
                if let Expr::Path(p) = &*c.func {
                    let segs: Vec<String> = p.path.segments.iter().map(|s| s.ident.to_string()).collect();
                    if segs.len() == 2 && segs[0] == "Parser" && segs[1] == "new" { return Ty::Parser; }
                }
                Ty::Unknown
            }
            Expr::Struct(st) => {
                let tn = st.path.segments.last().map(|s| s.ident.to_string()).unwrap_or_default();
                if self.g.dialect_types.contains(&tn) { Ty::Dialect } else { Ty::Unknown }
            }
            Expr::Reference(r) => self.recv_ty(&r.expr),
            Expr::Paren(p) => self.recv_ty(&p.expr),
            Expr::Group(p) => self.recv_ty(&p.expr),
            Expr::Unary(u) => self.recv_ty(&u.expr),
            _ => Ty::Unknown,
        }
    }

    fn methods_named(&self, name: &str, pred: impl Fn(&Node) -> bool) -> Vec<usize> {
        self.g.by_name.get(name).map(|v| v.iter().cloned().filter(|&i| pred(&self.g.nodes[i])).collect()).unwrap_or_default()
    }

    fn resolve_method(&mut self, recv: &Expr, name: &str) -> (Vec<usize>, &'static str) {
        if !self.g.by_name.contains_key(name) { return (vec![], "none"); }
        match self.recv_ty(recv) {
            Ty::Parser => (self.methods_named(name, |n| n.fam == Fam::Parser), "parser"),
            Ty::Dialect => {
                if let Expr::Struct(st) = recv {
                    let tn = st.path.segments.last().map(|s| s.ident.to_string()).unwrap_or_default();
                    return (self.methods_named(name, |n| n.fam == Fam::Dialect && (n.owner == tn || n.owner == "Dialect")), "dialect-type");
                }
                (self.methods_named(name, |n| n.fam == Fam::Dialect), "dialect")
            }
            Ty::Other => {
                // `self` inside an impl of some other type, or a parameter of a foreign type
                let own = self.self_owner.clone();
                let is_self = matches!(recv, Expr::Path(p) if p.path.is_ident("self"));
                if is_self {
                    let fam = self.self_fam.clone();
                    (self.methods_named(name, |n| n.owner == own || n.fam == fam), "self-type")
                } else {
                    // parameter whose declared type mentions neither Parser nor Dialect:
                    // methods of the small helper types only
                    (self.methods_named(name, |n| matches!(n.fam, Fam::Type(_))), "typed-other")
                }
            }
            Ty::Unknown => {
                self.fallback_count += 1;
                (self.methods_named(name, |n| !matches!(n.fam, Fam::Free(_))), "fallback")
            }
        }
    }

    fn resolve_path(&mut self, qself: &Option<QSelf>, path: &Path) -> (Vec<usize>, &'static str) {
        let segs: Vec<String> = path.segments.iter().map(|s| s.ident.to_string()).collect();
        let name = segs.last().unwrap().clone();
        if !self.g.by_name.contains_key(&name) { return (vec![], "none"); }
        if qself.is_some() {
            // <T as Trait>::f
            if segs.len() >= 2 && segs[segs.len() - 2] == "Dialect" {
                return (self.methods_named(&name, |n| n.fam == Fam::Dialect), "dialect");
            }
            self.fallback_count += 1;
            return (self.methods_named(&name, |_| true), "fallback");
        }
        if segs.len() == 1 {
            return (self.methods_named(&name, |n| matches!(n.fam, Fam::Free(_))), "free");
        }
        let q = segs[segs.len() - 2].clone();
        if q == "Self" {
            let own = self.self_owner.clone();
            let fam = self.self_fam.clone();
            return match fam {
                Fam::Parser => (self.methods_named(&name, |n| n.fam == Fam::Parser), "parser"),
                Fam::Dialect => (self.methods_named(&name, |n| n.fam == Fam::Dialect), "dialect"),
                _ => (self.methods_named(&name, |n| n.owner == own || n.fam == fam), "self-type"),
            };
        }
        if q == "Parser" { return (self.methods_named(&name, |n| n.fam == Fam::Parser), "parser"); }
        if q == "Dialect" { return (self.methods_named(&name, |n| n.fam == Fam::Dialect), "dialect"); }
        if self.g.dialect_types.contains(&q) {
            return (self.methods_named(&name, |n| n.fam == Fam::Dialect && (n.owner == q || n.owner == "Dialect")), "dialect-type");
        }
        if self.generics.contains(&q) {
            self.fallback_count += 1;
            return (self.methods_named(&name, |_| true), "fallback");
        }
        if self.g.owners.contains(&q) && !self.g.modules.contains(&q) {
            return (self.methods_named(&name, |n| n.owner == q || n.fam == Fam::Type(q.clone())), "type");
        }
        if self.g.modules.contains(&q) || q == "self" || q == "super" || q == "crate" {
            return (self.methods_named(&name, |n| matches!(n.fam, Fam::Free(_))), "free");
        }
        self.foreign_qual.insert(q);
        (vec![], "foreign")
    }

    fn new_closure(&mut self, c: &ExprClosure, param_ty: Ty) -> usize {
        let encl = self.root;
        let k = { let e = self.closure_count.entry(encl).or_insert(0); let v = *e; *e += 1; v };
        let en = self.node(encl).clone();
        let id = self.base_id + self.nodes_extra.len();
        self.nodes_extra.push(Node {
            owner: format!("{}::{}", en.owner, en.name), name: format!("{{closure#{}}}", k), fam: en.fam.clone(),
            file: en.file.clone(), kind: "closure", guarded: false, guard_note: None, is_pub: false, ho: false,
            trait_impl_other: false, body_hash: fnv(&c.to_token_stream().to_string()),
        });
        let mut m = HashMap::new();
        for (i, p) in c.inputs.iter().enumerate() {
            match p {
                Pat::Type(pt) => {
                    if let Pat::Ident(pi) = &*pt.pat { m.insert(pi.ident.to_string(), ty_of(&pt.ty)); }
                }
                Pat::Ident(pi) => {
                    m.insert(pi.ident.to_string(), if i == 0 { param_ty } else { Ty::Unknown });
                }
                _ => {}
            }
        }
        self.env.push(m);
        id
    }

    /// the type of the first parameter handed to a closure passed to the HO targets `ts`
    /// (only when every target is a graph node whose Fn bound takes a `Parser`)
    fn closure_param_ty(&self) -> Ty {
        // innermost enclosing call only
        if let Some(ts) = self.ho_stack.last() {
            if !ts.is_empty() && ts.iter().all(|&t| { let n = self.node(t); n.ho && n.fam == Fam::Parser }) {
                return Ty::Parser;
            }
        }
        Ty::Unknown
    }

    fn pass_to_ho(&mut self, target: usize, callee: &str) {
        // every enclosing call that resolves to higher-order graph nodes may invoke `target`
        let mut hs: Vec<usize> = vec![];
        for ts in &self.ho_stack {
            for &t in ts {
                if self.node(t).ho && !hs.contains(&t) { hs.push(t); }
            }
        }
        if !hs.is_empty() {
            let ctx = self.cur_id();
            self.ho_pass.push((ctx, target, callee.to_string()));
        }
    }

    fn scan_tokens(&mut self, ts: TokenStream) {
        // fallback for macro bodies that are not expression lists: `name ( .. )` is a call
        let v: Vec<TokenTree> = ts.into_iter().collect();
        for i in 0..v.len() {
            if let TokenTree::Group(g) = &v[i] {
                if g.delimiter() == Delimiter::Parenthesis && i > 0 {
                    if let TokenTree::Ident(id) = &v[i - 1] {
                        let name = id.to_string();
                        if self.g.by_name.contains_key(&name) {
                            let t = self.methods_named(&name, |_| true);
                            self.fallback_count += 1;
                            self.add_edges(&t, format!("<macro tokens> {}", name), "fallback");
                        }
                    }
                }
                self.scan_tokens(g.stream());
            } else if let TokenTree::Ident(id) = &v[i] {
                // function values mentioned in macro tokens
                let name = id.to_string();
                let next_is_paren = matches!(v.get(i + 1), Some(TokenTree::Group(g)) if g.delimiter() == Delimiter::Parenthesis);
                let prev_is_colon = i > 0 && matches!(&v[i - 1], TokenTree::Punct(p) if p.as_char() == ':');
                if !next_is_paren && prev_is_colon && self.g.by_name.contains_key(&name) {
                    let t = self.methods_named(&name, |_| true);
                    self.add_edges(&t, format!("<macro tokens> {}", name), "fallback");
                }
            }
        }
    }
}

impl<'a, 'ast> Visit<'ast> for BodyVisitor<'a> {
    fn visit_local(&mut self, l: &'ast Local) {
        // closure bound to a local name
        if let (Pat::Ident(pi), Some(init)) = (&l.pat, &l.init) {
            if let Expr::Closure(c) = &*init.expr {
                let id = self.new_closure(c, Ty::Unknown);
                let from = self.cur_id();
                self.edges.push(Edge { from, to: id, callee: "<closure>".into(), ord: 0, how: "closure" });
                self.closure_locals.insert(pi.ident.to_string(), id);
                self.cur.push(id);
                self.visit_expr(&c.body);
                self.cur.pop();
                self.env.pop();
                return;
            }
        }
        visit::visit_local(self, l);
    }

    fn visit_expr_method_call(&mut self, e: &'ast ExprMethodCall) {
        let name = e.method.to_string();
        let (targets, how) = self.resolve_method(&e.receiver, &name);
        let recv_txt = e.receiver.to_token_stream().to_string().replace(' ', "");
        let recv_short: String = recv_txt.chars().take(40).collect();
        if !targets.is_empty() {
            self.add_edges(&targets, format!("{}.{}", recv_short, name), how);
        }
        self.visit_expr(&e.receiver);
        // forwarding of a fn-typed parameter
        self.ho_stack.push(targets.clone());
        for a in &e.args {
            self.visit_expr(a);
        }
        self.ho_stack.pop();
    }

    fn visit_expr_call(&mut self, e: &'ast ExprCall) {
        let mut targets = vec![];
        match &*e.func {
            Expr::Path(p) => {
                // a call of a fn-typed parameter or a local closure is accounted for by the
                // higher-order edges; a path call is resolved by its qualifier
                let single = if p.qself.is_none() && p.path.segments.len() == 1 { Some(p.path.segments[0].ident.to_string()) } else { None };
                if let Some(n) = &single {
                    if let Some(&c) = self.closure_locals.get(n) {
                        self.add_edges(&[c], format!("{}", n), "closure");
                    }
                    if self.ho_params.last().map(|s| s.contains(n)).unwrap_or(false) && self.cur_id() != self.root {
                        let q = format!("{}::{}", self.node(self.root).owner, self.node(self.root).name);
                        self.free_closure_notes.push(format!("{} (fn-typed parameter `{}` used inside a nested closure)", q, n));
                    }
                }
                let (t, how) = self.resolve_path(&p.qself, &p.path);
                if !t.is_empty() {
                    let txt = p.path.to_token_stream().to_string().replace(' ', "");
                    self.add_edges(&t, txt, how);
                }
                targets = t;
            }
            other => self.visit_expr(other),
        }
        self.ho_stack.push(targets);
        for a in &e.args {
            self.visit_expr(a);
        }
        self.ho_stack.pop();
    }

    fn visit_expr_path(&mut self, p: &'ast ExprPath) {
        // a path in value position: function value, or a local closure / fn-typed parameter
        if p.qself.is_none() && p.path.segments.len() == 1 {
            let n = p.path.segments[0].ident.to_string();
            if let Some(&c) = self.closure_locals.get(&n) {
                self.pass_to_ho(c, &n);
                return;
            }
            // fn-typed parameter of the current function handed on to another call
            let is_ho_param = self.ho_params.last().map(|s| s.contains(&n)).unwrap_or(false);
            if is_ho_param {
                if self.cur_id() != self.root {
                    let q = format!("{}::{}", self.node(self.root).owner, self.node(self.root).name);
                    self.free_closure_notes.push(format!("{} (fn-typed parameter `{}` used inside a nested closure)", q, n));
                }
                let from = self.root;
                let mut gs: Vec<usize> = vec![];
                for ts in &self.ho_stack { for &t in ts { if self.node(t).ho { gs.push(t); } } }
                for g2 in gs { self.forwards.push((from, g2)); }
                return;
            }
            if self.lookup_var(&n) != Ty::Unknown || self.let_bound.contains(&n) { return; }
        }
        let (t, how) = self.resolve_path(&p.qself, &p.path);
        if !t.is_empty() {
            let txt = p.path.to_token_stream().to_string().replace(' ', "");
            self.add_edges(&t, format!("<fn value> {}", txt), how);
            for &x in &t { self.pass_to_ho(x, &txt); }
        }
    }

    fn visit_expr_closure(&mut self, c: &'ast ExprClosure) {
        let pty = self.closure_param_ty();
        let id = self.new_closure(c, pty);
        let from = self.cur_id();
        self.edges.push(Edge { from, to: id, callee: "<closure>".into(), ord: 0, how: "closure" });
        if self.ho_stack.is_empty() {
            // neither an argument of a call nor directly `let`-bound: where it flows is not tracked
            self.free_closures.push(id);
            let q = format!("{}::{}", self.node(self.root).owner, self.node(self.root).name);
            self.free_closure_notes.push(q);
        }
        self.pass_to_ho(id, "<closure>");
        self.cur.push(id);
        self.visit_expr(&c.body);
        self.cur.pop();
        self.env.pop();
    }

    fn visit_macro(&mut self, m: &'ast Macro) {
        let parsed = m.parse_body_with(Punctuated::<Expr, Token![,]>::parse_terminated);
        match parsed {
            Ok(list) => {
                for e in list.iter() { self.visit_expr(e); }
            }
            Err(_) => self.scan_tokens(m.tokens.clone()),
        }
    }

    fn visit_item(&mut self, _i: &'ast Item) {
        // nested items inside a body: attribute their calls to the enclosing function
        visit::visit_item(self, _i);
    }
}

struct LetCollector(HashSet<String>);
impl<'ast> Visit<'ast> for LetCollector {
    fn visit_pat_ident(&mut self, p: &'ast PatIdent) {
        self.0.insert(p.ident.to_string());
    }
    fn visit_expr_closure(&mut self, c: &'ast ExprClosure) {
        // closure parameters are scoped by the closure environment, not `let`-bound
        self.visit_expr(&c.body);
    }
}

fn tarjan(n: usize, adj: &Vec<Vec<usize>>, active: &Vec<bool>) -> Vec<Vec<usize>> {
    // iterative Tarjan over the active nodes
    let mut index = vec![usize::MAX; n];
    let mut low = vec![0usize; n];
    let mut on = vec![false; n];
    let mut st: Vec<usize> = vec![];
    let mut idx = 0usize;
    let mut out = vec![];
    for s in 0..n {
        if !active[s] || index[s] != usize::MAX { continue; }
        let mut call: Vec<(usize, usize)> = vec![(s, 0)];
        index[s] = idx; low[s] = idx; idx += 1; st.push(s); on[s] = true;
        while let Some(&mut (v, ref mut i)) = call.last_mut() {
            if *i < adj[v].len() {
                let w = adj[v][*i];
                *i += 1;
                if !active[w] { continue; }
                if index[w] == usize::MAX {
                    index[w] = idx; low[w] = idx; idx += 1; st.push(w); on[w] = true;
                    call.push((w, 0));
                } else if on[w] {
                    low[v] = low[v].min(index[w]);
                }
            } else {
                call.pop();
                if let Some(&(u, _)) = call.last() { low[u] = low[u].min(low[v]); }
                if low[v] == index[v] {
                    let mut comp = vec![];
                    loop {
                        let w = st.pop().unwrap();
                        on[w] = false;
                        comp.push(w);
                        if w == v { break; }
                    }
                    out.push(comp);
                }
            }
        }
    }
    out
}

/// shortest cycle through `start` inside `comp` (BFS)
fn cycle_through(start: usize, adj: &Vec<Vec<usize>>, inset: &HashSet<usize>) -> Vec<usize> {
    let mut prev: HashMap<usize, usize> = HashMap::new();
    let mut q = std::collections::VecDeque::new();
    q.push_back(start);
    while let Some(v) = q.pop_front() {
        for &w in &adj[v] {
            if !inset.contains(&w) { continue; }
            if w == start {
                let mut path = vec![v];
                let mut c = v;
                while c != start { c = prev[&c]; path.push(c); }
                path.reverse();
                return path; // start .. v, and v -> start closes it
            }
            if !prev.contains_key(&w) && w != start {
                prev.insert(w, v);
                q.push_back(w);
            }
        }
    }
    vec![]
}

fn path_from(sources: &[usize], target: usize, adj: &Vec<Vec<usize>>) -> Vec<usize> {
    let mut prev: HashMap<usize, usize> = HashMap::new();
    let mut q = std::collections::VecDeque::new();
    let src: HashSet<usize> = sources.iter().cloned().collect();
    if src.contains(&target) { return vec![target]; }
    for &s in sources { q.push_back(s); }
    while let Some(v) = q.pop_front() {
        for &w in &adj[v] {
            if src.contains(&w) || prev.contains_key(&w) { continue; }
            prev.insert(w, v);
            if w == target {
                let mut path = vec![w];
                let mut c = w;
                while let Some(&p) = prev.get(&c) { path.push(p); c = p; }
                path.reverse();
                return path;
            }
            q.push_back(w);
        }
    }
    vec![]
}

fn main() {
    let args: Vec<String> = std::env::args().collect();
    let src = args.get(1).cloned().unwrap_or_else(|| "/repo/src".into());
    let mut known: Vec<String> = vec![];
    let mut bounded_spec: Vec<String> = vec![];
    let mut i = 2;
    while i < args.len() {
        match args[i].as_str() {
            "--known" => { known = args[i + 1].split(',').filter(|s| !s.is_empty()).map(|s| s.to_string()).collect(); i += 2; }
            "--bounded" => { bounded_spec.push(args[i + 1].clone()); i += 2; }
            _ => i += 1,
        }
    }

    let mut files: Vec<(String, String)> = vec![];
    for sub in ["parser", "dialect"] {
        let d = format!("{}/{}", src, sub);
        let mut names: Vec<_> = std::fs::read_dir(&d).expect("src dir").filter_map(|e| e.ok()).map(|e| e.file_name().to_string_lossy().to_string()).filter(|n| n.ends_with(".rs")).collect();
        names.sort();
        for n in names {
            let module = if n == "mod.rs" { sub.to_string() } else { n.trim_end_matches(".rs").to_string() };
            files.push((format!("{}/{}", sub, n), module));
        }
    }
    let mut g = Graph::default();
    let mut items: Vec<FnItem> = vec![];
    let mut obligations: Vec<Value> = vec![];
    for (rel, module) in &files {
        let text = std::fs::read_to_string(format!("{}/{}", src, rel)).expect("read");
        let f = syn::parse_file(&text).unwrap_or_else(|e| panic!("cannot parse {}: {}", rel, e));
        g.modules.insert(module.clone());
        let mut c = Collector { g: &mut g, items: vec![], file: rel.clone(), module: module.clone(), obligations: vec![] };
        c.items(&f.items);
        items.extend(c.items);
        obligations.extend(c.obligations);
    }
    let nfn = g.nodes.len();

    // pass 2: bodies
    let mut all_edges: Vec<Edge> = vec![];
    let mut extra_nodes: Vec<Node> = vec![];
    let mut forwards: Vec<(usize, usize)> = vec![];
    let mut ho_pass: Vec<(usize, usize, String)> = vec![];
    let mut free_notes: Vec<String> = vec![];
    let mut foreign: BTreeSet<String> = BTreeSet::new();
    let mut fallbacks = 0usize;
    let mut free_closures: Vec<usize> = vec![];
    for it in &items {
        let mut env = HashMap::new();
        let mut hop = HashSet::new();
        for a in &it.sig.inputs {
            if let FnArg::Typed(t) = a {
                if let Pat::Ident(pi) = &*t.pat {
                    env.insert(pi.ident.to_string(), ty_of(&t.ty));
                    // fn-typed parameter: declared type is a generic with an Fn bound or impl Fn / fn(..)
                    let tn = t.ty.to_token_stream();
                    let tname = type_name(&t.ty);
                    let mut is_fn = tokens_have_ident(tn, &["Fn", "FnMut", "FnOnce", "fn"]);
                    for gp in it.sig.generics.params.iter() {
                        if let GenericParam::Type(tp) = gp {
                            if tp.ident == tname && tokens_have_ident(tp.bounds.to_token_stream(), &["Fn", "FnMut", "FnOnce"]) { is_fn = true; }
                        }
                    }
                    if let Some(w) = &it.sig.generics.where_clause {
                        for p in w.predicates.iter() {
                            if let WherePredicate::Type(pt) = p {
                                if type_name(&pt.bounded_ty) == tname && tokens_have_ident(pt.bounds.to_token_stream(), &["Fn", "FnMut", "FnOnce"]) { is_fn = true; }
                            }
                        }
                    }
                    if is_fn { hop.insert(pi.ident.to_string()); }
                }
            }
        }
        let mut lc = LetCollector(HashSet::new());
        lc.visit_block(&it.block);
        let mut v = BodyVisitor {
            g: &g, nodes_extra: std::mem::take(&mut extra_nodes), base_id: nfn, cur: vec![it.id],
            self_fam: it.self_fam.clone(), self_owner: it.self_owner.clone(), generics: it.generics.clone(),
            env: vec![env], let_bound: lc.0, closure_locals: HashMap::new(), ho_stack: vec![], edges: vec![],
            ord: HashMap::new(), forwards: vec![], ho_pass: vec![], free_closure_notes: vec![], ho_params: vec![hop.clone()], closure_count: HashMap::new(),
            foreign_qual: BTreeSet::new(), fallback_count: 0, free_closures: vec![], root: it.id,
        };
        // a call of a fn-typed parameter inside H is represented by the higher-order edges
        v.visit_block(&it.block);
        extra_nodes = std::mem::take(&mut v.nodes_extra);
        all_edges.extend(v.edges);
        forwards.extend(v.forwards);
        ho_pass.extend(v.ho_pass);
        free_notes.extend(v.free_closure_notes);
        foreign.extend(v.foreign_qual);
        fallbacks += v.fallback_count;
        free_closures.extend(v.free_closures);
    }
    let mut nodes = g.nodes.clone();
    nodes.extend(extra_nodes);

    // Higher-order functions are instantiated per calling context: for a node A that calls a
    // higher-order node H (a function with an Fn-typed parameter), the instance H@A has H's own
    // call edges (higher-order callees again instantiated for A) plus an edge to every function
    // value / closure that A hands to a higher-order call.  A real stack A, H, [G,] c is the path
    // A -> H@A [-> G@A] -> c.  The base node H keeps its own edges (it is an entry point).
    let _ = &forwards;
    {
        let ho_flags: Vec<bool> = nodes.iter().map(|x| x.ho).collect();
        let is_ho = |i: usize| ho_flags[i];
        let base_edges = all_edges.clone();
        let mut out_ho: HashMap<usize, Vec<usize>> = HashMap::new(); // HO -> HO callees
        for e in &base_edges {
            if is_ho(e.from) && is_ho(e.to) { out_ho.entry(e.from).or_default().push(e.to); }
        }
        let mut ctxs: BTreeMap<usize, BTreeSet<usize>> = BTreeMap::new();
        for e in &base_edges {
            if is_ho(e.to) { ctxs.entry(e.from).or_default().insert(e.to); }
        }
        // closures written inside a higher-order function are contexts too
        let mut inst: HashMap<(usize, usize), usize> = HashMap::new();
        let mut new_edges: Vec<Edge> = vec![];
        for (&a, hs) in &ctxs {
            let mut set: BTreeSet<usize> = hs.clone();
            let mut todo: Vec<usize> = hs.iter().cloned().collect();
            while let Some(h) = todo.pop() {
                for &g2 in out_ho.get(&h).map(|v| v.as_slice()).unwrap_or(&[]) {
                    if set.insert(g2) { todo.push(g2); }
                }
            }
            for &h in &set {
                let id = nodes.len();
                let hn = nodes[h].clone();
                let aq = format!("{}::{}", nodes[a].owner, nodes[a].name);
                nodes.push(Node { name: format!("{}@{}", hn.name, aq), kind: "ho-instance", is_pub: false, ..hn });
                inst.insert((a, h), id);
            }
            for &h in &set {
                let hid = inst[&(a, h)];
                for e in base_edges.iter().filter(|e| e.from == h) {
                    let to = if is_ho(e.to) && set.contains(&e.to) { inst[&(a, e.to)] } else { e.to };
                    new_edges.push(Edge { from: hid, to, callee: e.callee.clone(), ord: e.ord, how: e.how });
                }
                for (ctx, target, txt) in &ho_pass {
                    // values handed over by the context itself, or literally written inside one
                    // of the higher-order functions instantiated for it
                    if *ctx == a || set.contains(ctx) {
                        new_edges.push(Edge { from: hid, to: *target, callee: format!("<fn value> {}", txt), ord: 0, how: "higher-order" });
                    }
                }
            }
        }
        // redirect A -> H to A -> H@A
        for e in all_edges.iter_mut() {
            if let Some(&id) = inst.get(&(e.from, e.to)) { e.to = id; }
        }
        all_edges.extend(new_edges);
    }
    for q in &free_notes {
        obligations.push(json!({"kind": "free_closure", "fn": q}));
    }
    for it in &items {
        if let ReturnType::Type(_, t) = &it.sig.output {
            if tokens_have_ident(t.to_token_stream(), &["Fn", "FnMut", "FnOnce", "fn"]) {
                obligations.push(json!({"kind": "returns_fn", "fn": format!("{}::{}", nodes[it.id].owner, nodes[it.id].name)}));
            }
        }
    }
    let n = nodes.len();

    // dedupe edges to a set of pairs, keeping the first shape key
    let mut pair_first: BTreeMap<(usize, usize), usize> = BTreeMap::new();
    for (k, e) in all_edges.iter().enumerate() {
        pair_first.entry((e.from, e.to)).or_insert(k);
    }
    let qn = |i: usize| -> String { format!("{}::{}", nodes[i].owner, nodes[i].name) };

    // obligations: macro_rules bodies must not call graph nodes; aliases must not rename owners;
    // trait impls other than Dialect (implicitly invoked: From via `?`, Drop, Display, Default) must be leaves
    let mut unresolved: Vec<Value> = vec![];
    for o in &obligations {
        match o["kind"].as_str().unwrap() {
            "macro_rules" => {
                let toks = o["tokens"].as_str().unwrap();
                let ts: TokenStream = toks.parse().unwrap_or_default();
                let mut bad = vec![];
                fn scan(ts: TokenStream, g: &Graph, bad: &mut Vec<String>) {
                    let v: Vec<TokenTree> = ts.into_iter().collect();
                    for i in 0..v.len() {
                        if let TokenTree::Group(gr) = &v[i] {
                            if gr.delimiter() == Delimiter::Parenthesis && i > 0 {
                                if let TokenTree::Ident(id) = &v[i - 1] {
                                    if g.by_name.contains_key(&id.to_string()) { bad.push(id.to_string()); }
                                }
                            }
                            scan(gr.stream(), g, bad);
                        }
                    }
                }
                scan(ts, &g, &mut bad);
                // `is` (dialect_of!) is a leaf of the Dialect family: allowed when every node of that name is a leaf
                let bad: Vec<String> = bad.into_iter().filter(|b| {
                    g.by_name[b].iter().any(|&t| all_edges.iter().any(|e| e.from == t))
                }).collect();
                if !bad.is_empty() {
                    unresolved.push(json!({"kind": "macro_rules body calls graph functions", "macro": o["name"], "file": o["file"], "calls": bad}));
                }
            }
            "type_alias" | "use_as" => {
                let toks = o["tokens"].as_str().unwrap();
                if toks.contains("Parser") || toks.contains("Dialect") && toks.contains(" as ") {
                    unresolved.push(json!({"kind": "alias of an owner type", "file": o["file"], "tokens": toks}));
                }
            }
            "free_closure" => {
                unresolved.push(json!({"kind": "closure that is neither a call argument nor directly let-bound (its flow is not tracked)", "fn": o["fn"]}));
            }
            "returns_fn" => {
                unresolved.push(json!({"kind": "function returns a function value (calls through it are not tracked)", "fn": o["fn"]}));
            }
            "fn_typed_field" => {
                unresolved.push(json!({"kind": "struct field of function type (calls through it are not tracked)", "file": o["file"], "name": o["name"]}));
            }
            _ => {}
        }
    }
    for (i, nd) in nodes.iter().enumerate() {
        if nd.trait_impl_other {
            let outs: Vec<String> = pair_first.keys().filter(|(f, t)| *f == i && matches!(nodes[*t].fam, Fam::Parser | Fam::Dialect)).map(|(_, t)| qn(*t)).collect();
            if !outs.is_empty() {
                unresolved.push(json!({"kind": "implicitly callable trait impl calls parser/dialect functions", "node": qn(i), "calls": outs}));
            }
        }
    }

    // bounded edges: "<from>-><to>:<k>:<hash>" — honoured only when the hash of the bodies of
    // the named functions (concatenated, in the order from,to,+extra) matches, or hash is "*"
    let find = |q: &str| -> Option<usize> { (0..n).find(|&i| qn(i) == q) };
    let mut bounded: Vec<(usize, usize, u64)> = vec![];
    let mut bounded_report: Vec<Value> = vec![];
    for spec in &bounded_spec {
        // from->to:k:hash[:pin1,pin2..]
        let parts: Vec<&str> = spec.split('|').collect();
        if parts.len() < 4 { continue; }
        let (from, to, k, hash) = (parts[0], parts[1], parts[2].parse::<u64>().unwrap_or(0), parts[3]);
        let pins: Vec<&str> = if parts.len() > 4 { parts[4].split(',').collect() } else { vec![] };
        let (fi, ti) = (find(from), find(to));
        let mut hs = String::new();
        let mut ok = fi.is_some() && ti.is_some();
        for p in &pins {
            match find(p) { Some(i) => hs.push_str(&nodes[i].body_hash), None => ok = false }
        }
        let cur = fnv(&hs);
        let honoured = ok && (hash == "*" || hash == cur) && pair_first.contains_key(&(fi.unwrap_or(0), ti.unwrap_or(0)));
        bounded_report.push(json!({"from": from, "to": to, "bound": k, "pinned_hash": hash, "current_hash": cur, "honoured": honoured}));
        if honoured { bounded.push((fi.unwrap(), ti.unwrap(), k)); }
    }
    let bset: HashSet<(usize, usize)> = bounded.iter().map(|b| (b.0, b.1)).collect();

    // unguarded subgraph (edges into unguarded nodes, bounded edges removed)
    let guarded: Vec<bool> = nodes.iter().map(|x| x.guarded).collect();
    let mut adj_all: Vec<Vec<usize>> = vec![vec![]; n];
    for &(f, t) in pair_first.keys() { adj_all[f].push(t); }
    let analyse = |exc: &HashSet<usize>| -> (Vec<Vec<usize>>, Vec<Vec<usize>>) {
        let active: Vec<bool> = (0..n).map(|i| !guarded[i] && !exc.contains(&i)).collect();
        let mut adj: Vec<Vec<usize>> = vec![vec![]; n];
        for &(f, t) in pair_first.keys() {
            if active[f] && active[t] && !bset.contains(&(f, t)) { adj[f].push(t); }
        }
        let comps = tarjan(n, &adj, &active);
        let bad: Vec<Vec<usize>> = comps.into_iter().filter(|c| c.len() > 1 || adj[c[0]].contains(&c[0])).collect();
        (bad, adj)
    };
    let (sccs0, _) = analyse(&HashSet::new());
    // known exceptions: a named function is excepted only when it lies in an offending component
    let mut exc: HashSet<usize> = HashSet::new();
    let mut known_used: Vec<Value> = vec![];
    for k in &known {
        for comp in &sccs0 {
            for &i in comp {
                if nodes[i].kind == "fn" && nodes[i].fam == Fam::Parser && &nodes[i].name == k {
                    exc.insert(i);
                    known_used.push(json!({"key": k, "node": i, "component": comp.iter().map(|&x| qn(x)).collect::<Vec<_>>()}));
                }
            }
        }
    }
    let (sccs1, adj1) = analyse(&exc);

    // entry points: public functions of Parser, every Dialect method and public free functions
    let entries: Vec<usize> = (0..n).filter(|&i| nodes[i].kind == "fn" && nodes[i].is_pub && !matches!(nodes[i].fam, Fam::Type(_))).collect();

    // pump witnesses for the known exceptions: (path from an entry, cycle) in the real graph
    let mut witnesses: Vec<Value> = vec![];
    {
        let active0: Vec<bool> = (0..n).map(|i| !guarded[i]).collect();
        let mut adj0: Vec<Vec<usize>> = vec![vec![]; n];
        for &(f, t) in pair_first.keys() { if active0[f] && active0[t] && !bset.contains(&(f, t)) { adj0[f].push(t); } }
        for &e in exc.iter().collect::<BTreeSet<_>>() {
            let comp = sccs0.iter().find(|c| c.contains(&e)).unwrap();
            let inset: HashSet<usize> = comp.iter().cloned().collect();
            let cyc = cycle_through(e, &adj0, &inset);
            let path = path_from(&entries, e, &adj_all);
            witnesses.push(json!({"key": nodes[e].name, "node": e, "cycle": cyc, "path": path,
                "cycle_names": cyc.iter().map(|&x| qn(x)).collect::<Vec<_>>()}));
        }
    }

    // rank certificate: height in the acyclic graph of edges into unguarded, non-excepted nodes
    let cert_exists = sccs1.is_empty();
    let mut rank = vec![0u64; n];
    {
        // longest path by DFS with memo on adj restricted to targets that are unguarded & not excepted
        let tgt_ok: Vec<bool> = (0..n).map(|i| !guarded[i] && !exc.contains(&i)).collect();
        let mut succ: Vec<Vec<usize>> = vec![vec![]; n];
        for &(f, t) in pair_first.keys() { if tgt_ok[t] && !bset.contains(&(f, t)) { succ[f].push(t); } }
        let mut state = vec![0u8; n];
        for s in 0..n {
            if state[s] != 0 { continue; }
            let mut st: Vec<(usize, usize)> = vec![(s, 0)];
            state[s] = 1;
            while let Some(&mut (v, ref mut i)) = st.last_mut() {
                if *i < succ[v].len() {
                    let w = succ[v][*i];
                    *i += 1;
                    if state[w] == 0 { state[w] = 1; st.push((w, 0)); }
                    // state 1 = back edge (cycle): ignored, the certificate will not check
                } else {
                    let mut r = 0;
                    for &w in &succ[v] { if state[w] == 2 { r = r.max(rank[w] + 1); } }
                    rank[v] = r;
                    state[v] = 2;
                    st.pop();
                }
            }
        }
    }
    let max_rank = rank.iter().cloned().max().unwrap_or(0);

    // offending cycles (after exceptions), with shape keys of their edges and a path from an entry
    let mut offending: Vec<Value> = vec![];
    for comp in &sccs1 {
        let inset: HashSet<usize> = comp.iter().cloned().collect();
        let start = *comp.iter().min().unwrap();
        let cyc = cycle_through(start, &adj1, &inset);
        let path = path_from(&entries, start, &adj_all);
        let mut keys = vec![];
        for w in 0..cyc.len() {
            let (a, b) = (cyc[w], cyc[(w + 1) % cyc.len()]);
            if let Some(&k) = pair_first.get(&(a, b)) {
                keys.push(json!({"fn": qn(a), "callee": all_edges[k].callee, "ord": all_edges[k].ord, "to": qn(b)}));
            }
        }
        offending.push(json!({"component": comp.iter().map(|&x| qn(x)).collect::<Vec<_>>(), "component_ids": comp,
            "cycle": cyc, "cycle_names": cyc.iter().map(|&x| qn(x)).collect::<Vec<_>>(), "edges": keys,
            "path_from_entry": path, "path_names": path.iter().map(|&x| qn(x)).collect::<Vec<_>>()}));
    }

    let notes: Vec<Value> = nodes.iter().enumerate().filter(|(_, x)| x.guard_note.is_some())
        .map(|(i, x)| json!({"node": qn(i), "note": x.guard_note})).collect();
    let out = json!({
        "files": files.iter().map(|f| f.0.clone()).collect::<Vec<_>>(),
        "nodes": nodes.iter().enumerate().map(|(i, x)| json!({"id": i, "owner": x.owner, "name": x.name, "q": qn(i),
            "family": match &x.fam { Fam::Parser => "Parser".to_string(), Fam::Dialect => "Dialect".to_string(), Fam::Type(t) => format!("type:{}", t), Fam::Free(m) => format!("free:{}", m) },
            "file": x.file, "kind": x.kind, "guarded": x.guarded, "pub": x.is_pub, "higher_order": x.ho, "rank": rank[i], "hash": x.body_hash})).collect::<Vec<_>>(),
        "edges": pair_first.iter().map(|(&(f, t), &k)| json!({"from": f, "to": t, "key": {"fn": qn(f), "callee": all_edges[k].callee, "ord": all_edges[k].ord}, "how": all_edges[k].how})).collect::<Vec<_>>(),
        "call_sites": all_edges.len(),
        "guarded": (0..n).filter(|&i| guarded[i]).collect::<Vec<_>>(),
        "guard_notes": notes,
        "entries": entries,
        "bounded": bounded.iter().map(|b| json!([b.0, b.1, b.2])).collect::<Vec<_>>(),
        "bounded_report": bounded_report,
        "sccs_unguarded": sccs0.iter().map(|c| c.iter().map(|&x| qn(x)).collect::<Vec<_>>()).collect::<Vec<_>>(),
        "exceptions": exc.iter().cloned().collect::<BTreeSet<_>>(),
        "known_used": known_used,
        "witnesses": witnesses,
        "certificate_exists": cert_exists,
        "max_rank": max_rank,
        "offending": offending,
        "unresolved": unresolved,
        "foreign_qualifiers": foreign,
        "fallback_resolutions": fallbacks,
    });
    println!("{}", out);
}
