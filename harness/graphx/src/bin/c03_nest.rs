//! C03 nesting driver.  Always run as a CHILD PROCESS: a stack overflow is observed by the
//! parent as an exit status (SIGSEGV / SIGABRT).  Inputs are generated here, never passed on
//! the command line.
//!
//!   c03_nest list
//!   c03_nest nest    <template> <n> <dialect> <limit|default> <main|thread>
//!   c03_nest sibling <template> <d> <m> <dialect> <limit|default> <main|thread>
//!   c03_nest reuse   <template> <deep> <d> <dialect> <limit> <main|thread>
//!   c03_nest thresh  <template> <dialect> <limit> <max>
//!   c03_nest setops  (JSON lines on stdin: {"ops":[0|1|2,...]}) -> right-nesting depth of the tree
//!   c03_nest probe   (JSON lines on stdin: {"sql":..,"dialect":..}) -> observed caller/callee pairs
use serde_json::{json, Value};
use sqlparser::parser::{Parser, ParserError};
use std::time::Instant;

#[derive(Clone)]
struct T {
    id: &'static str,
    kind: &'static str, // nest | flat
    outer_prefix: &'static str,
    item_prefix: &'static str,
    open: &'static str,
    core: &'static str,
    close: &'static str,
    item_suffix: &'static str,
    outer_suffix: &'static str,
    sep: &'static str,
    dialects: &'static [&'static str],
    /// functions this construct is expected to recurse through (for mapping cycles to templates)
    funcs: &'static [&'static str],
}

const ALL: &[&str] = &["generic"];

fn t(id: &'static str, kind: &'static str, outer_prefix: &'static str, item_prefix: &'static str, open: &'static str,
     core: &'static str, close: &'static str, item_suffix: &'static str, outer_suffix: &'static str, sep: &'static str,
     dialects: &'static [&'static str], funcs: &'static [&'static str]) -> T {
    T { id, kind, outer_prefix, item_prefix, open, core, close, item_suffix, outer_suffix, sep, dialects, funcs }
}

fn templates() -> Vec<T> {
    let sel = "SELECT ";
    let from = "SELECT * FROM ";
    let ct = "CREATE TABLE t (";
    vec![
        // ---- self-embedding constructs
        t("parens", "nest", sel, "", "(", "1", ")", "", "", ", ", &["generic", "mysql", "postgresql"], &["parse_prefix", "parse_subexpr", "parse_expr"]),
        t("subquery_expr", "nest", sel, "", "(SELECT ", "1", ")", "", "", ", ", &["generic", "ansi", "sqlite"], &["parse_query", "parse_select", "parse_prefix", "parse_query_body", "parse_boxed_query"]),
        t("exists_subquery", "nest", sel, "", "EXISTS (SELECT ", "1", ")", "", "", ", ", &["generic", "mssql"], &["parse_exists_expr", "parse_query"]),
        t("in_subquery", "nest", sel, "", "1 IN (SELECT ", "1", ")", "", "", ", ", &["generic", "hive"], &["parse_in", "parse_infix", "parse_query"]),
        t("derived_table", "nest", from, "", "(SELECT * FROM ", "t", ") AS a", "", "", ", ", &["generic", "postgresql", "snowflake"], &["parse_derived_table_factor", "parse_table_factor", "parse_query", "parse_select", "parse_table_and_joins"]),
        t("join_parens", "nest", from, "", "(", "a NATURAL JOIN b", ")", "", "", ", ", &["generic", "mysql", "snowflake", "redshift"], &["parse_table_factor", "parse_table_and_joins"]),
        t("join_right_nested", "nest", from, "", "(a NATURAL JOIN ", "z", ")", "", "", ", ", &["generic", "ansi", "databricks"], &["parse_table_factor", "parse_table_and_joins"]),
        t("cte", "nest", "", "", "WITH a AS (", "SELECT 1", ") SELECT 1", "", "", "; ", &["generic", "postgresql"], &["parse_cte", "parse_query"]),
        t("set_op_parens", "nest", "", "", "SELECT 1 UNION (", "SELECT 1", ")", "", "", "; ", &["generic", "duckdb"], &["parse_query_body", "parse_remaining_set_exprs", "parse_boxed_query_body", "parse_query", "parse_boxed_query"]),
        t("case", "nest", sel, "", "CASE WHEN 1 THEN ", "1", " END", "", "", ", ", &["generic", "sqlite", "bigquery"], &["parse_case_expr", "parse_expr"]),
        t("func_args", "nest", sel, "", "f(", "1", ")", "", "", ", ", &["generic", "clickhouse", "hive"], &["parse_function", "parse_function_args", "parse_function_argument_list", "parse_wildcard_expr"]),
        t("window_nested", "nest", sel, "", "f() OVER (PARTITION BY ", "1", ")", "", "", ", ", &["generic", "postgresql"], &["parse_window_spec", "parse_function"]),
        t("cast", "nest", sel, "", "CAST(", "1", " AS INT)", "", "", ", ", &["generic", "mssql"], &["parse_cast_expr"]),
        t("array_kw", "nest", sel, "", "ARRAY[", "1", "]", "", "", ", ", &["generic", "postgresql", "bigquery"], &["parse_array_expr"]),
        t("array_bracket", "nest", sel, "", "[", "1", "]", "", "", ", ", &["duckdb", "generic", "clickhouse"], &["parse_array_expr"]),
        t("dict_braces", "nest", sel, "", "{'a': ", "1", "}", "", "", ", ", &["duckdb", "generic"], &["parse_duckdb_struct_literal", "parse_duckdb_dictionary_field"]),
        t("map_literal", "nest", sel, "", "MAP {'a': ", "1", "}", "", "", ", ", &["duckdb", "generic"], &["parse_duckdb_map_literal", "parse_duckdb_map_field"]),
        t("struct_literal", "nest", sel, "", "STRUCT(", "1", ")", "", "", ", ", &["bigquery", "generic"], &["parse_bigquery_struct_literal", "parse_struct_field_expr"]),
        t("tuple", "nest", sel, "", "(1, ", "1", ")", "", "", ", ", &["generic", "snowflake"], &["parse_prefix"]),
        t("subscript_nested", "nest", sel, "", "a[", "1", "]", "", "", ", ", &["postgresql", "duckdb", "generic"], &["parse_subscript", "parse_subscript_inner", "parse_infix"]),
        t("interval_chain", "nest", sel, "", "INTERVAL ", "'1' DAY", "", "", "", ", ", &["generic", "postgresql", "snowflake"], &["parse_interval", "parse_prefix"]),
        t("not_chain", "nest", sel, "", "NOT ", "1", "", "", "", ", ", &["generic", "sqlite"], &["parse_not", "parse_prefix", "parse_subexpr"]),
        t("minus_chain", "nest", sel, "", "- ", "1", "", "", "", ", ", &["generic", "mysql"], &["parse_prefix", "parse_subexpr"]),
        t("prior_chain", "nest", "SELECT a FROM t START WITH a = 1 CONNECT BY ", "a = ", "PRIOR ", "b", "", "", "", ", ", &["generic", "snowflake", "mssql"], &["parse_prefix", "parse_subexpr", "parse_connect_by"]),
        t("explain_nested", "nest", "", "", "EXPLAIN ", "SELECT 1", "", "", "", "; ", &["generic", "mysql", "postgresql"], &["parse_explain", "parse_statement"]),
        t("type_array_angle", "nest", ct, "c ", "ARRAY<", "INT", ">", "", ")", ", ", &["bigquery", "generic"], &["parse_data_type", "parse_data_type_helper", "parse_sub_type"]),
        t("type_struct_angle", "nest", ct, "c ", "STRUCT<a ", "INT", ">", "", ")", ", ", &["bigquery", "generic"], &["parse_data_type", "parse_data_type_helper", "parse_struct_type_def", "parse_struct_field_def"]),
        t("type_struct_parens", "nest", ct, "c ", "STRUCT(a ", "INT", ")", "", ")", ", ", &["duckdb"], &["parse_duckdb_struct_type_def", "parse_data_type_helper"]),
        t("type_union", "nest", ct, "c ", "UNION(a ", "INT", ")", "", ")", ", ", &["duckdb", "generic"], &["parse_union_type_def", "parse_data_type_helper"]),
        t("type_tuple", "nest", ct, "c ", "Tuple(", "INT", ")", "", ") ENGINE=MergeTree ORDER BY c", ", ", &["clickhouse", "generic"], &["parse_click_house_tuple_def", "parse_data_type_helper"]),
        t("type_nested", "nest", ct, "c ", "Nested(a ", "INT", ")", "", ") ENGINE=MergeTree ORDER BY c", ", ", &["clickhouse", "generic"], &["parse_column_def", "parse_data_type_helper"]),
        t("type_nullable", "nest", ct, "c ", "Nullable(", "INT", ")", "", ") ENGINE=MergeTree ORDER BY c", ", ", &["clickhouse", "generic"], &["parse_sub_type", "parse_data_type_helper"]),
        t("type_map", "nest", ct, "c ", "Map(INT, ", "INT", ")", "", ") ENGINE=MergeTree ORDER BY c", ", ", &["clickhouse", "generic"], &["parse_click_house_map_def", "parse_data_type_helper"]),
        t("type_array_parens", "nest", ct, "c ", "Array(", "INT", ")", "", ") ENGINE=MergeTree ORDER BY c", ", ", &["clickhouse"], &["parse_sub_type", "parse_data_type_helper"]),
        t("cast_type_array", "nest", sel, "CAST(1 AS ", "ARRAY<", "INT", ">", ")", "", ", ", &["bigquery", "generic"], &["parse_data_type", "parse_data_type_helper", "parse_sub_type"]),
        t("pattern_alt_groups", "nest", "SELECT * FROM t MATCH_RECOGNIZE(PATTERN (", "", "B | (", "A", ")", "", ") DEFINE A AS true)", " ", &["snowflake", "generic"], &["parse_pattern", "parse_concat_pattern", "parse_repetition_pattern", "parse_base_pattern", "parse_match_recognize"]),
        t("pattern_groups", "nest", "SELECT * FROM t MATCH_RECOGNIZE(PATTERN (", "", "(", "A", ")", "", ") DEFINE A AS true)", " ", &["snowflake", "generic"], &["parse_pattern", "parse_concat_pattern", "parse_repetition_pattern", "parse_base_pattern", "parse_match_recognize"]),
        t("lambda", "nest", sel, "", "f(x -> ", "x", ")", "", "", ", ", &["databricks", "duckdb", "generic"], &["try_parse_lambda", "parse_function"]),
        // ---- long inputs of bounded nesting (must never be rejected by the limit)
        t("flat_binop", "flat", sel, "", "", "1", " + 1", "", "", ", ", &["generic", "mysql"], &[]),
        t("flat_and", "flat", sel, "", "", "a", " AND a", "", "", ", ", &["generic", "postgresql"], &[]),
        t("flat_cast_chain", "flat", sel, "", "", "1", "::INT", "", "", ", ", &["generic", "postgresql", "snowflake"], &[]),
        t("flat_subscript_chain", "flat", sel, "", "", "a", "[1]", "", "", ", ", &["postgresql", "duckdb"], &[]),
        t("flat_union", "flat", "", "", "", "SELECT 1", " UNION SELECT 1", "", "", "; ", &["generic", "ansi"], &["parse_remaining_set_exprs"]),
        t("flat_intersect_mix", "flat", "", "", "", "SELECT 1", " UNION SELECT 1 INTERSECT SELECT 1 EXCEPT SELECT 1", "", "", "; ", &["generic", "duckdb"], &["parse_remaining_set_exprs", "parse_query_body", "parse_boxed_query_body"]),
        t("flat_joins", "flat", from, "", "", "a", " NATURAL JOIN a", "", "", ", ", &["generic", "mysql"], &[]),
        t("flat_case_whens", "flat", sel, "CASE", "", " WHEN 1 THEN 1", " WHEN 1 THEN 1", " END", "", ", ", &["generic", "sqlite"], &[]),
        t("flat_in_list", "flat", sel, "1 IN (1", "", "", ", 1", ")", "", ", ", &["generic", "hive"], &[]),
        t("flat_compound_ident", "flat", sel, "", "", "a", ".a", "", "", ", ", &["generic", "bigquery"], &[]),
        t("flat_statements", "flat", "", "", "", "SELECT 1", "; SELECT 1", "", "", "; ", &["generic", "mssql"], &[]),
        t("flat_type_array_suffix", "flat", ct, "c ", "", "INT", "[]", "", ")", ", ", &["postgresql", "generic"], &["parse_data_type_helper"]),
        t("flat_pattern_alternation", "flat", "SELECT * FROM t MATCH_RECOGNIZE(PATTERN (", "", "", "A", " | A", "", ") DEFINE A AS true)", " ", &["snowflake", "generic"], &["parse_pattern"]),
        t("flat_pattern_concat", "flat", "SELECT * FROM t MATCH_RECOGNIZE(PATTERN (", "", "", "A", " A", "", ") DEFINE A AS true)", " ", &["snowflake", "generic"], &["parse_concat_pattern"]),
    ]
}

fn find(id: &str) -> T {
    templates().into_iter().find(|x| x.id == id).unwrap_or_else(|| {
        eprintln!("unknown template {id}");
        std::process::exit(2)
    })
}

fn item(t: &T, n: usize, out: &mut String) {
    out.push_str(t.item_prefix);
    for _ in 0..n { out.push_str(t.open); }
    out.push_str(t.core);
    for _ in 0..n { out.push_str(t.close); }
    out.push_str(t.item_suffix);
}

fn nest_sql(t: &T, n: usize) -> String {
    let mut s = String::with_capacity(64 + n * (t.open.len() + t.close.len()));
    s.push_str(t.outer_prefix);
    item(t, n, &mut s);
    s.push_str(t.outer_suffix);
    s
}

fn sibling_sql(t: &T, d: usize, m: usize) -> String {
    let mut s = String::new();
    s.push_str(t.outer_prefix);
    for i in 0..m {
        if i > 0 { s.push_str(t.sep); }
        item(t, d, &mut s);
    }
    s.push_str(t.outer_suffix);
    s
}

/// `order` is a dotted list of builder calls applied to Parser::new(dialect).
fn build_in_order<'a>(order: &str, dl: &'a dyn sqlparser::dialect::Dialect, lim: usize, sql: &str,
                      toks: &[sqlparser::tokenizer::Token]) -> Result<Parser<'a>, ParserError> {
    let mut p = Parser::new(dl);
    for step in order.split('.').skip(1) {
        p = match step {
            "limit" => p.with_recursion_limit(lim),
            "options" => p.with_options(sqlparser::parser::ParserOptions::new().with_trailing_commas(true)),
            "sql" => p.try_with_sql(sql)?,
            "tokens" => p.with_tokens(toks.to_vec()),
            other => panic!("unknown builder step {other}"),
        };
    }
    Ok(p)
}

fn classify<X>(r: &Result<X, ParserError>) -> (&'static str, String) {
    match r {
        Ok(_) => ("ok", String::new()),
        Err(ParserError::RecursionLimitExceeded) => ("limit", String::new()),
        Err(ParserError::TokenizerError(m)) => ("tokenizer_error", m.chars().take(160).collect()),
        Err(ParserError::ParserError(m)) => ("error", m.chars().take(160).collect()),
    }
}

fn parse_once(sql: &str, dialect: &str, limit: &str) -> (&'static str, String, usize) {
    let d = vh::dialect_by_name(dialect);
    let mut p = Parser::new(&*d);
    if limit != "default" {
        p = p.with_recursion_limit(limit.parse().expect("limit"));
    }
    let r = match p.try_with_sql(sql) {
        Ok(mut p) => p.parse_statements(),
        Err(e) => Err(e),
    };
    let (c, m) = classify(&r);
    let k = r.as_ref().map(|v| v.len()).unwrap_or(0);
    // dropping a very deep tree recurses too; C03 is about parsing, so the tree is leaked
    std::mem::forget(r);
    (c, m, k)
}

fn run_in<F: FnOnce() -> Value + Send + 'static>(mode: &str, f: F) -> Value {
    match mode {
        "main" => f(),
        "thread" => std::thread::Builder::new()
            .stack_size(2 * 1024 * 1024)
            .spawn(f)
            .expect("spawn")
            .join()
            .unwrap_or_else(|e| json!({"status": "panic", "msg": vh::panic_msg(e)})),
        _ => panic!("mode"),
    }
}

fn guarded<F: FnOnce() -> Value + std::panic::UnwindSafe>(f: F) -> Value {
    match std::panic::catch_unwind(f) {
        Ok(v) => v,
        Err(e) => json!({"status": "panic", "msg": vh::panic_msg(e)}),
    }
}

fn right_depth(e: &sqlparser::ast::SetExpr) -> u64 {
    use sqlparser::ast::SetExpr;
    // iterative on the left spine (long), recursive on the right spine (model: <= 2)
    let mut cur = e;
    let mut best = 0;
    loop {
        match cur {
            SetExpr::SetOperation { left, right, .. } => {
                best = best.max(1 + right_depth(right));
                cur = left;
            }
            _ => return best,
        }
    }
}

// ---- translator validation: stacks observed at the dialect hooks (a wrapper dialect that
// delegates to a real one and records the parser frames that lead to each hook call)
thread_local! {
    static PAIRS: std::cell::RefCell<std::collections::BTreeSet<(String, String)>> = std::cell::RefCell::new(Default::default());
}
fn capture() {
    let bt = std::backtrace::Backtrace::force_capture().to_string();
    let mut frames: Vec<String> = vec![]; // innermost first
    for line in bt.lines() {
        let l = line.trim_start();
        if let Some(pos) = l.find(": ") {
            if !l[..pos].is_empty() && l[..pos].chars().all(|c| c.is_ascii_digit()) {
                let sym = &l[pos + 2..];
                if sym.contains("sqlparser::parser::") || sym.contains("sqlparser::dialect::") {
                    frames.push(sym.to_string());
                }
            }
        }
    }
    PAIRS.with(|p| {
        let mut p = p.borrow_mut();
        for w in frames.windows(2) {
            p.insert((w[1].clone(), w[0].clone())); // (caller, callee)
        }
    });
}
#[derive(Debug)]
struct Probe(Box<dyn sqlparser::dialect::Dialect>);
impl sqlparser::dialect::Dialect for Probe {
    fn dialect(&self) -> std::any::TypeId { self.0.dialect() }
    fn is_identifier_start(&self, ch: char) -> bool { self.0.is_identifier_start(ch) }
    fn is_identifier_part(&self, ch: char) -> bool { self.0.is_identifier_part(ch) }
    fn is_delimited_identifier_start(&self, ch: char) -> bool { self.0.is_delimited_identifier_start(ch) }
    fn supports_filter_during_aggregation(&self) -> bool { capture(); self.0.supports_filter_during_aggregation() }
    fn supports_group_by_expr(&self) -> bool { capture(); self.0.supports_group_by_expr() }
    fn supports_match_recognize(&self) -> bool { capture(); self.0.supports_match_recognize() }
    fn supports_lambda_functions(&self) -> bool { capture(); self.0.supports_lambda_functions() }
    fn supports_dictionary_syntax(&self) -> bool { capture(); self.0.supports_dictionary_syntax() }
    fn support_map_literal_syntax(&self) -> bool { capture(); self.0.support_map_literal_syntax() }
    fn supports_connect_by(&self) -> bool { capture(); self.0.supports_connect_by() }
    fn supports_in_empty_list(&self) -> bool { capture(); self.0.supports_in_empty_list() }
    fn supports_trailing_commas(&self) -> bool { capture(); self.0.supports_trailing_commas() }
    fn supports_projection_trailing_commas(&self) -> bool { capture(); self.0.supports_projection_trailing_commas() }
    fn require_interval_qualifier(&self) -> bool { capture(); self.0.require_interval_qualifier() }
    fn supports_named_fn_args_with_eq_operator(&self) -> bool { capture(); self.0.supports_named_fn_args_with_eq_operator() }
    fn supports_window_function_null_treatment_arg(&self) -> bool { capture(); self.0.supports_window_function_null_treatment_arg() }
    fn parse_prefix(&self, parser: &mut Parser) -> Option<Result<sqlparser::ast::Expr, ParserError>> { capture(); self.0.parse_prefix(parser) }
    fn parse_infix(&self, parser: &mut Parser, expr: &sqlparser::ast::Expr, precedence: u8) -> Option<Result<sqlparser::ast::Expr, ParserError>> { capture(); self.0.parse_infix(parser, expr, precedence) }
    fn get_next_precedence(&self, parser: &Parser) -> Option<Result<u8, ParserError>> { self.0.get_next_precedence(parser) }
    fn parse_statement(&self, parser: &mut Parser) -> Option<Result<sqlparser::ast::Statement, ParserError>> { capture(); self.0.parse_statement(parser) }
    fn prec_value(&self, prec: sqlparser::dialect::Precedence) -> u8 { self.0.prec_value(prec) }
    fn prec_unknown(&self) -> u8 { self.0.prec_unknown() }
}

fn main() {
    let a: Vec<String> = std::env::args().collect();
    let cmd = a.get(1).map(|s| s.as_str()).unwrap_or("");
    match cmd {
        "list" => {
            let v: Vec<Value> = templates().iter().map(|t| json!({"id": t.id, "kind": t.kind, "dialects": t.dialects,
                "funcs": t.funcs, "example": nest_sql(t, 2), "sibling_example": sibling_sql(t, 1, 3)})).collect();
            println!("{}", Value::Array(v));
            let _ = ALL;
        }
        "nest" => {
            let tt = find(&a[2]);
            let n: usize = a[3].parse().unwrap();
            let (dialect, limit, mode) = (a[4].clone(), a[5].clone(), a[6].clone());
            vh::quiet_panics();
            let out = run_in(&mode, move || guarded(move || {
                let sql = nest_sql(&tt, n);
                let t0 = Instant::now();
                let (c, m, k) = parse_once(&sql, &dialect, &limit);
                let head: String = sql.chars().take(60).collect();
                std::mem::forget(sql);
                json!({"status": c, "msg": m, "statements": k, "input_len": n, "ms": t0.elapsed().as_millis() as u64, "head": head})
            }));
            println!("{}", out);
        }
        "sibling" => {
            let tt = find(&a[2]);
            let d: usize = a[3].parse().unwrap();
            let m: usize = a[4].parse().unwrap();
            let (dialect, limit, mode) = (a[5].clone(), a[6].clone(), a[7].clone());
            vh::quiet_panics();
            let out = run_in(&mode, move || guarded(move || {
                // the deepest single construct of depth <= d that parses Ok on its own
                let mut dd = d;
                let single = loop {
                    let (c, _, _) = parse_once(&nest_sql(&tt, dd), &dialect, &limit);
                    if c == "ok" || dd == 0 { break c; }
                    dd /= 2;
                };
                if single != "ok" {
                    return json!({"status": "skip", "msg": format!("construct does not parse at depth 0: {single}"), "depth": dd});
                }
                let sql = sibling_sql(&tt, dd, m);
                let t0 = Instant::now();
                let (c, msg, k) = parse_once(&sql, &dialect, &limit);
                json!({"status": c, "msg": msg, "statements": k, "depth": dd, "siblings": m, "ms": t0.elapsed().as_millis() as u64})
            }));
            println!("{}", out);
        }
        "reuse" => {
            // one Parser object: a parse that ends in the limit error (or any error), then a
            // shallow parse on the SAME parser must still succeed (depth restored on unwinding)
            let tt = find(&a[2]);
            let deep: usize = a[3].parse().unwrap();
            let d: usize = a[4].parse().unwrap();
            let (dialect, limit, mode) = (a[5].clone(), a[6].clone(), a[7].clone());
            vh::quiet_panics();
            let out = run_in(&mode, move || guarded(move || {
                let dl = vh::dialect_by_name(&dialect);
                let lim: usize = limit.parse().unwrap();
                let mut dd = d;
                loop {
                    let (c, _, _) = parse_once(&nest_sql(&tt, dd), &dialect, &limit);
                    if c == "ok" || dd == 0 { break; }
                    dd /= 2;
                }
                let shallow = nest_sql(&tt, dd);
                let deep_sql = nest_sql(&tt, deep);
                let mut p = Parser::new(&*dl).with_recursion_limit(lim);
                let mut seq = vec![];
                for round in 0..(lim + 5) {
                    let sql = if round % 2 == 0 { &deep_sql } else { &shallow };
                    p = match p.try_with_sql(sql) { Ok(p) => p, Err(e) => return json!({"status": "tokenizer_error", "msg": e.to_string()}) };
                    let r = p.parse_statements();
                    let (c, _) = classify(&r);
                    std::mem::forget(r);
                    if round < 6 { seq.push(c); }
                    // the configured depth must be back after EVERY parse, successful or not
                    // (observer hook under cfg(sqlparser_verif)): a leak on the error path would
                    // slowly raise the effective limit of a re-used parser
                    let remaining = p.verif_remaining_depth();
                    if remaining != lim {
                        return json!({"status": "depth_drift", "round": round, "configured": lim, "remaining_after_parse": remaining, "outcome": c, "first": seq});
                    }
                    if round % 2 == 1 && c != "ok" {
                        return json!({"status": "not_restored", "round": round, "shallow_depth": dd, "observed": c, "first": seq});
                    }
                }
                json!({"status": "ok", "rounds": lim + 5, "shallow_depth": dd, "first": seq})
            }));
            println!("{}", out);
        }
        "builders" => {
            // every order of the builder calls must give the same parser: the configured limit
            // (and the options) survive the other calls.  args: template deep dialect limit mode
            let tt = find(&a[2]);
            let deep: usize = a[3].parse().unwrap();
            let (dialect, limit, mode) = (a[4].clone(), a[5].clone(), a[6].clone());
            vh::quiet_panics();
            let out = run_in(&mode, move || guarded(move || {
                use sqlparser::tokenizer::Tokenizer;
                let dl = vh::dialect_by_name(&dialect);
                let lim: usize = limit.parse().unwrap();
                let sql = nest_sql(&tt, deep);
                let toks = match Tokenizer::new(&*dl, &sql).tokenize() { Ok(t) => t, Err(e) => return json!({"status": "tokenizer_error", "msg": e.to_string()}) };
                let orders = ["new.limit.sql", "new.sql.limit", "new.limit.options.sql", "new.options.limit.sql", "new.sql.limit.options",
                    "new.limit.sql.options", "new.options.sql.limit", "new.sql.options.limit", "new.limit.tokens", "new.tokens.limit",
                    "new.limit.options.tokens", "new.limit.tokens.options"];
                let mut first: Option<(&str, &'static str)> = None;
                let mut seen = vec![];
                for name in &orders {
                    let mut p = match build_in_order(name, &*dl, lim, &sql, &toks) { Ok(p) => p, Err(e) => return json!({"status": "tokenizer_error", "msg": e.to_string()}) };
                    let configured = p.verif_remaining_depth();
                    let wants_options = name.contains("options");
                    let has_options = p.verif_trailing_commas();
                    let r = p.parse_statements();
                    let (c, _) = classify(&r);
                    std::mem::forget(r);
                    seen.push(json!([name, c, configured]));
                    if configured != lim {
                        return json!({"status": "builder_order", "order": name, "configured_limit": lim, "remaining_depth_of_built_parser": configured, "outcome": c, "sql_depth": deep});
                    }
                    if wants_options != has_options {
                        return json!({"status": "builder_order", "order": name, "options_requested": wants_options, "options_in_built_parser": has_options});
                    }
                    match first {
                        None => first = Some((name, c)),
                        Some((n0, c0)) if c0 != c => {
                            return json!({"status": "builder_order", "order": name, "outcome": c, "reference_order": n0, "reference_outcome": c0, "configured_limit": lim, "sql_depth": deep});
                        }
                        _ => {}
                    }
                }
                json!({"status": "ok", "orders": seen.len(), "outcome": first.map(|x| x.1), "seen": seen})
            }));
            println!("{}", out);
        }
        "thresh" => {
            // largest n <= max with status ok (n ascending scan stops at the first non-ok)
            let tt = find(&a[2]);
            let (dialect, limit) = (a[3].clone(), a[4].clone());
            let max: usize = a[5].parse().unwrap();
            vh::quiet_panics();
            let out = guarded(move || {
                let mut last_ok: i64 = -1;
                let mut first_bad = json!(null);
                for n in 0..=max {
                    let (c, m, _) = parse_once(&nest_sql(&tt, n), &dialect, &limit);
                    if c == "ok" { last_ok = n as i64; } else { first_bad = json!({"n": n, "status": c, "msg": m}); break; }
                }
                json!({"status": "done", "last_ok": last_ok, "first_bad": first_bad})
            });
            println!("{}", out);
        }
        "setops" => {
            vh::quiet_panics();
            vh::for_each_case(|v| {
                let ops: Vec<u64> = v["ops"].as_array().unwrap().iter().map(|x| x.as_u64().unwrap()).collect();
                let mut sql = String::from("SELECT 1");
                for o in &ops {
                    sql.push_str(match o { 0 => " UNION SELECT 1", 1 => " EXCEPT SELECT 1", _ => " INTERSECT SELECT 1" });
                }
                let d = vh::dialect_by_name(v["dialect"].as_str().unwrap_or("generic"));
                let r = Parser::new(&*d).try_with_sql(&sql).and_then(|mut p| p.parse_query());
                match r {
                    Ok(q) => { let dd = right_depth(&q.body); std::mem::forget(q); json!({"status": "ok", "right_depth": dd}) }
                    Err(e) => json!({"status": "error", "msg": e.to_string()}),
                }
            });
        }
        "probe" => {
            vh::quiet_panics();
            vh::for_each_case(|v| {
                let d = Probe(vh::dialect_by_name(v["dialect"].as_str().unwrap_or("generic")));
                let sql = v["sql"].as_str().unwrap_or("").to_string();
                let r = std::panic::catch_unwind(std::panic::AssertUnwindSafe(|| {
                    Parser::new(&d).with_recursion_limit(40).try_with_sql(&sql).and_then(|mut p| p.parse_statements()).is_ok()
                }));
                json!({"ok": r.unwrap_or(false)})
            });
            let pairs: Vec<Value> = PAIRS.with(|p| p.borrow().iter().map(|(a, b)| json!([a, b])).collect());
            eprintln!("{}", Value::Array(pairs));
        }
        _ => {
            eprintln!("usage: c03_nest list|nest|sibling|reuse|thresh|setops ...");
            std::process::exit(2);
        }
    }
}
