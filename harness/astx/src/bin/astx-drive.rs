//! Dump driver for C16/C17 (JSON lines on stdin -> one JSON line per case).
//!
//!   astx-drive serde   {"sql","dialect"}   per statement: value dump, serde_json::to_value, round
//!                                          trips (value path and text path), re-serialisation,
//!                                          from_value on the null-dropped document
//!   astx-drive tokens  {"sql","dialect"}   the same for the token list (Vec<Token>)
//!   astx-drive visit   {"sql","dialect","ks"?}  per statement: value dump, Visit trace, VisitMut
//!                                          trace, Break-at-k runs of both, no-op mutation equality
use astx::*;
use serde_json::{json, Value};
use sqlparser::ast::{Expr, ObjectName, Query, Statement, TableFactor, Visit, VisitMut, Visitor, VisitorMut};
use sqlparser::parser::Parser;
use sqlparser::tokenizer::{Token, Tokenizer};
use std::ops::ControlFlow;
use vh::*;

fn drop_nulls(v: &Value) -> Value {
    match v {
        Value::Object(m) => Value::Object(m.iter().filter(|(_, x)| !x.is_null()).map(|(k, x)| (k.clone(), drop_nulls(x))).collect()),
        Value::Array(a) => Value::Array(a.iter().map(drop_nulls).collect()),
        _ => v.clone(),
    }
}

fn has_null_member(v: &Value) -> bool {
    match v {
        Value::Object(m) => m.values().any(|x| x.is_null() || has_null_member(x)),
        Value::Array(a) => a.iter().any(has_null_member),
        _ => false,
    }
}

/// Everything C17 observes about one value.
fn serde_obs<T>(x: &T) -> Value
where
    T: serde::Serialize + serde::de::DeserializeOwned + PartialEq + std::fmt::Debug,
{
    let dump = to_sv(x);
    let j = match serde_json::to_value(x) {
        Ok(j) => j,
        Err(e) => return json!({"dump": dump.to_json(), "to_value_error": e.to_string()}),
    };
    let mut o = serde_json::Map::new();
    o.insert("size".into(), json!(dump.size()));
    // value path
    match serde_json::from_value::<T>(j.clone()) {
        Ok(y) => {
            o.insert("rt_value".into(), json!(&y == x));
            let d2 = to_sv(&y);
            o.insert("rt_dump_equal".into(), json!(d2 == dump));
            if d2 != dump {
                o.insert("rt_dump".into(), d2.to_json());
            }
            // equal trees serialise to equal documents
            let j2 = serde_json::to_value(&y).ok();
            o.insert("reser_equal".into(), json!(j2.as_ref() == Some(&j)));
        }
        Err(e) => {
            o.insert("rt_value".into(), json!(false));
            o.insert("rt_value_error".into(), json!(e.to_string()));
        }
    }
    // text path
    match serde_json::to_string(x) {
        Ok(s) => match serde_json::from_str::<T>(&s) {
            Ok(y) => {
                o.insert("rt_text".into(), json!(&y == x));
                let s2 = serde_json::to_string(&x.clone_via_json()).unwrap_or_default();
                o.insert("text_deterministic".into(), json!(s2 == s));
            }
            Err(e) => {
                o.insert("rt_text".into(), json!(false));
                o.insert("rt_text_error".into(), json!(e.to_string()));
            }
        },
        Err(e) => {
            o.insert("rt_text".into(), json!(false));
            o.insert("rt_text_error".into(), json!(e.to_string()));
        }
    }
    // deserialising the document with every null member dropped (missing Option fields)
    if has_null_member(&j) {
        let jd = drop_nulls(&j);
        match serde_json::from_value::<T>(jd) {
            Ok(y) => {
                let d3 = to_sv(&y);
                if d3 == dump {
                    o.insert("dropnull".into(), json!("same"));
                } else {
                    o.insert("dropnull".into(), json!("other"));
                    o.insert("dropnull_dump".into(), d3.to_json());
                }
            }
            Err(_) => {
                o.insert("dropnull".into(), json!("error"));
            }
        }
    } else {
        o.insert("dropnull".into(), json!("nonull"));
    }
    o.insert("dump".into(), dump.to_json());
    o.insert("json".into(), j);
    Value::Object(o)
}

trait CloneViaJson {
    fn clone_via_json(&self) -> Self;
}
impl<T: serde::Serialize + serde::de::DeserializeOwned> CloneViaJson for T {
    fn clone_via_json(&self) -> Self {
        serde_json::from_str(&serde_json::to_string(self).unwrap()).unwrap()
    }
}

// ------------------------------------------------------------------ visitor traces

#[derive(Clone, PartialEq, Debug)]
struct Ev(u8, &'static str, u64); // phase 0 pre / 1 post, hook, fingerprint of the node

struct Rec {
    trace: Vec<Ev>,
    break_at: usize, // 0 = never; k = return Break from the k-th callback
}
impl Rec {
    fn cb<T: serde::Serialize>(&mut self, ph: u8, hook: &'static str, node: &T) -> ControlFlow<usize> {
        self.trace.push(Ev(ph, hook, to_sv(node).hash()));
        if self.break_at != 0 && self.trace.len() == self.break_at {
            ControlFlow::Break(self.trace.len())
        } else {
            ControlFlow::Continue(())
        }
    }
}
impl Visitor for Rec {
    type Break = usize;
    fn pre_visit_query(&mut self, n: &Query) -> ControlFlow<usize> { self.cb(0, "visit_query", n) }
    fn post_visit_query(&mut self, n: &Query) -> ControlFlow<usize> { self.cb(1, "visit_query", n) }
    fn pre_visit_relation(&mut self, n: &ObjectName) -> ControlFlow<usize> { self.cb(0, "visit_relation", n) }
    fn post_visit_relation(&mut self, n: &ObjectName) -> ControlFlow<usize> { self.cb(1, "visit_relation", n) }
    fn pre_visit_table_factor(&mut self, n: &TableFactor) -> ControlFlow<usize> { self.cb(0, "visit_table_factor", n) }
    fn post_visit_table_factor(&mut self, n: &TableFactor) -> ControlFlow<usize> { self.cb(1, "visit_table_factor", n) }
    fn pre_visit_expr(&mut self, n: &Expr) -> ControlFlow<usize> { self.cb(0, "visit_expr", n) }
    fn post_visit_expr(&mut self, n: &Expr) -> ControlFlow<usize> { self.cb(1, "visit_expr", n) }
    fn pre_visit_statement(&mut self, n: &Statement) -> ControlFlow<usize> { self.cb(0, "visit_statement", n) }
    fn post_visit_statement(&mut self, n: &Statement) -> ControlFlow<usize> { self.cb(1, "visit_statement", n) }
}
struct RecMut(Rec);
impl VisitorMut for RecMut {
    type Break = usize;
    fn pre_visit_query(&mut self, n: &mut Query) -> ControlFlow<usize> { self.0.cb(0, "visit_query", n) }
    fn post_visit_query(&mut self, n: &mut Query) -> ControlFlow<usize> { self.0.cb(1, "visit_query", n) }
    fn pre_visit_relation(&mut self, n: &mut ObjectName) -> ControlFlow<usize> { self.0.cb(0, "visit_relation", n) }
    fn post_visit_relation(&mut self, n: &mut ObjectName) -> ControlFlow<usize> { self.0.cb(1, "visit_relation", n) }
    fn pre_visit_table_factor(&mut self, n: &mut TableFactor) -> ControlFlow<usize> { self.0.cb(0, "visit_table_factor", n) }
    fn post_visit_table_factor(&mut self, n: &mut TableFactor) -> ControlFlow<usize> { self.0.cb(1, "visit_table_factor", n) }
    fn pre_visit_expr(&mut self, n: &mut Expr) -> ControlFlow<usize> { self.0.cb(0, "visit_expr", n) }
    fn post_visit_expr(&mut self, n: &mut Expr) -> ControlFlow<usize> { self.0.cb(1, "visit_expr", n) }
    fn pre_visit_statement(&mut self, n: &mut Statement) -> ControlFlow<usize> { self.0.cb(0, "visit_statement", n) }
    fn post_visit_statement(&mut self, n: &mut Statement) -> ControlFlow<usize> { self.0.cb(1, "visit_statement", n) }
}

fn ev_json(t: &[Ev]) -> Value {
    Value::Array(t.iter().map(|e| json!([e.0, e.1, e.2])).collect())
}

fn visit_obs(st: &Statement, ks_req: Option<&Vec<Value>>, all_k_below: usize, sample_k: usize, seed: u64) -> Value {
    let dump = to_sv(st);
    let mut o = serde_json::Map::new();
    // full read-only walk
    let mut r = Rec { trace: vec![], break_at: 0 };
    let flow = Visit::visit(st, &mut r);
    let full = r.trace;
    o.insert("completed".into(), json!(flow.is_continue()));
    // mutating walk with callbacks that change nothing
    let mut st2 = st.clone();
    let mut rm = RecMut(Rec { trace: vec![], break_at: 0 });
    let flow_m = VisitMut::visit(&mut st2, &mut rm);
    o.insert("mut_completed".into(), json!(flow_m.is_continue()));
    o.insert("mut_same_trace".into(), json!(rm.0.trace == full));
    if rm.0.trace != full {
        o.insert("mut_trace".into(), ev_json(&rm.0.trace));
    }
    o.insert("noop_equal".into(), json!(&st2 == st));
    if &st2 != st {
        o.insert("noop_dump".into(), to_sv(&st2).to_json());
    }
    // Break at the k-th callback
    let n = full.len();
    let mut ks: Vec<usize> = vec![];
    if let Some(req) = ks_req {
        ks = req.iter().filter_map(|v| v.as_u64()).map(|k| k as usize).collect();
    } else if n <= all_k_below {
        ks = (1..=n).collect();
    } else if n > 0 {
        let mut rng = Rng::new(seed);
        ks = vec![1, 2, n - 1, n];
        for _ in 0..sample_k {
            ks.push(1 + rng.below(n as u64) as usize);
        }
        ks.sort();
        ks.dedup();
        ks.retain(|k| *k >= 1 && *k <= n);
    }
    let mut breaks = vec![];
    for k in ks {
        let mut rb = Rec { trace: vec![], break_at: k };
        let f = Visit::visit(st, &mut rb);
        let mut st3 = st.clone();
        let mut rbm = RecMut(Rec { trace: vec![], break_at: k });
        let fm = VisitMut::visit(&mut st3, &mut rbm);
        let want = &full[..k.min(n)];
        breaks.push(json!({"k": k,
            "len": rb.trace.len(), "prefix_ok": rb.trace.as_slice() == want,
            "broke": matches!(f, ControlFlow::Break(b) if b == k),
            "mut_len": rbm.0.trace.len(), "mut_prefix_ok": rbm.0.trace.as_slice() == want,
            "mut_broke": matches!(fm, ControlFlow::Break(b) if b == k),
            "mut_tree_equal": &st3 == st}));
    }
    o.insert("breaks".into(), Value::Array(breaks));
    o.insert("trace".into(), ev_json(&full));
    o.insert("size".into(), json!(dump.size()));
    o.insert("dump".into(), dump.to_json());
    Value::Object(o)
}

fn main() {
    quiet_panics();
    let mode = std::env::args().nth(1).unwrap_or_default();
    match mode.as_str() {
        "serde" => for_each_case(|c| {
            let sql = c["sql"].as_str().unwrap_or("");
            let d = dialect_by_name(c["dialect"].as_str().unwrap_or("generic"));
            let r = std::panic::catch_unwind(std::panic::AssertUnwindSafe(|| Parser::parse_sql(d.as_ref(), sql)));
            match r {
                Ok(Ok(stmts)) => {
                    let per: Vec<Value> = stmts.iter().map(|s| {
                        std::panic::catch_unwind(std::panic::AssertUnwindSafe(|| serde_obs(s)))
                            .unwrap_or_else(|e| json!({"panic": panic_msg(e)}))
                    }).collect();
                    // the list as a whole (the property speaks of Vec<Statement>)
                    let whole = std::panic::catch_unwind(std::panic::AssertUnwindSafe(|| {
                        let j = serde_json::to_value(&stmts).ok();
                        let back: Option<Vec<Statement>> = j.clone().and_then(|j| serde_json::from_value(j).ok());
                        back.as_ref() == Some(&stmts)
                    })).unwrap_or(false);
                    json!({"status": "ok", "stmts": per, "vec_rt": whole})
                }
                Ok(Err(e)) => json!({"status": "reject", "msg": e.to_string()}),
                Err(e) => json!({"status": "panic", "msg": panic_msg(e)}),
            }
        }),
        "tokens" => for_each_case(|c| {
            let sql = c["sql"].as_str().unwrap_or("");
            let d = dialect_by_name(c["dialect"].as_str().unwrap_or("generic"));
            let r = std::panic::catch_unwind(std::panic::AssertUnwindSafe(|| Tokenizer::new(d.as_ref(), sql).tokenize()));
            match r {
                Ok(Ok(toks)) => {
                    let toks: Vec<Token> = toks;
                    let obs = std::panic::catch_unwind(std::panic::AssertUnwindSafe(|| serde_obs(&toks)))
                        .unwrap_or_else(|e| json!({"panic": panic_msg(e)}));
                    json!({"status": "ok", "n": toks.len(), "obs": obs})
                }
                Ok(Err(e)) => json!({"status": "reject", "msg": e.to_string()}),
                Err(e) => json!({"status": "panic", "msg": panic_msg(e)}),
            }
        }),
        "visit" => for_each_case(|c| {
            let sql = c["sql"].as_str().unwrap_or("");
            let d = dialect_by_name(c["dialect"].as_str().unwrap_or("generic"));
            let all_k_below = c["all_k_below"].as_u64().unwrap_or(40) as usize;
            let sample_k = c["sample_k"].as_u64().unwrap_or(8) as usize;
            let seed = c["seed"].as_u64().unwrap_or(1);
            let r = std::panic::catch_unwind(std::panic::AssertUnwindSafe(|| Parser::parse_sql(d.as_ref(), sql)));
            match r {
                Ok(Ok(stmts)) => {
                    let per: Vec<Value> = stmts.iter().map(|s| {
                        std::panic::catch_unwind(std::panic::AssertUnwindSafe(|| visit_obs(s, c["ks"].as_array(), all_k_below, sample_k, seed)))
                            .unwrap_or_else(|e| json!({"panic": panic_msg(e)}))
                    }).collect();
                    json!({"status": "ok", "stmts": per})
                }
                Ok(Err(e)) => json!({"status": "reject", "msg": e.to_string()}),
                Err(e) => json!({"status": "panic", "msg": panic_msg(e)}),
            }
        }),
        "hash" => for_each_case(|c| {
            // self-test of the fingerprint on a string (compared with Coq's sv_hash)
            json!({"hstr": hstr(c["s"].as_str().unwrap_or(""))})
        }),
        _ => {
            eprintln!("usage: astx-drive serde|tokens|visit");
            std::process::exit(2);
        }
    }
}
