//! Translator for C16/C17: prints the *type environment* of the AST and token types as one
//! JSON document, read syntactically (syn) from `<repo>/src/ast/**/*.rs`, `src/tokenizer.rs`
//! and `src/keywords.rs`.
//!
//! For every struct/enum: fields / variants in declaration order, field types in a small
//! grammar (prim / opt / vec / box / tuple / named+args / param / opaque), the derives that
//! are active with features {std, serde, visitor} (through `derive(..)` and
//! `cfg_attr(<pred>, derive(..), ..)`), `visit(with = "..")` on the type and on fields,
//! every `serde(..)` attribute verbatim.  Manual `impl Visit/VisitMut/Serialize/Deserialize
//! for ..` found in those files and `visit_noop!(..)` lists are inventoried.  Anything the
//! translator cannot interpret (a cfg predicate it does not know, a macro that may define
//! types or impls, a malformed visit attribute, a union) is reported under "obligations"
//! with a shape key (file, enclosing item, ordinal) — never silently dropped.
use proc_macro2::{Delimiter, TokenStream, TokenTree};
use serde_json::{json, Value};
use std::collections::BTreeMap;
use syn::ext::IdentExt;
use syn::punctuated::Punctuated;
use syn::{Attribute, Fields, Item, Meta, Token, Type};

const FEATURES_ON: [&str; 3] = ["std", "serde", "visitor"];
const CFG_ON: [&str; 1] = ["sqlparser_verif"];
const PRIMS: [&str; 16] = [
    "bool", "u8", "u16", "u32", "u64", "i8", "i16", "i32", "i64", "char", "String", "u128", "i128",
    "usize", "isize", "f64",
];
const TRAITS: [&str; 4] = ["Visit", "VisitMut", "Serialize", "Deserialize"];

#[derive(Default)]
struct Out {
    types: Vec<Value>,
    manual: Vec<Value>,
    obligations: Vec<Value>,
    macros_seen: Vec<Value>,
    ob_count: BTreeMap<String, usize>,
}

impl Out {
    fn oblige(&mut self, file: &str, item: &str, what: String) {
        let base = format!("{file}::{item}");
        let n = self.ob_count.entry(base.clone()).or_insert(0);
        let key = format!("{base}#{n}");
        *n += 1;
        self.obligations.push(json!({"key": key, "file": file, "item": item, "what": what}));
    }
}

/// Some(true/false) when the predicate is understood, None otherwise.
fn eval_cfg(m: &Meta) -> Option<bool> {
    match m {
        Meta::NameValue(nv) if nv.path.is_ident("feature") => {
            if let syn::Expr::Lit(syn::ExprLit { lit: syn::Lit::Str(s), .. }) = &nv.value {
                Some(FEATURES_ON.contains(&s.value().as_str()))
            } else {
                None
            }
        }
        Meta::Path(p) => {
            if p.is_ident("test") {
                Some(false)
            } else if CFG_ON.iter().any(|c| p.is_ident(c)) {
                Some(true)
            } else {
                None
            }
        }
        Meta::List(l) => {
            let inner: Punctuated<Meta, Token![,]> =
                l.parse_args_with(Punctuated::parse_terminated).ok()?;
            if l.path.is_ident("not") {
                if inner.len() != 1 {
                    return None;
                }
                eval_cfg(&inner[0]).map(|b| !b)
            } else if l.path.is_ident("all") {
                let mut r = true;
                for i in &inner {
                    r &= eval_cfg(i)?;
                }
                Some(r)
            } else if l.path.is_ident("any") {
                let mut r = false;
                for i in &inner {
                    r |= eval_cfg(i)?;
                }
                Some(r)
            } else {
                None
            }
        }
        _ => None,
    }
}

#[derive(Default, Debug)]
struct Attrs {
    enabled: bool,
    derives: Vec<String>,
    visit_with: Option<String>,
    serde: Vec<String>,
    problems: Vec<String>,
}

fn parse_visit_tokens(ts: &TokenStream) -> Result<String, String> {
    // exactly what derive/src/lib.rs accepts: `with = "name"`
    let v: Vec<TokenTree> = ts.clone().into_iter().collect();
    if v.len() == 3 {
        if let (TokenTree::Ident(i), TokenTree::Punct(p), TokenTree::Literal(l)) = (&v[0], &v[1], &v[2]) {
            if i == "with" && p.as_char() == '=' {
                if let Ok(syn::Lit::Str(s)) = syn::parse_str::<syn::Lit>(&l.to_string()) {
                    return Ok(s.value());
                }
            }
        }
    }
    Err(format!("visit attribute not of the form with = \"..\": {}", ts))
}

fn absorb_meta(m: &Meta, a: &mut Attrs) {
    match m {
        Meta::List(l) if l.path.is_ident("derive") => {
            match l.parse_args_with(Punctuated::<syn::Path, Token![,]>::parse_terminated) {
                Ok(ps) => {
                    for p in ps {
                        if let Some(s) = p.segments.last() {
                            a.derives.push(s.ident.to_string());
                        }
                    }
                }
                Err(e) => a.problems.push(format!("derive list not parsed: {e}")),
            }
        }
        Meta::List(l) if l.path.is_ident("cfg_attr") => {
            match l.parse_args_with(Punctuated::<Meta, Token![,]>::parse_terminated) {
                Ok(ms) => {
                    let mut it = ms.iter();
                    if let Some(pred) = it.next() {
                        match eval_cfg(pred) {
                            Some(true) => {
                                for m2 in it {
                                    absorb_meta(m2, a);
                                }
                            }
                            Some(false) => {}
                            None => {
                                a.problems.push(format!(
                                    "cfg_attr predicate not understood (attributes assumed active): {}",
                                    quote::quote!(#pred)
                                ));
                                for m2 in it {
                                    absorb_meta(m2, a);
                                }
                            }
                        }
                    }
                }
                Err(e) => a.problems.push(format!("cfg_attr not parsed: {e}")),
            }
        }
        Meta::List(l) if l.path.is_ident("cfg") => match l.parse_args::<Meta>() {
            Ok(pred) => match eval_cfg(&pred) {
                Some(b) => a.enabled &= b,
                None => a.problems.push(format!(
                    "cfg predicate not understood (item assumed present): {}",
                    quote::quote!(#pred)
                )),
            },
            Err(e) => a.problems.push(format!("cfg not parsed: {e}")),
        },
        Meta::List(l) if l.path.is_ident("visit") => match parse_visit_tokens(&l.tokens) {
            Ok(w) => a.visit_with = Some(w), // later attribute wins, as in the derive
            Err(e) => a.problems.push(e),
        },
        Meta::List(l) if l.path.is_ident("serde") => a.serde.push(l.tokens.to_string()),
        Meta::Path(p) if p.is_ident("serde") || p.is_ident("visit") => {
            a.problems.push(format!("bare attribute {}", quote::quote!(#p)))
        }
        Meta::NameValue(nv) if nv.path.is_ident("serde") || nv.path.is_ident("visit") => {
            a.problems.push("name-value serde/visit attribute".to_string())
        }
        _ => {}
    }
}

fn parse_attrs(attrs: &[Attribute]) -> Attrs {
    let mut a = Attrs { enabled: true, ..Default::default() };
    for at in attrs {
        absorb_meta(&at.meta, &mut a);
    }
    a
}

fn ty_json(t: &Type, params: &[String]) -> Value {
    match t {
        Type::Paren(p) => ty_json(&p.elem, params),
        Type::Group(g) => ty_json(&g.elem, params),
        Type::Tuple(tt) => {
            if tt.elems.is_empty() {
                json!({"prim": "unit"})
            } else {
                json!({"tuple": tt.elems.iter().map(|e| ty_json(e, params)).collect::<Vec<_>>()})
            }
        }
        Type::Path(tp) if tp.qself.is_none() => {
            let seg = match tp.path.segments.last() {
                Some(s) => s,
                None => return json!({"opaque": quote::quote!(#t).to_string()}),
            };
            let name = seg.ident.to_string();
            let args: Vec<&Type> = match &seg.arguments {
                syn::PathArguments::None => vec![],
                syn::PathArguments::AngleBracketed(ab) => {
                    let mut v = vec![];
                    for ga in &ab.args {
                        match ga {
                            syn::GenericArgument::Type(t2) => v.push(t2),
                            _ => return json!({"opaque": quote::quote!(#t).to_string()}),
                        }
                    }
                    v
                }
                _ => return json!({"opaque": quote::quote!(#t).to_string()}),
            };
            let single = tp.path.segments.len() == 1;
            if single && args.is_empty() && params.contains(&name) {
                return json!({"param": name});
            }
            if args.is_empty() && PRIMS.contains(&name.as_str()) && (single || name == "String") {
                return json!({"prim": name});
            }
            if args.len() == 1 && ["Option", "Vec", "Box"].contains(&name.as_str()) {
                let inner = ty_json(args[0], params);
                let k = match name.as_str() { "Option" => "opt", "Vec" => "vec", _ => "box" };
                return json!({k: inner});
            }
            // anything else is a named type of the crate (last path segment) — the environment's
            // closedness check decides whether it exists
            json!({"named": name, "args": args.iter().map(|a| ty_json(a, params)).collect::<Vec<_>>(),
                   "path": tp.path.segments.iter().map(|s| s.ident.to_string()).collect::<Vec<_>>()})
        }
        _ => json!({"opaque": quote::quote!(#t).to_string()}),
    }
}

fn fields_json(f: &Fields, params: &[String], out: &mut Out, file: &str, item: &str) -> Value {
    let (style, list): (&str, Vec<&syn::Field>) = match f {
        Fields::Unit => ("unit", vec![]),
        Fields::Unnamed(u) => ("tuple", u.unnamed.iter().collect()),
        Fields::Named(n) => ("named", n.named.iter().collect()),
    };
    let mut fs = vec![];
    for (i, fd) in list.iter().enumerate() {
        let a = parse_attrs(&fd.attrs);
        let fname = fd.ident.as_ref().map(|x| x.unraw().to_string());
        let label = fname.clone().unwrap_or_else(|| i.to_string());
        for p in &a.problems {
            out.oblige(file, &format!("{item}.{label}"), p.clone());
        }
        if !a.enabled {
            continue;
        }
        fs.push(json!({"name": fname, "ty": ty_json(&fd.ty, params), "visit_with": a.visit_with,
                        "serde_attrs": a.serde}));
    }
    json!({"style": style, "fields": fs})
}

fn generics_of(g: &syn::Generics, out: &mut Out, file: &str, item: &str) -> Vec<String> {
    let mut v = vec![];
    for p in &g.params {
        match p {
            syn::GenericParam::Type(t) => v.push(t.ident.to_string()),
            syn::GenericParam::Lifetime(l) => {
                out.oblige(file, item, format!("lifetime parameter {} (borrowed data)", l.lifetime))
            }
            syn::GenericParam::Const(c) => out.oblige(file, item, format!("const parameter {}", c.ident)),
        }
    }
    v
}

fn relevant(a: &Attrs) -> bool {
    // a type takes part in the environment when it derives one of the four traits or is
    // public data; helper types without any of the derives are listed too (flagged), the
    // reachability computation in Coq decides whether they matter.
    a.enabled
}

fn do_struct(s: &syn::ItemStruct, out: &mut Out, file: &str, module: &str) {
    let a = parse_attrs(&s.attrs);
    let name = s.ident.unraw().to_string();
    for p in &a.problems {
        out.oblige(file, &name, p.clone());
    }
    if !relevant(&a) {
        return;
    }
    let has_lifetime = s.generics.lifetimes().next().is_some();
    let derives_any = a.derives.iter().any(|d| TRAITS.contains(&d.as_str()));
    if has_lifetime && !derives_any {
        // borrowed display helpers (`struct DisplaySeparated<'a, T>`): not data types
        out.macros_seen.push(json!({"skipped_helper": name, "file": file}));
        return;
    }
    let params = generics_of(&s.generics, out, file, &name);
    let fields = fields_json(&s.fields, &params, out, file, &name);
    out.types.push(json!({"name": name, "file": file, "module": module, "kind": "struct",
        "generics": params, "derives": a.derives, "visit_with": a.visit_with,
        "serde_attrs": a.serde, "fields": fields}));
}

fn do_enum(e: &syn::ItemEnum, out: &mut Out, file: &str, module: &str) {
    let a = parse_attrs(&e.attrs);
    let name = e.ident.unraw().to_string();
    for p in &a.problems {
        out.oblige(file, &name, p.clone());
    }
    if !relevant(&a) {
        return;
    }
    let has_lifetime = e.generics.lifetimes().next().is_some();
    let derives_any = a.derives.iter().any(|d| TRAITS.contains(&d.as_str()));
    if has_lifetime && !derives_any {
        out.macros_seen.push(json!({"skipped_helper": name, "file": file}));
        return;
    }
    let params = generics_of(&e.generics, out, file, &name);
    let mut vs = vec![];
    for v in &e.variants {
        let va = parse_attrs(&v.attrs);
        let vname = v.ident.unraw().to_string();
        for p in &va.problems {
            out.oblige(file, &format!("{name}::{vname}"), p.clone());
        }
        if !va.enabled {
            continue;
        }
        if v.discriminant.is_some() {
            // explicit discriminants do not influence serde's or the visitor derive's output
        }
        let fields = fields_json(&v.fields, &params, out, file, &format!("{name}::{vname}"));
        vs.push(json!({"name": vname, "fields": fields, "serde_attrs": va.serde,
                        "visit_with": va.visit_with}));
    }
    out.types.push(json!({"name": name, "file": file, "module": module, "kind": "enum",
        "generics": params, "derives": a.derives, "visit_with": a.visit_with,
        "serde_attrs": a.serde, "variants": vs}));
}

fn contains_ident(ts: &TokenStream, names: &[&str]) -> bool {
    for tt in ts.clone() {
        match tt {
            TokenTree::Ident(i) => {
                let s = i.to_string();
                if names.contains(&s.as_str()) {
                    return true;
                }
            }
            TokenTree::Group(g) => {
                if contains_ident(&g.stream(), names) {
                    return true;
                }
            }
            _ => {}
        }
    }
    false
}

const TYPEISH: [&str; 8] = ["struct", "enum", "union", "Visit", "VisitMut", "Serialize", "Deserialize", "impl"];

/// `macro_rules! define_keywords` + its invocation: rebuild the enum it declares.
/// Shape understood: the macro body contains `#[attrs]* pub enum <Name> { <idents and one
/// `$($x),*` repetition> }` and the invocation is a comma list of `IDENT [= expr]`.
fn keyword_enum(def: &TokenStream, inv: &TokenStream) -> Result<syn::ItemEnum, String> {
    // 1. the transcriber = last brace group of the (single-rule) definition
    let toks: Vec<TokenTree> = def.clone().into_iter().collect();
    let rules = toks.iter().filter(|t| matches!(t, TokenTree::Punct(p) if p.as_char() == '=')).count();
    if rules != 1 {
        return Err(format!("macro has {rules} `=>` rules at top level, expected 1"));
    }
    let body = match toks.last() {
        Some(TokenTree::Group(g)) if g.delimiter() == Delimiter::Brace => g.stream(),
        Some(TokenTree::Punct(_)) => match toks.iter().rev().nth(1) {
            Some(TokenTree::Group(g)) if g.delimiter() == Delimiter::Brace => g.stream(),
            _ => return Err("transcriber not found".into()),
        },
        _ => return Err("transcriber not found".into()),
    };
    // 2. invocation idents
    let mut idents = vec![];
    let mut expect_ident = true;
    for tt in inv.clone() {
        match tt {
            TokenTree::Ident(i) if expect_ident => {
                idents.push(i.to_string());
                expect_ident = false;
            }
            TokenTree::Punct(p) if p.as_char() == ',' => {
                if expect_ident {
                    return Err("empty element in invocation".into());
                }
                expect_ident = true;
            }
            _ if !expect_ident => {} // `= "literal"` part
            other => return Err(format!("unexpected token {other} in invocation")),
        }
    }
    // 3. find `enum Name { .. }` in the body with its attributes
    let b: Vec<TokenTree> = body.into_iter().collect();
    let mut enums = vec![];
    for i in 0..b.len() {
        if let TokenTree::Ident(id) = &b[i] {
            if id == "enum" {
                enums.push(i);
            }
        }
    }
    if enums.len() != 1 {
        return Err(format!("{} enum declarations in the macro body, expected 1", enums.len()));
    }
    let at = enums[0];
    let (name, grp) = match (b.get(at + 1), b.get(at + 2)) {
        (Some(TokenTree::Ident(n)), Some(TokenTree::Group(g))) if g.delimiter() == Delimiter::Brace => (n.to_string(), g.stream()),
        _ => return Err("enum header not of the form `enum Name { .. }`".into()),
    };
    // attributes: walk backwards over `pub` and `# [..]` pairs
    let mut start = at;
    if start > 0 {
        if let TokenTree::Ident(id) = &b[start - 1] {
            if id == "pub" {
                start -= 1;
            }
        }
    }
    let mut attrs_txt = String::new();
    let mut j = start;
    while j >= 2 {
        match (&b[j - 2], &b[j - 1]) {
            (TokenTree::Punct(p), TokenTree::Group(g)) if p.as_char() == '#' && g.delimiter() == Delimiter::Bracket => {
                attrs_txt = format!("#{} {}", g, attrs_txt);
                j -= 2;
            }
            _ => break,
        }
    }
    // variants: literal idents and `$( $x ),*`
    let mut vars: Vec<String> = vec![];
    let g: Vec<TokenTree> = grp.into_iter().collect();
    let mut k = 0;
    let mut reps = 0;
    while k < g.len() {
        match &g[k] {
            TokenTree::Ident(i) => {
                vars.push(i.to_string());
                k += 1;
            }
            TokenTree::Punct(p) if p.as_char() == ',' => k += 1,
            TokenTree::Punct(p) if p.as_char() == '$' => {
                // $ ( $ident ) , *
                match (g.get(k + 1), g.get(k + 2), g.get(k + 3)) {
                    (Some(TokenTree::Group(inner)), Some(TokenTree::Punct(c)), Some(TokenTree::Punct(s)))
                        if inner.delimiter() == Delimiter::Parenthesis && c.as_char() == ',' && s.as_char() == '*' =>
                    {
                        let it: Vec<TokenTree> = inner.stream().into_iter().collect();
                        let ok = it.len() == 2
                            && matches!(&it[0], TokenTree::Punct(p) if p.as_char() == '$')
                            && matches!(&it[1], TokenTree::Ident(_));
                        if !ok {
                            return Err("repetition in enum body is not `$($x),*`".into());
                        }
                        vars.extend(idents.iter().cloned());
                        reps += 1;
                        k += 4;
                    }
                    _ => return Err("repetition in enum body is not `$($x),*`".into()),
                }
            }
            other => return Err(format!("unexpected token {other} in enum body")),
        }
    }
    if reps != 1 {
        return Err(format!("{reps} repetitions in enum body, expected 1"));
    }
    let src = format!("{attrs_txt} pub enum {name} {{ {} }}", vars.join(", "));
    syn::parse_str::<syn::ItemEnum>(&src).map_err(|e| format!("rebuilt enum does not parse: {e}"))
}

fn self_ty_text(t: &Type) -> String {
    quote::quote!(#t).to_string().replace(' ', "")
}

fn do_items(items: &[Item], out: &mut Out, file: &str, module: &str,
            macro_defs: &mut BTreeMap<String, TokenStream>) {
    // first pass: macro_rules definitions of this scope
    for it in items {
        if let Item::Macro(m) = it {
            if m.mac.path.is_ident("macro_rules") {
                if let Some(id) = &m.ident {
                    macro_defs.insert(id.to_string(), m.mac.tokens.clone());
                }
            }
        }
    }
    let mut macro_ord: BTreeMap<String, usize> = BTreeMap::new();
    for it in items {
        match it {
            Item::Struct(s) => do_struct(s, out, file, module),
            Item::Enum(e) => do_enum(e, out, file, module),
            Item::Union(u) => out.oblige(file, &u.ident.to_string(), "union type".into()),
            Item::Type(t) => {
                // a type alias hides a type from the last-segment naming; record it
                let params: Vec<String> = t.generics.type_params().map(|p| p.ident.to_string()).collect();
                out.types.push(json!({"name": t.ident.to_string(), "file": file, "module": module,
                    "kind": "alias", "generics": params, "target": ty_json(&t.ty, &params)}));
            }
            Item::Mod(m) => {
                let a = parse_attrs(&m.attrs);
                for p in &a.problems {
                    out.oblige(file, &format!("mod {}", m.ident), p.clone());
                }
                if !a.enabled {
                    continue;
                }
                if let Some((_, its)) = &m.content {
                    let sub = format!("{module}::{}", m.ident);
                    let mut defs = macro_defs.clone();
                    do_items(its, out, file, &sub, &mut defs);
                }
            }
            Item::Impl(im) => {
                let a = parse_attrs(&im.attrs);
                if !a.enabled {
                    continue;
                }
                if let Some((_, path, _)) = &im.trait_ {
                    if let Some(seg) = path.segments.last() {
                        let tn = seg.ident.to_string();
                        if TRAITS.contains(&tn.as_str()) {
                            for p in &a.problems {
                                out.oblige(file, &format!("impl {tn} for {}", self_ty_text(&im.self_ty)), p.clone());
                            }
                            let gen: Vec<String> = im.generics.type_params().map(|p| p.ident.to_string()).collect();
                            out.manual.push(json!({"trait": tn, "self": self_ty_text(&im.self_ty),
                                "self_ty": ty_json(&im.self_ty, &gen), "generics": gen,
                                "file": file, "via": "impl"}));
                        }
                    }
                }
            }
            Item::Macro(m) => {
                if m.mac.path.is_ident("macro_rules") {
                    let name = m.ident.as_ref().map(|i| i.to_string()).unwrap_or_default();
                    let typeish = contains_ident(&m.mac.tokens, &TYPEISH);
                    out.macros_seen.push(json!({"macro_rules": name, "file": file, "declares_types_or_impls": typeish}));
                    continue;
                }
                let a = parse_attrs(&m.attrs);
                if !a.enabled {
                    continue;
                }
                let mname = m.mac.path.segments.last().map(|s| s.ident.to_string()).unwrap_or_default();
                let ord = macro_ord.entry(mname.clone()).or_insert(0);
                let key = format!("{mname}!#{ord}");
                *ord += 1;
                for p in &a.problems {
                    out.oblige(file, &key, p.clone());
                }
                if mname == "visit_noop" {
                    // `visit_noop!(t1, t2, ..)`: leaf impls of Visit and VisitMut that do nothing
                    let parsed = m.mac.parse_body_with(Punctuated::<Type, Token![,]>::parse_terminated);
                    let def_ok = macro_defs.get("visit_noop").map(|d| {
                        // the definition must not call the visitor: no `visitor .` method call
                        !d.to_string().contains("visitor .")
                    });
                    match (parsed, def_ok) {
                        (Ok(tys), Some(true)) => {
                            for t in tys {
                                for tr in ["Visit", "VisitMut"] {
                                    out.manual.push(json!({"trait": tr, "self": self_ty_text(&t),
                                        "self_ty": ty_json(&t, &[]), "generics": [], "file": file, "via": "visit_noop"}));
                                }
                            }
                        }
                        (Err(e), _) => out.oblige(file, &key, format!("visit_noop! arguments not parsed: {e}")),
                        (_, _) => out.oblige(file, &key, "visit_noop! definition not found or it calls the visitor".into()),
                    }
                    continue;
                }
                let def = macro_defs.get(&mname);
                let typeish = contains_ident(&m.mac.tokens, &TYPEISH)
                    || def.map(|d| contains_ident(d, &TYPEISH)).unwrap_or(true);
                if !typeish {
                    out.macros_seen.push(json!({"invocation": mname, "file": file, "harmless": true}));
                    continue;
                }
                // a macro that declares types or impls: only the keyword-enum shape is understood
                match def {
                    Some(d) => match keyword_enum(d, &m.mac.tokens) {
                        Ok(en) => {
                            out.macros_seen.push(json!({"invocation": mname, "file": file, "interpreted_as_enum": en.ident.to_string(), "variants": en.variants.len()}));
                            do_enum(&en, out, file, module);
                            // the same macro must not declare impls of the four traits
                            if contains_ident(d, &["Visit", "VisitMut", "Serialize", "Deserialize"]) {
                                // the derive list mentions them; a manual impl would need `impl`
                                let txt = d.to_string();
                                for tr in TRAITS {
                                    if txt.contains(&format!("impl {tr} for")) || txt.contains(&format!(":: {tr} for")) {
                                        out.oblige(file, &key, format!("macro {mname}! contains a manual impl of {tr}"));
                                    }
                                }
                            }
                        }
                        Err(e) => out.oblige(file, &key, format!("macro {mname}! declares types or impls and was not interpreted: {e}")),
                    },
                    None => out.oblige(file, &key, format!("macro {mname}! (defined elsewhere) may declare types or impls")),
                }
            }
            _ => {}
        }
    }
}

fn main() {
    let repo = std::env::args().nth(1).unwrap_or("/repo".into());
    let mut files: Vec<String> = vec![];
    fn rec(dir: &std::path::Path, out: &mut Vec<String>) {
        if let Ok(rd) = std::fs::read_dir(dir) {
            for e in rd.flatten() {
                let p = e.path();
                if p.is_dir() {
                    rec(&p, out);
                } else if p.extension().map(|x| x == "rs").unwrap_or(false) {
                    out.push(p.to_string_lossy().to_string());
                }
            }
        }
    }
    rec(std::path::Path::new(&format!("{repo}/src/ast")), &mut files);
    files.push(format!("{repo}/src/tokenizer.rs"));
    files.push(format!("{repo}/src/keywords.rs"));
    files.sort();
    let mut out = Out::default();
    let mut rels = vec![];
    for f in &files {
        let rel = f.strip_prefix(&format!("{repo}/")).unwrap_or(f).to_string();
        rels.push(rel.clone());
        let src = match std::fs::read_to_string(f) {
            Ok(s) => s,
            Err(e) => {
                out.oblige(&rel, "<file>", format!("cannot read: {e}"));
                continue;
            }
        };
        match syn::parse_file(&src) {
            Ok(file) => {
                let mut defs = BTreeMap::new();
                do_items(&file.items, &mut out, &rel, "", &mut defs);
            }
            Err(e) => out.oblige(&rel, "<file>", format!("syn cannot parse: {e}")),
        }
    }
    // Cargo features relevant to the scope note (bigdecimal is outside the model)
    let cargo = std::fs::read_to_string(format!("{repo}/Cargo.toml")).unwrap_or_default();
    let serde_json_preserve = cargo.contains("preserve_order");
    println!("{}", json!({"files": rels, "types": out.types, "manual_impls": out.manual,
        "obligations": out.obligations, "macros": out.macros_seen,
        "features_on": FEATURES_ON, "cargo_mentions_preserve_order": serde_json_preserve}));
}
