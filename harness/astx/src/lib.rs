//! Value dump for the AST-generic properties: a `serde::Serializer` that records the calls a
//! `Serialize` impl makes as an untyped tree (`Sv`), keeping type, variant and field names in
//! declaration order.  It does not use serde_json in any way, so it is an independent view of
//! the value: the Coq model's `ser` is compared with `serde_json::to_value`, and both start
//! from this dump.
use serde::ser::{self, Serialize};
use serde_json::{json, Value};

#[derive(Debug, Clone, PartialEq)]
pub enum Sv {
    Bool(bool),
    Num(i128),
    Char(char),
    Str(String),
    Unit,
    None,
    Some(Box<Sv>),
    Seq(Vec<Sv>),
    Tup(Vec<Sv>),
    /// type name, shape (u unit / n newtype / t tuple / s named), fields
    St(&'static str, char, Vec<(&'static str, Sv)>),
    /// type name, variant name, shape, fields
    En(&'static str, &'static str, char, Vec<(&'static str, Sv)>),
    /// a serializer call outside the modelled data model (float, bytes, map, 128-bit)
    Opaque(String),
}

#[derive(Debug)]
pub struct SvErr(pub String);
impl std::fmt::Display for SvErr {
    fn fmt(&self, f: &mut std::fmt::Formatter) -> std::fmt::Result {
        write!(f, "{}", self.0)
    }
}
impl std::error::Error for SvErr {}
impl ser::Error for SvErr {
    fn custom<T: std::fmt::Display>(msg: T) -> Self {
        SvErr(msg.to_string())
    }
}

pub struct SvSer;

pub struct ListSer {
    kind: u8, // 0 seq, 1 tuple, 2 tuple struct, 3 tuple variant
    tname: &'static str,
    vname: &'static str,
    items: Vec<Sv>,
}
pub struct FieldSer {
    tname: &'static str,
    vname: Option<&'static str>,
    items: Vec<(&'static str, Sv)>,
}
pub struct MapSer;

pub fn to_sv<T: Serialize + ?Sized>(x: &T) -> Sv {
    x.serialize(SvSer).unwrap_or_else(|e| Sv::Opaque(format!("error: {e}")))
}

impl ser::Serializer for SvSer {
    type Ok = Sv;
    type Error = SvErr;
    type SerializeSeq = ListSer;
    type SerializeTuple = ListSer;
    type SerializeTupleStruct = ListSer;
    type SerializeTupleVariant = ListSer;
    type SerializeMap = MapSer;
    type SerializeStruct = FieldSer;
    type SerializeStructVariant = FieldSer;

    fn serialize_bool(self, v: bool) -> Result<Sv, SvErr> { Ok(Sv::Bool(v)) }
    fn serialize_i8(self, v: i8) -> Result<Sv, SvErr> { Ok(Sv::Num(v as i128)) }
    fn serialize_i16(self, v: i16) -> Result<Sv, SvErr> { Ok(Sv::Num(v as i128)) }
    fn serialize_i32(self, v: i32) -> Result<Sv, SvErr> { Ok(Sv::Num(v as i128)) }
    fn serialize_i64(self, v: i64) -> Result<Sv, SvErr> { Ok(Sv::Num(v as i128)) }
    fn serialize_u8(self, v: u8) -> Result<Sv, SvErr> { Ok(Sv::Num(v as i128)) }
    fn serialize_u16(self, v: u16) -> Result<Sv, SvErr> { Ok(Sv::Num(v as i128)) }
    fn serialize_u32(self, v: u32) -> Result<Sv, SvErr> { Ok(Sv::Num(v as i128)) }
    fn serialize_u64(self, v: u64) -> Result<Sv, SvErr> { Ok(Sv::Num(v as i128)) }
    fn serialize_i128(self, v: i128) -> Result<Sv, SvErr> { Ok(Sv::Opaque(format!("i128 {v}"))) }
    fn serialize_u128(self, v: u128) -> Result<Sv, SvErr> { Ok(Sv::Opaque(format!("u128 {v}"))) }
    fn serialize_f32(self, v: f32) -> Result<Sv, SvErr> { Ok(Sv::Opaque(format!("f32 {v}"))) }
    fn serialize_f64(self, v: f64) -> Result<Sv, SvErr> { Ok(Sv::Opaque(format!("f64 {v}"))) }
    fn serialize_char(self, v: char) -> Result<Sv, SvErr> { Ok(Sv::Char(v)) }
    fn serialize_str(self, v: &str) -> Result<Sv, SvErr> { Ok(Sv::Str(v.to_string())) }
    fn serialize_bytes(self, v: &[u8]) -> Result<Sv, SvErr> { Ok(Sv::Opaque(format!("bytes {}", v.len()))) }
    fn serialize_none(self) -> Result<Sv, SvErr> { Ok(Sv::None) }
    fn serialize_some<T: ?Sized + Serialize>(self, value: &T) -> Result<Sv, SvErr> {
        Ok(Sv::Some(Box::new(value.serialize(SvSer)?)))
    }
    fn serialize_unit(self) -> Result<Sv, SvErr> { Ok(Sv::Unit) }
    fn serialize_unit_struct(self, name: &'static str) -> Result<Sv, SvErr> { Ok(Sv::St(name, 'u', vec![])) }
    fn serialize_unit_variant(self, name: &'static str, _i: u32, variant: &'static str) -> Result<Sv, SvErr> {
        Ok(Sv::En(name, variant, 'u', vec![]))
    }
    fn serialize_newtype_struct<T: ?Sized + Serialize>(self, name: &'static str, value: &T) -> Result<Sv, SvErr> {
        Ok(Sv::St(name, 'n', vec![("", value.serialize(SvSer)?)]))
    }
    fn serialize_newtype_variant<T: ?Sized + Serialize>(self, name: &'static str, _i: u32, variant: &'static str, value: &T) -> Result<Sv, SvErr> {
        Ok(Sv::En(name, variant, 'n', vec![("", value.serialize(SvSer)?)]))
    }
    fn serialize_seq(self, _len: Option<usize>) -> Result<ListSer, SvErr> {
        Ok(ListSer { kind: 0, tname: "", vname: "", items: vec![] })
    }
    fn serialize_tuple(self, _len: usize) -> Result<ListSer, SvErr> {
        Ok(ListSer { kind: 1, tname: "", vname: "", items: vec![] })
    }
    fn serialize_tuple_struct(self, name: &'static str, _len: usize) -> Result<ListSer, SvErr> {
        Ok(ListSer { kind: 2, tname: name, vname: "", items: vec![] })
    }
    fn serialize_tuple_variant(self, name: &'static str, _i: u32, variant: &'static str, _len: usize) -> Result<ListSer, SvErr> {
        Ok(ListSer { kind: 3, tname: name, vname: variant, items: vec![] })
    }
    fn serialize_map(self, _len: Option<usize>) -> Result<MapSer, SvErr> { Ok(MapSer) }
    fn serialize_struct(self, name: &'static str, _len: usize) -> Result<FieldSer, SvErr> {
        Ok(FieldSer { tname: name, vname: None, items: vec![] })
    }
    fn serialize_struct_variant(self, name: &'static str, _i: u32, variant: &'static str, _len: usize) -> Result<FieldSer, SvErr> {
        Ok(FieldSer { tname: name, vname: Some(variant), items: vec![] })
    }
}

impl ListSer {
    fn finish(self) -> Sv {
        match self.kind {
            0 => Sv::Seq(self.items),
            1 => Sv::Tup(self.items),
            2 => Sv::St(self.tname, 't', self.items.into_iter().map(|v| ("", v)).collect()),
            _ => Sv::En(self.tname, self.vname, 't', self.items.into_iter().map(|v| ("", v)).collect()),
        }
    }
}
impl ser::SerializeSeq for ListSer {
    type Ok = Sv;
    type Error = SvErr;
    fn serialize_element<T: ?Sized + Serialize>(&mut self, v: &T) -> Result<(), SvErr> { self.items.push(v.serialize(SvSer)?); Ok(()) }
    fn end(self) -> Result<Sv, SvErr> { Ok(self.finish()) }
}
impl ser::SerializeTuple for ListSer {
    type Ok = Sv;
    type Error = SvErr;
    fn serialize_element<T: ?Sized + Serialize>(&mut self, v: &T) -> Result<(), SvErr> { self.items.push(v.serialize(SvSer)?); Ok(()) }
    fn end(self) -> Result<Sv, SvErr> { Ok(self.finish()) }
}
impl ser::SerializeTupleStruct for ListSer {
    type Ok = Sv;
    type Error = SvErr;
    fn serialize_field<T: ?Sized + Serialize>(&mut self, v: &T) -> Result<(), SvErr> { self.items.push(v.serialize(SvSer)?); Ok(()) }
    fn end(self) -> Result<Sv, SvErr> { Ok(self.finish()) }
}
impl ser::SerializeTupleVariant for ListSer {
    type Ok = Sv;
    type Error = SvErr;
    fn serialize_field<T: ?Sized + Serialize>(&mut self, v: &T) -> Result<(), SvErr> { self.items.push(v.serialize(SvSer)?); Ok(()) }
    fn end(self) -> Result<Sv, SvErr> { Ok(self.finish()) }
}
impl ser::SerializeStruct for FieldSer {
    type Ok = Sv;
    type Error = SvErr;
    fn serialize_field<T: ?Sized + Serialize>(&mut self, k: &'static str, v: &T) -> Result<(), SvErr> { self.items.push((k, v.serialize(SvSer)?)); Ok(()) }
    fn end(self) -> Result<Sv, SvErr> {
        Ok(match self.vname { None => Sv::St(self.tname, 's', self.items), Some(v) => Sv::En(self.tname, v, 's', self.items) })
    }
}
impl ser::SerializeStructVariant for FieldSer {
    type Ok = Sv;
    type Error = SvErr;
    fn serialize_field<T: ?Sized + Serialize>(&mut self, k: &'static str, v: &T) -> Result<(), SvErr> { self.items.push((k, v.serialize(SvSer)?)); Ok(()) }
    fn end(self) -> Result<Sv, SvErr> {
        Ok(match self.vname { None => Sv::St(self.tname, 's', self.items), Some(v) => Sv::En(self.tname, v, 's', self.items) })
    }
}
impl ser::SerializeMap for MapSer {
    type Ok = Sv;
    type Error = SvErr;
    fn serialize_key<T: ?Sized + Serialize>(&mut self, _k: &T) -> Result<(), SvErr> { Ok(()) }
    fn serialize_value<T: ?Sized + Serialize>(&mut self, _v: &T) -> Result<(), SvErr> { Ok(()) }
    fn end(self) -> Result<Sv, SvErr> { Ok(Sv::Opaque("map".into())) }
}

impl Sv {
    /// Compact JSON encoding of the dump (read by lib/props/C17.py, C16.py).
    pub fn to_json(&self) -> Value {
        match self {
            Sv::Bool(b) => json!(["b", b]),
            Sv::Num(n) => json!(["n", n.to_string()]),
            Sv::Char(c) => json!(["c", *c as u32]),
            Sv::Str(s) => json!(["s", s]),
            Sv::Unit => json!(["u"]),
            Sv::None => json!(["none"]),
            Sv::Some(v) => json!(["some", v.to_json()]),
            Sv::Seq(vs) => json!(["seq", vs.iter().map(|v| v.to_json()).collect::<Vec<_>>()]),
            Sv::Tup(vs) => json!(["tup", vs.iter().map(|v| v.to_json()).collect::<Vec<_>>()]),
            Sv::St(n, sh, fs) => json!(["st", n, sh.to_string(), fs.iter().map(|(k, v)| json!([k, v.to_json()])).collect::<Vec<_>>()]),
            Sv::En(n, vn, sh, fs) => json!(["en", n, vn, sh.to_string(), fs.iter().map(|(k, v)| json!([k, v.to_json()])).collect::<Vec<_>>()]),
            Sv::Opaque(s) => json!(["opaque", s]),
        }
    }

    pub fn size(&self) -> usize {
        1 + match self {
            Sv::Some(v) => v.size(),
            Sv::Seq(vs) | Sv::Tup(vs) => vs.iter().map(|v| v.size()).sum(),
            Sv::St(_, _, fs) | Sv::En(_, _, _, fs) => fs.iter().map(|(_, v)| v.size()).sum(),
            _ => 0,
        }
    }

    /// Structural fingerprint, defined identically in coq/theories/Univ.v (`sv_hash`):
    /// arithmetic modulo 2^31-1, `mix a b = (a*1000003 + b + 7) mod P`.
    pub fn hash(&self) -> u64 {
        match self {
            Sv::Bool(b) => mix(1, *b as u64),
            Sv::Num(n) => {
                if *n >= 0 { mix(2, (*n % (P as i128)) as u64) } else { mix(3, ((-*n) % (P as i128)) as u64) }
            }
            Sv::Char(c) => mix(4, *c as u64),
            Sv::Str(s) => mix(5, hstr(s)),
            Sv::Unit => 6,
            Sv::None => 7,
            Sv::Some(v) => mix(8, v.hash()),
            Sv::Seq(vs) => vs.iter().fold(9, |a, v| mix(a, v.hash())),
            Sv::Tup(vs) => vs.iter().fold(10, |a, v| mix(a, v.hash())),
            Sv::St(n, _, fs) => fs.iter().fold(mix(11, hstr(n)), |a, (k, v)| mix(a, mix(hstr(k), v.hash()))),
            Sv::En(n, vn, _, fs) => fs.iter().fold(mix(mix(12, hstr(n)), hstr(vn)), |a, (k, v)| mix(a, mix(hstr(k), v.hash()))),
            Sv::Opaque(s) => mix(13, hstr(s)),
        }
    }
}

pub const P: u64 = 2147483647;
pub fn mix(a: u64, b: u64) -> u64 {
    ((a % P) * 1000003 + (b % P) + 7) % P
}
pub fn hstr(s: &str) -> u64 {
    s.chars().fold(17, |a, c| mix(a, c as u64))
}
