//! C18 harness: translator shared by dtx_extract.
pub mod translate;
