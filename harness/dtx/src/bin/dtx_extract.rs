//! `dtx_extract [repo-root]` — family tables of the data type printer and parser as one JSON object.
fn main() {
    let repo = std::env::args().nth(1).unwrap_or_else(|| "/repo".to_string());
    let mut v = dtx::translate::translate(&repo);
    // keywords known to the compiled crate (a spelled word must be one of them to reach its arm)
    v["all_keywords"] = serde_json::json!(sqlparser::keywords::ALL_KEYWORDS);
    println!("{}", v);
}
