//! Dynamic driver for C18 (JSON lines stdin → one JSON line per case).
//!   types  {"sql","dialects"}          data type values occurring in the parsed statements, per dialect
//!   dt     {"v": <DataType JSON>, "dialects": [..], "ref": <text or null>}
//!          per dialect: Display text tokenized, parsed stand-alone (whole text must be consumed),
//!          inside `SELECT CAST(x AS ..)` and inside `CREATE TABLE t (c ..)`; for a result that differs
//!          from the input, whether that *parser-produced* value is itself a print/parse fixpoint in the
//!          same context; whether the reference text parses (stand-alone) to the input value.
//!   text   {"text","dialects"}         stand-alone parse of an arbitrary type text (+ tokens)
use serde_json::{json, Value as J};
use sqlparser::ast::DataType;
use sqlparser::dialect::Dialect;
use sqlparser::parser::Parser;
use sqlparser::tokenizer::{Token, Tokenizer};
use std::panic::{catch_unwind, AssertUnwindSafe};
use vh::*;

fn tok(t: &Token) -> J {
    match t {
        Token::Word(w) => json!(["w", w.value, w.quote_style.map(|c| c.to_string())]),
        Token::Number(s, l) => {
            if *l { json!(["o", format!("{s}L")]) } else { json!(["n", s]) }
        }
        Token::SingleQuotedString(s) => json!(["s", s]),
        Token::LParen | Token::RParen | Token::Comma | Token::Lt | Token::Gt | Token::ShiftRight | Token::LBracket
        | Token::RBracket | Token::Period | Token::Colon => json!(["p", t.to_string()]),
        other => json!(["o", format!("{:?}", other)]),
    }
}

fn tokens(d: &dyn Dialect, text: &str) -> J {
    match catch_unwind(AssertUnwindSafe(|| Tokenizer::new(d, text).tokenize())) {
        Ok(Ok(ts)) => J::Array(ts.iter().filter(|t| !matches!(t, Token::Whitespace(_))).map(tok).collect()),
        Ok(Err(e)) => json!({"lexerr": e.to_string()}),
        Err(e) => json!({"panic": panic_msg(e)}),
    }
}

#[derive(Clone, PartialEq)]
enum Out {
    Ok(DataType),
    Err(String),
    Left(usize),
    Extra(String),
    Panic(String),
}

fn standalone(d: &dyn Dialect, text: &str) -> Out {
    let r = catch_unwind(AssertUnwindSafe(|| {
        let mut p = match Parser::new(d).try_with_sql(text) {
            Ok(p) => p,
            Err(e) => return Out::Err(e.to_string()),
        };
        match p.parse_data_type() {
            Err(e) => Out::Err(e.to_string()),
            Ok(t) => {
                let mut left = 0usize;
                loop {
                    let n = p.next_token();
                    if n.token == Token::EOF {
                        break;
                    }
                    left += 1;
                }
                if left > 0 { Out::Left(left) } else { Out::Ok(t) }
            }
        }
    }));
    r.unwrap_or_else(|e| Out::Panic(panic_msg(e)))
}

fn find_key<'a>(v: &'a J, key: &str) -> Option<&'a J> {
    match v {
        J::Object(m) => {
            if let Some(x) = m.get(key) {
                return Some(x);
            }
            m.values().find_map(|x| find_key(x, key))
        }
        J::Array(a) => a.iter().find_map(|x| find_key(x, key)),
        _ => None,
    }
}

fn in_statement(d: &dyn Dialect, sql: &str, cast: bool) -> Out {
    let r = catch_unwind(AssertUnwindSafe(|| match Parser::parse_sql(d, sql) {
        Err(e) => Out::Err(e.to_string()),
        Ok(stmts) => {
            if stmts.len() != 1 {
                return Out::Extra(format!("{} statements", stmts.len()));
            }
            let j = serde_json::to_value(&stmts[0]).unwrap_or(J::Null);
            let dtj = if cast {
                match find_key(&j, "Cast") {
                    Some(c) => {
                        if c["expr"] != json!({"Identifier": {"value": "x", "quote_style": null}}) {
                            return Out::Extra("cast operand changed".into());
                        }
                        if !c["format"].is_null() {
                            return Out::Extra("cast format present".into());
                        }
                        c["data_type"].clone()
                    }
                    None => return Out::Extra("no Cast node".into()),
                }
            } else {
                match find_key(&j, "CreateTable") {
                    Some(ct) => {
                        let cols = ct["columns"].as_array().cloned().unwrap_or_default();
                        if cols.len() != 1 {
                            return Out::Extra(format!("{} columns", cols.len()));
                        }
                        if !cols[0]["collation"].is_null() || cols[0]["options"] != json!([]) || ct["constraints"] != json!([]) {
                            return Out::Extra("column options/collation/constraints absorbed part of the type".into());
                        }
                        cols[0]["data_type"].clone()
                    }
                    None => return Out::Extra("no CreateTable node".into()),
                }
            };
            match serde_json::from_value::<DataType>(dtj) {
                Ok(t) => Out::Ok(t),
                Err(e) => Out::Extra(format!("data type does not deserialise: {e}")),
            }
        }
    }));
    r.unwrap_or_else(|e| Out::Panic(panic_msg(e)))
}

fn run_ctx(d: &dyn Dialect, text: &str, ctx: usize) -> Out {
    match ctx {
        0 => standalone(d, text),
        1 => in_statement(d, &format!("SELECT CAST(x AS {text})"), true),
        _ => in_statement(d, &format!("CREATE TABLE t (c {text})"), false),
    }
}

fn show(v: &DataType) -> Result<String, String> {
    catch_unwind(AssertUnwindSafe(|| v.to_string())).map_err(panic_msg)
}

fn out_json(o: &Out, v: &DataType, d: &dyn Dialect, ctx: usize) -> J {
    match o {
        Out::Ok(t) if t == v => json!("same"),
        Out::Ok(t) => {
            // t is parser-produced: it must itself be a fixpoint of print/parse in this context
            let fix = match show(t) {
                Ok(s) => match run_ctx(d, &s, ctx) {
                    Out::Ok(t2) => {
                        if &t2 == t { json!(true) } else { json!({"text": s, "reparsed": serde_json::to_value(&t2).unwrap_or(J::Null)}) }
                    }
                    Out::Err(e) => json!({"text": s, "err": e}),
                    Out::Left(n) => json!({"text": s, "left": n}),
                    Out::Extra(e) => json!({"text": s, "extra": e}),
                    Out::Panic(e) => json!({"text": s, "panic": e}),
                },
                Err(e) => json!({"display_panic": e}),
            };
            json!({"ok": serde_json::to_value(t).unwrap_or(J::Null), "fix": fix})
        }
        Out::Err(e) => json!({"err": e}),
        Out::Left(n) => json!({"left": n}),
        Out::Extra(e) => json!({"extra": e}),
        Out::Panic(e) => json!({"panic": e}),
    }
}

fn do_dt(c: &J) -> J {
    let v: DataType = match serde_json::from_value(c["v"].clone()) {
        Ok(v) => v,
        Err(e) => return json!({"error": format!("value does not deserialise: {e}")}),
    };
    if serde_json::to_value(&v).unwrap_or(J::Null) != c["v"] {
        return json!({"error": "value is not a serde fixpoint"});
    }
    let text = match show(&v) {
        Ok(s) => s,
        Err(e) => return json!({"display_panic": e}),
    };
    let reft = c["ref"].as_str();
    let mut groups: Vec<(J, Vec<String>)> = vec![];
    for dn in c["dialects"].as_array().cloned().unwrap_or_default() {
        let dn = dn.as_str().unwrap_or("generic").to_string();
        let d = dialect_by_name(&dn);
        let toks = tokens(d.as_ref(), &text);
        let mut r = json!({"toks": toks});
        let names = ["sa", "cast", "col"];
        for ctx in 0..3 {
            let o = run_ctx(d.as_ref(), &text, ctx);
            r[names[ctx]] = out_json(&o, &v, d.as_ref(), ctx);
        }
        let bs = c["bs_dialects"].as_array().map(|a| a.iter().any(|x| x.as_str() == Some(dn.as_str()))).unwrap_or(false);
        let reft = if bs { c["ref_bs"].as_str().or(reft) } else { reft };
        if let Some(rt) = reft {
            r["cert"] = json!(standalone(d.as_ref(), rt) == Out::Ok(v.clone()));
            if c["ref_toks"] == true {
                r["ref_toks"] = tokens(d.as_ref(), rt);
            }
        }
        match groups.iter_mut().find(|(g, _)| *g == r) {
            Some((_, ds)) => ds.push(dn),
            None => groups.push((r, vec![dn])),
        }
    }
    json!({"text": text, "groups": groups.into_iter().map(|(mut g, ds)| { g["dialects"] = json!(ds); g }).collect::<Vec<_>>()})
}

fn do_text(c: &J) -> J {
    let text = c["text"].as_str().unwrap_or("").to_string();
    let mut res = vec![];
    for dn in c["dialects"].as_array().cloned().unwrap_or_default() {
        let dn = dn.as_str().unwrap_or("generic").to_string();
        let d = dialect_by_name(&dn);
        let o = match standalone(d.as_ref(), &text) {
            Out::Ok(t) => json!({"ok": serde_json::to_value(&t).unwrap_or(J::Null)}),
            Out::Err(e) => json!({"err": e}),
            Out::Left(n) => json!({"left": n}),
            Out::Extra(e) => json!({"extra": e}),
            Out::Panic(e) => json!({"panic": e}),
        };
        res.push(json!({"dialect": dn, "toks": tokens(d.as_ref(), &text), "sa": o}));
    }
    json!({"results": res})
}

/// every sub-value of a serialised statement, found under a key that names a type, that is a DataType
fn collect_types(v: &J, out: &mut Vec<J>) {
    match v {
        J::Object(m) => {
            for (k, x) in m {
                if k == "data_type" || k.ends_with("_type") {
                    if !x.is_null() && serde_json::from_value::<DataType>(x.clone()).is_ok() && !out.contains(x) {
                        out.push(x.clone());
                    }
                }
                collect_types(x, out);
            }
        }
        J::Array(a) => a.iter().for_each(|x| collect_types(x, out)),
        _ => {}
    }
}

fn do_types(c: &J) -> J {
    let sql = c["sql"].as_str().unwrap_or("").to_string();
    let mut res = vec![];
    for dn in c["dialects"].as_array().cloned().unwrap_or_default() {
        let dn = dn.as_str().unwrap_or("generic").to_string();
        let d = dialect_by_name(&dn);
        if let Ok(Ok(stmts)) = catch_unwind(AssertUnwindSafe(|| Parser::parse_sql(d.as_ref(), &sql))) {
            let mut ts = vec![];
            for s in &stmts {
                collect_types(&serde_json::to_value(s).unwrap_or(J::Null), &mut ts);
            }
            if !ts.is_empty() {
                res.push(json!({"dialect": dn, "types": ts}));
            }
        }
    }
    json!({"results": res})
}

fn main() {
    quiet_panics();
    let mode = std::env::args().nth(1).unwrap_or_default();
    match mode.as_str() {
        "dt" => for_each_case(do_dt),
        "text" => for_each_case(do_text),
        "types" => for_each_case(do_types),
        _ => {
            eprintln!("usage: dtx_drive dt|text|types");
            std::process::exit(2);
        }
    }
}
