//! C18 translator (syn 2).  Reads `<repo>/src/ast/data_type.rs` (any file under src/ast that holds
//! `enum DataType` / `impl Display for DataType`) and `<repo>/src/parser/mod.rs`
//! (`fn parse_data_type_helper`) and emits
//!   * `ctors`: the constructors of `enum DataType` with their parameter types,
//!   * `print_rows`: one row per *regular* Display arm — constructor, family, spelled words,
//!   * `parse_rows`: one row per arm of `match w.keyword` in `parse_data_type_helper`, in source
//!     order, with its dialect gate; regular arms carry their alternatives
//!     (keyword continuation, constructor, family), irregular arms a hash of their token stream,
//!   * `irregular_print`: hash per irregular Display arm, `helpers`: hash per helper function the
//!     hand model mirrors, `tail_hash`: hash of what follows the keyword match (the `[..]` loop),
//!   * `obligations`: anything that could not be located.
//! Keys are shapes (`display/DataType::X`, `parse/Keyword::K#ordinal`), never line numbers.
//! Regular means: one of the recognised shapes below; everything else is *irregular* and is only
//! pinned.  The translator decides nothing.
use quote::ToTokens;
use serde_json::{json, Value};

pub fn text<T: ToTokens>(t: &T) -> String {
    fn go(ts: proc_macro2::TokenStream, out: &mut String) {
        for tt in ts {
            let piece = match &tt {
                proc_macro2::TokenTree::Group(g) => {
                    let (o, c) = match g.delimiter() {
                        proc_macro2::Delimiter::Parenthesis => ("(", ")"),
                        proc_macro2::Delimiter::Brace => ("{", "}"),
                        proc_macro2::Delimiter::Bracket => ("[", "]"),
                        proc_macro2::Delimiter::None => ("", ""),
                    };
                    out.push_str(o);
                    go(g.stream(), out);
                    out.push_str(c);
                    continue;
                }
                other => other.to_string(),
            };
            let wordy = |x: char| x.is_alphanumeric() || x == '_' || x == '"' || x == '\'';
            if let (Some(a), Some(b)) = (out.chars().last(), piece.chars().next()) {
                if wordy(a) && wordy(b) {
                    out.push(' ');
                }
            }
            out.push_str(&piece);
        }
    }
    let mut out = String::new();
    go(t.to_token_stream(), &mut out);
    out
}

pub fn fnv(s: &str) -> String {
    let mut h: u64 = 0xcbf29ce484222325;
    for b in s.bytes() {
        h ^= b as u64;
        h = h.wrapping_mul(0x100000001b3);
    }
    format!("{:016x}", h)
}

fn last_seg(p: &syn::Path) -> String {
    p.segments.last().map(|s| s.ident.to_string()).unwrap_or_default()
}

fn type_last_seg(t: &syn::Type) -> String {
    match t {
        syn::Type::Path(tp) => last_seg(&tp.path),
        _ => String::new(),
    }
}

fn rs_files(dir: &std::path::Path, out: &mut Vec<std::path::PathBuf>) {
    if let Ok(rd) = std::fs::read_dir(dir) {
        let mut es: Vec<_> = rd.flatten().map(|e| e.path()).collect();
        es.sort();
        for p in es {
            if p.is_dir() {
                rs_files(&p, out);
            } else if p.extension().map(|x| x == "rs").unwrap_or(false) {
                out.push(p);
            }
        }
    }
}

fn peel(e: &syn::Expr) -> &syn::Expr {
    match e {
        syn::Expr::Paren(p) => peel(&p.expr),
        syn::Expr::Group(p) => peel(&p.expr),
        syn::Expr::Block(b) if b.label.is_none() && b.block.stmts.len() == 1 => match &b.block.stmts[0] {
            syn::Stmt::Expr(x, None) => peel(x),
            _ => e,
        },
        _ => e,
    }
}

fn lit_str(e: &syn::Expr) -> Option<String> {
    if let syn::Expr::Lit(l) = peel(e) {
        if let syn::Lit::Str(s) = &l.lit {
            return Some(s.value());
        }
    }
    None
}

fn lit_bool(e: &syn::Expr) -> Option<bool> {
    if let syn::Expr::Lit(l) = peel(e) {
        if let syn::Lit::Bool(b) = &l.lit {
            return Some(b.value);
        }
    }
    None
}

fn words(s: &str) -> Vec<String> {
    s.split(' ').filter(|w| !w.is_empty()).map(|w| w.to_string()).collect()
}

/// arguments of a `write!(f, "..", args)` macro as expressions
fn macro_args(m: &syn::Macro) -> Option<Vec<syn::Expr>> {
    use syn::parse::Parser;
    let p = syn::punctuated::Punctuated::<syn::Expr, syn::Token![,]>::parse_terminated;
    p.parse2(m.tokens.clone()).ok().map(|x| x.into_iter().collect())
}

// ------------------------------------------------------------------ Display side

fn pat_ctor(p: &syn::Pat) -> Option<(String, Vec<String>)> {
    match p {
        syn::Pat::Path(pp) => Some((last_seg(&pp.path), vec![])),
        syn::Pat::Ident(pi) => Some((pi.ident.to_string(), vec![])),
        syn::Pat::TupleStruct(ts) => {
            let mut b = vec![];
            for e in &ts.elems {
                match e {
                    syn::Pat::Ident(pi) => b.push(pi.ident.to_string()),
                    _ => b.push(text(e)),
                }
            }
            Some((last_seg(&ts.path), b))
        }
        _ => None,
    }
}

fn classify_display(body: &syn::Expr, bindings: &[String], params: &[String]) -> Option<Value> {
    match peel(body) {
        syn::Expr::Macro(m) if m.mac.path.is_ident("write") => {
            let args = macro_args(&m.mac)?;
            if args.len() != 2 {
                return None;
            }
            let lit = lit_str(&args[1])?;
            if !lit.contains('{') {
                if bindings.is_empty() && !lit.is_empty() {
                    return Some(json!({"family": "nullary", "words": words(&lit)}));
                }
                return None;
            }
            // "KW{binding}" over an ExactNumberInfo parameter
            if bindings.len() == 1 && params.len() == 1 && params[0] == "ExactNumberInfo" {
                let suffix = format!("{{{}}}", bindings[0]);
                if let Some(kw) = lit.strip_suffix(&suffix) {
                    if !kw.contains('{') && !kw.is_empty() {
                        return Some(json!({"family": "exact", "words": words(kw)}));
                    }
                }
            }
            None
        }
        syn::Expr::Call(c) => {
            let callee = match &*c.func {
                syn::Expr::Path(p) => last_seg(&p.path),
                _ => return None,
            };
            let a: Vec<&syn::Expr> = c.args.iter().collect();
            let is_binding = |e: &syn::Expr, i: usize| bindings.get(i).map(|b| text(e) == *b).unwrap_or(false);
            match callee.as_str() {
                "format_type_with_optional_length" if a.len() == 4 && bindings.len() == 1 && is_binding(a[2], 0) => {
                    let kw = lit_str(a[1])?;
                    let u = lit_bool(a[3])?;
                    Some(json!({"family": "optlen", "words": words(&kw), "unsigned": u}))
                }
                "format_character_string_type" if a.len() == 3 && bindings.len() == 1 && is_binding(a[2], 0) => {
                    let kw = lit_str(a[1])?;
                    Some(json!({"family": "charlen", "words": words(&kw)}))
                }
                "format_datetime_precision_and_tz" if a.len() == 4 && bindings.len() == 2 && is_binding(a[2], 0) && is_binding(a[3], 1) => {
                    let kw = lit_str(a[1])?;
                    Some(json!({"family": "time", "words": words(&kw)}))
                }
                _ => None,
            }
        }
        _ => None,
    }
}

// ------------------------------------------------------------------ parser side

fn ok_datatype(e: &syn::Expr) -> Option<(String, Vec<syn::Expr>)> {
    // Ok(DataType::X) / Ok(DataType::X(args))
    if let syn::Expr::Call(c) = peel(e) {
        if let syn::Expr::Path(p) = &*c.func {
            if last_seg(&p.path) == "Ok" && c.args.len() == 1 {
                match peel(&c.args[0]) {
                    syn::Expr::Path(pp) if pp.path.segments.len() == 2 && pp.path.segments[0].ident == "DataType" => {
                        return Some((last_seg(&pp.path), vec![]));
                    }
                    syn::Expr::Call(cc) => {
                        if let syn::Expr::Path(pp) = &*cc.func {
                            if pp.path.segments.len() == 2 && pp.path.segments[0].ident == "DataType" {
                                return Some((last_seg(&pp.path), cc.args.iter().cloned().collect()));
                            }
                        }
                    }
                    _ => {}
                }
            }
        }
    }
    None
}

const TZ_INIT: &str = "if self.parse_keyword(Keyword::WITH){self.expect_keywords(&[Keyword::TIME,Keyword::ZONE])?;TimezoneInfo::WithTimeZone}else if self.parse_keyword(Keyword::WITHOUT){self.expect_keywords(&[Keyword::TIME,Keyword::ZONE])?;TimezoneInfo::WithoutTimeZone}else{TimezoneInfo::None}";

/// a leaf result expression: (ctor, family[, unsigned ctor])
fn classify_leaf(e: &syn::Expr) -> Option<Value> {
    if let Some((ctor, args)) = ok_datatype(e) {
        if args.is_empty() {
            return Some(json!({"ctor": ctor, "family": "nullary"}));
        }
        let a0 = text(&args[0]);
        let fam = match a0.as_str() {
            "self.parse_optional_precision()?" => "optlen",
            "self.parse_optional_character_length()?" => "charlen",
            "self.parse_exact_number_optional_precision_scale()?" => "exact",
            "self.parse_string_values()?" => "strlist",
            _ => return None,
        };
        if args.len() == 1 {
            return Some(json!({"ctor": ctor, "family": fam}));
        }
        if args.len() == 2 && fam == "optlen" && text(&args[1]) == "TimezoneInfo::Tz" {
            return Some(json!({"ctor": ctor, "family": "timetz"}));
        }
        return None;
    }
    // { let optional_precision = self.parse_optional_precision();
    //   if self.parse_keyword(Keyword::UNSIGNED) { Ok(DataType::U(optional_precision?)) } else { Ok(DataType::S(optional_precision?)) } }
    if let syn::Expr::Block(b) = e {
        let st = &b.block.stmts;
        if st.len() == 2 {
            if let (syn::Stmt::Local(l), syn::Stmt::Expr(syn::Expr::If(i), None)) = (&st[0], &st[1]) {
                let var = match &l.pat {
                    syn::Pat::Ident(pi) => pi.ident.to_string(),
                    _ => return None,
                };
                let init = l.init.as_ref().map(|i| text(&i.expr)).unwrap_or_default();
                if init == "self.parse_optional_precision()" && text(&i.cond) == "self.parse_keyword(Keyword::UNSIGNED)" {
                    let then_e = syn::Expr::Block(syn::ExprBlock { attrs: vec![], label: None, block: i.then_branch.clone() });
                    let (u, ua) = ok_datatype(&then_e)?;
                    let (s, sa) = ok_datatype(&i.else_branch.as_ref()?.1)?;
                    let want = format!("{var}?");
                    if ua.len() == 1 && sa.len() == 1 && text(&ua[0]) == want && text(&sa[0]) == want {
                        return Some(json!({"ctor": s, "family": "optlen_u", "unsigned_ctor": u}));
                    }
                }
            }
            // time family
            if let (syn::Stmt::Local(l1), syn::Stmt::Local(l2)) = (&st[0], &st[1]) {
                let _ = (l1, l2);
            }
        }
        if st.len() == 3 {
            if let (syn::Stmt::Local(l1), syn::Stmt::Local(l2), syn::Stmt::Expr(tail, None)) = (&st[0], &st[1], &st[2]) {
                let v1 = match &l1.pat { syn::Pat::Ident(pi) => pi.ident.to_string(), _ => return None };
                let v2 = match &l2.pat { syn::Pat::Ident(pi) => pi.ident.to_string(), _ => return None };
                let i1 = l1.init.as_ref().map(|i| text(&i.expr)).unwrap_or_default();
                let i2 = l2.init.as_ref().map(|i| text(&i.expr)).unwrap_or_default();
                if i1 == "self.parse_optional_precision()?" && i2 == TZ_INIT {
                    let (c, a) = ok_datatype(tail)?;
                    if a.len() == 2 && text(&a[0]) == v1 && text(&a[1]) == v2 {
                        return Some(json!({"ctor": c, "family": "time"}));
                    }
                }
            }
        }
    }
    None
}

fn keyword_of(e: &syn::Expr) -> Option<String> {
    if let syn::Expr::Path(p) = peel(e) {
        if p.path.segments.len() == 2 && p.path.segments[0].ident == "Keyword" {
            return Some(last_seg(&p.path));
        }
    }
    None
}

/// `self.parse_keyword(Keyword::K)` / `self.parse_keywords(&[Keyword::A, Keyword::B])`
fn keyword_cond(e: &syn::Expr) -> Option<Vec<String>> {
    if let syn::Expr::MethodCall(m) = peel(e) {
        if text(&m.receiver) != "self" || m.args.len() != 1 {
            return None;
        }
        if m.method == "parse_keyword" {
            return keyword_of(&m.args[0]).map(|k| vec![k]);
        }
        if m.method == "parse_keywords" {
            if let syn::Expr::Reference(r) = peel(&m.args[0]) {
                if let syn::Expr::Array(a) = peel(&r.expr) {
                    let ks: Option<Vec<String>> = a.elems.iter().map(keyword_of).collect();
                    return ks;
                }
            }
        }
    }
    None
}

fn classify_parse(body: &syn::Expr) -> Option<Vec<Value>> {
    if let Some(l) = classify_leaf(body) {
        let mut l = l;
        l["kws"] = json!([]);
        return Some(vec![l]);
    }
    // if-chain over keyword continuations
    let mut alts = vec![];
    let mut cur: &syn::Expr = peel(body);
    loop {
        match cur {
            syn::Expr::If(i) => {
                let kws = keyword_cond(&i.cond)?;
                let then_e = syn::Expr::Block(syn::ExprBlock { attrs: vec![], label: None, block: i.then_branch.clone() });
                let mut l = classify_leaf(peel(&then_e)).or_else(|| classify_leaf(&then_e))?;
                l["kws"] = json!(kws);
                alts.push(l);
                cur = &i.else_branch.as_ref()?.1;
            }
            other => {
                let mut l = classify_leaf(peel(other)).or_else(|| classify_leaf(other))?;
                l["kws"] = json!([]);
                alts.push(l);
                break;
            }
        }
    }
    if alts.len() >= 2 {
        Some(alts)
    } else {
        None
    }
}

fn gate_of(g: &syn::Expr) -> Option<Vec<String>> {
    if let syn::Expr::Macro(m) = peel(g) {
        if m.mac.path.is_ident("dialect_of") {
            let toks: Vec<String> = m.mac.tokens.clone().into_iter().map(|t| t.to_string()).collect();
            // self is A | B
            if toks.len() >= 3 && toks[0] == "self" && toks[1] == "is" {
                return Some(toks[2..].iter().filter(|t| *t != "|").cloned().collect());
            }
        }
    }
    None
}

struct FindMatch<'a> {
    scrutinee: &'a str,
    found: Option<syn::ExprMatch>,
}
impl<'ast, 'a> syn::visit::Visit<'ast> for FindMatch<'a> {
    fn visit_expr_match(&mut self, m: &'ast syn::ExprMatch) {
        if self.found.is_none() && text(&m.expr) == self.scrutinee {
            self.found = Some(m.clone());
            return;
        }
        syn::visit::visit_expr_match(self, m);
    }
}

const HELPERS: [&str; 19] = [
    "parse_data_type", "parse_optional_precision", "parse_optional_character_length", "parse_character_length",
    "parse_exact_number_optional_precision_scale", "parse_datetime_64", "parse_string_values",
    "parse_optional_type_modifiers", "parse_sub_type", "expect_closing_angle_bracket", "parse_struct_type_def",
    "parse_duckdb_struct_type_def", "parse_struct_field_def", "parse_union_type_def", "parse_click_house_map_def",
    "parse_click_house_tuple_def", "parse_literal_uint", "parse_literal_string", "parse_object_name",
];
const PRINT_HELPERS: [&str; 4] = [
    "format_type_with_optional_length", "format_character_string_type", "format_datetime_precision_and_tz",
    "format_clickhouse_datetime_precision_and_timezone",
];
const PRINT_IMPLS: [&str; 6] = ["TimezoneInfo", "ExactNumberInfo", "CharacterLength", "CharLengthUnits", "StructField", "UnionField"];

pub fn translate(repo: &str) -> Value {
    let mut obl: Vec<Value> = vec![];
    let mut out = serde_json::Map::new();
    out.insert("repo".into(), json!(repo));

    // ---------------- src/ast: enum DataType, impl Display for DataType, print helpers
    let mut files = vec![];
    rs_files(&std::path::Path::new(repo).join("src").join("ast"), &mut files);
    let mut ctors = vec![];
    let mut ctor_params: std::collections::BTreeMap<String, Vec<String>> = Default::default();
    let mut display_impl: Option<syn::ItemImpl> = None;
    let mut helpers = serde_json::Map::new();
    for p in &files {
        let src = match std::fs::read_to_string(p) { Ok(s) => s, Err(_) => continue };
        let file = match syn::parse_file(&src) {
            Ok(f) => f,
            Err(e) => { obl.push(json!({"key": "source", "what": "file does not parse", "text": format!("{}: {e}", p.display())})); continue }
        };
        for it in &file.items {
            match it {
                syn::Item::Enum(e) if e.ident == "DataType" => {
                    for v in &e.variants {
                        let params: Vec<String> = match &v.fields {
                            syn::Fields::Unnamed(u) => u.unnamed.iter().map(|f| text(&f.ty)).collect(),
                            syn::Fields::Unit => vec![],
                            syn::Fields::Named(n) => n.named.iter().map(|f| text(&f.ty)).collect(),
                        };
                        ctor_params.insert(v.ident.to_string(), params.clone());
                        ctors.push(json!({"name": v.ident.to_string(), "params": params}));
                    }
                }
                syn::Item::Impl(i) => {
                    let is_display = i.trait_.as_ref().map(|(_, p, _)| last_seg(p) == "Display").unwrap_or(false);
                    let ty = type_last_seg(&i.self_ty);
                    if is_display && ty == "DataType" {
                        display_impl = Some(i.clone());
                    } else if is_display && PRINT_IMPLS.contains(&ty.as_str()) {
                        helpers.insert(format!("display:{ty}"), json!(fnv(&text(i))));
                    }
                }
                syn::Item::Fn(f) if PRINT_HELPERS.contains(&f.sig.ident.to_string().as_str()) => {
                    helpers.insert(format!("fn:{}", f.sig.ident), json!(fnv(&text(f))));
                }
                _ => {}
            }
        }
    }
    if ctors.is_empty() {
        obl.push(json!({"key": "enum:DataType", "what": "enum DataType not found", "text": ""}));
    }
    out.insert("ctors".into(), json!(ctors));

    let mut print_rows = vec![];
    let mut irregular_print = serde_json::Map::new();
    match display_impl.as_ref().and_then(|i| i.items.iter().find_map(|it| match it { syn::ImplItem::Fn(f) if f.sig.ident == "fmt" => Some(f.clone()), _ => None })) {
        None => obl.push(json!({"key": "display", "what": "impl Display for DataType not found", "text": ""})),
        Some(f) => {
            let mut fm = FindMatch { scrutinee: "self", found: None };
            syn::visit::Visit::visit_block(&mut fm, &f.block);
            match fm.found {
                None => obl.push(json!({"key": "display", "what": "fmt is not `match self { .. }`", "text": ""})),
                Some(m) => {
                    for arm in &m.arms {
                        let alts: Vec<&syn::Pat> = match &arm.pat { syn::Pat::Or(o) => o.cases.iter().collect(), p => vec![p] };
                        for p in alts {
                            let (ctor, bindings) = match pat_ctor(p) {
                                Some(x) => x,
                                None => { obl.push(json!({"key": "display/arm", "what": "unsupported arm pattern", "text": text(p)})); continue }
                            };
                            let key = format!("display/DataType::{ctor}");
                            if arm.guard.is_some() {
                                irregular_print.insert(ctor.clone(), json!({"hash": fnv(&text(arm)), "key": key, "why": "guard"}));
                                continue;
                            }
                            let params = ctor_params.get(&ctor).cloned().unwrap_or_default();
                            match classify_display(&arm.body, &bindings, &params) {
                                Some(mut row) => {
                                    row["ctor"] = json!(ctor);
                                    row["key"] = json!(key);
                                    print_rows.push(row);
                                }
                                None => {
                                    irregular_print.insert(ctor.clone(), json!({"hash": fnv(&text(&arm.body)), "key": key}));
                                }
                            }
                        }
                    }
                }
            }
        }
    }
    out.insert("print_rows".into(), json!(print_rows));
    out.insert("irregular_print".into(), Value::Object(irregular_print));

    // ---------------- src/parser/mod.rs
    let ppath = std::path::Path::new(repo).join("src").join("parser").join("mod.rs");
    let mut parse_rows = vec![];
    let mut tail_hash = Value::Null;
    match std::fs::read_to_string(&ppath).ok().and_then(|s| syn::parse_file(&s).ok()) {
        None => obl.push(json!({"key": "parser", "what": "src/parser/mod.rs not readable", "text": ""})),
        Some(file) => {
            let mut helper_fn: Option<syn::ImplItemFn> = None;
            for it in &file.items {
                if let syn::Item::Impl(i) = it {
                    if type_last_seg(&i.self_ty) != "Parser" || i.trait_.is_some() {
                        continue;
                    }
                    for ii in &i.items {
                        if let syn::ImplItem::Fn(f) = ii {
                            let n = f.sig.ident.to_string();
                            if n == "parse_data_type_helper" {
                                helper_fn = Some(f.clone());
                            }
                            if HELPERS.contains(&n.as_str()) {
                                helpers.insert(format!("parser:{n}"), json!(fnv(&text(&f.block))));
                            }
                        }
                    }
                }
            }
            match helper_fn {
                None => obl.push(json!({"key": "parse", "what": "fn parse_data_type_helper not found", "text": ""})),
                Some(f) => {
                    let mut fm = FindMatch { scrutinee: "w.keyword", found: None };
                    syn::visit::Visit::visit_block(&mut fm, &f.block);
                    match fm.found {
                        None => obl.push(json!({"key": "parse", "what": "no `match w.keyword { .. }` in parse_data_type_helper", "text": ""})),
                        Some(m) => {
                            let mut ord: std::collections::HashMap<String, usize> = Default::default();
                            for arm in &m.arms {
                                let alts: Vec<&syn::Pat> = match &arm.pat { syn::Pat::Or(o) => o.cases.iter().collect(), p => vec![p] };
                                for p in alts {
                                    let kw = match p {
                                        syn::Pat::Path(pp) if pp.path.segments.len() == 2 && pp.path.segments[0].ident == "Keyword" => last_seg(&pp.path),
                                        syn::Pat::Wild(_) => "_".to_string(),
                                        other => { obl.push(json!({"key": "parse/arm", "what": "unsupported arm pattern", "text": text(other)})); continue }
                                    };
                                    let o = ord.entry(kw.clone()).or_insert(0);
                                    let key = format!("parse/Keyword::{kw}#{o}");
                                    *o += 1;
                                    let gate = match &arm.guard {
                                        None => Value::Null,
                                        Some((_, g)) => match gate_of(g) {
                                            Some(ds) => json!(ds),
                                            None => { obl.push(json!({"key": key, "what": "guard is not dialect_of!(self is ..)", "text": text(&**g)})); json!([]) }
                                        },
                                    };
                                    let mut row = json!({"keyword": kw, "gate": gate, "key": key});
                                    match classify_parse(&arm.body) {
                                        Some(alts) if kw != "_" => row["alts"] = json!(alts),
                                        _ => row["irregular"] = json!(fnv(&text(&arm.body))),
                                    }
                                    parse_rows.push(row);
                                }
                            }
                        }
                    }
                    // everything in the function except the keyword match: the `[..]` suffix loop etc.
                    let whole = text(&f.block);
                    let mut fm2 = FindMatch { scrutinee: "w.keyword", found: None };
                    syn::visit::Visit::visit_block(&mut fm2, &f.block);
                    if let Some(m) = fm2.found {
                        let inner = text(&m);
                        tail_hash = json!(fnv(&whole.replace(&inner, "<KEYWORD MATCH>")));
                    }
                }
            }
        }
    }
    out.insert("parse_rows".into(), json!(parse_rows));
    out.insert("tail_hash".into(), tail_hash);
    for h in HELPERS {
        if !helpers.contains_key(&format!("parser:{h}")) {
            obl.push(json!({"key": format!("parser:{h}"), "what": "helper function not found", "text": ""}));
        }
    }
    for h in PRINT_HELPERS {
        if !helpers.contains_key(&format!("fn:{h}")) {
            obl.push(json!({"key": format!("fn:{h}"), "what": "print helper not found", "text": ""}));
        }
    }
    out.insert("helpers".into(), Value::Object(helpers));
    out.insert("obligations".into(), json!(obl));
    Value::Object(out)
}
