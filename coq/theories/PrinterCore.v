(** C01 / C05 — the printer on the operator core of the Pratt model.
    [pp]     : the text [impl Display for Expr] produces for a core tree (string level);
    [ptoks]  : the tokens that text lexes to (token level) = the yield of the tree in canonical
               spelling ([==] is printed [=], an ESCAPE character is always printed quoted);
    [content]: the user-supplied content tokens of a token list (C05);
    [lexview]: the executable lexer model of Lexer.v applied to a printed text, viewed as core
               tokens — used to evaluate (and, for the prefix-operator pairs, refute) the glue
               statement [lexview (pp e) = ptoks e] inside the kernel.
    Model only; proofs are in PrinterCoreProofs.v. *)
From SqlV Require Import Base PrecSpec Pratt.
Require SqlV.Lexer.

(** * Canonical spelling *)
Definition K_DoubleEq := 44.
Definition K_Eq := 45.
Definition norm_key (k : N) : N := if k =? K_DoubleEq then K_Eq else k.

Fixpoint norm (e : expr) : expr :=
  match e with
  | EAtom s n => EAtom s n
  | ENested x => ENested (norm x)
  | ETuple l => ETuple (map norm l)
  | EPre k x => EPre k (norm x)
  | ENot x => ENot (norm x)
  | EBin k l r => EBin (norm_key k) (norm l) (norm r)
  | EAnyAll k q l r => EAnyAll (norm_key k) q (norm l) (norm r)
  | EPostfix x => EPostfix (norm x)
  | EIs n w x => EIs n w (norm x)
  | EIsDF n l r => EIsDF n (norm l) (norm r)
  | EAtTz l r => EAtTz (norm l) (norm r)
  | ECast x t => ECast (norm x) t
  | ELike kd n a x p esc =>
      ELike kd n a (norm x) (norm p) (match esc with Some (false, c) => Some (true, 100000 + c) | other => other end)
  | EBetween n x lo hi => EBetween n (norm x) (norm lo) (norm hi)
  | EInList n x l => EInList n (norm x) (map norm l)
  | EInUnnest n x a => EInUnnest n (norm x) (norm a)
  | EDiv l r => EDiv (norm l) (norm r)
  | ESubscript x i => ESubscript (norm x) (norm i)
  end.

(** tokens of the printed text *)
Definition ptoks (e : expr) : list tok := yield (norm e).

(** * Content tokens (C05): identifiers and string literals; keywords, type keywords, operators
    and punctuation are not content *)
Inductive ctok := CWord (n : N) | CStr (n : N).
Definition ctok_of (t : tok) : list ctok :=
  match t with
  | TAtom false n => [CWord n]
  | TAtom true n => [CStr n]
  | _ => []
  end.
Definition content (ts : list tok) : list ctok := flat_map ctok_of ts.

(** the only place where the printer changes the kind of a content token: [ESCAPE c] with an
    unquoted word [c] is printed [ESCAPE 'c'] *)
Fixpoint word_escape (e : expr) : bool :=
  let any := fix any (l : list expr) : bool :=
    match l with [] => false | x :: r => word_escape x || any r end in
  match e with
  | EAtom _ _ => false
  | ENested x | EPre _ x | ENot x | EPostfix x | EIs _ _ x | ECast x _ => word_escape x
  | ETuple l => any l
  | EBin _ l r | EAnyAll _ _ l r | EIsDF _ l r | EAtTz l r | EInUnnest _ l r | EDiv l r
  | ESubscript l r => word_escape l || word_escape r
  | ELike _ _ _ x p esc =>
      match esc with Some (false, _) => true | _ => false end || word_escape x || word_escape p
  | EBetween _ x lo hi => word_escape x || word_escape lo || word_escape hi
  | EInList _ x l => word_escape x || any l
  end.

(** * String level *)

Fixpoint dec_digits (fuel : nat) (n : N) (acc : str) : str :=
  match fuel with
  | O => acc
  | S f => let acc' := (48 + n mod 10)%N :: acc in
           if (n <? 10)%N then acc' else dec_digits f (n / 10)%N acc'
  end.
Definition dec (n : N) : str := dec_digits 40 n [].

Fixpoint undec (acc : N) (s : str) : option N :=
  match s with
  | [] => Some acc
  | c :: r => if (48 <=? c)%N && (c <=? 57)%N then undec (acc * 10 + (c - 48))%N r else None
  end.

(** atoms are spelled [x<n>] (identifiers) and ['s<n>'] (string literals) *)
Definition ident_text (n : N) : str := 120%N :: dec n.
(** string payloads are [s<n>]; ids from 100000 denote the payload [x<n-100000>] (an ESCAPE word
    re-printed as a string) *)
Definition str_payload (n : N) : str :=
  if (100000 <=? n)%N then ident_text (n - 100000) else 115%N :: dec n.
Definition type_text (n : N) : str :=
  if n =? 1 then s2l "INT" else if n =? 2 then s2l "TEXT" else if n =? 3 then s2l "BOOLEAN" else s2l "DATE".

Definition sp : str := [32%N].
Definition cat (l : list str) : str := concat l.

(** the characters Display for Expr::UnaryOp tests for: "+-*/<>=~!@#%^&|?" *)
Definition is_opchar (c : N) : bool :=
  existsb (N.eqb c) [43; 45; 42; 47; 60; 62; 61; 126; 33; 64; 35; 37; 94; 38; 124; 63]%N.
Definition starts_with_opchar (s : str) : bool := match s with c :: _ => is_opchar c | [] => false end.
Fixpoint ends_with_bang (s : str) : bool :=
  match s with [] => false | [c] => (c =? 33)%N | _ :: r => ends_with_bang r end.

Section PP.
  (** [op_text k]: what [Display for BinaryOperator / UnaryOperator] prints for the operator
      made from token key [k] in this dialect (generated from the running crate) *)
  Variable op_text : N -> str.

  Definition quant_text (q : kwd) : str :=
    s2l (match q with KAll => "ALL" | KSome => "SOME" | _ => "ANY" end).
  Definition is_text (neg : bool) (w : kwd) : str :=
    s2l (match neg, w with
         | false, KNull => " IS NULL" | true, KNull => " IS NOT NULL"
         | false, KTrue => " IS TRUE" | true, KTrue => " IS NOT TRUE"
         | false, KFalse => " IS FALSE" | true, KFalse => " IS NOT FALSE"
         | false, _ => " IS UNKNOWN" | true, _ => " IS NOT UNKNOWN"
         end).
  Definition not_text (neg : bool) : str := if neg then s2l "NOT " else [].
  Definition like_text (kd : likekind) : str :=
    s2l (match kd with LLike => "LIKE" | LILike => "ILIKE" | LSimilar => "SIMILAR TO"
                  | LRLike => "RLIKE" | LRegexp => "REGEXP" end).

  (** [impl fmt::Display for Expr] on the core constructors *)
  Fixpoint pp (e : expr) : str :=
    let commas := fix commas (l : list expr) : str :=
      match l with
      | [] => []
      | [x] => pp x
      | x :: r => pp x ++ s2l ", " ++ commas r
      end in
    match e with
    | EAtom false n => ident_text n
    | EAtom true n => cat [s2l "'"; str_payload n; s2l "'"]
    | ENested x => cat [s2l "("; pp x; s2l ")"]
    | ETuple l => cat [s2l "("; commas l; s2l ")"]
    | EPre k x =>                       (* "{op}{operand}", "{op} {operand}" when the operand's text
                                           begins with an operator character *)
        let s := pp x in
        if starts_with_opchar s then cat [op_text k; sp; s] else op_text k ++ s
    | ENot x => s2l "NOT " ++ pp x
    | EBin k l r => cat [pp l; sp; op_text k; sp; pp r]
    | EAnyAll k q l r => cat [pp l; sp; op_text k; sp; quant_text q; s2l "("; pp r; s2l ")"]
    | EPostfix x =>                     (* "{operand}{op}", "{operand} {op}" when the operand's text ends with ! *)
        let s := pp x in
        if ends_with_bang s then s ++ s2l " !" else s ++ s2l "!"
    | EIs neg w x => pp x ++ is_text neg w
    | EIsDF neg l r => cat [pp l; s2l " IS "; not_text neg; s2l "DISTINCT FROM "; pp r]
    | EAtTz l r => cat [pp l; s2l " AT TIME ZONE "; pp r]
    | ECast x t => cat [pp x; s2l "::"; type_text t]
    | ELike kd neg any x p esc =>
        let anyt := match kd, any with
                    | (LLike | LILike), true => s2l "ANY "
                    | _, _ => []
                    end in
        cat [pp x; sp; not_text neg; like_text kd; sp; anyt; pp p;
             match esc with
             | Some (s, c) => cat [s2l " ESCAPE '"; (if s then str_payload c else ident_text c); s2l "'"]
             | None => []
             end]
    | EBetween neg x lo hi => cat [pp x; sp; not_text neg; s2l "BETWEEN "; pp lo; s2l " AND "; pp hi]
    | EInList neg x l => cat [pp x; sp; not_text neg; s2l "IN ("; commas l; s2l ")"]
    | EInUnnest neg x a => cat [pp x; sp; not_text neg; s2l "IN UNNEST("; pp a; s2l ")"]
    | EDiv l r => cat [pp l; s2l " DIV "; pp r]
    | ESubscript x i => cat [pp x; s2l "["; pp i; s2l "]"]
    end.
End PP.

(** * The lexer model applied to a printed text, viewed as core tokens *)
Local Open Scope string_scope.
Definition kw_view : list (string * tok) := [
  ("NOT", TKw KNot); ("IS", TKw KIs); ("NULL", TKw KNull); ("TRUE", TKw KTrue); ("FALSE", TKw KFalse);
  ("UNKNOWN", TKw KUnknown); ("DISTINCT", TKw KDistinct); ("FROM", TKw KFrom); ("IN", TKw KIn);
  ("BETWEEN", TKw KBetween); ("LIKE", TKw KLike); ("ILIKE", TKw KILike); ("SIMILAR", TKw KSimilar);
  ("TO", TKw KTo); ("RLIKE", TKw KRLike); ("REGEXP", TKw KRegexp); ("ESCAPE", TKw KEscape);
  ("AT", TKw KAt); ("TIME", TKw KTime); ("ZONE", TKw KZone); ("ANY", TKw KAny); ("ALL", TKw KAll);
  ("SOME", TKw KSome); ("UNNEST", TKw KUnnest); ("DIV", TKw KDiv); ("OPERATOR", TKw KOperator);
  ("AND", TOp K_AND); ("OR", TOp K_OR); ("XOR", TOp K_XOR);
  ("INT", TType 1); ("TEXT", TType 2); ("BOOLEAN", TType 3); ("DATE", TType 4) ].
Local Close Scope string_scope.

Fixpoint assoc_str (v : str) (l : list (string * tok)) : option tok :=
  match l with
  | [] => None
  | (k, t) :: r => if str_eqb (s2l k) v then Some t else assoc_str v r
  end.

Definition view_word (v : str) (q : option N) : tok :=
  match q with
  | Some _ => TOther
  | None =>
      match assoc_str (ascii_upper v) kw_view with
      | Some t => t
      | None =>
          match v with
          | 120%N :: (_ :: _) as ds => match undec 0 ds with Some n => TAtom false n | None => TOther end
          | _ => TOther
          end
      end
  end.

Definition view_fix (f : Lexer.fixtok) : tok :=
  match f with
  | Lexer.FComma => TComma | Lexer.FLParen => TLParen | Lexer.FRParen => TRParen
  | Lexer.FLBracket => TLBracket | Lexer.FRBracket => TRBracket | Lexer.FColon => TColon
  | Lexer.FDoubleColon => TDoubleColon | Lexer.FExclamationMark => TExcl
  | Lexer.FSpaceship => TOp 43 | Lexer.FDoubleEq => TOp 44 | Lexer.FEq => TOp 45 | Lexer.FNeq => TOp 46
  | Lexer.FGt => TOp 47 | Lexer.FGtEq => TOp 48 | Lexer.FLt => TOp 49 | Lexer.FLtEq => TOp 50
  | Lexer.FPlus => TOp 51 | Lexer.FMinus => TOp 52 | Lexer.FMul => TOp 53 | Lexer.FMod => TOp 54
  | Lexer.FDiv => TOp 55 | Lexer.FDuckIntDiv => TOp 56 | Lexer.FStringConcat => TOp 57
  | Lexer.FPipe => TOp 58 | Lexer.FCaret => TOp 59 | Lexer.FAmpersand => TOp 60
  | Lexer.FShiftLeft => TOp 61 | Lexer.FShiftRight => TOp 62 | Lexer.FSharp => TOp 63
  | Lexer.FOverlap => TOp 64 | Lexer.FCaretAt => TOp 65 | Lexer.FTilde => TOp 66
  | Lexer.FTildeAsterisk => TOp 67 | Lexer.FExclamationMarkTilde => TOp 68
  | Lexer.FExclamationMarkTildeAsterisk => TOp 69 | Lexer.FDoubleTilde => TOp 70
  | Lexer.FDoubleTildeAsterisk => TOp 71 | Lexer.FExclamationMarkDoubleTilde => TOp 72
  | Lexer.FExclamationMarkDoubleTildeAsterisk => TOp 73
  | Lexer.FArrow => TOp 74 | Lexer.FLongArrow => TOp 75 | Lexer.FHashArrow => TOp 76
  | Lexer.FHashLongArrow => TOp 77 | Lexer.FAtArrow => TOp 78 | Lexer.FArrowAt => TOp 79
  | Lexer.FHashMinus => TOp 80 | Lexer.FAtQuestion => TOp 81 | Lexer.FAtAt => TOp 82
  | Lexer.FQuestion => TOp 83 | Lexer.FQuestionAnd => TOp 84 | Lexer.FQuestionPipe => TOp 85
  | Lexer.FDoubleExclamationMark => TPre 87 | Lexer.FAtSign => TPre 88
  | Lexer.FPGSquareRoot => TPre 89 | Lexer.FPGCubeRoot => TPre 90
  | _ => TOther
  end.

Definition view_tok (t : Lexer.tok) : list tok :=
  match t with
  | Lexer.TWs _ => []
  | Lexer.TWord v q => [view_word v q]
  | Lexer.TStr Lexer.KSingle (115%N :: (_ :: _) as ds) =>
      [match undec 0 ds with Some n => TAtom true n | None => TOther end]
  | Lexer.TStr Lexer.KSingle (120%N :: (_ :: _) as ds) =>
      [match undec 0 ds with Some n => TAtom true (100000 + n) | None => TOther end]
  | Lexer.TCustom _ => [TOp 86]
  | Lexer.TFix f => [view_fix f]
  | _ => [TOther]
  end.

(** [Some tokens] if the printed text lexes, [None] on a lexer error *)
Definition lexview (ld : Lexer.dialect) (u : Lexer.uni) (s : str) : option (list tok) :=
  match Lexer.tokenize ld u true s with
  | Lexer.LexOk ts => Some (flat_map (fun tl => view_tok (fst tl)) ts)
  | _ => None
  end.

(** * Evaluation of one C01/C05 core case inside the kernel (lib/props/c01core.py).
    [e] is the implementation's tree (aligned with the input tokens), [text] what Display printed,
    [ptokens] what the crate's tokenizer made of that text.  Bits: 1 = [pp e <> text] (printer
    model vs Display); 2 = [ptoks e <> ptokens] (the printed text does not lex to the canonical
    yield: the glue statement fails on the implementation); 4 = the Lexer.v model applied to
    [pp e] disagrees with [ptoks e] (glue fails in the model); 8 = model re-parse of [ptoks e]
    is not [norm e] (token round trip); 16 = content of the input differs from the content of
    [ptoks e] (C05). *)
Definition eq_opt_toks (a : option (list tok)) (b : list tok) : bool :=
  match a with Some x => toks_eqb x b | None => false end.

Fixpoint ctoks_eqb (a b : list ctok) : bool :=
  match a, b with
  | [], [] => true
  | CWord n :: a', CWord m :: b' | CStr n :: a', CStr m :: b' => (n =? m)%N && ctoks_eqb a' b'
  | _, _ => false
  end.

Definition c01_case (d : dialect) (op_text : N -> str) (ld : Lexer.dialect) (u : Lexer.uni)
  (e : expr) (text : str) (ptokens : list tok) : N :=
  let s := pp op_text e in
  ((if str_eqb s text then 0 else 1) +
   (if toks_eqb (ptoks e) ptokens then 0 else 2) +
   (if eq_opt_toks (lexview ld u s) (ptoks e) then 0 else 4) +
   (match parse_expr d (ptoks e) with
    | Ok (e', []) => if expr_eqb e' (norm e) then 0 else 8
    | _ => 8
    end) +
   (if ctoks_eqb (content (yield e)) (content (ptoks e)) then 0 else 16))%N.

(** C05 variant: printer model vs Display (bit 1) and content of the printed tokens (bit 16) *)
Definition c05_case (op_text : N -> str) (e : expr) (text : str) : N :=
  ((if str_eqb (pp op_text e) text then 0 else 1) +
   (if ctoks_eqb (content (yield e)) (content (ptoks e)) then 0 else 16))%N.
