(** Layout gaps of the lexer model (property C07, lexer level): runs of blanks AND comments.

    A _layout gap_ is a string that the model lexes to whitespace/comment tokens only and that is
    _closed_: when its last token is a line comment, that comment contains its terminating LF
    (block comments are closed by construction: an unbalanced one is a lexical error of the model,
    following its nesting rule).  Results:

    - [next_ws_ext]: a whitespace/comment token is the same token whatever is appended to the
      input, provided it is closed when it reaches the end of the input (only exception: a CR at
      the very end merges with an appended LF);
    - [layout_gap_steps]: a layout gap lexes to the same whitespace tokens whatever follows it;
    - [tokenize_layout_gap]: after a prefix that lexes on its own and does not end in a line
      comment, a layout gap that starts with a blank can be replaced by any other layout gap that
      starts with a blank: the non-whitespace token sequence is unchanged;
    - [layout_gap_boundary]: the same for gaps with an arbitrary first character (in particular a
      comment opener directly after the last token of the prefix) under the explicit hypothesis
      that the prefix ends at a token boundary of both texts -- that hypothesis is exactly what
      fails in the refuted adjacency classes (LexerGapsInst.v); LexerGapsAdj.v derives it from a
      side condition on the last character of the prefix;
    - corollaries: comment gap -> single blank, blank gaps as a special case, and the replacement
      of EVERY gap of a text ([weave_gap_invariance]). *)
Require Import SqlV.Base SqlV.Lexer SqlV.LexerProofs SqlV.LexerTiling SqlV.LexerLookahead.
From Coq Require Import ZArith ZifyBool ZifyN ZifyNat Arith.
Local Open Scope N_scope.

(** * Closed whitespace tokens *)
Definition ends_lf (s : str) : bool := last s 0 =? cLF.
(** a line comment that ran into the end of the input is not closed *)
Definition closed_ws (t : tok) : bool :=
  match t with TWs (WLine _ cm) => ends_lf cm | _ => true end.

Lemma nolf_ends c : forallb (fun ch => negb (ch =? cLF)) c = true -> ends_lf c = false.
Proof.
  unfold ends_lf. induction c as [|x c IH]; [reflexivity|].
  cbn [forallb]. intros [Hx Hc]%andb_true_iff. destruct c as [|y c'].
  - cbn [last]. apply negb_true_iff in Hx. exact Hx.
  - change (last (x :: y :: c') 0) with (last (y :: c') 0). apply IH. exact Hc.
Qed.

(** * A whitespace token does not depend on what is appended to the input *)
Section Ext.
  Variable d : dialect.
  Variable u : uni.
  Variable unesc : bool.
  Variable X : str.
  Notation next := (next_token d u unesc).

  Lemma ml_loop_ext : forall c lst n s r,
    ml_loop lst n c = Some (s, r) -> ml_loop lst n (c ++ X) = Some (s, r ++ X).
  Proof.
    induction c as [|ch c IH]; intros lst n s r; cbn [app ml_loop]; [discriminate|].
    assert (Hrec : forall m,
      match ml_loop ch m c with Some (s0, r') => Some (ch :: s0, r') | None => None end = Some (s, r) ->
      match ml_loop ch m (c ++ X) with Some (s0, r') => Some (ch :: s0, r') | None => None end
        = Some (s, r ++ X)).
    { intro m. destruct (ml_loop ch m c) as [[s' r']|] eqn:E; [|discriminate].
      intros [= <- <-]. rewrite (IH _ _ _ _ E). reflexivity. }
    destruct ((lst =? cSLASH) && (ch =? cSTAR)); [apply Hrec|].
    destruct ((lst =? cSTAR) && (ch =? cSLASH)); [|apply Hrec].
    destruct (n - 1 =? 0); [|apply Hrec]. intros [= <- <-]. reflexivity.
  Qed.

  Lemma line_comment_ext c cm r : line_comment c = Ok (cm, r) -> (r = [] -> ends_lf cm = true) ->
    line_comment (c ++ X) = Ok (cm, r ++ X).
  Proof.
    unfold line_comment.
    destruct (tw_split (fun ch => negb (ch =? cLF)) c) as [(pre & x & c1 & Ec & Hx & Htw)|Htw].
    - pose proof (Htw []) as H0. rewrite !app_nil_r in H0. rewrite H0, (Htw X).
      destruct (x =? cLF); [|discriminate]. intros [= <- <-] _. reflexivity.
    - pose proof (Htw []) as H0. cbn [take_while fst snd] in H0. rewrite !app_nil_r in H0. rewrite H0.
      intros [= <- <-] Hcl. exfalso. specialize (Hcl eq_refl).
      apply take_while_all in H0. apply nolf_ends in H0. congruence.
  Qed.

  (** [EXT x y]: [x] is the result on an input [l], [y] the result on [l ++ X] *)
  Definition EXT (x y : res (option (tok * str))) : Prop :=
    forall w r, x = Ok (Some (TWs w, r)) -> (r = [] -> closed_ws (TWs w) = true) ->
      y = Ok (Some (TWs w, r ++ X)) \/
      (w = WNewline /\ r = [] /\ peek_is X cLF = true /\ y = Ok (Some (TWs WNewline, tl X))).

  (** results that are never a whitespace token *)
  Definition NW (x : res (option (tok * str))) : Prop := forall w r, x <> Ok (Some (TWs w, r)).
  Definition nwp (x : tok * str) : Prop := forall w, fst x <> TWs w.

  Lemma EXT_nw x y : NW x -> EXT x y.
  Proof. intros H w r E. exfalso. exact (H w r E). Qed.

  Lemma EXT_ret t l l' : l' = l ++ X -> EXT (ret t l) (ret t l').
  Proof. intros -> w r. unfold ret. intros [= -> <-] _. left. reflexivity. Qed.

  Lemma EXT_cr : EXT (ret (TWs WNewline) []) (ret (TWs WNewline) (if peek_is X cLF then tl X else X)).
  Proof.
    intros w r. unfold ret. intros [= <- <-] _. destruct (peek_is X cLF) eqn:E.
    - right. repeat split; reflexivity.
    - left. reflexivity.
  Qed.

  Lemma EXT_line p l l' : l' = l ++ X -> EXT (line_comment_tok p l) (line_comment_tok p l').
  Proof.
    intros -> w r. unfold line_comment_tok, lift, ret.
    destruct (line_comment l) as [[cm r0]|e a|k] eqn:E; try discriminate.
    intros [= <- <-] Hcl. left. cbn [closed_ws] in Hcl.
    rewrite (line_comment_ext _ _ _ E Hcl). reflexivity.
  Qed.

  Lemma EXT_ml l l' : l' = l ++ X ->
    EXT (lift (multiline_comment l) (fun x => retp x)) (lift (multiline_comment l') (fun x => retp x)).
  Proof.
    intros -> w r. unfold multiline_comment, lift, retp.
    destruct (ml_loop cSP 1 l) as [[s r0]|] eqn:E; [|discriminate].
    intros [= <- <-] _. left. rewrite (ml_loop_ext _ _ _ _ _ E). reflexivity.
  Qed.

  Ltac crush :=
    repeat match goal with |- context [match ?x with _ => _ end] => destruct x end;
    cbn [fst]; try discriminate.

  Lemma num_tail_nw s3 r3 b : nwp (num_tail d s3 r3 b).
  Proof.
    intro w. unfold num_tail. destruct (d_numeric_prefix d && negb b).
    - destruct (take_while (d_ident_part d) r3) as [w0 r4]. cbv beta iota zeta.
      destruct w0; cbv beta iota zeta; crush.
    - crush.
  Qed.
  Lemma number_nw l : nwp (number d l).
  Proof.
    intro w. unfold number.
    destruct (take_while is_digit l) as [s0 r0].
    destruct (num_hex_prefix s0 r0) as [rx|].
    { destruct (take_while is_hexdigit rx). cbn [fst]. discriminate. }
    destruct (num_period s0 r0) as [s1 r1]. destruct (take_while is_digit r1) as [s2d r2].
    cbv zeta. destruct (str_eqb (s1 ++ s2d) [cDOT]); [cbn [fst]; discriminate|].
    destruct (num_exponent (s1 ++ s2d) r2) as [[s3 r3] sw]. apply num_tail_nw.
  Qed.
  Lemma ident_nw chs l : nwp (ident_or_keyword d chs l).
  Proof. intro w. unfold ident_or_keyword, tokenize_word. crush. Qed.
  Lemma start_binop_nw p f l : nwp (start_binop d p f l).
  Proof. intro w. unfold start_binop. crush. Qed.
  Lemma consume_nw p f l : nwp (consume_for_binop d p f l).
  Proof. apply start_binop_nw. Qed.

  Lemma NW_retp x : nwp x -> NW (retp x).
  Proof. intros H w r. unfold retp. destruct x as [t r0]. intros [= E _]. exact (H w E). Qed.
  Lemma NW_ret t l : is_ws t = false -> NW (ret t l).
  Proof. intros H w r. unfold ret. intros [= -> _]. discriminate. Qed.
  Lemma NW_word ch l : NW (word_from d ch l).
  Proof. intros w r. unfold word_from, tokenize_word, ret. crush. Qed.
  Lemma NW_sq q bs k l :
    NW (lift (single_quoted unesc q bs l) (fun '(s, r') => ret (TStr k s) r')).
  Proof. intros w r. unfold lift, ret. destruct (single_quoted unesc q bs l) as [[s r']|e a|p]; discriminate. Qed.
  Lemma NW_sot q bs k1 k3 l :
    NW (lift (single_or_triple unesc q bs k1 k3 l) (fun x => retp x)).
  Proof.
    intros w r. unfold lift, retp.
    destruct (single_or_triple unesc q bs k1 k3 l) as [[t r0]|e a|k] eqn:E; try discriminate.
    intros [= -> _]. revert E. unfold single_or_triple.
    repeat match goal with |- context [match ?x with _ => _ end] => destruct x end;
      intro H; discriminate H.
  Qed.
  Lemma NW_esc n l a :
    NW (match esc_loop n l with
        | Some (s, r') => ret (TStr KEscaped s) r' | None => Err EUnterminatedEncoded a end).
  Proof. intros w r. unfold ret. crush. Qed.
  Lemma NW_uni n l :
    NW (lift (uni_loop n l) (fun '(s, r') => ret (TStr KUnicode s) r')).
  Proof. intros w r. unfold lift, ret. destruct (uni_loop n l) as [[s r']|e a|p]; discriminate. Qed.
  Lemma NW_delim ch l a :
    NW (match matching_end_quote ch with
        | None => Panic 1
        | Some qe => match quoted_ident unesc qe l with
                     | Some (s, r') => ret (TWord s (Some ch)) r'
                     | None => Err (EExpectedClose qe) a end
        end).
  Proof. intros w r. unfold ret. crush. Qed.
  Lemma NW_dollar l : NW (lift (dollar_value u l) (fun x => retp x)).
  Proof.
    intros w r. unfold lift, retp.
    destruct (dollar_value u l) as [[t r0]|e a|k] eqn:E; try discriminate.
    intros [= -> _]. revert E. unfold dollar_value.
    repeat match goal with |- context [match ?x with _ => _ end] => destruct x end;
      intro H; discriminate H.
  Qed.
  Lemma NW_qm l :
    NW (let '(s, r') := take_while (u_numeric u) l in ret (TPlaceholder (cQM :: s)) r').
  Proof. intros w r. unfold ret. crush. Qed.

  Ltac nw :=
    first
      [ apply NW_ret; reflexivity
      | apply NW_word | apply NW_sq | apply NW_sot | apply NW_esc | apply NW_uni
      | apply NW_delim | apply NW_dollar | apply NW_qm
      | apply NW_retp;
        first [apply number_nw | apply ident_nw | apply start_binop_nw | apply consume_nw] ].
  Ltac leaf :=
    first
      [ apply EXT_ret; reflexivity
      | apply EXT_line; reflexivity
      | apply EXT_ml; reflexivity
      | apply EXT_cr
      | apply EXT_nw; nw ].
  Ltac go :=
    first
      [ solve [leaf]
      | match goal with |- context [if ?b then _ else _] => destruct b eqn:?; go end ].

  (** the dispatcher: the only look past the end of the old input that matters is the
      Redshift-style probe (hypothesis) and the LF after a final CR (second disjunct of [EXT]) *)
  Theorem next_ws_ext ch c :
    d_delim_start d ch && proper_inside_quotes d u (ch :: c)
      = d_delim_start d ch && proper_inside_quotes d u (ch :: c ++ X) ->
    EXT (next (ch :: c)) (next (ch :: c ++ X)).
  Proof.
    intros Hp.
    destruct c as [|x [|y [|z c]]]; cbn [app] in *; unfold next_token; cbn [peek_is tl];
      rewrite <- ?Hp; go.
  Qed.
End Ext.

(** * Layout gaps *)
(** token lists of a gap: whitespace tokens only, the last one closed *)
Definition gap_toks (ts : list tok) : bool :=
  forallb is_ws ts && closed_ws (last ts (TWs WSpace)).

Lemma gap_toks_nows ts : gap_toks ts = true -> nows ts = [].
Proof.
  unfold gap_toks. intros [H _]%andb_true_iff. unfold nows.
  induction ts as [|t ts IH]; [reflexivity|]. cbn [forallb] in H. apply andb_true_iff in H as [Ht H].
  cbn [filter]. rewrite Ht. cbn [negb]. exact (IH H).
Qed.
Lemma gap_toks_tl t ts : gap_toks (t :: ts) = true -> gap_toks ts = true.
Proof.
  unfold gap_toks. intros [H Hc]%andb_true_iff. cbn [forallb] in H. apply andb_true_iff in H as [_ H].
  rewrite H. destruct ts as [|t2 ts2]; [reflexivity|]. exact Hc.
Qed.

(** decidable form of [ends_with_line] *)
Definition ends_with_lineb (ts : list tok) : bool :=
  match last ts (TWs WSpace) with TWs (WLine _ _) => true | _ => false end.
Lemma ends_with_lineb_spec ts : ends_with_lineb ts = false <-> ~ ends_with_line ts.
Proof.
  unfold ends_with_lineb, ends_with_line. split.
  - intros H (ts0 & p & cm & ->). rewrite last_last in H. discriminate.
  - intro H. destruct ts as [|t ts] using rev_ind; [reflexivity|]. rewrite last_last.
    destruct t as [| | | | |[]| | |]; try reflexivity. exfalso. apply H. eauto.
Qed.

Definition starts_blank (g : str) : Prop := match g with b :: _ => blank b | [] => False end.
Definition starts_blankb (g : str) : bool := match g with b :: _ => blankb b | [] => false end.
Lemma starts_blankb_spec g : starts_blankb g = true <-> starts_blank g.
Proof. destruct g as [|b g]; cbn [starts_blankb starts_blank]; [split; [discriminate|contradiction]|apply blankb_spec]. Qed.

(** blanks lex to Space/Tab/Newline tokens *)
Definition plainb (t : tok) : bool :=
  match t with TWs WSpace | TWs WTab | TWs WNewline => true | _ => false end.
Lemma last_forallb (p : tok -> bool) ts dflt : forallb p ts = true -> p dflt = true -> p (last ts dflt) = true.
Proof.
  induction ts as [|t ts IH]; [auto|]. cbn [forallb]. intros [Ht H]%andb_true_iff Hd.
  destruct ts as [|t2 ts2]; [exact Ht|]. exact (IH H Hd).
Qed.
Lemma plain_gap_toks ts : forallb plainb ts = true -> gap_toks ts = true.
Proof.
  intro H. unfold gap_toks. apply andb_true_iff. split.
  - rewrite forallb_forall in *. intros t Ht. specialize (H t Ht). destruct t; try discriminate. reflexivity.
  - pose proof (last_forallb plainb ts (TWs WSpace) H eq_refl) as Hl.
    destruct (last ts (TWs WSpace)) as [| | | | |[]| | |]; try discriminate; reflexivity.
Qed.

Section Gaps.
  Variable d : dialect.
  Variable u : uni.
  Variable unesc : bool.
  Notation next := (next_token d u unesc).
  Notation Steps := (Steps d u unesc).
  Notation Run := (Run d u unesc).

  (** [layout_gap0]: possibly empty; [layout_gap]: non-empty *)
  Definition layout_gap0 (g : str) : Prop :=
    probe_freeb d u g = true /\ exists tsg, Run g tsg /\ gap_toks tsg = true.
  Definition layout_gap (g : str) : Prop := g <> [] /\ layout_gap0 g.
  Definition layout_gap0b (g : str) : bool :=
    probe_freeb d u g &&
    match tokenize d u unesc g with LexOk ts => gap_toks (map fst ts) | _ => false end.
  Definition layout_gapb (g : str) : bool :=
    match g with [] => false | _ => layout_gap0b g end.

  Lemma layout_gap0b_spec g : layout_gap0b g = true <-> layout_gap0 g.
  Proof.
    unfold layout_gap0b, layout_gap0. split.
    - intros [Hp H]%andb_true_iff. split; [exact Hp|].
      destruct (tokenize d u unesc g) as [ts|e a b|k] eqn:E; try discriminate.
      exists (map fst ts). split; [apply tokenize_Run; exact E|exact H].
    - intros (Hp & tsg & HR & Hg). rewrite Hp. cbn [andb].
      destruct (Run_tokenize _ _ _ _ _ HR) as (ts & -> & ->). exact Hg.
  Qed.
  Lemma layout_gapb_spec g : layout_gapb g = true <-> layout_gap g.
  Proof.
    unfold layout_gapb, layout_gap. destruct g as [|x g].
    - split; [discriminate|]. intros [H _]. congruence.
    - rewrite layout_gap0b_spec. split; [intro H; split; [discriminate|exact H]|intros [_ H]; exact H].
  Qed.

  Lemma Steps_nil_inv ts e : Steps [] ts e -> ts = [] /\ e = [].
  Proof.
    intro HS. inversion HS as [l0 E0 E1 E2|l0 t0 r ts0 e0 Hn HS1]; subst; [auto|].
    cbn in Hn. discriminate.
  Qed.

  (** ** A gap lexes to the same tokens whatever follows it (CR LF: [X = LF :: e]) *)
  Lemma layout_gap_steps : forall tsg g,
    Steps g tsg [] -> probe_freeb d u g = true -> gap_toks tsg = true ->
    forall X, exists e, Steps (g ++ X) tsg e /\ (e = X \/ X = cLF :: e).
  Proof.
    induction tsg as [|t ts IH]; intros g HS Hpf Hg X.
    - inversion HS as [l0 E0 E1 E2|]; subst. exists X. split; [constructor|auto].
    - inversion HS as [|l0 t0 r ts0 e0 Hn HS1]; subst.
      destruct g as [|ch c]; [cbn in Hn; discriminate|].
      pose proof Hg as Hg0. unfold gap_toks in Hg0. apply andb_true_iff in Hg0 as [Hall Hcl].
      cbn [forallb] in Hall. apply andb_true_iff in Hall as [Ht Hall].
      assert (Hw : exists w, t = TWs w) by (destruct t; try discriminate Ht; eauto).
      destruct Hw as [w ->].
      pose proof (probe_eq d u ch c [] X (probe_freeb_head d u _ Hpf)) as Hq. rewrite app_nil_r in Hq.
      pose proof (next_token_spec d u unesc (ch :: c)) as Hs. rewrite Hn in Hs. cbn in Hs.
      destruct Hs as (c1 & Hc1 & Ec1).
      destruct (next_ws_ext d u unesc X ch c Hq w r Hn) as [Hn' | (-> & -> & Hpk & Hn')].
      { intros ->. apply Steps_nil_inv in HS1 as [-> _]. exact Hcl. }
      + assert (Hpfr : probe_freeb d u r = true).
        { rewrite Ec1 in Hpf. exact (probe_freeb_app d u c1 r Hpf). }
        destruct (IH r HS1 Hpfr (gap_toks_tl _ _ Hg) X) as (e & HS' & He).
        exists e. split; [|exact He]. econstructor; [|exact HS']. exact Hn'.
      + apply Steps_nil_inv in HS1 as [-> _]. exists (tl X). split.
        * econstructor; [exact Hn'|constructor].
        * right. destruct X as [|x X']; [discriminate Hpk|]. cbn [peek_is] in Hpk.
          apply N.eqb_eq in Hpk. subst x. reflexivity.
  Qed.

  Lemma gap_prefix_fwd g rest ts : layout_gap0 g -> Run (g ++ rest) ts ->
    exists ts', Run rest ts' /\ nows ts' = nows ts.
  Proof.
    intros (Hpf & tsg & HR & Hg) HRun.
    destruct (layout_gap_steps tsg g HR Hpf Hg rest) as (e & HS & He).
    destruct (Steps_split _ _ _ _ _ _ HS _ HRun) as (ts2 & -> & H2).
    destruct (bridge d u unesc rest e He) as (tsb & HSb & Hnb).
    exists (tsb ++ ts2). split; [exact (Steps_app _ _ _ _ _ _ _ _ HSb H2)|].
    rewrite !nows_app, (gap_toks_nows _ Hg), Hnb. reflexivity.
  Qed.
  Lemma gap_prefix_bwd g rest ts' : layout_gap0 g -> Run rest ts' ->
    exists ts, Run (g ++ rest) ts /\ nows ts = nows ts'.
  Proof.
    intros (Hpf & tsg & HR & Hg) HRun.
    destruct (layout_gap_steps tsg g HR Hpf Hg rest) as (e & HS & He).
    destruct (bridge d u unesc rest e He) as (tsb & HSb & Hnb).
    destruct (Steps_split _ _ _ _ _ _ HSb _ HRun) as (ts2 & -> & H2).
    exists (tsg ++ ts2). split; [exact (Steps_app _ _ _ _ _ _ _ _ HS H2)|].
    rewrite !nows_app, (gap_toks_nows _ Hg), Hnb. reflexivity.
  Qed.

  (** ** Boundary form: any first character of the gaps, the adjacency is a hypothesis *)
  Theorem layout_gap_boundary a g g' rest tsa tsa' ts :
    layout_gap0 g -> layout_gap0 g' ->
    Steps (a ++ g ++ rest) tsa (g ++ rest) ->
    Steps (a ++ g' ++ rest) tsa' (g' ++ rest) -> nows tsa' = nows tsa ->
    Run (a ++ g ++ rest) ts ->
    exists ts', Run (a ++ g' ++ rest) ts' /\ nows ts' = nows ts.
  Proof.
    intros Hg Hg' HS HS' Hn HR.
    destruct (Steps_split _ _ _ _ _ _ HS _ HR) as (ts2 & -> & H2).
    destruct (gap_prefix_fwd _ _ _ Hg H2) as (ts3 & H3 & Hn3).
    destruct (gap_prefix_bwd _ _ _ Hg' H3) as (ts4 & H4 & Hn4).
    exists (tsa' ++ ts4). split; [exact (Steps_app _ _ _ _ _ _ _ _ HS' H4)|].
    rewrite !nows_app. congruence.
  Qed.

  Hypothesis HN : blank_neutral d u.

  Lemma gap0_drop_lf g1 : layout_gap0 (cLF :: g1) -> layout_gap0 g1.
  Proof.
    intros (Hpf & tsg & HR & Hg). split; [exact (probe_freeb_app d u [cLF] g1 Hpf)|].
    unfold LexerLookahead.Run in HR. inversion HR as [|l0 t0 r ts0 e0 Hn HS1]; subst.
    assert (Hn2 : next (cLF :: g1) = Ok (Some (TWs WNewline, g1))) by reflexivity.
    rewrite Hn2 in Hn. injection Hn as <- <-.
    exists ts0. split; [exact HS1|exact (gap_toks_tl _ _ Hg)].
  Qed.

  (** the prefix [a], lexed in front of a gap that starts with a blank, stops at the gap (or
      one LF into it, when [a] ends with CR) with the same non-whitespace tokens *)
  Lemma prefix_then_gap a g rest tsa :
    starts_blank g -> layout_gap0 g -> probe_freeb d u a = true ->
    ~ ends_with_line tsa -> Run a tsa ->
    exists tsa' g1, Steps (a ++ g ++ rest) tsa' (g1 ++ rest) /\ nows tsa' = nows tsa /\ layout_gap0 g1.
  Proof.
    intros Hsb Hg Hpf Hl Ha.
    assert (HT' : btail (g ++ rest)). { destruct g as [|b g0]; [contradiction|]. exact Hsb. }
    destruct (steps_transport d u unesc HN [] (g ++ rest) I HT' tsa a Hpf) as (tsa' & e' & HS' & Hna & He).
    { intros _ _. exact Hl. }
    { rewrite app_nil_r. exact Ha. }
    destruct He as [-> | (Hpk & ->)].
    - exists tsa', g. split; [exact HS'|split; [exact Hna|exact Hg]].
    - destruct g as [|b g0]; [contradiction|]. cbn [app peek_is tl] in *. apply N.eqb_eq in Hpk. subst b.
      exists tsa', g0. split; [exact HS'|split; [exact Hna|apply gap0_drop_lf; exact Hg]].
  Qed.

  (** ** Main theorems: gaps that start with a blank *)
  (** the tokens of [a ++ g ++ rest] are those of [a], then those of [rest] *)
  Theorem layout_gap_tokens a g rest tsa tsr :
    starts_blank g -> layout_gap0 g -> probe_freeb d u a = true -> ~ ends_with_line tsa ->
    Run a tsa -> Run rest tsr ->
    exists ts, Run (a ++ g ++ rest) ts /\ nows ts = nows tsa ++ nows tsr.
  Proof.
    intros Hsb Hg Hpf Hl Ha Hr.
    destruct (prefix_then_gap a g rest tsa Hsb Hg Hpf Hl Ha) as (tsa' & g1 & HS & Hn & Hg1).
    destruct (gap_prefix_bwd g1 rest tsr Hg1 Hr) as (ts4 & H4 & Hn4).
    exists (tsa' ++ ts4). split; [exact (Steps_app _ _ _ _ _ _ _ _ HS H4)|].
    rewrite !nows_app. congruence.
  Qed.

  Theorem layout_gap_tokens_inv a g rest tsa ts :
    starts_blank g -> layout_gap0 g -> probe_freeb d u a = true -> ~ ends_with_line tsa ->
    Run a tsa -> Run (a ++ g ++ rest) ts ->
    exists tsr, Run rest tsr /\ nows ts = nows tsa ++ nows tsr.
  Proof.
    intros Hsb Hg Hpf Hl Ha HR.
    destruct (prefix_then_gap a g rest tsa Hsb Hg Hpf Hl Ha) as (tsa' & g1 & HS & Hn & Hg1).
    destruct (Steps_split _ _ _ _ _ _ HS _ HR) as (ts2 & -> & H2).
    destruct (gap_prefix_fwd g1 rest ts2 Hg1 H2) as (tsr & Hr & Hnr).
    exists tsr. split; [exact Hr|]. rewrite nows_app. congruence.
  Qed.

  Theorem run_layout_gap a g g' rest tsa ts :
    starts_blank g -> starts_blank g' -> layout_gap0 g -> layout_gap0 g' ->
    probe_freeb d u a = true -> Run a tsa -> ~ ends_with_line tsa ->
    Run (a ++ g ++ rest) ts ->
    exists ts', Run (a ++ g' ++ rest) ts' /\ nows ts' = nows ts.
  Proof.
    intros Hsb Hsb' Hg Hg' Hpf Ha Hl HR.
    destruct (layout_gap_tokens_inv a g rest tsa ts Hsb Hg Hpf Hl Ha HR) as (tsr & Hr & En).
    destruct (layout_gap_tokens a g' rest tsa tsr Hsb' Hg' Hpf Hl Ha Hr) as (ts' & HR' & En').
    exists ts'. split; [exact HR'|]. congruence.
  Qed.

  Theorem tokenize_layout_gap a g g' rest tsa ts :
    starts_blank g -> starts_blank g' -> layout_gap g -> layout_gap g' ->
    probe_freeb d u a = true ->
    tokenize d u unesc a = LexOk tsa -> ~ ends_with_line (map fst tsa) ->
    tokenize d u unesc (a ++ g ++ rest) = LexOk ts ->
    exists ts', tokenize d u unesc (a ++ g' ++ rest) = LexOk ts' /\
                nows (map fst ts') = nows (map fst ts).
  Proof.
    intros Hsb Hsb' [_ Hg] [_ Hg'] Hpf Ha Hl Htk. apply tokenize_Run in Ha, Htk.
    destruct (run_layout_gap a g g' rest _ _ Hsb Hsb' Hg Hg' Hpf Ha Hl Htk) as (ts1 & HR & Hn).
    destruct (Run_tokenize _ _ _ _ _ HR) as (ts' & Ht & Hm). exists ts'. split; [exact Ht|]. congruence.
  Qed.

  (** ** Blank gaps are layout gaps ([tokenize_blank_gap] is the special case) *)
  Lemma blanks_probe_free w : blanks w -> probe_freeb d u w = true.
  Proof.
    induction w as [|b w IH]; [reflexivity|]. intro Hw. inversion Hw as [|? ? Hb Hw']; subst.
    cbn [probe_freeb]. rewrite (IH Hw'), andb_true_r. unfold probe.
    destruct (d_piq d); [reflexivity|]. destruct (HN b Hb) as (_ & _ & _ & -> & _). reflexivity.
  Qed.

  Lemma blanks_run : forall w, blanks w -> exists ts, Run w ts /\ forallb plainb ts = true.
  Proof.
    induction w as [w IH] using len_ind. intros Hw. destruct w as [|b w].
    - exists []. split; [constructor|reflexivity].
    - inversion Hw as [|? ? Hb Hw']; subst.
      assert (Hstep : exists k r', next (b :: w) = Ok (Some (TWs k, r')) /\ plainb (TWs k) = true /\
                                   blanks r' /\ (length r' <= length w)%nat).
      { destruct Hb as [-> | [-> | [-> | ->]]].
        - exists WSpace, w. repeat split; auto.
        - exists WTab, w. repeat split; auto.
        - exists WNewline, w. repeat split; auto.
        - exists WNewline, (if peek_is w cLF then tl w else w).
          split; [reflexivity|]. split; [reflexivity|].
          destruct w as [|x w1]; [cbn [peek_is]; auto|]. cbn [peek_is tl]. destruct (x =? cLF).
          + inversion Hw'; subst. split; [assumption|cbn [length]; lia].
          + auto. }
      destruct Hstep as (k & r' & Hn & Hk & Hr' & Hlen).
      destruct (IH r' ltac:(cbn [length]; lia) Hr') as (ts & HR & Hts).
      exists (TWs k :: ts). split; [econstructor; eauto|]. cbn [forallb]. rewrite Hk, Hts. reflexivity.
  Qed.

  Lemma blanks_layout_gap0 w : blanks w -> layout_gap0 w.
  Proof.
    intro Hw. split; [apply blanks_probe_free; exact Hw|].
    destruct (blanks_run w Hw) as (ts & HR & Hts). exists ts. split; [exact HR|apply plain_gap_toks; exact Hts].
  Qed.
  Lemma blanks_starts_blank w : blanks w -> w <> [] -> starts_blank w.
  Proof. destruct w as [|b w]; [congruence|]. intros Hw _. inversion Hw; subst. assumption. Qed.

  (** converse direction: a comment gap can be replaced by a single blank (and vice versa) *)
  Corollary layout_gap_to_blank a g b rest tsa ts :
    starts_blank g -> layout_gap g -> blank b -> probe_freeb d u a = true ->
    tokenize d u unesc a = LexOk tsa -> ~ ends_with_line (map fst tsa) ->
    tokenize d u unesc (a ++ g ++ rest) = LexOk ts ->
    exists ts', tokenize d u unesc (a ++ b :: rest) = LexOk ts' /\
                nows (map fst ts') = nows (map fst ts).
  Proof.
    intros Hsb Hg Hb Hpf Ha Hl Htk.
    assert (Hw : blanks [b]) by (constructor; [exact Hb|constructor]).
    apply (tokenize_layout_gap a g [b] rest tsa ts Hsb Hb Hg); auto.
    split; [discriminate|apply blanks_layout_gap0; exact Hw].
  Qed.
  Corollary blank_to_layout_gap a g b rest tsa ts :
    starts_blank g -> layout_gap g -> blank b -> probe_freeb d u a = true ->
    tokenize d u unesc a = LexOk tsa -> ~ ends_with_line (map fst tsa) ->
    tokenize d u unesc (a ++ b :: rest) = LexOk ts ->
    exists ts', tokenize d u unesc (a ++ g ++ rest) = LexOk ts' /\
                nows (map fst ts') = nows (map fst ts).
  Proof.
    intros Hsb Hg Hb Hpf Ha Hl Htk.
    assert (Hw : blanks [b]) by (constructor; [exact Hb|constructor]).
    apply (tokenize_layout_gap a [b] g rest tsa ts Hb Hsb); auto.
    split; [discriminate|apply blanks_layout_gap0; exact Hw].
  Qed.

  (** ** Every gap of a text *)
  (** [weave [(a1,g1); ..; (an,gn)] fin = a1 ++ g1 ++ .. ++ an ++ gn ++ fin] *)
  Fixpoint weave (segs : list (str * str)) (fin : str) : str :=
    match segs with [] => fin | s :: segs' => fst s ++ snd s ++ weave segs' fin end.
  Definition seg_ok (a : str) : Prop :=
    probe_freeb d u a = true /\ exists tsa, Run a tsa /\ ~ ends_with_line tsa.
  Definition gap_ok (g : str) : Prop := starts_blank g /\ layout_gap0 g.
  (** same segment, two admissible gaps *)
  Definition seg_rel (s s' : str * str) : Prop :=
    fst s' = fst s /\ seg_ok (fst s) /\ gap_ok (snd s) /\ gap_ok (snd s').

  Theorem weave_gap_invariance segs segs' fin :
    Forall2 seg_rel segs segs' -> forall ts, Run (weave segs fin) ts ->
    exists ts', Run (weave segs' fin) ts' /\ nows ts' = nows ts.
  Proof.
    induction 1 as [|[a g] [a' g'] s s' Hrel _ IH]; intros ts HR.
    - exists ts. auto.
    - destruct Hrel as (Ea & (Hpf & tsa & Ha & Hl) & (Hsb & Hg) & (Hsb' & Hg')).
      cbn [fst snd] in *. subst a'. cbn [weave fst snd] in *.
      destruct (layout_gap_tokens_inv a g _ tsa ts Hsb Hg Hpf Hl Ha HR) as (tsr & Hr & En).
      destruct (IH _ Hr) as (tsr' & Hr' & En').
      destruct (layout_gap_tokens a g' _ tsa tsr' Hsb' Hg' Hpf Hl Ha Hr') as (ts' & HR' & En2).
      exists ts'. split; [exact HR'|]. congruence.
  Qed.

  Theorem tokenize_weave_gaps segs segs' fin ts :
    Forall2 seg_rel segs segs' -> tokenize d u unesc (weave segs fin) = LexOk ts ->
    exists ts', tokenize d u unesc (weave segs' fin) = LexOk ts' /\
                nows (map fst ts') = nows (map fst ts).
  Proof.
    intros Hrel Htk. apply tokenize_Run in Htk.
    destruct (weave_gap_invariance segs segs' fin Hrel _ Htk) as (ts1 & HR & Hn).
    destruct (Run_tokenize _ _ _ _ _ HR) as (ts' & Ht & Hm). exists ts'. split; [exact Ht|]. congruence.
  Qed.
End Gaps.

Print Assumptions next_ws_ext.
Print Assumptions layout_gap_steps.
Print Assumptions layout_gap_boundary.
Print Assumptions tokenize_layout_gap.
Print Assumptions layout_gap_to_blank.
Print Assumptions blank_to_layout_gap.
Print Assumptions tokenize_weave_gaps.
