(** C01 — the query core: an executable token-level model of the SELECT / query skeleton of
    sqlparser-rs:
      printer  [qtoks]       = the tokens [impl Display for Query / With / Cte / SetExpr / Select /
                               SelectItem / TableWithJoins / Join / TableFactor / TableAlias / Values /
                               Table / OrderByExpr / Offset] (src/ast/query.rs) and, for subqueries,
                               [Expr::Subquery / InSubquery / Exists] print for the fragment (canonical
                               keyword spelling: [AS] before every alias, NATURAL in front of the join
                               keywords, no INNER, no OUTER, [USING(..)]);
      parser   [parse_query] = [Parser::parse_query] with its WITH branch and [parse_cte],
                               [parse_query_body] (SELECT, a parenthesised query, VALUES, TABLE) /
                               [parse_remaining_set_exprs], [parse_select], [parse_projection] /
                               [parse_select_item], [parse_table_and_joins] (the join loop: [INNER] JOIN,
                               LEFT / RIGHT / FULL [OUTER] JOIN, CROSS JOIN, NATURAL,
                               [parse_join_constraint]: ON / USING / none), [parse_table_factor] (tables,
                               derived tables, nested joins: maybe_parse(derived table) and the fallback to
                               a parenthesised join), [parse_optional_alias] with the
                               RESERVED_FOR_COLUMN_ALIAS / RESERVED_FOR_TABLE_ALIAS rule,
                               [parse_parenthesized_column_list], [parse_comma_separated],
                               [parse_optional_group_by], [parse_optional_order_by], the LIMIT / OFFSET
                               loop, [parse_values], [parse_as_table] (src/parser/mod.rs).
    Expressions are the operator core of Pratt.v, parsed by [Pratt.parse_expr] (binding power
    [prec_unknown]) on a view of the token stream ([fold]) in which every subquery - [( query )] in
    operand position (Expr::Subquery; [try_parse_expr_sub_query]), after IN ([parse_in]: InSubquery), after
    ANY / ALL / SOME, [EXISTS ( query )] and [NOT EXISTS ( query )] ([parse_exists_expr], [parse_not]) - has
    been read by [parse_query] one level down and replaced by an atom; the tree of an expression is the
    operator-core tree over these atoms plus the list of its subqueries ([xexpr]).
    Everything dialect specific is a field of [qdialect], regenerated from the running crate
    (coq/gen/QueryTables.v).  Anything outside the fragment makes the model return [OutOfFragment]
    (never a guess).  Model only; the theorems are in QueryCoreProofs.v. *)
From SqlV Require Import Base PrecSpec Pratt SetOps PrinterCore.

(** * Tokens: the expression alphabet of PrecSpec plus the query keywords *)
Inductive qkw :=
  KSelect | KWhere | KGroup | KBy | KHaving | KOrder | KAsc | KDesc | KLimit | KOffset | KAs
| KUnion | KExcept | KIntersect
| KJoin | KInner | KLeft | KRight | KFull | KOuter | KCross | KNatural | KOn | KUsing
| KWith | KRecursive | KExists | KValues | KTable.

Inductive qtok :=
| QE (t : tok)      (* a token of the expression alphabet: identifiers / numbers / strings, operators
                       (the wildcard [*] is [TOp K_Mul]), [( ) ,], and the keywords FROM DISTINCT ALL NOT ... *)
| QK (k : qkw)      (* a query keyword *)
| QSemi             (* [;] *)
| QOther.           (* anything else *)

Definition K_Mul := 53.
(** atoms [TAtom false n] with [n >= NUM_BASE] are numeric literals (not words) *)
Definition NUM_BASE := 5000.

Scheme Equality for qkw.

Definition qtok_eqb (a b : qtok) : bool :=
  match a, b with
  | QE x, QE y => tok_eqb x y
  | QK x, QK y => qkw_beq x y
  | QSemi, QSemi | QOther, QOther => true
  | _, _ => false
  end.

Definition mem (w : qtok) (l : list qtok) : bool := existsb (qtok_eqb w) l.

(** [Token::Word] with no quotes: identifiers and every keyword of the two alphabets *)
Definition is_word (t : qtok) : bool :=
  match t with
  | QE (TAtom false n) => n <? NUM_BASE
  | QE (TKw _) | QE (TType _) | QK _ => true
  | QE (TOp k) => is_word_op k
  | _ => false
  end.

(** atoms [TAtom false n] with [n >= SQ_BASE] are not tokens: inside an expression tree they stand for
    the subqueries of the expression, numbered from the left: [SQ_BASE + i] (inside parentheses) for
    the i-th [query], [EX_BASE + i] for [EXISTS (query)], [NEX_BASE + i] for [NOT EXISTS (query)] *)
Definition SQ_BASE := 1000000.
Definition EX_BASE := 2000000.
Definition NEX_BASE := 3000000.

(** * Trees *)
(** [JoinOperator]: Inner | LeftOuter | RightOuter | FullOuter with a [JoinConstraint], CrossJoin without *)
Inductive jkind := JInner | JLeft | JRight | JFull.

Inductive setexpr :=
| BSelect (distinct : bool) (items : list item) (from : list twj) (selection : option xexpr)
          (group_by : list xexpr) (having : option xexpr)
| BSetOp (o : setop) (q : squant) (l r : setexpr)
| BNested (q : query)
| BValues (rows : list vrow)                          (* SetExpr::Values without ROW *)
| BTable (name : qtok)                                (* SetExpr::Table: TABLE name *)
with vrow := VRow (l : list xexpr)
with query :=
| Query (w : option withc) (body : setexpr) (order_by : list oelem) (limit offset : option xexpr)
with tref :=                                          (* TableFactor *)
| TTable (name : qtok) (alias : option qtok)
| TDerived (q : query) (alias : option qtok)
| TNested (t : twj) (alias : option qtok)             (* NestedJoin *)
with twj := Twj (rel : tref) (joins : list join)      (* TableWithJoins *)
with join := Join (op : jop) (rel : tref)
with jop := JCross | JOp (k : jkind) (c : jcons)
with jcons := JOn (x : xexpr) | JUsing (cols : list qtok) | JNatural | JNone
with withc := With (recursive : bool) (ctes : list cte)
with cte := Cte (name : qtok) (cols : list qtok) (q : query)
with item :=
| IWild                                  (* SelectItem::Wildcard without options *)
| IExpr (x : xexpr)                      (* SelectItem::UnnamedExpr *)
| IAlias (x : xexpr) (a : qtok)          (* SelectItem::ExprWithAlias; the alias is its word token *)
with oelem := OElem (x : xexpr) (asc : option bool)   (* OrderByExpr *)
(** an expression of the operator core whose subquery atoms stand for [subs]:
    [( SQ_BASE+i )] = Expr::Subquery, [IN ( SQ_BASE+i )] = Expr::InSubquery, [EX_BASE+i] / [NEX_BASE+i]
    = Expr::Exists *)
with xexpr := X (e : expr) (subs : list query).

Definition body (q : query) : setexpr := match q with Query _ b _ _ _ => b end.

(** * Printer (token level) *)
Definition qe (ts : list tok) : list qtok := map QE ts.

(** [display_comma_separated] *)
Fixpoint sepc (ls : list (list qtok)) : list qtok :=
  match ls with
  | [] => []
  | [x] => x
  | x :: r => x ++ QE TComma :: sepc r
  end.

Definition alias_toks (a : option qtok) : list qtok :=
  match a with Some w => [QK KAs; w] | None => [] end.

(** the printed tokens of an expression; [st]: the printed tokens of its subqueries, in order *)
Definition wrap (n : N) (s : list qtok) : list qtok :=
  if n <? EX_BASE then s
  else if n <? NEX_BASE then QK KExists :: QE TLParen :: s ++ [QE TRParen]
  else QE (TKw KNot) :: QK KExists :: QE TLParen :: s ++ [QE TRParen].
Fixpoint unfoldl (st : list (list qtok)) (ts : list tok) : list qtok :=
  match ts with
  | [] => []
  | TAtom false n :: r =>
      if n <? SQ_BASE then QE (TAtom false n) :: unfoldl st r
      else match st with
           | s :: st' => wrap n s ++ unfoldl st' r
           | [] => QE (TAtom false n) :: unfoldl st r
           end
  | t :: r => QE t :: unfoldl st r
  end.

Definition asc_toks (a : option bool) : list qtok :=
  match a with Some true => [QK KAsc] | Some false => [QK KDesc] | None => [] end.
Definition dist_toks (b : bool) : list qtok := if b then [QE (TKw KDistinct)] else [].

Definition setop_kw (o : setop) : qtok :=
  QK (match o with Union => KUnion | Except => KExcept | Intersect => KIntersect end).
Definition quant_toks (q : squant) : list qtok :=
  match q with QNone => [] | QAll => [QE (TKw KAll)] | QDistinct => [QE (TKw KDistinct)] end.

Definition from_toks (l : list (list qtok)) : list qtok :=
  match l with [] => [] | _ => QE (TKw KFrom) :: sepc l end.
Definition order_toks (l : list (list qtok)) : list qtok :=
  match l with [] => [] | _ => QK KOrder :: QK KBy :: sepc l end.
Definition group_toks (l : list (list qtok)) : list qtok :=
  match l with [] => [] | _ => QK KGroup :: QK KBy :: sepc l end.
Definition clause_toks (k : qtok) (x : option (list qtok)) : list qtok :=
  match x with Some ts => k :: ts | None => [] end.

(** a parenthesised column list [(a, b)] *)
Definition cols_toks (cols : list qtok) : list qtok :=
  QE TLParen :: sepc (map (fun c => [c]) cols) ++ [QE TRParen].

(** [impl Display for Join]: NATURAL is written in front of the join keywords; OUTER and INNER are
    never written; [USING(..)] *)
Definition jkind_toks (k : jkind) : list qtok :=
  match k with
  | JInner => [QK KJoin]
  | JLeft => [QK KLeft; QK KJoin]
  | JRight => [QK KRight; QK KJoin]
  | JFull => [QK KFull; QK KJoin]
  end.
Definition jop_pre (o : jop) : list qtok :=
  match o with
  | JCross => [QK KCross; QK KJoin]
  | JOp k JNatural => QK KNatural :: jkind_toks k
  | JOp k _ => jkind_toks k
  end.
Definition rec_toks (b : bool) : list qtok := if b then [QK KRecursive] else [].
(** [TableAlias]: [name (a, b)], the column list only when there is one *)
Definition ccols_toks (cols : list qtok) : list qtok :=
  match cols with [] => [] | _ => cols_toks cols end.

Fixpoint btoks (b : setexpr) : list qtok :=
  match b with
  | BSelect dist items from wh gb hv =>
      QK KSelect :: dist_toks dist ++ sepc (map item_toks items) ++
      from_toks (map twj_toks from) ++
      clause_toks (QK KWhere) (option_map xtoks wh) ++ group_toks (map xtoks gb) ++
      clause_toks (QK KHaving) (option_map xtoks hv)
  | BSetOp o q l r => btoks l ++ setop_kw o :: quant_toks q ++ btoks r
  | BNested q => QE TLParen :: qtoks q ++ [QE TRParen]
  | BValues rows => QK KValues :: sepc (map vrow_toks rows)
  | BTable n => [QK KTable; n]
  end
with vrow_toks (r : vrow) : list qtok :=
  match r with VRow l => QE TLParen :: sepc (map xtoks l) ++ [QE TRParen] end
with qtoks (q : query) : list qtok :=
  match q with
  | Query w b ob lim off =>
      match w with Some x => with_toks x | None => [] end ++
      btoks b ++ order_toks (map oelem_toks ob) ++ clause_toks (QK KLimit) (option_map xtoks lim) ++
      clause_toks (QK KOffset) (option_map xtoks off)
  end
with tref_toks (t : tref) : list qtok :=
  match t with
  | TTable n a => n :: alias_toks a
  | TDerived q a => QE TLParen :: qtoks q ++ QE TRParen :: alias_toks a
  | TNested t' a => QE TLParen :: twj_toks t' ++ QE TRParen :: alias_toks a
  end
with twj_toks (t : twj) : list qtok :=
  match t with Twj r js => tref_toks r ++ concat (map join_toks js) end
with join_toks (j : join) : list qtok :=
  match j with Join o r => jop_pre o ++ tref_toks r ++ jop_suf o end
with jop_suf (o : jop) : list qtok :=
  match o with
  | JCross => []
  | JOp _ c => jcons_toks c
  end
with jcons_toks (c : jcons) : list qtok :=
  match c with
  | JOn x => QK KOn :: xtoks x
  | JUsing cols => QK KUsing :: cols_toks cols
  | _ => []
  end
with with_toks (w : withc) : list qtok :=
  match w with With rc ctes => QK KWith :: rec_toks rc ++ sepc (map cte_toks ctes) end
with cte_toks (c : cte) : list qtok :=
  match c with
  | Cte n cols q => n :: ccols_toks cols ++ QK KAs :: QE TLParen :: qtoks q ++ [QE TRParen]
  end
with item_toks (i : item) : list qtok :=
  match i with
  | IWild => [QE (TOp K_Mul)]
  | IExpr x => xtoks x
  | IAlias x w => xtoks x ++ [QK KAs; w]
  end
with oelem_toks (o : oelem) : list qtok :=
  match o with OElem x a => xtoks x ++ asc_toks a end
with xtoks (x : xexpr) : list qtok :=
  match x with X e subs => unfoldl (map qtoks subs) (ptoks e) end.

Definition wtoks (w : option withc) : list qtok :=
  match w with Some x => with_toks x | None => [] end.
Definition otoks (x : option xexpr) : option (list qtok) := option_map xtoks x.

(** * Nesting level = the fuel [parse_query] needs: derived tables, parenthesised operands, right
    operands of set operators, nested joins, common table expressions, subqueries of expressions *)
Definition maxl (l : list nat) : nat := fold_right Nat.max O l.
Definition olevel {A} (f : A -> nat) (x : option A) : nat := match x with Some a => f a | None => O end.

Fixpoint blevel (b : setexpr) : nat :=
  match b with
  | BSelect _ items from wh gb hv =>
      S (Nat.max (maxl (map ilevel items))
        (Nat.max (maxl (map twjlevel from))
        (Nat.max (match wh with Some x => xlevel x | None => O end)
        (Nat.max (maxl (map xlevel gb)) (match hv with Some x => xlevel x | None => O end)))))
  | BSetOp _ _ l r => Nat.max (blevel l) (S (blevel r))
  | BNested q => S (qlevel q)
  | BValues rows => S (maxl (map vrlevel rows))
  | BTable _ => 1%nat
  end
with vrlevel (r : vrow) : nat := match r with VRow l => maxl (map xlevel l) end
with qlevel (q : query) : nat :=
  match q with
  | Query w b ob lim off =>
      Nat.max (match w with Some x => S (wlevel x) | None => O end)
        (Nat.max (blevel b)
          (S (Nat.max (maxl (map oelevel ob))
               (Nat.max (match lim with Some x => xlevel x | None => O end)
                        (match off with Some x => xlevel x | None => O end)))))
  end
with tlevel (t : tref) : nat :=
  match t with TTable _ _ => O | TDerived q _ => qlevel q | TNested t' _ => S (twjlevel t') end
with twjlevel (t : twj) : nat :=
  match t with Twj r js => Nat.max (tlevel r) (maxl (map jlevel js)) end
with jlevel (j : join) : nat := match j with Join o r => Nat.max (joplevel o) (tlevel r) end
with joplevel (o : jop) : nat := match o with JCross => O | JOp _ c => jclevel c end
with jclevel (c : jcons) : nat := match c with JOn x => xlevel x | _ => O end
with wlevel (w : withc) : nat := match w with With _ ctes => maxl (map clevel ctes) end
with clevel (c : cte) : nat := match c with Cte _ _ q => qlevel q end
with ilevel (i : item) : nat := match i with IWild => O | IExpr x => xlevel x | IAlias x _ => xlevel x end
with oelevel (o : oelem) : nat := match o with OElem x _ => xlevel x end
with xlevel (x : xexpr) : nat := match x with X _ subs => maxl (map qlevel subs) end.

(** * The dialect *)
Record qdialect := {
  base : dialect;              (* the expression model's dialect (binding powers, operator sets) *)
  res_col : list qtok;         (* keywords::RESERVED_FOR_COLUMN_ALIAS restricted to the alphabet *)
  res_tab : list qtok;         (* keywords::RESERVED_FOR_TABLE_ALIAS restricted to the alphabet *)
  limit_comma : bool;          (* supports_limit_comma: LIMIT a, b *)
  limit_by : bool;             (* LIMIT .. BY .. (ClickHouse, Generic) *)
  trailing : bool;             (* supports_trailing_commas: every comma-separated list may end in a comma *)
  proj_trailing : bool;        (* supports_projection_trailing_commas *)
  wild_except : bool;          (* supports_select_wildcard_except: [* EXCEPT (..)] *)
  wild_ilike : bool;           (* [* ILIKE '..'] (Generic, Snowflake) *)
  select_as : bool;            (* SELECT AS VALUE | STRUCT (BigQuery) *)
  unnest_table : bool;         (* FROM UNNEST(..) is a table factor of its own *)
  hyphen_table : bool;         (* hyphenated table names (BigQuery) *)
  group_by_expr : bool;        (* supports_group_by_expr: GROUP BY () / ROLLUP / CUBE / GROUPING SETS *)
  paren_tables : bool;         (* FROM (t) (Snowflake, Generic) *)
  group_with : bool;           (* GROUP BY .. WITH ROLLUP | CUBE | TOTALS (ClickHouse, Generic) *)
  exists_fn : bool;            (* EXISTS not followed by (SELECT | (WITH is a function call (Databricks) *)
  values_empty : bool          (* VALUES () - a row without values (MySQL) *)
}.

(** * Expressions: what [Parser::parse_expr] sees of the token stream.
    Its view ([fold]) ends
    - at the first token outside the expression alphabet, shown as a word the expression parser gives
      no binding power ([TType 0]: no such type);
    - outside parentheses: at a comma, at a closing parenthesis, at a FROM that does not follow
      DISTINCT (no construct of the expression grammar consumes one of these there).
    A parenthesised query [( SELECT .. )] / [( WITH .. )] - read by [parse_query], one level down - is
    shown as [( a )] with the atom [a = SQ_BASE + i]: Expr::Subquery in operand position, Expr::InSubquery
    after IN; [EXISTS ( query )] / [NOT EXISTS ( query )] as the atoms [EX_BASE + i] / [NEX_BASE + i].
    [x = ANY ( SELECT .. )] is [ANY ( a )]: the parenthesis of ANY is the one of the subquery.
    UNNEST before [( SELECT] and ANY / ALL / SOME before [( ( SELECT] end the view.
    If the expression parser consumes the token its view ends with (a keyword used as an identifier or
    as a type name) the input is outside the fragment. *)
Definition is_qstart (l : list qtok) : bool :=
  match l with QK KSelect :: _ | QK KWith :: _ => true | _ => false end.
(** after the keyword [w]: [UNNEST ( SELECT] is not a subquery (UNNEST takes an expression); for
    [ANY ( ( SELECT ..] the parser and the printer drop one pair of parentheses when the operand is just
    the subquery: two token forms of one tree, outside the fragment *)
Definition sub_unsafe (w : kwd) (r : list qtok) : bool :=
  match w, r with
  | KUnnest, QE TLParen :: r1 => is_qstart r1
  | KAny, QE TLParen :: QE TLParen :: r2 | KAll, QE TLParen :: QE TLParen :: r2
  | KSome, QE TLParen :: QE TLParen :: r2 => is_qstart r2
  | _, _ => false
  end.

(** the view: each token with the input that remains after it *)
Record folded := {
  fv : list (tok * list qtok);
  fsubs : list query;          (* the subqueries behind the atoms of the view, in order *)
  fstop : bool;                (* the view ends before the input does *)
  ffuel : bool                 (* out of fuel *)
}.
Definition fnil : folded := {| fv := []; fsubs := []; fstop := false; ffuel := false |}.
Definition fstopv (t : tok) (r : list qtok) : folded :=
  {| fv := [(t, r)]; fsubs := []; fstop := true; ffuel := false |}.
Definition fcons (t : tok) (r : list qtok) (x : folded) : folded :=
  {| fv := (t, r) :: fv x; fsubs := fsubs x; fstop := fstop x; ffuel := ffuel x |}.
Definition fsub (q : query) (x : folded) : folded :=
  {| fv := fv x; fsubs := q :: fsubs x; fstop := fstop x; ffuel := ffuel x |}.

Section Fold.
  (** [parse_query], one level down *)
  Variable recq : list qtok -> res (query * list qtok).
  (** EXISTS is a function name unless [(SELECT] / [(WITH] follows (Databricks) *)
  Variable exfn : bool.

  (** [EXISTS ( query )] with [r] = the input after the opening parenthesis: the query and the input
      after the closing parenthesis *)
  Definition exists_group (r : list qtok) : option (query * list qtok) :=
    if exfn && negb (is_qstart r) then None
    else match recq r with
         | Ok (q, QE TRParen :: r') => Some (q, r')
         | _ => None
         end.

  Fixpoint fold (g : nat) (k : nat) (i : nat) (l : list qtok) : folded :=
    match g with
    | O => {| fv := []; fsubs := []; fstop := true; ffuel := true |}
    | S g' =>
        match l with
        | [] => fnil
        | QE TLParen :: r =>
            if is_qstart r then
              match recq r with
              | Ok (q, QE TRParen :: r') =>
                  fsub q (fcons TLParen r (fcons (TAtom false (SQ_BASE + N.of_nat i)) (QE TRParen :: r')
                    (fcons TRParen r' (fold g' k (S i) r'))))
              | _ => fcons TLParen r (fold g' (S k) i r)      (* the view ends at SELECT / WITH *)
              end
            else fcons TLParen r (fold g' (S k) i r)
        | QE TRParen :: r =>
            match k with O => fstopv TRParen r | S k' => fcons TRParen r (fold g' k' i r) end
        | QE TComma :: r =>
            match k with O => fstopv TComma r | S _ => fcons TComma r (fold g' k i r) end
        | QE (TKw KDistinct) :: QE (TKw KFrom) :: r =>
            fcons (TKw KDistinct) (QE (TKw KFrom) :: r) (fcons (TKw KFrom) r (fold g' k i r))
        | QE (TKw KFrom) :: r =>
            match k with O => fstopv (TKw KFrom) r | S _ => fcons (TKw KFrom) r (fold g' k i r) end
        | QE (TKw KNot) :: QK KExists :: QE TLParen :: r1 =>
            match exists_group r1 with
            | Some (q, r') => fsub q (fcons (TAtom false (NEX_BASE + N.of_nat i)) r' (fold g' k (S i) r'))
            | None => fcons (TKw KNot) (QK KExists :: QE TLParen :: r1) (fstopv (TType 0) (QE TLParen :: r1))
            end
        | QE (TKw w) :: r =>
            if sub_unsafe w r then fcons (TKw w) r (fstopv TOther r)     (* outside the fragment *)
            else fcons (TKw w) r (fold g' k i r)
        | QK KExists :: QE TLParen :: r1 =>
            match exists_group r1 with
            | Some (q, r') => fsub q (fcons (TAtom false (EX_BASE + N.of_nat i)) r' (fold g' k (S i) r'))
            | None => fstopv (TType 0) (QE TLParen :: r1)
            end
        | QE (TAtom false n) :: r =>
            if n <? SQ_BASE then fcons (TAtom false n) r (fold g' k i r) else fstopv TOther r
        | QE t :: r => fcons t r (fold g' k i r)
        | _ :: r => fstopv (TType 0) r
        end
    end.

  (** the input that remains after [c] tokens of the view *)
  Definition rest_at (c : nat) (v : list (tok * list qtok)) (l : list qtok) : list qtok :=
    match c with
    | O => l
    | S c' => match nth_error v c' with Some (_, r) => r | None => [] end
    end.
  Definition is_big (t : tok) : bool :=
    match t with TAtom false n => negb (n <? SQ_BASE) | _ => false end.
  Definition nsub (ts : list tok) : nat := length (filter is_big ts).

  Definition pexpr (d : dialect) (l : list qtok) : res (xexpr * list qtok) :=
    let x := fold (S (length l)) O O l in
    if ffuel x then OutOfFuel else
    let ts := map fst (fv x) in
    bind (parse_expr d ts) (fun '(e, r) =>
      if fstop x && Nat.eqb (length r) 0 then OutOfFragment
      else let c := (length ts - length r)%nat in
           Ok (X e (firstn (nsub (firstn c ts)) (fsubs x)), rest_at c (fv x) l)).
End Fold.

(** * [parse_comma_separated]; [trail = Some reserved] while [options.trailing_commas] is on *)
Definition comma_end (reserved : list qtok) (ts : list qtok) : bool :=
  match ts with
  | [] => true
  | QE TRParen :: _ | QE TRBracket :: _ | QSemi :: _ => true
  | w :: _ => mem w reserved
  end.

Section CommaList.
  Context {A : Type}.
  Variable elem : list qtok -> res (A * list qtok).
  Variable trail : option (list qtok).
  Fixpoint comma_list (g : nat) (ts : list qtok) : res (list A * list qtok) :=
    match g with
    | O => OutOfFuel
    | S g' =>
        bind (elem ts) (fun '(x, r) =>
          match r with
          | QE TComma :: r' =>
              if match trail with Some reserved => comma_end reserved r' | None => false end
              then Ok ([x], r')
              else bind (comma_list g' r') (fun '(l, r'') => Ok (x :: l, r''))
          | _ => Ok ([x], r)
          end)
    end.
End CommaList.

(** [, )] somewhere: with trailing commas on, an expression list may end in a comma, which the
    expression model does not cover *)
Fixpoint comma_rparen (ts : list qtok) : bool :=
  match ts with
  | [] => false
  | t :: r =>
      match t, r with
      | QE TComma, QE TRParen :: _ => true
      | _, _ => comma_rparen r
      end
  end.

(** * [parse_optional_alias(reserved)] *)
Definition parse_alias (reserved : list qtok) (ts : list qtok) : res (option qtok * list qtok) :=
  let '(after_as, r) := match ts with QK KAs :: r => (true, r) | _ => (false, ts) end in
  match r with
  | w :: r' =>
      if is_word w && (after_as || negb (mem w reserved)) then Ok (Some w, r')
      else match w with
           | QE (TAtom true _) => OutOfFragment          (* a quoted string as alias *)
           | QOther | QE TOther => OutOfFragment
           | _ => if after_as then Err else Ok (None, r)
           end
  | [] => if after_as then Err else Ok (None, r)
  end.

(** [parse_optional_table_alias]: an alias may be followed by a column list *)
Definition parse_talias (reserved : list qtok) (ts : list qtok) : res (option qtok * list qtok) :=
  bind (parse_alias reserved ts) (fun '(a, r) =>
    match a, r with
    | Some _, QE TLParen :: _ => OutOfFragment
    | _, _ => Ok (a, r)
    end).

Definition set_op_of (ts : list qtok) : option (setop * list qtok) :=
  match ts with
  | QK KUnion :: r => Some (Union, r)
  | QK KExcept :: r => Some (Except, r)
  | QK KIntersect :: r => Some (Intersect, r)
  | _ => None
  end.

(** [parse_set_quantifier] (BY NAME variants are outside the alphabet) *)
Definition parse_quant (ts : list qtok) : squant * list qtok :=
  match ts with
  | QE (TKw KAll) :: r => (QAll, r)
  | QE (TKw KDistinct) :: r => (QDistinct, r)
  | _ => (QNone, ts)
  end.

Definition is_some {A} (x : option A) : bool := match x with Some _ => true | None => false end.

(** [parse_keyword] / [consume_token]: is the next token [k]? *)
Definition opt_tok (k : qtok) (ts : list qtok) : bool * list qtok :=
  match ts with
  | t :: r => if qtok_eqb t k then (true, r) else (false, ts)
  | [] => (false, ts)
  end.
(** [parse_keywords(&[k1, k2])] *)
Definition opt_tok2 (k1 k2 : qtok) (ts : list qtok) : bool * list qtok :=
  match ts with
  | t1 :: t2 :: r => if qtok_eqb t1 k1 && qtok_eqb t2 k2 then (true, r) else (false, ts)
  | _ => (false, ts)
  end.

Section Level.
  Variable d : qdialect.
  (** the recursive calls one nesting level down: [parse_query], [parse_query_body(precedence)] ... *)
  Variable recq : list qtok -> res (query * list qtok).
  Variable recb : N -> list qtok -> res (setexpr * list qtok).
  (** ... and [parse_table_and_joins] inside the parentheses of a nested join *)
  Variable rect : list qtok -> res (twj * list qtok).

  (** [options.trailing_commas] while a list of this dialect is parsed *)
  Definition trail_all : option (list qtok) := if trailing d then Some (res_col d) else None.
  Definition trail_proj : option (list qtok) :=
    if trailing d || proj_trailing d then Some (res_col d) else None.

  (** [parse_expr]; with trailing commas on, an expression list ending in [, )] is not covered by
      the expression model *)
  Definition pex (ts : list qtok) : res (xexpr * list qtok) :=
    if trailing d && comma_rparen ts then OutOfFragment else pexpr recq (exists_fn d) (base d) ts.

  (** [parse_select_item]: [parse_wildcard_expr], then the wildcard options or an optional alias *)
  Definition parse_item_expr (ts : list qtok) : res (item * list qtok) :=
    bind (pex ts) (fun '(e, r1) =>
      bind (parse_alias (res_col d) r1) (fun '(a, r2) =>
        Ok (match a with Some w => IAlias e w | None => IExpr e end, r2))).

  Definition parse_item (ts : list qtok) : res (item * list qtok) :=
    match ts with
    | QE (TOp k) :: r =>
        if k =? K_Mul then
          match r with
          | QE (TKw KILike) :: _ => if wild_ilike d then OutOfFragment else Ok (IWild, r)
          | QK KExcept :: _ => if wild_except d then OutOfFragment else Ok (IWild, r)
          | _ => Ok (IWild, r)
          end
        else parse_item_expr ts
    | _ => parse_item_expr ts
    end.

  (** [parse_identifier(false)]: any word; a quoted string is an identifier outside the fragment *)
  Definition parse_ident (ts : list qtok) : res (qtok * list qtok) :=
    match ts with
    | w :: r =>
        if is_word w then Ok (w, r)
        else match w with
             | QE (TAtom true _) | QOther | QE TOther => OutOfFragment
             | _ => Err
             end
    | [] => Err
    end.

  (** [parse_parenthesized_column_list], after the opening parenthesis *)
  Definition parse_cols (ts : list qtok) : res (list qtok * list qtok) :=
    bind (comma_list parse_ident trail_all (S (length ts)) ts) (fun '(cols, r) =>
      match r with
      | QE TRParen :: r' => Ok (cols, r')
      | _ => Err
      end).

  (** [parse_table_factor]: a table name, a derived table or a nested join, each with an optional alias *)
  (** after a table name: [(] starts the arguments of a table function, [-] continues a hyphenated
      BigQuery name *)
  Definition table_follow (r : list qtok) : res unit :=
    match r with
    | QE TLParen :: _ => OutOfFragment
    | QE (TOp k) :: _ => if hyphen_table d && (k =? K_Minus) then OutOfFragment else Ok tt
    | _ => Ok tt
    end.

  (** what [( .. )] in FROM may hold besides a query: a table with joins, or a nested join *)
  Definition nested_shape (t : twj) : bool :=
    match t with
    | Twj _ (_ :: _) => true
    | Twj (TNested _ _) [] => true
    | _ => false
    end.
  (** a parenthesised join whose first table is named SELECT, WITH, VALUES or TABLE: the parser gets there by
      backtracking from a failed attempt to read a query; outside the fragment *)
  Definition starter (w : qtok) : bool :=
    qtok_eqb w (QK KSelect) || qtok_eqb w (QK KWith) || qtok_eqb w (QK KValues) || qtok_eqb w (QK KTable).
  Definition first_ok (t : tref) : bool :=
    match t with TTable n _ => negb (starter n) | _ => true end.
  Definition first_of (t : twj) : tref := match t with Twj r _ => r end.

  (** [parse_derived_table_factor], after the opening parenthesis *)
  Definition parse_derived (r : list qtok) : res (tref * list qtok) :=
    match recq r with
    | Ok (q, QE TRParen :: r1) =>
        bind (parse_talias (res_tab d) r1) (fun '(a, r2) => Ok (TDerived q a, r2))
    | Ok _ => Err
    | Err => Err
    | OutOfFragment => OutOfFragment
    | OutOfFuel => OutOfFuel
    end.

  Definition parse_tref (ts : list qtok) : res (tref * list qtok) :=
    match ts with
    | QE TLParen :: r =>
        match parse_derived r with         (* maybe_parse(parse_derived_table_factor) *)
        | Err =>                           (* rewind: parse_table_and_joins, one level down *)
            bind (rect r) (fun '(tw, r1) =>
              if nested_shape tw then
                if negb (first_ok (first_of tw)) then OutOfFragment else
                match r1 with
                | QE TRParen :: r2 =>
                    bind (parse_talias (res_tab d) r2) (fun '(a, r3) => Ok (TNested tw a, r3))
                | _ => Err
                end
              else if paren_tables d then OutOfFragment     (* (table) [alias]: Snowflake, Generic *)
              else Err)
        | x => x
        end
    | QK KTable :: r =>                     (* TABLE ( expr ): a table function; nothing else *)
        match r with QE TLParen :: _ => OutOfFragment | _ => Err end
    | w :: r =>
        if is_word w then
          if unnest_table d && qtok_eqb w (QE (TKw KUnnest)) then OutOfFragment
          else bind (table_follow r) (fun _ =>
                 bind (parse_talias (res_tab d) r) (fun '(a, r1) =>
                   match r1 with
                   | QK KWith :: QE TLParen :: _ => OutOfFragment          (* WITH (hints) *)
                   | _ => Ok (TTable w a, r1)
                   end))
        else match w with
             | QE (TAtom true _) | QOther | QE TOther => OutOfFragment
             | _ => Err
             end
    | [] => Err
    end.

  (** the join keywords of [parse_table_and_joins] after an optional NATURAL (SEMI, ANTI, APPLY, ASOF,
      GLOBAL are outside the alphabet): [None] = no join follows *)
  Definition expect_join (k : jkind) (r : list qtok) : res (option (jkind * list qtok)) :=
    match r with
    | QK KJoin :: r1 => Ok (Some (k, r1))
    | _ => Err
    end.
  Definition parse_jkind (ts : list qtok) : res (option (jkind * list qtok)) :=
    match ts with
    | QK KJoin :: r => Ok (Some (JInner, r))
    | QK KInner :: r => expect_join JInner r
    | QK KLeft :: r =>
        match r with QK KOuter :: r1 => expect_join JLeft r1 | _ => expect_join JLeft r end
    | QK KRight :: r =>
        match r with QK KOuter :: r1 => expect_join JRight r1 | _ => expect_join JRight r end
    | QK KFull :: r =>
        match r with QK KOuter :: r1 => expect_join JFull r1 | _ => expect_join JFull r end
    | QK KOuter :: _ => Err
    | _ => Ok None
    end.

  (** [parse_join_constraint] *)
  Definition parse_jcons (natural : bool) (ts : list qtok) : res (jcons * list qtok) :=
    if natural then Ok (JNatural, ts)
    else match ts with
         | QK KOn :: r => bind (pex r) (fun '(e, r') => Ok (JOn e, r'))
         | QK KUsing :: r =>
             match r with
             | QE TLParen :: r1 => bind (parse_cols r1) (fun '(cols, r2) => Ok (JUsing cols, r2))
             | _ => Err
             end
         | _ => Ok (JNone, ts)
         end.

  (** the loop of [parse_table_and_joins] *)
  Fixpoint join_loop (g : nat) (ts : list qtok) : res (list join * list qtok) :=
    match g with
    | O => OutOfFuel
    | S g' =>
        match ts with
        | QK KCross :: r =>
            match r with
            | QK KJoin :: r1 =>
                bind (parse_tref r1) (fun '(t, r2) =>
                  bind (join_loop g' r2) (fun '(js, r3) => Ok (Join JCross t :: js, r3)))
            | _ => Err                                        (* APPLY is outside the alphabet *)
            end
        | _ =>
            let '(natural, r) := opt_tok (QK KNatural) ts in
            bind (parse_jkind r) (fun o =>
              match o with
              | None => if natural then Err else Ok ([], ts)
              | Some (k, r1) =>
                  bind (parse_tref r1) (fun '(t, r2) =>
                    bind (parse_jcons natural r2) (fun '(c, r3) =>
                      bind (join_loop g' r3) (fun '(js, r4) => Ok (Join (JOp k c) t :: js, r4))))
              end)
        end
    end.

  (** [parse_table_and_joins] *)
  Definition twj_step (ts : list qtok) : res (twj * list qtok) :=
    bind (parse_tref ts) (fun '(t, r) =>
      bind (join_loop (S (length r)) r) (fun '(js, r') => Ok (Twj t js, r'))).

  Definition opt_clause (k : qtok) (ts : list qtok) : res (option xexpr * list qtok) :=
    match ts with
    | t :: r => if qtok_eqb t k then bind (pex r) (fun '(e, r') => Ok (Some e, r')) else Ok (None, ts)
    | [] => Ok (None, ts)
    end.

  (** [parse_group_by_expr] *)
  Definition parse_group_elem (ts : list qtok) : res (xexpr * list qtok) :=
    match ts with
    | QE TLParen :: QE TRParen :: _ => if group_by_expr d then OutOfFragment else pex ts
    | _ => pex ts
    end.

  (** [parse_order_by_expr] *)
  Definition parse_order_elem (ts : list qtok) : res (oelem * list qtok) :=
    bind (pex ts) (fun '(e, r) =>
      match r with
      | QK KAsc :: r' => Ok (OElem e (Some true), r')
      | QK KDesc :: r' => Ok (OElem e (Some false), r')
      | _ => Ok (OElem e None, r)
      end).

  (** FROM <table>, ... *)
  Definition parse_from (ts : list qtok) : res (list twj * list qtok) :=
    let '(b, r) := opt_tok (QE (TKw KFrom)) ts in
    if b then comma_list twj_step trail_all (S (length r)) r else Ok ([], ts).

  (** [parse_optional_group_by] *)
  Definition parse_group_by (ts : list qtok) : res (list xexpr * list qtok) :=
    let '(b, r) := opt_tok2 (QK KGroup) (QK KBy) ts in
    if b then
      (if fst (opt_tok (QE (TKw KAll)) r) then OutOfFragment            (* GROUP BY ALL *)
       else bind (comma_list parse_group_elem trail_all (S (length r)) r) (fun '(l, r') =>
              (* WITH ROLLUP | CUBE | TOTALS: the modifiers are outside the alphabet *)
              if group_with d && fst (opt_tok (QK KWith) r') then Err else Ok (l, r')))
    else Ok ([], ts).

  (** [parse_optional_order_by] *)
  Definition parse_order_by (ts : list qtok) : res (list oelem * list qtok) :=
    let '(o, r) := opt_tok2 (QK KOrder) (QK KBy) ts in
    if o then comma_list parse_order_elem trail_all (S (length r)) r else Ok ([], ts).

  (** [parse_select], after SELECT *)
  Definition parse_select (ts : list qtok) : res (setexpr * list qtok) :=
    if fst (opt_tok (QK KAs) ts) then
      (if select_as d then Err else OutOfFragment)                (* VALUE / STRUCT are not in the alphabet *)
    else
    let '(all, ts1) := opt_tok (QE (TKw KAll)) ts in
    let '(dist, ts2) := opt_tok (QE (TKw KDistinct)) ts1 in
    if all && dist then Err
    else if dist && fst (opt_tok (QK KOn) ts2) then OutOfFragment     (* DISTINCT ON (..) *)
    else if proj_trailing d && comma_rparen ts2 then OutOfFragment
    else
    bind (comma_list parse_item trail_proj (S (length ts2)) ts2) (fun '(items, ts3) =>
    bind (parse_from ts3) (fun '(from, ts4) =>
    bind (opt_clause (QK KWhere) ts4) (fun '(wh, ts5) =>
    bind (parse_group_by ts5) (fun '(gb, ts6) =>
    bind (opt_clause (QK KHaving) ts6) (fun '(hv, ts7) =>
      Ok (BSelect dist items from wh gb hv, ts7)))))).

  (** [parse_values] (ROW is outside the alphabet): one row *)
  Definition parse_vrow (ts : list qtok) : res (vrow * list qtok) :=
    match ts with
    | QE TLParen :: r =>
        match r with
        | QE TRParen :: r' => if values_empty d then Ok (VRow [], r') else Err
        | _ =>
            bind (comma_list pex trail_all (S (length r)) r) (fun '(l, r1) =>
              match r1 with
              | QE TRParen :: r2 => Ok (VRow l, r2)
              | _ => Err
              end)
        end
    | _ => Err
    end.

  (** the operand of [parse_query_body] *)
  Definition parse_operand (ts : list qtok) : res (setexpr * list qtok) :=
    match ts with
    | QK KValues :: r =>
        bind (comma_list parse_vrow trail_all (S (length r)) r) (fun '(rows, r') => Ok (BValues rows, r'))
    | QK KTable :: r =>                                   (* parse_as_table; schema.name is outside the alphabet *)
        match r with
        | w :: r' => if is_word w then Ok (BTable w, r')
                     else match w with
                          | QOther | QE TOther => OutOfFragment
                          | _ => Err
                          end
        | [] => Err
        end
    | QK KSelect :: r => parse_select r
    | QE TLParen :: r =>
        bind (recq r) (fun '(q, r1) =>
          match r1 with
          | QE TRParen :: r2 => Ok (BNested q, r2)
          | _ => Err
          end)
    | _ => Err
    end.

  (** [parse_remaining_set_exprs]; the binding powers 10 / 10 / 20 are literals in the code *)
  Fixpoint bloop (g : nat) (p : N) (e : setexpr) (ts : list qtok) : res (setexpr * list qtok) :=
    match g with
    | O => OutOfFuel
    | S g' =>
        match set_op_of ts with
        | Some (o, ts1) =>
            if sp_pinned o <=? p then Ok (e, ts)
            else
              let '(q, ts2) := parse_quant ts1 in
              bind (recb (sp_pinned o) ts2) (fun '(r, ts3) => bloop g' p (BSetOp o q e r) ts3)
        | None => Ok (e, ts)
        end
    end.

  (** [parse_query_body(precedence)] *)
  Definition body_step (p : N) (ts : list qtok) : res (setexpr * list qtok) :=
    bind (parse_operand ts) (fun '(e, r) => bloop (S (length r)) p e r).

  (** one turn of the LIMIT / OFFSET loop of [parse_query] *)
  Definition limit_iter (st : option xexpr * option xexpr) (ts : list qtok)
    : res ((option xexpr * option xexpr) * list qtok) :=
    let '(lim, off) := st in
    bind (match lim with
          | None =>
              let '(b, r) := opt_tok (QK KLimit) ts in
              if b then
                (let '(a, r') := opt_tok (QE (TKw KAll)) r in
                 if a then Ok (None, r')                                   (* LIMIT ALL *)
                 else bind (pex r) (fun '(e, r2) => Ok (Some e, r2)))
              else Ok (lim, ts)
          | Some _ => Ok (lim, ts)
          end) (fun '(lim1, ts1) =>
    bind (match off with
          | None =>
              let '(b, r) := opt_tok (QK KOffset) ts1 in
              if b then bind (pex r) (fun '(e, r2) => Ok (Some e, r2)) else Ok (off, ts1)
          | Some _ => Ok (off, ts1)
          end) (fun '(off1, ts2) =>
    match lim1, off1 with
    | Some l, None =>
        let '(b, r) := opt_tok (QE TComma) ts2 in
        if limit_comma d && b then bind (pex r) (fun '(e, r2) => Ok ((Some e, Some l), r2))
        else Ok ((lim1, off1), ts2)
    | _, _ => Ok ((lim1, off1), ts2)
    end)).

  (** [parse_cte] (MATERIALIZED is outside the alphabet; a FROM after the closing parenthesis is
      outside the fragment) *)
  Definition parse_cte_body (n : qtok) (cols : list qtok) (r1 : list qtok) : res (cte * list qtok) :=
    match r1 with
    | QE TLParen :: r2 =>
        bind (recq r2) (fun '(q, r3) =>
          match r3 with
          | QE TRParen :: r4 =>
              match r4 with
              | QE (TKw KFrom) :: _ => OutOfFragment
              | _ => Ok (Cte n cols q, r4)
              end
          | _ => Err
          end)
    | _ => Err
    end.

  Definition parse_cte (ts : list qtok) : res (cte * list qtok) :=
    bind (parse_ident ts) (fun '(n, r) =>
      match r with
      | QK KAs :: r1 => parse_cte_body n [] r1
      | QE TLParen :: r1 =>
          bind (parse_cols r1) (fun '(cols, r2) =>
            match r2 with
            | QK KAs :: r3 => parse_cte_body n cols r3
            | _ => Err
            end)
      | _ => Err
      end).

  (** the WITH clause of [parse_query] *)
  Definition parse_with (ts : list qtok) : res (option withc * list qtok) :=
    match ts with
    | QK KWith :: r =>
        let '(rc, r1) := opt_tok (QK KRecursive) r in
        bind (comma_list parse_cte trail_all (S (length r1)) r1) (fun '(ctes, r2) =>
          Ok (Some (With rc ctes), r2))
    | _ => Ok (None, ts)
    end.

  (** [parse_query] (INSERT / UPDATE bodies are outside the alphabet) *)
  Definition query_step (ts : list qtok) : res (query * list qtok) :=
    bind (parse_with ts) (fun '(w, ts0) =>
    bind (body_step (lvl (base d) K_UNKNOWN) ts0) (fun '(b, ts1) =>
    bind (parse_order_by ts1) (fun '(ob, ts2) =>
    bind (limit_iter (None, None) ts2) (fun '(st1, ts3) =>
    bind (limit_iter st1 ts3) (fun '(st2, ts4) =>
      (* LIMIT n BY ..: read only after a LIMIT that has a value *)
      if limit_by d && (is_some (fst st2) && fst (opt_tok (QK KBy) ts4)) then OutOfFragment
      else Ok (Query w b ob (fst st2) (snd st2), ts4)))))).
End Level.

Record parsers := {
  pq : list qtok -> res (query * list qtok);
  pb : N -> list qtok -> res (setexpr * list qtok);
  pt : list qtok -> res (twj * list qtok)
}.

Fixpoint parse_lvl (d : qdialect) (fuel : nat) : parsers :=
  match fuel with
  | O => {| pq := fun _ => OutOfFuel; pb := fun _ _ => OutOfFuel; pt := fun _ => OutOfFuel |}
  | S f =>
      let lower := parse_lvl d f in
      {| pq := query_step d (pq lower) (pb lower) (pt lower);
         pb := body_step d (pq lower) (pb lower) (pt lower);
         pt := twj_step d (pq lower) (pt lower) |}
  end.

Definition parse_query (d : qdialect) (fuel : nat) : list qtok -> res (query * list qtok) :=
  pq (parse_lvl d fuel).
Definition parse_body (d : qdialect) (fuel : nat) : N -> list qtok -> res (setexpr * list qtok) :=
  pb (parse_lvl d fuel).
Definition parse_twj (d : qdialect) (fuel : nat) : list qtok -> res (twj * list qtok) :=
  pt (parse_lvl d fuel).

Definition is_qother (t : qtok) : bool :=
  match t with QOther | QE TOther => true | _ => false end.

(** [Parser::parse_query] on a token list; a token outside the alphabet anywhere: out of the fragment *)
Definition parse_query_top (d : qdialect) (ts : list qtok) : res (query * list qtok) :=
  if existsb is_qother ts then OutOfFragment else parse_query d (S (length ts)) ts.

(** * Boolean equality on trees *)
Section ListEqb.
  Context {A : Type}.
  Variable f : A -> A -> bool.
  Fixpoint list_eqb (l m : list A) : bool :=
    match l, m with
    | [], [] => true
    | x :: l', y :: m' => f x y && list_eqb l' m'
    | _, _ => false
    end.
End ListEqb.
Definition opt_eqb {A} (f : A -> A -> bool) (a b : option A) : bool :=
  match a, b with
  | None, None => true
  | Some x, Some y => f x y
  | _, _ => false
  end.

Definition jkind_eqb (a b : jkind) : bool :=
  match a, b with
  | JInner, JInner | JLeft, JLeft | JRight, JRight | JFull, JFull => true
  | _, _ => false
  end.

Fixpoint setexpr_eqb (a b : setexpr) {struct a} : bool :=
  match a, b with
  | BSelect dist items from wh gb hv, BSelect dist' items' from' wh' gb' hv' =>
      Bool.eqb dist dist' && list_eqb item_eqb items items' && list_eqb twj_eqb from from' &&
      match wh, wh' with None, None => true | Some x, Some x' => xexpr_eqb x x' | _, _ => false end &&
      list_eqb xexpr_eqb gb gb' &&
      match hv, hv' with None, None => true | Some x, Some x' => xexpr_eqb x x' | _, _ => false end
  | BSetOp o q l r, BSetOp o' q' l' r' =>
      setop_eqb o o' && squant_eqb q q' && setexpr_eqb l l' && setexpr_eqb r r'
  | BNested q, BNested q' => query_eqb q q'
  | BValues rows, BValues rows' => list_eqb vrow_eqb rows rows'
  | BTable n, BTable n' => qtok_eqb n n'
  | _, _ => false
  end
with vrow_eqb (a b : vrow) {struct a} : bool :=
  match a, b with VRow l, VRow l' => list_eqb xexpr_eqb l l' end
with query_eqb (q q' : query) {struct q} : bool :=
  match q, q' with
  | Query w x ob lim off, Query w' x' ob' lim' off' =>
      match w, w' with
      | None, None => true
      | Some y, Some y' => withc_eqb y y'
      | _, _ => false
      end &&
      setexpr_eqb x x' && list_eqb oelem_eqb ob ob' &&
      match lim, lim' with None, None => true | Some y, Some y' => xexpr_eqb y y' | _, _ => false end &&
      match off, off' with None, None => true | Some y, Some y' => xexpr_eqb y y' | _, _ => false end
  end
with tref_eqb (t t' : tref) {struct t} : bool :=
  match t, t' with
  | TTable n al, TTable n' al' => qtok_eqb n n' && opt_eqb qtok_eqb al al'
  | TDerived q al, TDerived q' al' => query_eqb q q' && opt_eqb qtok_eqb al al'
  | TNested x al, TNested x' al' => twj_eqb x x' && opt_eqb qtok_eqb al al'
  | _, _ => false
  end
with twj_eqb (t t' : twj) {struct t} : bool :=
  match t, t' with Twj r js, Twj r' js' => tref_eqb r r' && list_eqb join_eqb js js' end
with join_eqb (j j' : join) {struct j} : bool :=
  match j, j' with Join o r, Join o' r' => jop_eqb o o' && tref_eqb r r' end
with jop_eqb (a b : jop) {struct a} : bool :=
  match a, b with
  | JCross, JCross => true
  | JOp k c, JOp k' c' => jkind_eqb k k' && jcons_eqb c c'
  | _, _ => false
  end
with jcons_eqb (a b : jcons) {struct a} : bool :=
  match a, b with
  | JOn x, JOn x' => xexpr_eqb x x'
  | JUsing c, JUsing c' => list_eqb qtok_eqb c c'
  | JNatural, JNatural | JNone, JNone => true
  | _, _ => false
  end
with withc_eqb (w w' : withc) {struct w} : bool :=
  match w, w' with With rc cs, With rc' cs' => Bool.eqb rc rc' && list_eqb cte_eqb cs cs' end
with cte_eqb (c c' : cte) {struct c} : bool :=
  match c, c' with
  | Cte n cols q, Cte n' cols' q' => qtok_eqb n n' && list_eqb qtok_eqb cols cols' && query_eqb q q'
  end
with item_eqb (a b : item) {struct a} : bool :=
  match a, b with
  | IWild, IWild => true
  | IExpr x, IExpr x' => xexpr_eqb x x'
  | IAlias x w, IAlias x' w' => xexpr_eqb x x' && qtok_eqb w w'
  | _, _ => false
  end
with oelem_eqb (a b : oelem) {struct a} : bool :=
  match a, b with OElem x s, OElem x' s' => xexpr_eqb x x' && opt_eqb Bool.eqb s s' end
with xexpr_eqb (a b : xexpr) {struct a} : bool :=
  match a, b with X e s, X e' s' => expr_eqb e e' && list_eqb query_eqb s s' end.

Fixpoint qtoks_eqb (a b : list qtok) : bool :=
  match a, b with
  | [], [] => true
  | x :: a', y :: b' => qtok_eqb x y && qtoks_eqb a' b'
  | _, _ => false
  end.

(** * Canonical spelling of the expressions inside a query ([PrinterCore.norm]) *)
Fixpoint bnorm (b : setexpr) : setexpr :=
  match b with
  | BSelect dist items from wh gb hv =>
      BSelect dist (map item_norm items) (map twj_norm from)
        (match wh with Some x => Some (xnorm x) | None => None end) (map xnorm gb)
        (match hv with Some x => Some (xnorm x) | None => None end)
  | BSetOp o q l r => BSetOp o q (bnorm l) (bnorm r)
  | BNested q => BNested (qnorm q)
  | BValues rows => BValues (map vrow_norm rows)
  | BTable n => BTable n
  end
with vrow_norm (r : vrow) : vrow := match r with VRow l => VRow (map xnorm l) end
with qnorm (q : query) : query :=
  match q with
  | Query w b ob lim off =>
      Query (match w with Some x => Some (wnorm x) | None => None end)
            (bnorm b) (map oelem_norm ob)
            (match lim with Some x => Some (xnorm x) | None => None end)
            (match off with Some x => Some (xnorm x) | None => None end)
  end
with tref_norm (t : tref) : tref :=
  match t with
  | TTable n a => TTable n a
  | TDerived q a => TDerived (qnorm q) a
  | TNested x a => TNested (twj_norm x) a
  end
with twj_norm (t : twj) : twj :=
  match t with Twj r js => Twj (tref_norm r) (map join_norm js) end
with join_norm (j : join) : join :=
  match j with Join o r => Join (jop_norm o) (tref_norm r) end
with jop_norm (o : jop) : jop :=
  match o with JCross => JCross | JOp k c => JOp k (jcons_norm c) end
with jcons_norm (c : jcons) : jcons :=
  match c with JOn x => JOn (xnorm x) | JUsing cols => JUsing cols | JNatural => JNatural | JNone => JNone end
with wnorm (w : withc) : withc :=
  match w with With rc cs => With rc (map cte_norm cs) end
with cte_norm (c : cte) : cte :=
  match c with Cte n cols q => Cte n cols (qnorm q) end
with item_norm (i : item) : item :=
  match i with IWild => IWild | IExpr x => IExpr (xnorm x) | IAlias x w => IAlias (xnorm x) w end
with oelem_norm (o : oelem) : oelem :=
  match o with OElem x a => OElem (xnorm x) a end
with xnorm (x : xexpr) : xexpr :=
  match x with X e subs => X (norm e) (map qnorm subs) end.

(** * Evaluation of one correspondence case inside the kernel (lib/props/c01query.py).
    [ts]: the crate's tokens of the input; [i]: what [Parser::parse_query] returned (tree and number of
    unconsumed tokens, or an error); [pt]: the crate's tokens of the printed tree.
    Bits: 1 = model parser and implementation disagree on the input; 2 = [qtoks] of the
    implementation's tree differs from the tokens of the text Display printed; 4 = the model does not
    parse [qtoks tree] back to the (canonically spelled) tree; 8 = input outside the fragment. *)
Inductive qires := QIOk (q : query) (nrest : nat) (pt : list qtok) | QIErr | QIBad.

Definition qcase_core (d : qdialect) (ts : list qtok) (i : qires) : N :=
  match parse_query_top d ts, i with
  | OutOfFragment, _ => 8
  | _, QIBad => 8
  | Ok (q, rest), QIOk q' n pt =>
      (if query_eqb q q' && Nat.eqb (length rest) n then 0 else 1) +
      (if qtoks_eqb (qtoks q') pt then 0 else 2) +
      (match parse_query_top d (qtoks q') with
       | Ok (q2, []) => if query_eqb q2 (qnorm q') then 0 else 4
       | _ => 4
       end)
  | Err, QIErr => 0
  | _, _ => 1
  end.
