(** C01 — the query core: an executable token-level model of the SELECT / query skeleton of
    sqlparser-rs:
      printer  [qtoks]       = the tokens [impl Display for Query / SetExpr / Select / SelectItem /
                               TableFactor / OrderByExpr / Offset] (src/ast/query.rs) print for the
                               fragment (canonical keyword spelling, [AS] before every alias);
      parser   [parse_query] = [Parser::parse_query], [parse_query_body] / [parse_remaining_set_exprs],
                               [parse_select], [parse_projection] / [parse_select_item],
                               [parse_table_and_joins] / [parse_table_factor] (tables and derived tables),
                               [parse_optional_alias] with the RESERVED_FOR_COLUMN_ALIAS /
                               RESERVED_FOR_TABLE_ALIAS rule, [parse_comma_separated],
                               [parse_optional_group_by], [parse_optional_order_by], the LIMIT / OFFSET
                               loop (src/parser/mod.rs).
    Expressions are the operator core of Pratt.v, parsed by [Pratt.parse_expr] (binding power
    [prec_unknown]).  Everything dialect specific is a field of [qdialect], regenerated from the
    running crate (coq/gen/QueryTables.v).  Anything outside the fragment makes the model return
    [OutOfFragment] (never a guess).  Model only; the theorems are in QueryCoreProofs.v. *)
From SqlV Require Import Base PrecSpec Pratt SetOps PrinterCore.

(** * Tokens: the expression alphabet of PrecSpec plus the query keywords *)
Inductive qkw :=
  KSelect | KWhere | KGroup | KBy | KHaving | KOrder | KAsc | KDesc | KLimit | KOffset | KAs
| KUnion | KExcept | KIntersect.

Inductive qtok :=
| QE (t : tok)      (* a token of the expression alphabet: identifiers / numbers / strings, operators
                       (the wildcard [*] is [TOp K_Mul]), [( ) ,], and the keywords FROM DISTINCT ALL NOT ... *)
| QK (k : qkw)      (* a query keyword *)
| QSemi             (* [;] *)
| QOther.           (* anything else *)

Definition K_Mul := 53.
(** atoms [TAtom false n] with [n >= NUM_BASE] are numeric literals (not words) *)
Definition NUM_BASE := 5000.

Scheme Equality for qkw.

Definition qtok_eqb (a b : qtok) : bool :=
  match a, b with
  | QE x, QE y => tok_eqb x y
  | QK x, QK y => qkw_beq x y
  | QSemi, QSemi | QOther, QOther => true
  | _, _ => false
  end.

Definition mem (w : qtok) (l : list qtok) : bool := existsb (qtok_eqb w) l.

(** [Token::Word] with no quotes: identifiers and every keyword of the two alphabets *)
Definition is_word (t : qtok) : bool :=
  match t with
  | QE (TAtom false n) => n <? NUM_BASE
  | QE (TKw _) | QE (TType _) | QK _ => true
  | QE (TOp k) => is_word_op k
  | _ => false
  end.

(** * Trees *)
Inductive item :=
| IWild                                  (* SelectItem::Wildcard without options *)
| IExpr (e : expr)                       (* SelectItem::UnnamedExpr *)
| IAlias (e : expr) (a : qtok).          (* SelectItem::ExprWithAlias; the alias is its word token *)

Inductive qry (B : Type) :=
  Query (body : B) (order_by : list (expr * option bool)) (limit offset : option expr).
Arguments Query {B}.

Inductive tref (B : Type) :=
| TTable (name : qtok) (alias : option qtok)
| TDerived (q : qry B) (alias : option qtok).
Arguments TTable {B}. Arguments TDerived {B}.

Inductive setexpr :=
| BSelect (distinct : bool) (items : list item) (from : list (tref setexpr)) (selection : option expr)
          (group_by : list expr) (having : option expr)
| BSetOp (o : setop) (q : squant) (l r : setexpr)
| BNested (q : qry setexpr).

Definition query := qry setexpr.

Definition body (q : query) : setexpr := match q with Query b _ _ _ => b end.

(** * Printer (token level) *)
Definition qe (ts : list tok) : list qtok := map QE ts.

(** [display_comma_separated] *)
Fixpoint sepc (ls : list (list qtok)) : list qtok :=
  match ls with
  | [] => []
  | [x] => x
  | x :: r => x ++ QE TComma :: sepc r
  end.

Definition alias_toks (a : option qtok) : list qtok :=
  match a with Some w => [QK KAs; w] | None => [] end.

Definition item_toks (i : item) : list qtok :=
  match i with
  | IWild => [QE (TOp K_Mul)]
  | IExpr e => qe (ptoks e)
  | IAlias e w => qe (ptoks e) ++ [QK KAs; w]
  end.

Definition order_elem_toks (x : expr * option bool) : list qtok :=
  qe (ptoks (fst x)) ++
  match snd x with Some true => [QK KAsc] | Some false => [QK KDesc] | None => [] end.

Definition order_toks (ob : list (expr * option bool)) : list qtok :=
  match ob with [] => [] | _ => QK KOrder :: QK KBy :: sepc (map order_elem_toks ob) end.
Definition clause_toks (k : qtok) (x : option expr) : list qtok :=
  match x with Some e => k :: qe (ptoks e) | None => [] end.
Definition group_toks (gb : list expr) : list qtok :=
  match gb with [] => [] | _ => QK KGroup :: QK KBy :: sepc (map (fun e => qe (ptoks e)) gb) end.
Definition dist_toks (b : bool) : list qtok := if b then [QE (TKw KDistinct)] else [].

Definition setop_kw (o : setop) : qtok :=
  QK (match o with Union => KUnion | Except => KExcept | Intersect => KIntersect end).
Definition quant_toks (q : squant) : list qtok :=
  match q with QNone => [] | QAll => [QE (TKw KAll)] | QDistinct => [QE (TKw KDistinct)] end.

Definition from_toks (l : list (list qtok)) : list qtok :=
  match l with [] => [] | _ => QE (TKw KFrom) :: sepc l end.

Fixpoint btoks (b : setexpr) : list qtok :=
  match b with
  | BSelect dist items from wh gb hv =>
      QK KSelect :: dist_toks dist ++ sepc (map item_toks items) ++
      from_toks (map (fun t =>
         match t with
         | TTable n a => n :: alias_toks a
         | TDerived (Query b' ob lim off) a =>
             QE TLParen :: (btoks b' ++ order_toks ob ++ clause_toks (QK KLimit) lim ++ clause_toks (QK KOffset) off)
             ++ QE TRParen :: alias_toks a
         end) from) ++
      clause_toks (QK KWhere) wh ++ group_toks gb ++ clause_toks (QK KHaving) hv
  | BSetOp o q l r => btoks l ++ setop_kw o :: quant_toks q ++ btoks r
  | BNested (Query b' ob lim off) =>
      QE TLParen :: (btoks b' ++ order_toks ob ++ clause_toks (QK KLimit) lim ++ clause_toks (QK KOffset) off)
      ++ [QE TRParen]
  end.

Definition qtoks (q : query) : list qtok :=
  match q with
  | Query b ob lim off => btoks b ++ order_toks ob ++ clause_toks (QK KLimit) lim ++ clause_toks (QK KOffset) off
  end.

Definition tref_toks (t : tref setexpr) : list qtok :=
  match t with
  | TTable n a => n :: alias_toks a
  | TDerived q a => QE TLParen :: qtoks q ++ QE TRParen :: alias_toks a
  end.

(** * Nesting level = the fuel [parse_query] needs *)
Definition maxl (l : list nat) : nat := fold_right Nat.max O l.

Fixpoint blevel (b : setexpr) : nat :=
  match b with
  | BSelect _ _ from _ _ _ =>
      S (maxl (map (fun t => match t with TTable _ _ => O | TDerived (Query b' _ _ _) _ => blevel b' end) from))
  | BSetOp _ _ l r => Nat.max (blevel l) (S (blevel r))
  | BNested (Query b' _ _ _) => S (blevel b')
  end.
Definition qlevel (q : query) : nat := blevel (body q).
Definition tlevel (t : tref setexpr) : nat :=
  match t with TTable _ _ => O | TDerived q _ => qlevel q end.

(** * The dialect *)
Record qdialect := {
  base : dialect;              (* the expression model's dialect (binding powers, operator sets) *)
  res_col : list qtok;         (* keywords::RESERVED_FOR_COLUMN_ALIAS restricted to the alphabet *)
  res_tab : list qtok;         (* keywords::RESERVED_FOR_TABLE_ALIAS restricted to the alphabet *)
  limit_comma : bool;          (* supports_limit_comma: LIMIT a, b *)
  limit_by : bool;             (* LIMIT .. BY .. (ClickHouse, Generic) *)
  trailing : bool;             (* supports_trailing_commas: every comma-separated list may end in a comma *)
  proj_trailing : bool;        (* supports_projection_trailing_commas *)
  wild_except : bool;          (* supports_select_wildcard_except: [* EXCEPT (..)] *)
  wild_ilike : bool;           (* [* ILIKE '..'] (Generic, Snowflake) *)
  select_as : bool;            (* SELECT AS VALUE | STRUCT (BigQuery) *)
  unnest_table : bool;         (* FROM UNNEST(..) is a table factor of its own *)
  hyphen_table : bool;         (* hyphenated table names (BigQuery) *)
  group_by_expr : bool;        (* supports_group_by_expr: GROUP BY () / ROLLUP / CUBE / GROUPING SETS *)
  paren_tables : bool          (* FROM (t) (Snowflake, Generic) *)
}.

(** * Expressions: what [Parser::parse_expr] sees of the token stream.  The first token outside the
    expression alphabet ends its view; it is shown as a word the expression parser gives no binding
    power ([TType 0]: no such type).  If the expression parser consumes it (a keyword used as an
    identifier or as a type name) the input is outside the fragment. *)
Fixpoint cut (l : list qtok) : list tok :=
  match l with
  | QE t :: r => t :: cut r
  | [] => []
  | _ :: _ => [TType 0]
  end.
Fixpoint has_stop (l : list qtok) : bool :=
  match l with
  | QE _ :: r => has_stop r
  | [] => false
  | _ :: _ => true
  end.

Definition pexpr (d : dialect) (l : list qtok) : res (expr * list qtok) :=
  let ts := cut l in
  bind (parse_expr d ts) (fun '(e, r) =>
    if has_stop l && Nat.eqb (length r) 0 then OutOfFragment
    else Ok (e, skipn (length ts - length r) l)).

(** * [parse_comma_separated]; [trail = Some reserved] while [options.trailing_commas] is on *)
Definition comma_end (reserved : list qtok) (ts : list qtok) : bool :=
  match ts with
  | [] => true
  | QE TRParen :: _ | QE TRBracket :: _ | QSemi :: _ => true
  | w :: _ => mem w reserved
  end.

Section CommaList.
  Context {A : Type}.
  Variable elem : list qtok -> res (A * list qtok).
  Variable trail : option (list qtok).
  Fixpoint comma_list (g : nat) (ts : list qtok) : res (list A * list qtok) :=
    match g with
    | O => OutOfFuel
    | S g' =>
        bind (elem ts) (fun '(x, r) =>
          match r with
          | QE TComma :: r' =>
              if match trail with Some reserved => comma_end reserved r' | None => false end
              then Ok ([x], r')
              else bind (comma_list g' r') (fun '(l, r'') => Ok (x :: l, r''))
          | _ => Ok ([x], r)
          end)
    end.
End CommaList.

(** [, )] somewhere: with trailing commas on, an expression list may end in a comma, which the
    expression model does not cover *)
Fixpoint comma_rparen (ts : list qtok) : bool :=
  match ts with
  | [] => false
  | t :: r =>
      match t, r with
      | QE TComma, QE TRParen :: _ => true
      | _, _ => comma_rparen r
      end
  end.

(** * [parse_optional_alias(reserved)] *)
Definition parse_alias (reserved : list qtok) (ts : list qtok) : res (option qtok * list qtok) :=
  let '(after_as, r) := match ts with QK KAs :: r => (true, r) | _ => (false, ts) end in
  match r with
  | w :: r' =>
      if is_word w && (after_as || negb (mem w reserved)) then Ok (Some w, r')
      else match w with
           | QE (TAtom true _) => OutOfFragment          (* a quoted string as alias *)
           | QOther | QE TOther => OutOfFragment
           | _ => if after_as then Err else Ok (None, r)
           end
  | [] => if after_as then Err else Ok (None, r)
  end.

(** [parse_optional_table_alias]: an alias may be followed by a column list *)
Definition parse_talias (reserved : list qtok) (ts : list qtok) : res (option qtok * list qtok) :=
  bind (parse_alias reserved ts) (fun '(a, r) =>
    match a, r with
    | Some _, QE TLParen :: _ => OutOfFragment
    | _, _ => Ok (a, r)
    end).

Definition set_op_of (ts : list qtok) : option (setop * list qtok) :=
  match ts with
  | QK KUnion :: r => Some (Union, r)
  | QK KExcept :: r => Some (Except, r)
  | QK KIntersect :: r => Some (Intersect, r)
  | _ => None
  end.

(** [parse_set_quantifier] (BY NAME variants are outside the alphabet) *)
Definition parse_quant (ts : list qtok) : squant * list qtok :=
  match ts with
  | QE (TKw KAll) :: r => (QAll, r)
  | QE (TKw KDistinct) :: r => (QDistinct, r)
  | _ => (QNone, ts)
  end.

(** [parse_keyword] / [consume_token]: is the next token [k]? *)
Definition opt_tok (k : qtok) (ts : list qtok) : bool * list qtok :=
  match ts with
  | t :: r => if qtok_eqb t k then (true, r) else (false, ts)
  | [] => (false, ts)
  end.
(** [parse_keywords(&[k1, k2])] *)
Definition opt_tok2 (k1 k2 : qtok) (ts : list qtok) : bool * list qtok :=
  match ts with
  | t1 :: t2 :: r => if qtok_eqb t1 k1 && qtok_eqb t2 k2 then (true, r) else (false, ts)
  | _ => (false, ts)
  end.

Section Level.
  Variable d : qdialect.
  (** the recursive calls one nesting level down: [parse_query], [parse_query_body(precedence)] *)
  Variable recq : list qtok -> res (query * list qtok).
  Variable recb : N -> list qtok -> res (setexpr * list qtok).

  (** [options.trailing_commas] while a list of this dialect is parsed *)
  Definition trail_all : option (list qtok) := if trailing d then Some (res_col d) else None.
  Definition trail_proj : option (list qtok) :=
    if trailing d || proj_trailing d then Some (res_col d) else None.

  (** [parse_expr]; with trailing commas on, an expression list ending in [, )] is not covered by
      the expression model *)
  Definition pex (ts : list qtok) : res (expr * list qtok) :=
    if trailing d && comma_rparen ts then OutOfFragment else pexpr (base d) ts.

  (** [parse_select_item]: [parse_wildcard_expr], then the wildcard options or an optional alias *)
  Definition parse_item_expr (ts : list qtok) : res (item * list qtok) :=
    bind (pex ts) (fun '(e, r1) =>
      bind (parse_alias (res_col d) r1) (fun '(a, r2) =>
        Ok (match a with Some w => IAlias e w | None => IExpr e end, r2))).

  Definition parse_item (ts : list qtok) : res (item * list qtok) :=
    match ts with
    | QE (TOp k) :: r =>
        if k =? K_Mul then
          match r with
          | QE (TKw KILike) :: _ => if wild_ilike d then OutOfFragment else Ok (IWild, r)
          | QK KExcept :: _ => if wild_except d then OutOfFragment else Ok (IWild, r)
          | _ => Ok (IWild, r)
          end
        else parse_item_expr ts
    | _ => parse_item_expr ts
    end.

  (** [parse_table_and_joins] / [parse_table_factor]: a table name or a derived table, each with an
      optional alias (join keywords are outside the alphabet) *)
  (** after a table name: [(] starts the arguments of a table function, [-] continues a hyphenated
      BigQuery name *)
  Definition table_follow (r : list qtok) : res unit :=
    match r with
    | QE TLParen :: _ => OutOfFragment
    | QE (TOp k) :: _ => if hyphen_table d && (k =? K_Minus) then OutOfFragment else Ok tt
    | _ => Ok tt
    end.

  Definition parse_tref (ts : list qtok) : res (tref setexpr * list qtok) :=
    match ts with
    | QE TLParen :: r =>
        let derived :=
          match recq r with
          | Ok (q, QE TRParen :: r1) =>
              bind (parse_talias (res_tab d) r1) (fun '(a, r2) => Ok (TDerived q a, r2))
          | Ok _ => Err
          | Err => Err
          | OutOfFragment => OutOfFragment
          | OutOfFuel => OutOfFuel
          end in
        match derived with
        | Err => if paren_tables d then OutOfFragment else Err    (* maybe_parse: nested join / (table) *)
        | x => x
        end
    | w :: r =>
        if is_word w then
          if unnest_table d && qtok_eqb w (QE (TKw KUnnest)) then OutOfFragment
          else bind (table_follow r) (fun _ =>
                 bind (parse_talias (res_tab d) r) (fun '(a, r1) => Ok (TTable w a, r1)))
        else match w with
             | QE (TAtom true _) | QOther | QE TOther => OutOfFragment
             | _ => Err
             end
    | [] => Err
    end.

  Definition opt_clause (k : qtok) (ts : list qtok) : res (option expr * list qtok) :=
    match ts with
    | t :: r => if qtok_eqb t k then bind (pex r) (fun '(e, r') => Ok (Some e, r')) else Ok (None, ts)
    | [] => Ok (None, ts)
    end.

  (** [parse_group_by_expr] *)
  Definition parse_group_elem (ts : list qtok) : res (expr * list qtok) :=
    match ts with
    | QE TLParen :: QE TRParen :: _ => if group_by_expr d then OutOfFragment else pex ts
    | _ => pex ts
    end.

  (** [parse_order_by_expr] *)
  Definition parse_order_elem (ts : list qtok) : res ((expr * option bool) * list qtok) :=
    bind (pex ts) (fun '(e, r) =>
      match r with
      | QK KAsc :: r' => Ok ((e, Some true), r')
      | QK KDesc :: r' => Ok ((e, Some false), r')
      | _ => Ok ((e, None), r)
      end).

  (** FROM <table>, ... *)
  Definition parse_from (ts : list qtok) : res (list (tref setexpr) * list qtok) :=
    let '(b, r) := opt_tok (QE (TKw KFrom)) ts in
    if b then comma_list parse_tref trail_all (S (length r)) r else Ok ([], ts).

  (** [parse_optional_group_by] *)
  Definition parse_group_by (ts : list qtok) : res (list expr * list qtok) :=
    let '(b, r) := opt_tok2 (QK KGroup) (QK KBy) ts in
    if b then
      (if fst (opt_tok (QE (TKw KAll)) r) then OutOfFragment            (* GROUP BY ALL *)
       else comma_list parse_group_elem trail_all (S (length r)) r)
    else Ok ([], ts).

  (** [parse_optional_order_by] *)
  Definition parse_order_by (ts : list qtok) : res (list (expr * option bool) * list qtok) :=
    let '(o, r) := opt_tok2 (QK KOrder) (QK KBy) ts in
    if o then comma_list parse_order_elem trail_all (S (length r)) r else Ok ([], ts).

  (** [parse_select], after SELECT *)
  Definition parse_select (ts : list qtok) : res (setexpr * list qtok) :=
    if fst (opt_tok (QK KAs) ts) then
      (if select_as d then Err else OutOfFragment)                (* VALUE / STRUCT are not in the alphabet *)
    else
    let '(all, ts1) := opt_tok (QE (TKw KAll)) ts in
    let '(dist, ts2) := opt_tok (QE (TKw KDistinct)) ts1 in
    if all && dist then Err
    else if proj_trailing d && comma_rparen ts2 then OutOfFragment
    else
    bind (comma_list parse_item trail_proj (S (length ts2)) ts2) (fun '(items, ts3) =>
    bind (parse_from ts3) (fun '(from, ts4) =>
    bind (opt_clause (QK KWhere) ts4) (fun '(wh, ts5) =>
    bind (parse_group_by ts5) (fun '(gb, ts6) =>
    bind (opt_clause (QK KHaving) ts6) (fun '(hv, ts7) =>
      Ok (BSelect dist items from wh gb hv, ts7)))))).

  (** the operand of [parse_query_body] *)
  Definition parse_operand (ts : list qtok) : res (setexpr * list qtok) :=
    match ts with
    | QK KSelect :: r => parse_select r
    | QE TLParen :: r =>
        bind (recq r) (fun '(q, r1) =>
          match r1 with
          | QE TRParen :: r2 => Ok (BNested q, r2)
          | _ => Err
          end)
    | _ => Err
    end.

  (** [parse_remaining_set_exprs]; the binding powers 10 / 10 / 20 are literals in the code *)
  Fixpoint bloop (g : nat) (p : N) (e : setexpr) (ts : list qtok) : res (setexpr * list qtok) :=
    match g with
    | O => OutOfFuel
    | S g' =>
        match set_op_of ts with
        | Some (o, ts1) =>
            if sp_pinned o <=? p then Ok (e, ts)
            else
              let '(q, ts2) := parse_quant ts1 in
              bind (recb (sp_pinned o) ts2) (fun '(r, ts3) => bloop g' p (BSetOp o q e r) ts3)
        | None => Ok (e, ts)
        end
    end.

  (** [parse_query_body(precedence)] *)
  Definition body_step (p : N) (ts : list qtok) : res (setexpr * list qtok) :=
    bind (parse_operand ts) (fun '(e, r) => bloop (S (length r)) p e r).

  (** one turn of the LIMIT / OFFSET loop of [parse_query] *)
  Definition limit_iter (st : option expr * option expr) (ts : list qtok)
    : res ((option expr * option expr) * list qtok) :=
    let '(lim, off) := st in
    bind (match lim with
          | None =>
              let '(b, r) := opt_tok (QK KLimit) ts in
              if b then
                (let '(a, r') := opt_tok (QE (TKw KAll)) r in
                 if a then Ok (None, r')                                   (* LIMIT ALL *)
                 else bind (pex r) (fun '(e, r2) => Ok (Some e, r2)))
              else Ok (lim, ts)
          | Some _ => Ok (lim, ts)
          end) (fun '(lim1, ts1) =>
    bind (match off with
          | None =>
              let '(b, r) := opt_tok (QK KOffset) ts1 in
              if b then bind (pex r) (fun '(e, r2) => Ok (Some e, r2)) else Ok (off, ts1)
          | Some _ => Ok (off, ts1)
          end) (fun '(off1, ts2) =>
    match lim1, off1 with
    | Some l, None =>
        let '(b, r) := opt_tok (QE TComma) ts2 in
        if limit_comma d && b then bind (pex r) (fun '(e, r2) => Ok ((Some e, Some l), r2))
        else Ok ((lim1, off1), ts2)
    | _, _ => Ok ((lim1, off1), ts2)
    end)).

  (** [parse_query] (no WITH / INSERT / UPDATE: outside the alphabet) *)
  Definition query_step (ts : list qtok) : res (query * list qtok) :=
    bind (body_step (lvl (base d) K_UNKNOWN) ts) (fun '(b, ts1) =>
    bind (parse_order_by ts1) (fun '(ob, ts2) =>
    bind (limit_iter (None, None) ts2) (fun '(st1, ts3) =>
    bind (limit_iter st1 ts3) (fun '(st2, ts4) =>
      if limit_by d && fst (opt_tok (QK KBy) ts4) then OutOfFragment
      else Ok (Query b ob (fst st2) (snd st2), ts4))))).
End Level.

Fixpoint parse_lvl (d : qdialect) (fuel : nat)
  : (list qtok -> res (query * list qtok)) * (N -> list qtok -> res (setexpr * list qtok)) :=
  match fuel with
  | O => (fun _ => OutOfFuel, fun _ _ => OutOfFuel)
  | S f =>
      let lower := parse_lvl d f in
      (query_step d (fst lower) (snd lower), body_step d (fst lower) (snd lower))
  end.

Definition parse_query (d : qdialect) (fuel : nat) : list qtok -> res (query * list qtok) :=
  fst (parse_lvl d fuel).
Definition parse_body (d : qdialect) (fuel : nat) : N -> list qtok -> res (setexpr * list qtok) :=
  snd (parse_lvl d fuel).

Definition is_qother (t : qtok) : bool :=
  match t with QOther | QE TOther => true | _ => false end.

(** [Parser::parse_query] on a token list; a token outside the alphabet anywhere: out of the fragment *)
Definition parse_query_top (d : qdialect) (ts : list qtok) : res (query * list qtok) :=
  if existsb is_qother ts then OutOfFragment else parse_query d (S (length ts)) ts.

(** * Boolean equality on trees *)
Fixpoint list_eqb {A} (f : A -> A -> bool) (l m : list A) : bool :=
  match l, m with
  | [], [] => true
  | x :: l', y :: m' => f x y && list_eqb f l' m'
  | _, _ => false
  end.
Definition opt_eqb {A} (f : A -> A -> bool) (a b : option A) : bool :=
  match a, b with
  | None, None => true
  | Some x, Some y => f x y
  | _, _ => false
  end.

Definition item_eqb (a b : item) : bool :=
  match a, b with
  | IWild, IWild => true
  | IExpr e, IExpr e' => expr_eqb e e'
  | IAlias e w, IAlias e' w' => expr_eqb e e' && qtok_eqb w w'
  | _, _ => false
  end.
Definition order_eqb (a b : expr * option bool) : bool :=
  expr_eqb (fst a) (fst b) && opt_eqb Bool.eqb (snd a) (snd b).

Fixpoint setexpr_eqb (a b : setexpr) {struct a} : bool :=
  match a, b with
  | BSelect dist items from wh gb hv, BSelect dist' items' from' wh' gb' hv' =>
      Bool.eqb dist dist' && list_eqb item_eqb items items' &&
      (fix go (l m : list (tref setexpr)) {struct l} : bool :=
         match l, m with
         | [], [] => true
         | t :: l', t' :: m' =>
             match t, t' with
             | TTable n al, TTable n' al' => qtok_eqb n n' && opt_eqb qtok_eqb al al'
             | TDerived (Query x ob lim off) al, TDerived (Query x' ob' lim' off') al' =>
                 setexpr_eqb x x' && list_eqb order_eqb ob ob' && opt_eqb expr_eqb lim lim' &&
                 opt_eqb expr_eqb off off' && opt_eqb qtok_eqb al al'
             | _, _ => false
             end && go l' m'
         | _, _ => false
         end) from from' &&
      opt_eqb expr_eqb wh wh' && list_eqb expr_eqb gb gb' && opt_eqb expr_eqb hv hv'
  | BSetOp o q l r, BSetOp o' q' l' r' =>
      setop_eqb o o' && squant_eqb q q' && setexpr_eqb l l' && setexpr_eqb r r'
  | BNested (Query x ob lim off), BNested (Query x' ob' lim' off') =>
      setexpr_eqb x x' && list_eqb order_eqb ob ob' && opt_eqb expr_eqb lim lim' && opt_eqb expr_eqb off off'
  | _, _ => false
  end.

Definition query_eqb (q q' : query) : bool :=
  match q, q' with
  | Query x ob lim off, Query x' ob' lim' off' =>
      setexpr_eqb x x' && list_eqb order_eqb ob ob' && opt_eqb expr_eqb lim lim' && opt_eqb expr_eqb off off'
  end.

Fixpoint qtoks_eqb (a b : list qtok) : bool :=
  match a, b with
  | [], [] => true
  | x :: a', y :: b' => qtok_eqb x y && qtoks_eqb a' b'
  | _, _ => false
  end.

(** * Canonical spelling of the expressions inside a query ([PrinterCore.norm]) *)
Definition item_norm (i : item) : item :=
  match i with IWild => IWild | IExpr e => IExpr (norm e) | IAlias e w => IAlias (norm e) w end.
Definition order_norm (x : expr * option bool) := (norm (fst x), snd x).

Fixpoint bnorm (b : setexpr) : setexpr :=
  match b with
  | BSelect dist items from wh gb hv =>
      BSelect dist (map item_norm items)
        (map (fun t => match t with
                       | TTable n a => TTable n a
                       | TDerived (Query b' ob lim off) a =>
                           TDerived (Query (bnorm b') (map order_norm ob) (option_map norm lim) (option_map norm off)) a
                       end) from)
        (option_map norm wh) (map norm gb) (option_map norm hv)
  | BSetOp o q l r => BSetOp o q (bnorm l) (bnorm r)
  | BNested (Query b' ob lim off) =>
      BNested (Query (bnorm b') (map order_norm ob) (option_map norm lim) (option_map norm off))
  end.
Definition qnorm (q : query) : query :=
  match q with
  | Query b ob lim off => Query (bnorm b) (map order_norm ob) (option_map norm lim) (option_map norm off)
  end.

(** * Evaluation of one correspondence case inside the kernel (lib/props/c01query.py).
    [ts]: the crate's tokens of the input; [i]: what [Parser::parse_query] returned (tree and number of
    unconsumed tokens, or an error); [pt]: the crate's tokens of the printed tree.
    Bits: 1 = model parser and implementation disagree on the input; 2 = [qtoks] of the
    implementation's tree differs from the tokens of the text Display printed; 4 = the model does not
    parse [qtoks tree] back to the (canonically spelled) tree; 8 = input outside the fragment. *)
Inductive qires := QIOk (q : query) (nrest : nat) (pt : list qtok) | QIErr | QIBad.

Definition qcase_core (d : qdialect) (ts : list qtok) (i : qires) : N :=
  match parse_query_top d ts, i with
  | OutOfFragment, _ => 8
  | _, QIBad => 8
  | Ok (q, rest), QIOk q' n pt =>
      (if query_eqb q q' && Nat.eqb (length rest) n then 0 else 1) +
      (if qtoks_eqb (qtoks q') pt then 0 else 2) +
      (match parse_query_top d (qtoks q') with
       | Ok (q2, []) => if query_eqb q2 (qnorm q') then 0 else 4
       | _ => 4
       end)
  | Err, QIErr => 0
  | _, _ => 1
  end.
