(** Proofs about the lexer model (Lexer.v): every scanner returns a suffix of its input, the
    dispatcher makes progress, fuel is adequate, tokens tile the input and carry the positions
    of their first characters, positions increase strictly, suffixes re-lex. *)
Require Import SqlV.Base SqlV.Lexer.
From Coq Require Import ZArith ZifyBool ZifyN ZifyNat Arith.
Local Open Scope N_scope.

(** * Suffixes *)
Definition Suffix (r l : str) : Prop := exists c, l = c ++ r.

Lemma Suffix_refl l : Suffix l l.
Proof. exists []. reflexivity. Qed.
Lemma Suffix_cons r l c : Suffix r l -> Suffix r (c :: l).
Proof. intros [x ->]. exists (c :: x). reflexivity. Qed.
Lemma Suffix_trans a b c : Suffix a b -> Suffix b c -> Suffix a c.
Proof. intros [x ->] [y ->]. exists (y ++ x). rewrite app_assoc. reflexivity. Qed.
Lemma Suffix_tl l : Suffix (tl l) l.
Proof. destruct l as [|c l]; cbn [tl]. apply Suffix_refl. apply Suffix_cons, Suffix_refl. Qed.
Lemma Suffix_nil l : Suffix [] l.
Proof. exists l. rewrite app_nil_r. reflexivity. Qed.
Lemma Suffix_length r l : Suffix r l -> (length r <= length l)%nat.
Proof. intros [c ->]. rewrite app_length. lia. Qed.
Lemma Suffix_tl_l r l : Suffix r (tl l) -> Suffix r l.
Proof. intro H. eapply Suffix_trans; [exact H|apply Suffix_tl]. Qed.
Lemma Suffix_tl_r r l : Suffix r l -> Suffix (tl r) l.
Proof. intro H. eapply Suffix_trans; [apply Suffix_tl|exact H]. Qed.
#[export] Hint Resolve Suffix_refl Suffix_cons Suffix_tl Suffix_nil Suffix_tl_l Suffix_tl_r : sfx.

(** Strict suffix: at least one character was consumed. *)
Definition SSuffix (r l : str) : Prop := exists c, c <> [] /\ l = c ++ r.
Lemma SSuffix_cons r l c : Suffix r l -> SSuffix r (c :: l).
Proof. intros [x ->]. exists (c :: x). split; [discriminate|reflexivity]. Qed.
Lemma SSuffix_Suffix r l : SSuffix r l -> Suffix r l.
Proof. intros (c & _ & ->). exists c. reflexivity. Qed.
Lemma SSuffix_length r l : SSuffix r l -> (length r < length l)%nat.
Proof. intros (c & Hc & ->). rewrite app_length. destruct c; [congruence|cbn [length]; lia]. Qed.
Lemma Suffix_lt_SSuffix r l : Suffix r l -> (length r < length l)%nat -> SSuffix r l.
Proof. intros [c ->] H. exists c. split; [|reflexivity]. intros ->. cbn in H. lia. Qed.
Lemma SSuffix_trans_l a b c : SSuffix a b -> Suffix b c -> SSuffix a c.
Proof. intros H1 H2. apply Suffix_lt_SSuffix.
  - eapply Suffix_trans; [apply SSuffix_Suffix; eauto|eauto].
  - apply SSuffix_length in H1. apply Suffix_length in H2. lia. Qed.
Lemma SSuffix_trans_r a b c : Suffix a b -> SSuffix b c -> SSuffix a c.
Proof. intros H1 H2. apply Suffix_lt_SSuffix.
  - eapply Suffix_trans; [eauto|apply SSuffix_Suffix; eauto].
  - apply SSuffix_length in H2. apply Suffix_length in H1. lia. Qed.

(** * Scanners return suffixes *)
Lemma take_while_app p l a b : take_while p l = (a, b) -> l = a ++ b.
Proof.
  revert a b; induction l as [|c l IH]; cbn [take_while]; intros a b H.
  - inversion H; reflexivity.
  - destruct (p c).
    + destruct (take_while p l) as [a' b'] eqn:E. inversion H; subst. cbn. f_equal. apply IH; reflexivity.
    + inversion H; subst. reflexivity.
Qed.
Lemma take_while_suffix p l a b : take_while p l = (a, b) -> Suffix b l.
Proof. intro H. exists a. eapply take_while_app; eauto. Qed.
Lemma take_while_all p l a b : take_while p l = (a, b) -> forallb p a = true.
Proof.
  revert a b; induction l as [|c l IH]; cbn [take_while]; intros a b H.
  - inversion H; reflexivity.
  - destruct (p c) eqn:Ep.
    + destruct (take_while p l) as [a' b'] eqn:E. inversion H; subst. cbn. rewrite Ep. eapply IH; eauto.
    + inversion H; subst. reflexivity.
Qed.
Lemma take_while_stop p l a b : take_while p l = (a, b) ->
  match b with [] => True | c :: _ => p c = false end.
Proof.
  revert a b; induction l as [|c l IH]; cbn [take_while]; intros a b H.
  - inversion H; exact I.
  - destruct (p c) eqn:Ep.
    + destruct (take_while p l) as [a' b'] eqn:E. inversion H; subst. eapply IH; eauto.
    + inversion H; subst. exact Ep.
Qed.
Lemma take_while_nonempty p c l a b : p c = true -> take_while p (c :: l) = (a, b) -> a <> [].
Proof. cbn [take_while]. intros ->. destruct (take_while p l). intros [= <- _]. discriminate. Qed.

(** Induction on the length of the input (scanners recurse two characters ahead). *)
Lemma len_ind (P : str -> Prop) :
  (forall l, (forall l', (length l' < length l)%nat -> P l') -> P l) -> forall l, P l.
Proof.
  intros H l. remember (length l) as n eqn:E. revert l E.
  induction n as [n IH] using lt_wf_ind. intros l ->. apply H. intros l' Hl. eapply IH; eauto.
Qed.

Section Scanners.
  Variable d : dialect.
  Variable u : uni.
  Variable unesc : bool.

  Lemma tokenize_word_suffix f l w r : tokenize_word d f l = (w, r) -> Suffix r l.
  Proof. unfold tokenize_word. destruct (take_while _ l) eqn:E. intros [= _ <-].
    eapply take_while_suffix; eauto. Qed.

  Lemma ident_or_keyword_suffix chs l t r : ident_or_keyword d chs l = (t, r) -> Suffix r (tl l).
  Proof.
    unfold ident_or_keyword. destruct (tokenize_word d chs (tl l)) as [w r0] eqn:E.
    apply tokenize_word_suffix in E.
    destruct (forallb _ w).
    - destruct (take_while _ w). destruct (take_while _ r0) eqn:E2. intros [= _ <-].
      eapply Suffix_trans; [eapply take_while_suffix; eauto|exact E].
    - intros [= _ <-]. exact E.
  Qed.

  Lemma start_binop_suffix p f l t r : start_binop d p f l = (t, r) -> Suffix r l.
  Proof. unfold start_binop. destruct (take_while _ l) as [o r0] eqn:E.
    apply take_while_suffix in E. destruct o; intros [= _ <-]; exact E. Qed.
  Lemma consume_for_binop_suffix p f l t r : consume_for_binop d p f l = (t, r) -> Suffix r (tl l).
  Proof. apply start_binop_suffix. Qed.

  Lemma line_comment_suffix l c r : line_comment l = Ok (c, r) -> Suffix r l.
  Proof. unfold line_comment. destruct (take_while _ l) as [a b] eqn:E.
    apply take_while_suffix in E. destruct b as [|ch b'].
    - intros [= _ <-]. exact E.
    - destruct (ch =? cLF); [|discriminate]. intros [= _ <-]. eapply Suffix_trans; [|exact E]. auto with sfx. Qed.
  Lemma line_comment_no_err l : (forall e a, line_comment l <> Err e a) /\ (forall w, line_comment l <> Panic w).
  Proof. unfold line_comment. destruct (take_while _ l) as [a b] eqn:E.
    pose proof (take_while_stop _ _ _ _ E) as Hs. destruct b as [|ch b']; [split; discriminate|].
    cbn in Hs. apply negb_false_iff in Hs. rewrite Hs. split; discriminate. Qed.

  Lemma ml_loop_suffix : forall l last n s r, ml_loop last n l = Some (s, r) -> Suffix r l.
  Proof.
    induction l as [|ch l IH]; cbn [ml_loop]; intros last n s r H; [discriminate|].
    destruct ((last =? cSLASH) && (ch =? cSTAR)).
    { destruct (ml_loop ch (n + 1) l) as [[s' r']|] eqn:E; [|discriminate]. inversion H; subst.
      apply Suffix_cons. eapply IH; eauto. }
    destruct ((last =? cSTAR) && (ch =? cSLASH)).
    { destruct (n - 1 =? 0).
      - inversion H; subst. auto with sfx.
      - destruct (ml_loop ch (n - 1) l) as [[s' r']|] eqn:E; [|discriminate]. inversion H; subst.
        apply Suffix_cons. eapply IH; eauto. }
    destruct (ml_loop ch n l) as [[s' r']|] eqn:E; [|discriminate]. inversion H; subst.
    apply Suffix_cons. eapply IH; eauto.
  Qed.

  Lemma qs_loop_suffix q many bs : forall l ncq s r, qs_loop unesc q many bs ncq l = Some (s, r) -> Suffix r l.
  Proof.
    induction l as [l IH] using len_ind. intros ncq s r H. destruct l as [|ch l]; [discriminate|].
    cbn [qs_loop] in H.
    destruct ((ch =? q) && (if many then ncq + 1 =? 3 else true)).
    { destruct many; [inversion H; subst; auto with sfx|].
      destruct l as [|c2 r2]; [inversion H; subst; auto with sfx|].
      destruct (c2 =? q); [|inversion H; subst; auto with sfx].
      destruct (qs_loop unesc q false bs ncq r2) as [[s' r']|] eqn:E; [|discriminate].
      inversion H; subst. do 2 apply Suffix_cons. eapply IH; [|eauto]. cbn [length]. lia. }
    destruct ((ch =? cBSL) && bs).
    { destruct l as [|nx r2]; [discriminate|].
      destruct (qs_loop unesc q many bs 0 r2) as [[s' r']|] eqn:E; [|discriminate].
      inversion H; subst. do 2 apply Suffix_cons. eapply IH; [|eauto]. cbn [length]. lia. }
    destruct (qs_loop unesc q many bs _ l) as [[s' r']|] eqn:E; [|discriminate].
    inversion H; subst. apply Suffix_cons. eapply IH; [|eauto]. cbn [length]. lia.
  Qed.

  Lemma single_quoted_suffix q bs l s r : single_quoted unesc q bs l = Ok (s, r) -> SSuffix r l.
  Proof. unfold single_quoted. destruct l as [|c l]; [discriminate|]. destruct (c =? q); [|discriminate].
    destruct (qs_loop unesc q false bs 0 l) as [[s' r']|] eqn:E; [|discriminate]. intros [= _ <-].
    apply SSuffix_cons. eapply qs_loop_suffix; eauto. Qed.
  Lemma single_quoted_err q bs l e a : single_quoted unesc q bs l = Err e a -> Suffix a l.
  Proof. unfold single_quoted. destruct l as [|c l]; [intros [= _ <-]; auto with sfx|].
    destruct (c =? q); [|intros [= _ <-]; auto with sfx].
    destruct (qs_loop unesc q false bs 0 l) as [[s' r']|]; [discriminate|]. intros [= _ <-]. auto with sfx. Qed.
  Lemma single_quoted_no_panic q bs l w : single_quoted unesc q bs l <> Panic w.
  Proof. unfold single_quoted. destruct l as [|c l]; [discriminate|]. destruct (c =? q); [|discriminate].
    destruct (qs_loop unesc q false bs 0 l) as [[s' r']|]; discriminate. Qed.

  Lemma single_or_triple_suffix q bs k1 k3 l t r : single_or_triple unesc q bs k1 k3 l = Ok (t, r) -> SSuffix r l.
  Proof.
    unfold single_or_triple. destruct l as [|c1 r1]; [discriminate|]. destruct (c1 =? q); [|discriminate].
    destruct r1 as [|c2 r2].
    { destruct (qs_loop unesc q false bs 0 []) as [[s' r']|] eqn:E; [|discriminate]. intros [= _ <-].
      apply SSuffix_cons. eapply qs_loop_suffix; eauto. }
    destruct (c2 =? q).
    - destruct r2 as [|c3 r3]; [intros [= _ <-]; apply SSuffix_cons; auto with sfx|].
      destruct (c3 =? q).
      + destruct (qs_loop unesc q true bs 0 r3) as [[s' r']|] eqn:E; [|discriminate]. intros [= _ <-].
        apply SSuffix_cons. do 2 apply Suffix_cons. eapply qs_loop_suffix; eauto.
      + intros [= _ <-]. apply SSuffix_cons. auto with sfx.
    - destruct (qs_loop unesc q false bs 0 (c2 :: r2)) as [[s' r']|] eqn:E; [|discriminate]. intros [= _ <-].
      apply SSuffix_cons. eapply qs_loop_suffix; eauto.
  Qed.
  Lemma single_or_triple_err q bs k1 k3 l e a : single_or_triple unesc q bs k1 k3 l = Err e a -> Suffix a l.
  Proof.
    unfold single_or_triple. destruct l as [|c1 r1]; [intros [= _ <-]; auto with sfx|].
    destruct (c1 =? q); [|intros [= _ <-]; auto with sfx].
    destruct r1 as [|c2 r2].
    { destruct (qs_loop unesc q false bs 0 []) as [[s' r']|]; [discriminate|]. intros [= _ <-]. auto with sfx. }
    destruct (c2 =? q).
    - destruct r2 as [|c3 r3]; [discriminate|]. destruct (c3 =? q); [|discriminate].
      destruct (qs_loop unesc q true bs 0 r3) as [[s' r']|]; [discriminate|]. intros [= _ <-]. auto with sfx.
    - destruct (qs_loop unesc q false bs 0 (c2 :: r2)) as [[s' r']|]; [discriminate|]. intros [= _ <-]. auto with sfx.
  Qed.
  Lemma single_or_triple_no_panic q bs k1 k3 l w : single_or_triple unesc q bs k1 k3 l <> Panic w.
  Proof.
    unfold single_or_triple. destruct l as [|c1 r1]; [discriminate|]. destruct (c1 =? q); [|discriminate].
    destruct r1 as [|c2 r2].
    { destruct (qs_loop unesc q false bs 0 []) as [[s' r']|]; discriminate. }
    destruct (c2 =? q).
    - destruct r2 as [|c3 r3]; [discriminate|]. destruct (c3 =? q); [|discriminate].
      destruct (qs_loop unesc q true bs 0 r3) as [[s' r']|]; discriminate.
    - destruct (qs_loop unesc q false bs 0 (c2 :: r2)) as [[s' r']|]; discriminate.
  Qed.

  Lemma quoted_ident_suffix qe : forall l s r, quoted_ident unesc qe l = Some (s, r) -> Suffix r l.
  Proof.
    induction l as [l IH] using len_ind. intros s r H. destruct l as [|ch l]; [discriminate|].
    cbn [quoted_ident] in H. destruct (ch =? qe).
    - destruct l as [|c2 r2]; [inversion H; subst; auto with sfx|].
      destruct (c2 =? qe); [|inversion H; subst; auto with sfx].
      destruct (quoted_ident unesc qe r2) as [[s' r']|] eqn:E; [|discriminate].
      inversion H; subst. do 2 apply Suffix_cons. eapply IH; [|eauto]. cbn [length]. lia.
    - destruct (quoted_ident unesc qe l) as [[s' r']|] eqn:E; [|discriminate].
      inversion H; subst. apply Suffix_cons. eapply IH; [|eauto]. cbn [length]. lia.
  Qed.

  (** Escaped strings *)
  Lemma take_upto_suffix k p : forall l a b, take_upto k p l = (a, b) -> Suffix b l.
  Proof.
    induction k as [|k IH]; intros l a b; cbn [take_upto].
    - intros [= _ <-]; auto with sfx.
    - destruct l as [|c r]; [intros [= _ <-]; auto with sfx|].
      destruct (p c); [|intros [= _ <-]; auto with sfx].
      destruct (take_upto k p r) as [a' b'] eqn:E. intros [= _ <-]. apply Suffix_cons. eapply IH; eauto.
  Qed.
  Lemma take_exact_suffix k : forall l a b, take_exact k l = Some (a, b) -> Suffix b l.
  Proof.
    induction k as [|k IH]; intros l a b; cbn [take_exact].
    - intros [= _ <-]; auto with sfx.
    - destruct l as [|c r]; [discriminate|].
      destruct (take_exact k r) as [[a' b']|] eqn:E; [|discriminate]. intros [= _ <-].
      apply Suffix_cons. eapply IH; eauto.
  Qed.
  Lemma unescape_unicode_suffix k l n r : unescape_unicode k l = Some (n, r) -> Suffix r l.
  Proof. unfold unescape_unicode. destruct (take_exact k l) as [[a b]|] eqn:E; [|discriminate].
    destruct (from_str_radix _ _ a); [|discriminate]. destruct (valid_scalar _); [|discriminate].
    intros [= _ <-]. eapply take_exact_suffix; eauto. Qed.
  Lemma esc_one_suffix l n r : esc_one l = Some (n, r) -> SSuffix r l.
  Proof.
    unfold esc_one. destruct l as [|c l]; [discriminate|].
    repeat match goal with
    | |- (if ?b then _ else _) = _ -> _ => destruct b
    | |- Some (_, _) = Some (_, _) -> _ => intros [= _ <-]; apply SSuffix_cons; auto with sfx
    end.
    - intro H. apply SSuffix_cons. eapply unescape_unicode_suffix; eauto.
    - intro H. apply SSuffix_cons. eapply unescape_unicode_suffix; eauto.
    - destruct (take_upto 2 is_hexdigit l) as [a b] eqn:E. apply take_upto_suffix in E.
      destruct a; [intros [= _ <-]; apply SSuffix_cons; auto|].
      destruct (byte_to_char _ _ _); [|discriminate]. intros [= _ <-]; apply SSuffix_cons; auto.
    - destruct (take_upto 2 is_octal l) as [a b] eqn:E. apply take_upto_suffix in E.
      destruct (byte_to_char _ _ _); [|discriminate]. intros [= _ <-]; apply SSuffix_cons; auto.
  Qed.

  Lemma esc_loop_suffix : forall f l s r, esc_loop f l = Some (s, r) -> Suffix r l.
  Proof.
    induction f as [|f IH]; intros l s r; cbn [esc_loop]; [discriminate|].
    destruct l as [|c l]; [discriminate|].
    destruct (c =? cSQ).
    { destruct l as [|c2 r2]; [intros [= _ <-]; auto with sfx|].
      destruct (c2 =? cSQ); [|intros [= _ <-]; auto with sfx].
      destruct (esc_loop f r2) as [[s' r']|] eqn:E; [|discriminate]. intros [= _ <-].
      do 2 apply Suffix_cons. eapply IH; eauto. }
    destruct (negb (c =? cBSL)).
    { destruct (esc_loop f l) as [[s' r']|] eqn:E; [|discriminate]. intros [= _ <-].
      apply Suffix_cons. eapply IH; eauto. }
    destruct (esc_one l) as [[n r1]|] eqn:E1; [|discriminate].
    destruct (n =? 0); [discriminate|].
    destruct (esc_loop f r1) as [[s' r']|] eqn:E; [|discriminate]. intros [= _ <-].
    apply Suffix_cons. eapply Suffix_trans; [eapply IH; eauto|]. apply SSuffix_Suffix. eapply esc_one_suffix; eauto.
  Qed.

  (** fuel adequacy for [esc_loop]: more fuel than characters never changes the answer *)
  Lemma esc_loop_fuel : forall f l, (length l < f)%nat -> forall k, esc_loop (f + k) l = esc_loop f l.
  Proof.
    induction f as [|f IH]; intros l Hl k; [lia|]. cbn [esc_loop Nat.add].
    destruct l as [|c l]; [reflexivity|]. cbn [length] in Hl.
    destruct (c =? cSQ).
    { destruct l as [|c2 r2]; [reflexivity|]. destruct (c2 =? cSQ); [|reflexivity].
      rewrite IH by (cbn [length] in Hl; lia). reflexivity. }
    destruct (negb (c =? cBSL)).
    { rewrite IH by lia. reflexivity. }
    destruct (esc_one l) as [[n r1]|] eqn:E1; [|reflexivity].
    destruct (n =? 0); [reflexivity|].
    apply esc_one_suffix, SSuffix_length in E1. rewrite IH by lia. reflexivity.
  Qed.

  (** Unicode strings *)
  Lemma hex_digits_suffix : forall k acc l n r, hex_digits k acc l = Ok (n, r) -> Suffix r l.
  Proof.
    induction k as [|k IH]; intros acc l n r; cbn [hex_digits].
    - destruct (valid_scalar acc); [|discriminate]. intros [= _ <-]; auto with sfx.
    - destruct l as [|c l]; [discriminate|]. destruct (is_hexdigit c); [|discriminate].
      intro H. apply Suffix_cons. eapply IH; eauto.
  Qed.
  Lemma hex_digits_err : forall k acc l e a, hex_digits k acc l = Err e a -> Suffix a l.
  Proof.
    induction k as [|k IH]; intros acc l e a; cbn [hex_digits].
    - destruct (valid_scalar acc); [discriminate|]. intros [= _ <-]; auto with sfx.
    - destruct l as [|c l]; [intros [= _ <-]; auto with sfx|]. destruct (is_hexdigit c).
      + intro H. apply Suffix_cons. eapply IH; eauto.
      + intros [= _ <-]. auto with sfx.
  Qed.
  Lemma hex_digits_no_panic : forall k acc l w, hex_digits k acc l <> Panic w.
  Proof.
    induction k as [|k IH]; intros acc l w; cbn [hex_digits].
    - destruct (valid_scalar acc); discriminate.
    - destruct l as [|c l]; [discriminate|]. destruct (is_hexdigit c); [apply IH|discriminate].
  Qed.

  Lemma uni_loop_suffix : forall f l,
    match uni_loop f l with
    | Ok (s, r) => Suffix r l
    | Err e a => Suffix a l
    | Panic w => (f <= length l)%nat
    end.
  Proof.
    induction f as [|f IH]; intros l; cbn [uni_loop]; [lia|].
    destruct l as [|c l]; [auto with sfx|].
    destruct (c =? cSQ).
    { destruct l as [|c2 r2]; [auto with sfx|]. destruct (c2 =? cSQ); [|auto with sfx].
      specialize (IH r2). destruct (uni_loop f r2) as [[s r]|e a|w]; cbn [length] in *; auto with sfx; lia. }
    destruct (c =? cBSL).
    { assert (Hstep : forall x l0, Suffix l0 l ->
        (match x with Ok (n, r1) => Suffix r1 l0 | Err e a => Suffix a l0 | Panic w => False end) ->
        match (match x with
               | Ok (n, r1) => match uni_loop f r1 with
                               | Ok (s, r') => Ok (n :: s, r') | Err e a => Err e a | Panic w => Panic w end
               | Err e a => Err e a | Panic w => Panic w end) with
        | Ok (s, r) => Suffix r (c :: l) | Err e a => Suffix a (c :: l) | Panic w => (S f <= length (c :: l))%nat end).
      { intros x l0 Hl0 Hx. destruct x as [[n r1]|e a|w]; [|apply Suffix_cons; eapply Suffix_trans; eauto|contradiction].
        specialize (IH r1). pose proof (Suffix_trans _ _ _ Hx Hl0) as H1.
        destruct (uni_loop f r1) as [[s r]|e a|w]; try (apply Suffix_cons; eapply Suffix_trans; eauto).
        apply Suffix_length in H1. cbn [length] in *. 
        (* r1 is a suffix of c::l; panic needs f <= length r1 <= length (c::l) *)
        lia. }
      destruct l as [|c2 r2].
      { apply (Hstep (hex_digits 4 0 []) []); [auto with sfx|]. cbn. auto with sfx. }
      destruct (c2 =? cBSL).
      { specialize (IH r2). destruct (uni_loop f r2) as [[s r]|e a|w]; cbn [length] in *; auto with sfx; lia. }
      destruct (c2 =? cPLUS).
      - apply (Hstep (hex_digits 6 0 r2) r2); [auto with sfx|].
        destruct (hex_digits 6 0 r2) as [[n r1]|e a|w] eqn:E.
        + eapply hex_digits_suffix; eauto. + eapply hex_digits_err; eauto. + eapply hex_digits_no_panic; eauto.
      - apply (Hstep (hex_digits 4 0 (c2 :: r2)) (c2 :: r2)); [auto with sfx|].
        destruct (hex_digits 4 0 (c2 :: r2)) as [[n r1]|e a|w] eqn:E.
        + eapply hex_digits_suffix; eauto. + eapply hex_digits_err; eauto. + eapply hex_digits_no_panic; eauto. }
    specialize (IH l). destruct (uni_loop f l) as [[s r]|e a|w]; cbn [length] in *; auto with sfx; lia.
  Qed.

  (** Dollar-quoted strings *)
  Lemma dq_loop_suffix : forall l prev s r, dq_loop prev l = Some (s, r) -> Suffix r l.
  Proof.
    induction l as [|ch l IH]; intros prev s r; cbn [dq_loop]; [discriminate|].
    destruct prev as [p|].
    - destruct (p =? cDOLLAR).
      + destruct (ch =? cDOLLAR); [intros [= _ <-]; auto with sfx|].
        destruct (dq_loop (Some ch) l) as [[s' r']|] eqn:E; [|discriminate]. intros [= _ <-].
        apply Suffix_cons. eapply IH; eauto.
      + destruct (negb (ch =? cDOLLAR)).
        * destruct (dq_loop (Some ch) l) as [[s' r']|] eqn:E; [|discriminate]. intros [= _ <-].
          apply Suffix_cons. eapply IH; eauto.
        * intro H. apply Suffix_cons. eapply IH; eauto.
    - destruct (negb (ch =? cDOLLAR)).
      + destruct (dq_loop (Some ch) l) as [[s' r']|] eqn:E; [|discriminate]. intros [= _ <-].
        apply Suffix_cons. eapply IH; eauto.
      + intro H. apply Suffix_cons. eapply IH; eauto.
  Qed.

  Lemma match_tag_suffix : forall tag l,
    match match_tag tag l with
    | TagEq r => Suffix r l
    | TagNe ms r => SSuffix r l
    | TagEof => True
    end.
  Proof.
    induction tag as [|c tag IH]; intros l; cbn [match_tag]; [auto with sfx|].
    destruct l as [|nc r]; [exact I|]. destruct (nc =? c).
    - specialize (IH r). destruct (match_tag tag r); auto with sfx.
      apply SSuffix_cons. apply SSuffix_Suffix; auto.
    - apply SSuffix_cons; auto with sfx.
  Qed.

  Lemma tagged_loop_suffix : forall f tag l,
    match tagged_loop f tag l with
    | Ok (s, r) => Suffix r l
    | Err e a => Suffix a l
    | Panic w => (f <= length l)%nat
    end.
  Proof.
    induction f as [|f IH]; intros tag l; cbn [tagged_loop]; [lia|].
    destruct (take_while _ l) as [pre r] eqn:E. pose proof (take_while_suffix _ _ _ _ E) as Hr.
    destruct r as [|dl r1]; [auto with sfx|].
    assert (Hr1 : SSuffix r1 l).
    { eapply SSuffix_trans_l; [|exact Hr]. apply SSuffix_cons; auto with sfx. }
    assert (Hcont : forall ms r2, Suffix r2 r1 ->
      match (match tagged_loop f tag r2 with
             | Ok (s, r') => Ok (pre ++ cDOLLAR :: ms ++ s, r') | Err e a => Err e a | Panic w => Panic w end) with
      | Ok (s, r) => Suffix r l | Err e a => Suffix a l | Panic w => (S f <= length l)%nat end).
    { intros ms r2 H2. specialize (IH tag r2).
      pose proof (SSuffix_trans_r _ _ _ H2 Hr1) as H3.
      destruct (tagged_loop f tag r2) as [[s r']|e a|w].
      - eapply Suffix_trans; [exact IH|]. apply SSuffix_Suffix; auto.
      - eapply Suffix_trans; [exact IH|]. apply SSuffix_Suffix; auto.
      - apply SSuffix_length in H3. lia. }
    pose proof (match_tag_suffix tag r1) as Hm.
    destruct (match_tag tag r1) as [r2|ms r2|]; [| |auto with sfx].
    - destruct r2 as [|c r3]; [apply Hcont; auto|].
      destruct (c =? cDOLLAR); [|apply Hcont; auto].
      eapply Suffix_trans; [|apply SSuffix_Suffix; exact Hr1].
      eapply Suffix_trans; [|exact Hm]. auto with sfx.
    - apply Hcont. apply SSuffix_Suffix; auto.
  Qed.

  Lemma dollar_value_spec l :
    match dollar_value u l with
    | Ok (t, r) => Suffix r (tl l)
    | Err e a => Suffix a (tl l)
    | Panic w => False
    end.
  Proof.
    unfold dollar_value. destruct (tl l) as [|c l2] eqn:El1; [auto with sfx|].
    destruct (c =? cDOLLAR).
    { destruct (dq_loop None l2) as [[s r]|] eqn:E; [|auto with sfx].
      apply Suffix_cons. eapply dq_loop_suffix; eauto. }
    destruct (take_while _ (c :: l2)) as [value l3] eqn:E. pose proof (take_while_suffix _ _ _ _ E) as H3.
    destruct l3 as [|c3 l4]; [exact H3|].
    destruct (c3 =? cDOLLAR); [|exact H3].
    pose proof (tagged_loop_suffix (S (length l4)) value l4) as Ht.
    destruct (tagged_loop (S (length l4)) value l4) as [[s r]|e a|w].
    - eapply Suffix_trans; [exact Ht|]. eapply Suffix_trans; [|exact H3]. auto with sfx.
    - eapply Suffix_trans; [exact Ht|]. eapply Suffix_trans; [|exact H3]. auto with sfx.
    - lia.
  Qed.
End Scanners.

Section Dispatcher.
  Variable d : dialect.
  Variable u : uni.
  Variable unesc : bool.

  Lemma multiline_comment_spec l :
    match multiline_comment l with
    | Ok (t, r) => Suffix r l | Err e a => Suffix a l | Panic w => False end.
  Proof. unfold multiline_comment. destruct (ml_loop cSP 1 l) as [[s r]|] eqn:E; [|auto with sfx].
    eapply ml_loop_suffix; eauto. Qed.

  Lemma num_period_suffix s0 r0 s1 r1 : num_period s0 r0 = (s1, r1) -> Suffix r1 r0.
  Proof. unfold num_period. destruct r0 as [|c r]; [intros [= _ <-]; auto with sfx|].
    destruct (c =? cDOT); intros [= _ <-]; auto with sfx. Qed.
  Lemma num_sign_suffix ra sg rb : num_sign ra = (sg, rb) -> Suffix rb ra.
  Proof. unfold num_sign. destruct ra as [|c r]; [intros [= _ <-]; auto with sfx|].
    destruct ((c =? cPLUS) || (c =? cMINUS)); intros [= _ <-]; auto with sfx. Qed.
  Lemma num_exponent_suffix s2 r2 s3 r3 b : num_exponent s2 r2 = (s3, r3, b) -> Suffix r3 r2.
  Proof.
    unfold num_exponent. destruct r2 as [|e ra]; [intros [= _ <- _]; auto with sfx|].
    destruct ((e =? 101) || (e =? 69)); [|intros [= _ <- _]; auto with sfx].
    destruct (num_sign ra) as [sign rb] eqn:Es. apply num_sign_suffix in Es.
    destruct rb as [|dg rb']; [intros [= _ <- _]; auto with sfx|].
    destruct (is_digit dg); [|intros [= _ <- _]; auto with sfx].
    destruct (take_while is_digit (dg :: rb')) as [ds rc] eqn:Ed. intros [= _ <- _].
    apply Suffix_cons. eapply Suffix_trans; [eapply take_while_suffix; eauto|exact Es].
  Qed.
  Lemma num_tail_suffix s3 r3 b t r : num_tail d s3 r3 b = (t, r) -> Suffix r r3.
  Proof.
    unfold num_tail. destruct (d_numeric_prefix d && negb b).
    - destruct (take_while (d_ident_part d) r3) as [w r4] eqn:E4. apply take_while_suffix in E4.
      destruct w.
      + destruct r3 as [|c r4']; [intros [= _ <-]; auto with sfx|].
        destruct (c =? 76); intros [= _ <-]; auto with sfx.
      + intros [= _ <-]. exact E4.
    - destruct r3 as [|c r4']; [intros [= _ <-]; auto with sfx|].
      destruct (c =? 76); intros [= _ <-]; auto with sfx.
  Qed.

  (** everything after the first [take_while] stays within [r0] *)
  Lemma number_after s0 r0 t r :
    (match num_hex_prefix s0 r0 with
     | Some rx => let '(h, r') := take_while is_hexdigit rx in (TStr KHex h, r')
     | None =>
        let '(s1, r1) := num_period s0 r0 in
        let '(s2d, r2) := take_while is_digit r1 in
        let s2 := s1 ++ s2d in
        if str_eqb s2 [cDOT] then (TFix FPeriod, r2)
        else let '(s3, r3, saw_e) := num_exponent s2 r2 in num_tail d s3 r3 saw_e
     end) = (t, r) -> Suffix r r0.
  Proof.
    destruct (num_hex_prefix s0 r0) as [rx|] eqn:Ehex.
    { unfold num_hex_prefix in Ehex. destruct (str_eqb s0 [48]); [|discriminate].
      destruct r0 as [|c r0']; [discriminate|]. destruct (c =? 120); [|discriminate]. inversion Ehex; subst.
      destruct (take_while is_hexdigit rx) as [h r'] eqn:Eh. intros [= _ <-].
      apply Suffix_cons. eapply take_while_suffix; eauto. }
    destruct (num_period s0 r0) as [s1 r1] eqn:E1. apply num_period_suffix in E1.
    destruct (take_while is_digit r1) as [s2d r2] eqn:E2. apply take_while_suffix in E2.
    cbv zeta. destruct (str_eqb (s1 ++ s2d) [cDOT]).
    { intros [= _ <-]. eapply Suffix_trans; eauto. }
    destruct (num_exponent (s1 ++ s2d) r2) as [[s3 r3] b] eqn:E3. apply num_exponent_suffix in E3.
    intro H. apply num_tail_suffix in H.
    eapply Suffix_trans; [exact H|]. eapply Suffix_trans; [exact E3|]. eapply Suffix_trans; eauto.
  Qed.

  Lemma number_suffix l t r : number d l = (t, r) -> Suffix r l.
  Proof.
    unfold number. destruct (take_while is_digit l) as [s0 r0] eqn:E0.
    apply take_while_suffix in E0. intro H. apply number_after in H.
    eapply Suffix_trans; eauto.
  Qed.

  Lemma number_progress ch l' t r : (is_digit ch || (ch =? cDOT)) = true ->
    number d (ch :: l') = (t, r) -> SSuffix r (ch :: l').
  Proof.
    intros Hc H. apply Suffix_lt_SSuffix; [eapply number_suffix; eauto|].
    revert H. unfold number.
    destruct (take_while is_digit (ch :: l')) as [s0 r0] eqn:E0.
    pose proof (take_while_app _ _ _ _ E0) as A0.
    destruct (is_digit ch) eqn:Ed.
    - assert (Hn : s0 <> []) by (eapply take_while_nonempty; eauto).
      intro H. apply number_after, Suffix_length in H.
      rewrite A0, app_length. destruct s0; [congruence|cbn [length]; lia].
    - cbn [orb] in Hc. apply N.eqb_eq in Hc. subst ch.
      cbn [take_while] in E0. rewrite Ed in E0. inversion E0; subst s0 r0. clear E0 A0.
      unfold num_hex_prefix. cbn [str_eqb]. unfold num_period. rewrite N.eqb_refl. cbn [app].
      destruct (take_while is_digit l') as [s2d r2] eqn:E2. apply take_while_suffix in E2.
      cbv zeta. destruct (str_eqb (_ :: s2d) _).
      { intros [= _ <-]. apply Suffix_length in E2. cbn [length]. lia. }
      destruct (num_exponent _ r2) as [[s3 r3] b] eqn:E3. apply num_exponent_suffix in E3.
      intro H. apply num_tail_suffix in H.
      pose proof (Suffix_trans _ _ _ H (Suffix_trans _ _ _ E3 E2)) as Hx.
      apply Suffix_length in Hx. cbn [length]. lia.
  Qed.

  (** ** The dispatcher: result shape of [next_token] *)
  Definition PanicCond (l : str) (w : N) : Prop :=
    w = 1 /\ exists ch r, l = ch :: r /\ d_delim_start d ch = true /\ matching_end_quote ch = None.
  Definition Spec (l : str) (x : res (option (tok * str))) : Prop :=
    match x with
    | Ok None => l = []
    | Ok (Some (_, r)) => SSuffix r l
    | Err _ a => Suffix a l
    | Panic w => PanicCond l w
    end.

  Lemma Spec_ret ch r t r' : Suffix r' r -> Spec (ch :: r) (ret t r').
  Proof. intro H. cbn. apply SSuffix_cons; exact H. Qed.
  Lemma Spec_retp ch r x : Suffix (snd x) r -> Spec (ch :: r) (retp x).
  Proof. destruct x as [t r']. intro H. cbn in *. apply SSuffix_cons; exact H. Qed.
  Lemma Spec_retp_strict l x : SSuffix (snd x) l -> Spec l (retp x).
  Proof. destruct x as [t r']. intro H. exact H. Qed.

  Lemma start_binop_snd p f x r : Suffix x r -> Suffix (snd (start_binop d p f x)) r.
  Proof. intro H. destruct (start_binop d p f x) as [t r'] eqn:E. apply start_binop_suffix in E.
    eapply Suffix_trans; eauto. Qed.
  Lemma consume_for_binop_snd p f x r : Suffix x r -> Suffix (snd (consume_for_binop d p f x)) r.
  Proof. intro H. unfold consume_for_binop. apply start_binop_snd. auto with sfx. Qed.
  Lemma ident_snd chs x r : Suffix x r -> Suffix (snd (ident_or_keyword d chs x)) r.
  Proof. intro H. destruct (ident_or_keyword d chs x) as [t r'] eqn:E. apply ident_or_keyword_suffix in E.
    eapply Suffix_trans; [exact E|]. auto with sfx. Qed.
  Lemma ident_snd_l chs ch r : Suffix (snd (ident_or_keyword d chs (ch :: r))) r.
  Proof. destruct (ident_or_keyword d chs (ch :: r)) as [t r'] eqn:E. apply ident_or_keyword_suffix in E. exact E. Qed.

  Lemma Spec_word ch r : Spec (ch :: r) (word_from d ch r).
  Proof. unfold word_from. destruct (tokenize_word d [ch] r) as [s r'] eqn:E.
    apply Spec_ret. eapply tokenize_word_suffix; eauto. Qed.

  Lemma Spec_line_comment ch r p x : Suffix x r -> Spec (ch :: r) (line_comment_tok p x).
  Proof. intro H. unfold line_comment_tok, lift. destruct (line_comment x) as [[c r']|e a|w] eqn:E.
    - apply Spec_ret. eapply Suffix_trans; [eapply line_comment_suffix; eauto|exact H].
    - exfalso. eapply (proj1 (line_comment_no_err x)); eauto.
    - exfalso. eapply (proj2 (line_comment_no_err x)); eauto. Qed.

  Lemma Spec_sot_r ch r q bs k1 k3 :
    Spec (ch :: r) (lift (single_or_triple unesc q bs k1 k3 r) (fun x => retp x)).
  Proof. unfold lift. destruct (single_or_triple unesc q bs k1 k3 r) as [[t r']|e a|w] eqn:E.
    - apply Spec_retp. cbn. apply SSuffix_Suffix. eapply single_or_triple_suffix; eauto.
    - cbn. apply Suffix_cons. eapply single_or_triple_err; eauto.
    - exfalso. eapply single_or_triple_no_panic; eauto. Qed.
  Lemma Spec_sot_l l q bs k1 k3 :
    Spec l (lift (single_or_triple unesc q bs k1 k3 l) (fun x => retp x)).
  Proof. unfold lift. destruct (single_or_triple unesc q bs k1 k3 l) as [[t r']|e a|w] eqn:E.
    - apply Spec_retp_strict. cbn. eapply single_or_triple_suffix; eauto.
    - cbn. eapply single_or_triple_err; eauto.
    - exfalso. eapply single_or_triple_no_panic; eauto. Qed.
  Lemma Spec_sq_r ch r q bs k :
    Spec (ch :: r) (lift (single_quoted unesc q bs r) (fun '(s, r') => ret (TStr k s) r')).
  Proof. unfold lift. destruct (single_quoted unesc q bs r) as [[t r']|e a|w] eqn:E.
    - apply Spec_ret. apply SSuffix_Suffix. eapply single_quoted_suffix; eauto.
    - cbn. apply Suffix_cons. eapply single_quoted_err; eauto.
    - exfalso. eapply single_quoted_no_panic; eauto. Qed.
  Lemma Spec_sq_l l q bs k :
    Spec l (lift (single_quoted unesc q bs l) (fun '(s, r') => ret (TStr k s) r')).
  Proof. unfold lift. destruct (single_quoted unesc q bs l) as [[t r']|e a|w] eqn:E.
    - cbn. eapply single_quoted_suffix; eauto.
    - cbn. eapply single_quoted_err; eauto.
    - exfalso. eapply single_quoted_no_panic; eauto. Qed.

  Lemma Spec_uni ch r f :
    (length (tl (tl r)) < f)%nat ->
    Spec (ch :: r) (lift (uni_loop f (tl (tl r))) (fun '(s, r') => ret (TStr KUnicode s) r')).
  Proof. intro Hf. unfold lift. pose proof (uni_loop_suffix f (tl (tl r))) as H.
    destruct (uni_loop f (tl (tl r))) as [[s r']|e a|w].
    - apply Spec_ret. eapply Suffix_trans; [exact H|]. auto with sfx.
    - cbn. apply Suffix_cons. eapply Suffix_trans; [exact H|]. auto with sfx.
    - lia. Qed.

  Lemma Spec_ml ch r x : Suffix x r -> Spec (ch :: r) (lift (multiline_comment x) (fun y => retp y)).
  Proof. intro Hx. unfold lift. pose proof (multiline_comment_spec x) as H.
    destruct (multiline_comment x) as [[t r']|e a|w].
    - apply Spec_retp. cbn. eapply Suffix_trans; eauto.
    - cbn. apply Suffix_cons. eapply Suffix_trans; eauto.
    - contradiction. Qed.

  Lemma Spec_dollar ch r : Spec (ch :: r) (lift (dollar_value u (ch :: r)) (fun y => retp y)).
  Proof. unfold lift. pose proof (dollar_value_spec u (ch :: r)) as H. cbn [tl] in H.
    destruct (dollar_value u (ch :: r)) as [[t r']|e a|w].
    - apply Spec_retp. exact H.
    - cbn. apply Suffix_cons. exact H.
    - contradiction. Qed.

  Lemma tl_length_lt (r : str) f : (length r < f)%nat -> (length (tl (tl r)) < f)%nat.
  Proof. destruct r as [|a [|b r]]; cbn [tl length]; lia. Qed.

  Ltac sfx := auto 8 with sfx.
  Ltac leaf :=
    first
      [ apply Spec_ret; first [ solve [sfx] | match goal with |- Suffix (if ?b then _ else _) _ => destruct b; solve [sfx] end ]
      | apply Spec_word
      | apply Spec_sot_r | apply Spec_sot_l | apply Spec_sq_r | apply Spec_sq_l
      | apply Spec_line_comment; solve [sfx]
      | apply Spec_ml; solve [sfx]
      | apply Spec_dollar
      | apply Spec_uni; apply tl_length_lt; lia
      | apply Spec_retp;
        first [ apply start_binop_snd; solve [sfx] | apply consume_for_binop_snd; solve [sfx]
              | apply ident_snd_l | apply ident_snd; solve [sfx] ] ].

  Theorem next_token_spec l : Spec l (next_token d u unesc l).
  Proof.
    destruct l as [|ch r]; [reflexivity|]. unfold next_token.
    repeat match goal with
    | |- Spec _ (if ?b then _ else _) => destruct b eqn:?
    end; try solve [leaf].
    all: try solve [ destruct r as [|c2 r2]; [leaf|];
                     repeat match goal with |- Spec _ (if ?b then _ else _) => destruct b eqn:? end; leaf ].
    - (* E'...' *)
      destruct (esc_loop (length r) (tl r)) as [[s r']|] eqn:E.
      + apply Spec_ret. apply esc_loop_suffix in E. sfx.
      + cbn. sfx.
    - (* delimited identifier *)
      destruct (matching_end_quote ch) as [qe|] eqn:Eq.
      + destruct (quoted_ident unesc qe r) as [[s r']|] eqn:E.
        * apply Spec_ret. eapply quoted_ident_suffix; eauto.
        * cbn. sfx.
      + cbn. split; [reflexivity|]. exists ch, r. repeat split; auto.
        match goal with H : (_ && _) = true |- _ => apply andb_true_iff in H; tauto end.
    - (* number *)
      apply Spec_retp_strict. eapply number_progress with (t := fst (number d (ch :: r))); eauto.
      destruct (number d (ch :: r)); reflexivity.
    - (* @@x *)
      destruct (tl r) as [|t0 r1] eqn:Etl; [apply Spec_ret; rewrite <- Etl; sfx|].
      assert (Ht : Suffix (t0 :: r1) r) by (rewrite <- Etl; sfx).
      repeat match goal with |- Spec _ (if ?b then _ else _) => destruct b eqn:? end;
        first [ apply Spec_ret; exact Ht | apply Spec_retp; apply ident_snd; exact Ht ].
    - (* placeholder *)
      destruct (take_while (u_numeric u) r) as [s r'] eqn:E. apply Spec_ret. eapply take_while_suffix; eauto.
  Qed.
End Dispatcher.
