(** C01 — the DML core: an executable token-level model of INSERT / UPDATE / DELETE of sqlparser-rs on
    top of the query core (QueryCore.v):
      printer  [mtoks]          = the tokens [impl Display for Statement] writes for [Statement::Insert]
                                  (plain form), [Statement::Update], [Statement::Delete], [Assignment],
                                  [AssignmentTarget] (src/ast/mod.rs); embedded queries, tables and expressions
                                  are printed by [qtoks] / [twj_toks] / [xtoks] / [item_toks] / [oelem_toks];
      parser   [parse_dml_core] = [Parser::parse_statement] dispatching on the first keyword to
                                  [parse_insert], [parse_update] ([parse_assignment] /
                                  [parse_assignment_target]), [parse_delete] (src/parser/mod.rs), each
                                  calling [QueryCore.parse_query] / [parse_twj] / [pex] / [parse_item] /
                                  [parse_order_elem] exactly where the Rust code calls [parse_query],
                                  [parse_table_and_joins], [parse_expr], [parse_select_item],
                                  [parse_order_by_expr].
    Tokens are the query core's [qtok]; the seven DML keywords the query alphabet lacks (INSERT INTO
    UPDATE SET DELETE RETURNING DEFAULT) are word tokens with reserved numbers.  The query core does
    not know them, so its parsers are run on the tokens in front of the next DML keyword ([cut], [site]):
    the keyword ends their input.  That is what the Rust parsers make of a word in a reserved-word list;
    where the keyword is not in the list that matters (or a name is expected) it is read as a plain word:
    [site] runs the parser again with the keyword spelled as a name ([plain]).
    Everything dialect specific is a field of [mdialect], regenerated from the running crate
    (coq/gen/DmlTables.v).  Anything outside the fragment makes the model return [OutOfFragment].
    Model only; the theorems are in DmlCoreProofs.v. *)
From SqlV Require Import Base PrecSpec Pratt SetOps PrinterCore QueryCore.

(** * The DML keywords: word tokens [DKW_BASE + i]; as names (in trees) [DPLAIN_BASE + i] *)
Definition DKW_BASE := 4900.
Definition DPLAIN_BASE := 4950.

Inductive dkw := DInsert | DInto | DUpdate | DSet | DDelete | DReturning | DDefault.

Definition dkw_id (k : dkw) : N :=
  match k with
  | DInsert => 0 | DInto => 1 | DUpdate => 2 | DSet => 3 | DDelete => 4 | DReturning => 5 | DDefault => 6
  end.

Definition kw (k : dkw) : qtok := QE (TAtom false (DKW_BASE + dkw_id k)).

Definition is_dkw (t : qtok) : bool :=
  match t with QE (TAtom false n) => (DKW_BASE <=? n) && (n <? DPLAIN_BASE) | _ => false end.
Definition is_dplain (t : qtok) : bool :=
  match t with QE (TAtom false n) => (DPLAIN_BASE <=? n) && (n <? NUM_BASE) | _ => false end.

(** a DML keyword used as a name, and back (what Display writes for such a name lexes as the keyword) *)
Definition plain (t : qtok) : qtok :=
  match t with
  | QE (TAtom false n) => if is_dkw t then QE (TAtom false (n + 50)) else t
  | _ => t
  end.
Definition unplain (t : qtok) : qtok :=
  match t with
  | QE (TAtom false n) => if is_dplain t then QE (TAtom false (n - 50)) else t
  | _ => t
  end.

(** * Trees *)
Inductive target :=
| TCol (c : qtok)                 (* AssignmentTarget::ColumnName *)
| TTuple (cs : list qtok).        (* AssignmentTarget::Tuple *)

Inductive assignment := Assign (t : target) (v : xexpr).

Inductive stmt :=
| SInsert (into : bool) (table : qtok) (cols : list qtok) (source : option query)   (* None: DEFAULT VALUES *)
          (returning : option (list item))
| SUpdate (table : twj) (assigns : list assignment) (from : option twj) (selection : option xexpr)
          (returning : option (list item))
| SDelete (tables : list qtok) (from_kw : bool) (from : list twj) (usg : option (list twj))
          (selection : option xexpr) (returning : option (list item)) (order_by : list oelem)
          (limit : option xexpr).

(** * Printer *)
Definition into_toks (b : bool) : list qtok := if b then [kw DInto] else [].
Definition names_toks (l : list qtok) : list qtok := sepc (map (fun c => [c]) l).
Definition ret_toks (r : option (list item)) : list qtok :=
  match r with Some l => kw DReturning :: sepc (map item_toks l) | None => [] end.
Definition target_toks (t : target) : list qtok :=
  match t with TCol c => [c] | TTuple cs => cols_toks cs end.
Definition assign_toks (a : assignment) : list qtok :=
  match a with Assign t v => target_toks t ++ QE (TOp K_Eq) :: xtoks v end.
Definition set_toks (l : list assignment) : list qtok :=
  match l with [] => [] | _ => kw DSet :: sepc (map assign_toks l) end.
Definition ofrom_toks (f : option twj) : list qtok :=
  match f with Some t => QE (TKw KFrom) :: twj_toks t | None => [] end.
Definition using_toks (u : option (list twj)) : list qtok :=
  match u with Some l => QK KUsing :: sepc (map twj_toks l) | None => [] end.
Definition tables_toks (l : list qtok) : list qtok :=
  match l with [] => [] | _ => names_toks l end.
Definition fromkw_toks (b : bool) : list qtok := if b then [QE (TKw KFrom)] else [].
Definition source_toks (cols : list qtok) (s : option query) : list qtok :=
  match s with
  | Some q => qtoks q
  | None => match cols with [] => [kw DDefault; QK KValues] | _ => [] end
  end.

(** the tokens with every name spelled as it is in the tree *)
Definition mtoks_raw (s : stmt) : list qtok :=
  match s with
  | SInsert into table cols source ret =>
      kw DInsert :: into_toks into ++ table :: ccols_toks cols ++ source_toks cols source ++ ret_toks ret
  | SUpdate table assigns from sel ret =>
      kw DUpdate :: twj_toks table ++ set_toks assigns ++ ofrom_toks from ++
      clause_toks (QK KWhere) (otoks sel) ++ ret_toks ret
  | SDelete tables fk from usg sel ret ob lim =>
      kw DDelete :: tables_toks tables ++ fromkw_toks fk ++ sepc (map twj_toks from) ++ using_toks usg ++
      clause_toks (QK KWhere) (otoks sel) ++ ret_toks ret ++ order_toks (map oelem_toks ob) ++
      clause_toks (QK KLimit) (otoks lim)
  end.

(** the tokens of the printed text: a name that is a DML keyword lexes as the keyword *)
Definition mtoks (s : stmt) : list qtok := map unplain (mtoks_raw s).

(** * The dialect *)
Record mdialect := {
  qd : qdialect;               (* the query core's dialect *)
  kw_col : list qtok;          (* the DML keywords in keywords::RESERVED_FOR_COLUMN_ALIAS *)
  kw_tab : list qtok;          (* ... in RESERVED_FOR_TABLE_ALIAS *)
  ins_tab_alias : bool;        (* INSERT INTO t AS alias (PostgreSQL) *)
  ins_row_alias : bool;        (* INSERT .. VALUES .. AS alias (MySQL, Generic) *)
  ins_empty_cols : bool;       (* INSERT INTO t () (MySQL) *)
  ins_after_cols : bool;       (* a second column list after PARTITION (Hive) *)
  upd_from : bool;             (* UPDATE .. SET .. FROM t *)
  del_nofrom : bool            (* DELETE t WHERE ..: FROM is optional (BigQuery, Generic) *)
}.

(** the query dialect in which a DML keyword read as a plain word is reserved where the keyword is *)
Definition qdx (d : mdialect) : qdialect :=
  let q := qd d in
  {| base := base q; res_col := res_col q ++ map plain (kw_col d); res_tab := res_tab q ++ map plain (kw_tab d);
     limit_comma := limit_comma q; limit_by := limit_by q; trailing := trailing q; proj_trailing := proj_trailing q;
     wild_except := wild_except q; wild_ilike := wild_ilike q; select_as := select_as q; unnest_table := unnest_table q;
     hyphen_table := hyphen_table q; group_by_expr := group_by_expr q; paren_tables := paren_tables q;
     group_with := group_with q; exists_fn := exists_fn q; values_empty := values_empty q |}.

(** * Running a parser of the query core in front of the next DML keyword *)
Fixpoint cut (ts : list qtok) : list qtok * list qtok :=
  match ts with
  | [] => ([], [])
  | t :: r => if is_dkw t then ([], ts) else let '(a, b) := cut r in (t :: a, b)
  end.

Definition last_is (p : qtok -> bool) (l : list qtok) : bool :=
  match rev l with t :: _ => p t | [] => false end.
Definition is_comma_tok (t : qtok) : bool := qtok_eqb t (QE TComma).
Definition is_all_tok (t : qtok) : bool := qtok_eqb t (QE (TKw KAll)).
Definition is_as_tok (t : qtok) : bool := qtok_eqb t (QK KAs).

Section Site.
  Context {A : Type}.
  Variable d : mdialect.
  (** the parser once a DML keyword has been read as a plain word: the same parser under the dialect
      in which the plain words are reserved where the keywords are ([qdx]) *)
  Variable p' : list qtok -> res (A * list qtok).
  (** the optional alias its result ends with, given the tokens it consumed: [Some true] a column
      alias ([parse_select_item]), [Some false] a table alias ([parse_table_factor]), [None] neither *)
  Variable opn : A -> list qtok -> option bool.

  (** [p] on the tokens in front of the next DML keyword [k].  If [p] stops at [k]
      - after a trailing comma: the list ended there if [k] is in RESERVED_FOR_COLUMN_ALIAS;
      - with an optional alias open and [k] in the list that alias is checked against, or without
        such an alias: [k] is the next token of the statement.
      Otherwise [k] is (or may be) read as a name: run the parser again with [k] as a plain word -
      after a trailing comma in front of another keyword, with an optional alias open that [k] may be,
      when [p] fails (a name may be expected), and after AS (every word is a name there) when [p],
      backtracking from the missing alias, leaves the fragment. *)
  Fixpoint site (g : nat) (p : list qtok -> res (A * list qtok)) (ts : list qtok) : res (A * list qtok) :=
    match g with
    | O => OutOfFuel
    | S g' =>
        let '(pre, post) := cut ts in
        match post with
        | [] => p pre
        | k :: post' =>
            let again := fun _ : unit => site g' p' (pre ++ plain k :: post') in
            match p pre with
            | Ok (x, []) =>
                if last_is is_comma_tok pre then (if mem k (kw_col d) then Ok (x, post) else again tt)
                else match opn x pre with
                     | Some c => if mem k (if c then kw_col d else kw_tab d) then Ok (x, post) else again tt
                     | None => Ok (x, post)
                     end
            | Ok (x, r) => Ok (x, r ++ post)
            | Err => again tt
            | OutOfFragment => if last_is is_as_tok pre then again tt else OutOfFragment
            | OutOfFuel => OutOfFuel
            end
        end
    end.
End Site.

(** ** the optional alias a tree ends with *)
Definition tref_open (t : tref) : bool :=
  match t with TTable _ None | TDerived _ None | TNested _ None => true | _ => false end.
Definition jop_open (o : jop) : bool :=
  match o with JCross | JOp _ JNatural | JOp _ JNone => true | _ => false end.
Definition join_open (j : join) : bool := match j with Join o r => jop_open o && tref_open r end.
Definition twj_open (t : twj) : bool :=
  match t with Twj r js => match rev js with j :: _ => join_open j | [] => tref_open r end end.
Definition opt_site (b : bool) (c : bool) : option bool := if b then Some c else None.

Definition twj_opn (t : twj) (_ : list qtok) : option bool := opt_site (twj_open t) false.
Definition twjs_opn (l : list twj) (_ : list qtok) : option bool :=
  match rev l with t :: _ => opt_site (twj_open t) false | [] => None end.
Definition item_open (i : item) : bool := match i with IExpr _ => true | _ => false end.
Definition items_opn (l : list item) (_ : list qtok) : option bool :=
  match rev l with i :: _ => opt_site (item_open i) true | [] => None end.
Definition no_opn {A} (_ : A) (_ : list qtok) : option bool := None.

(** the last operand of a body: a SELECT that ends with its projection or with its FROM clause *)
Fixpoint body_open (b : setexpr) : option bool :=
  match b with
  | BSelect _ items from None [] None =>
      match rev from with
      | t :: _ => opt_site (twj_open t) false
      | [] => match rev items with i :: _ => opt_site (item_open i) true | [] => None end
      end
  | BSetOp _ _ _ r => body_open r
  | _ => None
  end.
Definition query_open (q : query) : option bool :=
  match q with Query _ b [] None None => body_open b | _ => None end.
(** [LIMIT ALL] leaves no trace in the tree *)
Definition query_opn (q : query) (pre : list qtok) : option bool :=
  if last_is is_all_tok pre then None else query_open q.

(** * Parser *)
Definition fuel_of (ts : list qtok) : nat := S (length ts).

(** [parse_identifier] / [parse_object_name] (a period is outside the alphabet) in the positions the
    DML parsers own: a DML keyword is a name there *)
Definition parse_name (ts : list qtok) : res (qtok * list qtok) :=
  bind (parse_ident ts) (fun '(w, r) => Ok (plain w, r)).

Section Dml.
  Variable d : mdialect.
  Variable fuel : nat.
  Notation q := (qd d).

  Notation q' := (qdx d).
  Definition pquery := parse_query q fuel.
  Definition ptwj := parse_twj q fuel.
  Definition pexp := pex q pquery.
  (** the same under [qdx], for the runs in which a DML keyword is a plain word *)
  Definition pquery' := parse_query q' fuel.
  Definition ptwj' := parse_twj q' fuel.
  Definition pexp' := pex q' pquery'.

  Definition site_query (ts : list qtok) := site d pquery' query_opn (fuel_of ts) pquery ts.
  Definition site_twj (ts : list qtok) := site d ptwj' twj_opn (fuel_of ts) ptwj ts.
  Definition site_expr (ts : list qtok) := site d pexp' no_opn (fuel_of ts) pexp ts.
  (** [parse_comma_separated(parse_select_item)] *)
  Definition site_items (ts : list qtok) :=
    site d (fun l => comma_list (parse_item q' pquery') (trail_all q') (fuel_of l) l) items_opn (fuel_of ts)
         (fun l => comma_list (parse_item q pquery) (trail_all q) (fuel_of l) l) ts.
  (** [parse_comma_separated(parse_order_by_expr)] *)
  Definition site_orders (ts : list qtok) :=
    site d (fun l => comma_list (parse_order_elem q' pquery') (trail_all q') (fuel_of l) l) no_opn (fuel_of ts)
         (fun l => comma_list (parse_order_elem q pquery) (trail_all q) (fuel_of l) l) ts.
  (** [parse_comma_separated(parse_table_and_joins)] *)
  Definition site_twjs (ts : list qtok) :=
    site d (fun l => comma_list ptwj' (trail_all q') (fuel_of l) l) twjs_opn (fuel_of ts)
         (fun l => comma_list ptwj (trail_all q) (fuel_of l) l) ts.

  (** [options.trailing_commas] for the lists the DML parsers own: the DML keywords of
      RESERVED_FOR_COLUMN_ALIAS end a list too *)
  Definition trail_m : option (list qtok) := if trailing q then Some (res_col q ++ kw_col d) else None.

  (** RETURNING <select items> *)
  Definition parse_returning (ts : list qtok) : res (option (list item) * list qtok) :=
    let '(b, r) := opt_tok (kw DReturning) ts in
    if b then bind (site_items r) (fun '(l, r') => Ok (Some l, r')) else Ok (None, ts).

  (** WHERE <expr> *)
  Definition parse_where (ts : list qtok) : res (option xexpr * list qtok) :=
    let '(b, r) := opt_tok (QK KWhere) ts in
    if b then bind (site_expr r) (fun '(e, r') => Ok (Some e, r')) else Ok (None, ts).

  (** a parenthesised column list whose names the DML parser owns ([parse_parenthesized_column_list],
      after the opening parenthesis) *)
  Definition parse_names_paren (r : list qtok) : res (list qtok * list qtok) :=
    bind (comma_list parse_name trail_m (fuel_of r) r) (fun '(cs, r') =>
      match r' with
      | QE TRParen :: r'' => Ok (cs, r'')
      | _ => Err
      end).

  (** ** [parse_insert], after INSERT.  OR .. (SQLite), LOW_PRIORITY / DELAYED / HIGH_PRIORITY /
      IGNORE (MySQL), OVERWRITE, LOCAL, DIRECTORY, PARTITION, CONFLICT, DUPLICATE are outside the
      alphabet (a token outside the alphabet anywhere puts the input outside the fragment). *)
  Definition starts_dml (ts : list qtok) : bool :=
    match ts with t :: _ => qtok_eqb t (kw DInsert) || qtok_eqb t (kw DUpdate) | [] => false end.

  Definition parse_insert_core (ts : list qtok) : res (stmt * list qtok) :=
    let '(into, r1) := opt_tok (kw DInto) ts in
    if fst (opt_tok (QK KTable) r1) then OutOfFragment                        (* INSERT INTO TABLE t (Hive) *)
    else
    bind (parse_name r1) (fun '(name, r2) =>
    if ins_tab_alias d && fst (opt_tok (QK KAs) r2) then OutOfFragment       (* table alias *)
    else
    let '(dv, r3) := opt_tok2 (kw DDefault) (QK KValues) r2 in
    bind (if dv then Ok (([], None), r3)
          else
          bind (match r2 with
                | QE TLParen :: r' =>
                    match r' with
                    | QE TRParen :: r'' => if ins_empty_cols d then Ok ([], r'') else parse_names_paren r'
                    | _ => parse_names_paren r'
                    end
                | _ => Ok ([], r2)
                end) (fun '(cols, r4) =>
          if ins_after_cols d && fst (opt_tok (QE TLParen) r4) then OutOfFragment     (* after_columns *)
          else if starts_dml r4 then OutOfFragment            (* parse_query: an INSERT / UPDATE body *)
          else bind (site_query r4) (fun '(s, r5) => Ok ((cols, Some s), r5)))) (fun '((cols, source), r6) =>
    if ins_row_alias d && fst (opt_tok (QK KAs) r6) then OutOfFragment       (* row alias *)
    else if fst (opt_tok (QK KOn) r6) then Err                   (* ON: CONFLICT or DUPLICATE must follow *)
    else
    bind (parse_returning r6) (fun '(ret, r7) => Ok (SInsert into name cols source ret, r7)))).

  (** ** [parse_assignment] *)
  Definition parse_target (ts : list qtok) : res (target * list qtok) :=
    match ts with
    | QE TLParen :: r => bind (parse_names_paren r) (fun '(cs, r') => Ok (TTuple cs, r'))
    | _ => bind (parse_name ts) (fun '(c, r) => Ok (TCol c, r))
    end.

  Definition parse_assignment (ts : list qtok) : res (assignment * list qtok) :=
    bind (parse_target ts) (fun '(t, r) =>
      match r with
      | e :: r1 =>
          if qtok_eqb e (QE (TOp K_Eq)) then bind (site_expr r1) (fun '(v, r2) => Ok (Assign t v, r2))
          else Err
      | [] => Err
      end).

  (** ** [parse_update], after UPDATE *)
  Definition parse_update_core (ts : list qtok) : res (stmt * list qtok) :=
    bind (site_twj ts) (fun '(table, r1) =>
    let '(s, r2) := opt_tok (kw DSet) r1 in
    if negb s then Err else
    bind (comma_list parse_assignment trail_m (fuel_of r2) r2) (fun '(assigns, r3) =>
    (* the keyword FROM is consumed whatever the dialect *)
    let '(fr, r4) := opt_tok (QE (TKw KFrom)) r3 in
    bind (if fr && upd_from d then bind (site_twj r4) (fun '(t, r5) => Ok (Some t, r5)) else Ok (None, r4))
      (fun '(from, r6) =>
    bind (parse_where r6) (fun '(sel, r7) =>
    bind (parse_returning r7) (fun '(ret, r8) => Ok (SUpdate table assigns from sel ret, r8)))))).

  (** ** [parse_delete], after DELETE *)
  (** after the optional table names and FROM *)
  Definition parse_delete_body (tables : list qtok) (fkw : bool) (r4 : list qtok) : res (stmt * list qtok) :=
    bind (site_twjs r4) (fun '(from, r5) =>
    let '(u, r6) := opt_tok (QK KUsing) r5 in
    bind (if u then bind (site_twjs r6) (fun '(l, r7) => Ok (Some l, r7))
          else Ok (None, r5)) (fun '(usg, r8) =>
    bind (parse_where r8) (fun '(sel, r9) =>
    bind (parse_returning r9) (fun '(ret, r10) =>
    let '(o, r11) := opt_tok2 (QK KOrder) (QK KBy) r10 in
    bind (if o then site_orders r11 else Ok ([], r10)) (fun '(ob, r12) =>
    let '(l, r13) := opt_tok (QK KLimit) r12 in
    bind (if l then
            (let '(a, r14) := opt_tok (QE (TKw KAll)) r13 in          (* parse_limit *)
             if a then Ok (None, r14) else bind (site_expr r13) (fun '(e, r15) => Ok (Some e, r15)))
          else Ok (None, r12)) (fun '(lim, r16) =>
      Ok (SDelete tables fkw from usg sel ret ob lim, r16))))))).

  Definition parse_delete_core (ts : list qtok) : res (stmt * list qtok) :=
    let '(fk, r1) := opt_tok (QE (TKw KFrom)) ts in
    bind (if fk then Ok (([], true), r1)
          else if del_nofrom d then Ok (([], false), ts)
          else bind (comma_list parse_name trail_m (fuel_of ts) ts) (fun '(names, r2) =>
                 let '(f2, r3) := opt_tok (QE (TKw KFrom)) r2 in
                 if f2 then Ok ((names, true), r3) else Err)) (fun '((tables, fkw), r4) =>
    parse_delete_body tables fkw r4).

  (** ** [parse_statement]: the first keyword decides *)
  Definition parse_dml_step (ts : list qtok) : res (stmt * list qtok) :=
    match ts with
    | t :: r =>
        if qtok_eqb t (kw DInsert) then parse_insert_core r
        else if qtok_eqb t (kw DUpdate) then parse_update_core r
        else if qtok_eqb t (kw DDelete) then parse_delete_core r
        else OutOfFragment
    | [] => Err
    end.
End Dml.

Definition parse_dml_core (d : mdialect) (fuel : nat) (ts : list qtok) : res (stmt * list qtok) :=
  parse_dml_step d fuel ts.

(** INSERT / UPDATE start a query body wherever [parse_query] is entered, INTO follows a projection
    (SELECT .. INTO): conservatively, these keywords stand only where a DML statement has them *)
Fixpoint kw_places (i : nat) (ts : list qtok) : bool :=
  match ts with
  | [] => true
  | t :: r =>
      (if qtok_eqb t (kw DInsert) || qtok_eqb t (kw DUpdate) || qtok_eqb t (kw DDelete) then Nat.eqb i 0
       else if qtok_eqb t (kw DInto) then Nat.eqb i 1
       else negb (is_dplain t)) && kw_places (S i) r
  end.

(** [Parser::parse_statement] on a token list *)
Definition parse_dml_top (d : mdialect) (ts : list qtok) : res (stmt * list qtok) :=
  if existsb is_qother ts || negb (kw_places O ts) then OutOfFragment
  else parse_dml_core d (fuel_of ts) ts.

(** * Boolean equality, canonical spelling *)
Definition target_eqb (a b : target) : bool :=
  match a, b with
  | TCol x, TCol y => qtok_eqb x y
  | TTuple x, TTuple y => list_eqb qtok_eqb x y
  | _, _ => false
  end.
Definition assignment_eqb (a b : assignment) : bool :=
  match a, b with Assign t v, Assign t' v' => target_eqb t t' && xexpr_eqb v v' end.
Definition oitems_eqb := opt_eqb (list_eqb item_eqb).

Definition stmt_eqb (a b : stmt) : bool :=
  match a, b with
  | SInsert i t c s r, SInsert i' t' c' s' r' =>
      Bool.eqb i i' && qtok_eqb t t' && list_eqb qtok_eqb c c' && opt_eqb query_eqb s s' && oitems_eqb r r'
  | SUpdate t a f s r, SUpdate t' a' f' s' r' =>
      twj_eqb t t' && list_eqb assignment_eqb a a' && opt_eqb twj_eqb f f' && opt_eqb xexpr_eqb s s' &&
      oitems_eqb r r'
  | SDelete ts k f u s r o l, SDelete ts' k' f' u' s' r' o' l' =>
      list_eqb qtok_eqb ts ts' && Bool.eqb k k' && list_eqb twj_eqb f f' && opt_eqb (list_eqb twj_eqb) u u' &&
      opt_eqb xexpr_eqb s s' && oitems_eqb r r' && list_eqb oelem_eqb o o' && opt_eqb xexpr_eqb l l'
  | _, _ => false
  end.

Definition onorm {A} (f : A -> A) (x : option A) : option A := option_map f x.
Definition assignment_norm (a : assignment) : assignment :=
  match a with Assign t v => Assign t (xnorm v) end.

Definition mnorm (s : stmt) : stmt :=
  match s with
  | SInsert i t c src r => SInsert i t c (onorm qnorm src) (onorm (map item_norm) r)
  | SUpdate t a f sel r =>
      SUpdate (twj_norm t) (map assignment_norm a) (onorm twj_norm f) (onorm xnorm sel) (onorm (map item_norm) r)
  | SDelete ts k f u sel r o l =>
      SDelete ts k (map twj_norm f) (onorm (map twj_norm) u) (onorm xnorm sel) (onorm (map item_norm) r)
              (map oelem_norm o) (onorm xnorm l)
  end.

(** * Evaluation of one correspondence case inside the kernel (lib/props/c01dml.py).
    [ts]: the crate's tokens of the input; [i]: what [Parser::parse_statement] returned (tree and number
    of unconsumed tokens, or an error); [pt]: the crate's tokens of the printed tree.
    Bits: 1 = model parser and implementation disagree on the input; 2 = [mtoks] of the
    implementation's tree differs from the tokens of the text Display printed; 4 = the model does not
    parse [mtoks tree] back to the (canonically spelled) tree; 8 = input outside the fragment. *)
Inductive mires := MIOk (s : stmt) (nrest : nat) (pt : list qtok) | MIErr | MIBad.

Definition mcase_core (d : mdialect) (ts : list qtok) (i : mires) : N :=
  match parse_dml_top d ts, i with
  | OutOfFragment, _ => 8
  | _, MIBad => 8
  | Ok (s, rest), MIOk s' n pt =>
      (if stmt_eqb s s' && Nat.eqb (length rest) n then 0 else 1) +
      (if qtoks_eqb (mtoks s') pt then 0 else 2) +
      (match parse_dml_top d (mtoks s') with
       | Ok (s2, []) => if stmt_eqb s2 (mnorm s') then 0 else 4
       | _ => 4
       end)
  | Err, MIErr => 0
  | _, _ => 1
  end.
