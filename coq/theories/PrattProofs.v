(** C04 — proofs about the Pratt model: the tree returned by [parse_expr] is the
    precedence-climbing tree of the dialect's table ([pratt_correct]), for all token lists,
    all fuels and all tables whose unknown level is 0; the boolean oracle decides the
    specification; corollaries (associativity, parentheses). *)
From SqlV Require Import Base PrecSpec Pratt.
From Coq Require Import ZifyBool ZifyN ZifyNat.

(** * Lists inside trees *)
Fixpoint commas (l : list expr) : list tok :=
  match l with
  | [] => []
  | [x] => yield x
  | x :: r => yield x ++ TComma :: commas r
  end.

Lemma yield_tuple l : yield (ETuple l) = TLParen :: commas l ++ [TRParen].
Proof. reflexivity. Qed.
Lemma yield_inlist neg x l :
  yield (EInList neg x l) = yield x ++ not_toks neg ++ TKw KIn :: TLParen :: commas l ++ [TRParen].
Proof. reflexivity. Qed.

Section Induction.
  Variable P : expr -> Prop.
  Hypothesis Hatom : forall s n, P (EAtom s n).
  Hypothesis Hnested : forall e, P e -> P (ENested e).
  Hypothesis Htuple : forall l, Forall P l -> P (ETuple l).
  Hypothesis Hpre : forall k e, P e -> P (EPre k e).
  Hypothesis Hnot : forall e, P e -> P (ENot e).
  Hypothesis Hbin : forall k l r, P l -> P r -> P (EBin k l r).
  Hypothesis Hanyall : forall k q l r, P l -> P r -> P (EAnyAll k q l r).
  Hypothesis Hpost : forall e, P e -> P (EPostfix e).
  Hypothesis His : forall n w e, P e -> P (EIs n w e).
  Hypothesis Hisdf : forall n l r, P l -> P r -> P (EIsDF n l r).
  Hypothesis Hattz : forall l r, P l -> P r -> P (EAtTz l r).
  Hypothesis Hcast : forall e t, P e -> P (ECast e t).
  Hypothesis Hlike : forall kd n a e p esc, P e -> P p -> P (ELike kd n a e p esc).
  Hypothesis Hbetween : forall n e lo hi, P e -> P lo -> P hi -> P (EBetween n e lo hi).
  Hypothesis Hinlist : forall n e l, P e -> Forall P l -> P (EInList n e l).
  Hypothesis Hinunnest : forall n e a, P e -> P a -> P (EInUnnest n e a).
  Hypothesis Hdiv : forall l r, P l -> P r -> P (EDiv l r).
  Hypothesis Hsub : forall e i, P e -> P i -> P (ESubscript e i).

  Fixpoint expr_rect' (e : expr) : P e :=
    let all := fix all (l : list expr) : Forall P l :=
      match l with [] => Forall_nil P | x :: r => Forall_cons x (expr_rect' x) (all r) end in
    match e with
    | EAtom s n => Hatom s n
    | ENested x => Hnested x (expr_rect' x)
    | ETuple l => Htuple l (all l)
    | EPre k x => Hpre k x (expr_rect' x)
    | ENot x => Hnot x (expr_rect' x)
    | EBin k l r => Hbin k l r (expr_rect' l) (expr_rect' r)
    | EAnyAll k q l r => Hanyall k q l r (expr_rect' l) (expr_rect' r)
    | EPostfix x => Hpost x (expr_rect' x)
    | EIs n w x => His n w x (expr_rect' x)
    | EIsDF n l r => Hisdf n l r (expr_rect' l) (expr_rect' r)
    | EAtTz l r => Hattz l r (expr_rect' l) (expr_rect' r)
    | ECast x t => Hcast x t (expr_rect' x)
    | ELike kd n a x p esc => Hlike kd n a x p esc (expr_rect' x) (expr_rect' p)
    | EBetween n x lo hi => Hbetween n x lo hi (expr_rect' x) (expr_rect' lo) (expr_rect' hi)
    | EInList n x l => Hinlist n x l (expr_rect' x) (all l)
    | EInUnnest n x a => Hinunnest n x a (expr_rect' x) (expr_rect' a)
    | EDiv l r => Hdiv l r (expr_rect' l) (expr_rect' r)
    | ESubscript x i => Hsub x i (expr_rect' x) (expr_rect' i)
    end.
End Induction.

Section WfLists.
  Variable fl : flags.
  Variable lvl : N -> N.
  Lemma wf_all l :
    (fix all (l : list expr) : Prop := match l with [] => True | x :: r => wf fl lvl x /\ all r end) l
    <-> Forall (wf fl lvl) l.
  Proof. induction l as [|x r IH]; [split; intro; [constructor|exact I]|].
    split; intro H.
    - destruct H as [H1 H2]. constructor; [exact H1|apply IH; exact H2].
    - inversion H; subst. split; [assumption| apply IH; assumption]. Qed.
  Lemma wf_tuple l : wf fl lvl (ETuple l) <-> local fl lvl (ETuple l) /\ Forall (wf fl lvl) l.
  Proof. cbn [wf]. rewrite wf_all. tauto. Qed.
  Lemma wf_inlist n x l :
    wf fl lvl (EInList n x l) <-> local fl lvl (EInList n x l) /\ wf fl lvl x /\ Forall (wf fl lvl) l.
  Proof. cbn [wf]. rewrite wf_all. tauto. Qed.
End WfLists.

(** * The invariant of [parse_subexpr] *)
Section Invariant.
  Variable d : dialect.
  Hypothesis U0 : lvl d K_UNKNOWN = 0.
  Notation L := (lvl d).
  Notation fl := (flags_of d).

  Definition Inv (p : N) (ts : list tok) (t : expr) (rest : list tok) : Prop :=
    ts = yield t ++ rest /\ wf fl L t /\ lspine_gt L p t /\ np d rest <= p /\
    rspine_ge fl L (np d rest) t.

  Definition rec_ok (rec : N -> list tok -> res (expr * list tok)) : Prop :=
    forall p ts t rest, rec p ts = Ok (t, rest) -> Inv p ts t rest.

  Ltac brk H :=
    match type of H with
    | context [if ?x then _ else _] => destruct x eqn:?; try discriminate H
    | context [match ?x with _ => _ end] => destruct x eqn:?; try discriminate H
    | context [bind (?rec ?p ?ts) _] =>
        let E := fresh "E" in
        destruct (rec p ts) as [[? ?]| | |] eqn:E; cbn [bind] in H; try discriminate H
    end.

  Ltac norm_app := repeat (rewrite <- app_assoc; cbn [app]); cbn [app].
  Ltac eqb_subst :=
    repeat match goal with
    | H : (_ =? _) = true |- _ => apply N.eqb_eq in H; try subst
    | H : (_ || _) = true |- _ => apply orb_true_iff in H
    | H : (_ && _) = true |- _ => apply andb_true_iff in H; destruct H
    end.


  Variable rec : N -> list tok -> res (expr * list tok).
  Hypothesis Hrec : rec_ok rec.

  Lemma parse_list_ok g : forall ts l rest,
    parse_list d rec g ts = Ok (l, rest) ->
    ts = commas l ++ rest /\ Forall (wf fl L) l /\ Forall (lspine_gt L (U L)) l /\ l <> [].
  Proof.
    induction g as [|g IH]; intros ts l rest H; cbn [parse_list] in H; [discriminate|].
    destruct (rec (L K_UNKNOWN) ts) as [[e r]| | |] eqn:E; cbn [bind] in H; try discriminate.
    apply Hrec in E. destruct E as (Ey & Ew & El & _ & _).
    destruct r as [|t0 r']; [inversion H; subst; cbn [commas]; repeat split; auto; discriminate|].
    destruct t0; try (inversion H; subst; cbn [commas]; repeat split; auto; discriminate).
    destruct (parse_list d rec g r') as [[l' r'']| | |] eqn:E2; cbn [bind] in H; try discriminate.
    inversion H; subst. apply IH in E2. destruct E2 as (E2y & E2w & E2l & E2n).
    subst r'. split; [|repeat split; auto; discriminate].
    destruct l' as [|y l']; [congruence|]. cbn [commas]. norm_app. reflexivity.
  Qed.

  Lemma lspine_prefix_any p e : lhead e = None -> lspine_gt L p e.
  Proof. destruct e; cbn; intros; try discriminate; exact I. Qed.

  Ltac use_rec :=
    repeat match goal with
    | E : rec _ _ = Ok (_, _) |- _ =>
        apply Hrec in E; destruct E as (? & ? & ? & ? & ?)
    | E : parse_list _ _ _ _ = Ok (_, _) |- _ =>
        apply parse_list_ok in E; destruct E as (? & ? & ? & ?)
    end.

  Ltac fin := repeat split; auto; try (norm_app; reflexivity); try (norm_app; congruence).
  Ltac bool_hyps :=
    repeat match goal with
    | H : (_ && _) = true |- _ => apply andb_true_iff in H; destruct H
    end.
  Ltac rw_bools :=
    repeat match goal with
    | Hx : ?b = true |- context [?b] => rewrite Hx
    | Hx : ?b = false |- context [?b] => rewrite Hx
    end; cbn [orb andb negb].

  Lemma parse_prefix_ok ts t rest :
    parse_prefix d rec ts = Ok (t, rest) ->
    ts = yield t ++ rest /\ wf fl L t /\ lhead t = None /\ rspine_ge fl L (np d rest) t.
  Proof.
    intro H. unfold parse_prefix in H.
    destruct ts as [|t0 r]; [discriminate|].
    destruct t0; try discriminate.
    - (* atom *)
      assert (HH : (EAtom s n, r) = (t, rest)).
      { repeat brk H; congruence. }
      inversion HH; subst. cbn. unfold local; cbn. fin.
    - (* TOp: prefix + - ~ *)
      repeat brk H; inversion H; subst; use_rec; subst; bool_hyps.
      all: cbn [yield wf rspine_ge lhead]; unfold local; cbn [lhead rhead interior]; unfold pre_level_key.
      all: rw_bools; fin.
    - (* TPre *)
      repeat brk H; inversion H; subst; use_rec; subst.
      cbn [yield wf rspine_ge lhead]; unfold local; cbn [lhead rhead interior]; unfold pre_level_key.
      assert (Hk : (k =? K_Plus) || (k =? K_Minus) = false).
      { destruct (k =? K_Plus), (k =? K_Minus); cbn in *; congruence. }
      rw_bools; fin.
    - (* TKw: NOT *)
      destruct k; try discriminate.
      repeat brk H; inversion H; subst; use_rec; subst.
      cbn [yield wf rspine_ge lhead]; unfold local; cbn [lhead rhead interior]. fin.
    - (* parenthesised *)
      destruct (lambda d && lambda_ahead r); [discriminate|].
      destruct (parse_list d rec (S (length r)) r) as [[l r1]| | |] eqn:E; cbn [bind] in H; try discriminate.
      apply parse_list_ok in E. destruct E as (Ey & Ew & El & Ene).
      unfold expect_rparen in H. destruct r1 as [|t1 r2]; [discriminate|]. destruct t1; try discriminate.
      destruct l as [|x [|y l']]; [congruence| |]; inversion H; subst.
      + inversion Ew; inversion El; subst. cbn [commas yield wf rspine_ge lhead]. unfold local; cbn [lhead rhead interior].
        norm_app. fin.
      + rewrite yield_tuple, wf_tuple. unfold local; cbn [lhead rhead interior rspine_ge]. norm_app. fin.
  Qed.
  Lemma isdf_level_eq k : isdf_level d (L k) = L (if isdf_fixed d then k else K_UNKNOWN).
  Proof. unfold isdf_level. destruct (isdf_fixed d); reflexivity. Qed.
  Lemma div_level_eq k : div_level d (L k) = L (if div_fixed d then k else K_UNKNOWN).
  Proof. unfold div_level. destruct (div_fixed d); reflexivity. Qed.
  Ltac simp_np := unfold np in *; cbn [np_key] in *; rewrite ?isdf_level_eq, ?div_level_eq in *.
  Ltac node_goal :=
    rewrite ?wf_inlist, ?yield_inlist;
    cbn [yield wf rspine_ge lspine_gt lhead flags_of isdf_ok div_ok not_toks any_toks like_toks like_key];
    unfold local; cbn [lhead rhead interior flags_of isdf_ok div_ok];
    rw_bools;
    repeat split; intros; auto; try (norm_app; reflexivity); try (norm_app; congruence); try lia.

  Lemma parse_like_ok kd e neg allow r t rest :
    wf fl L e -> rspine_ge fl L (L (like_key kd neg)) e ->
    parse_like d rec kd e neg allow r = Ok (t, rest) ->
    yield e ++ not_toks neg ++ like_toks kd ++ r = yield t ++ rest /\ wf fl L t /\
    (forall p, p < L (like_key kd neg) -> lspine_gt L p e -> lspine_gt L p t) /\
    rspine_ge fl L (np d rest) t.
  Proof.
    intros We Re H. unfold parse_like in H.
    assert (Hs : exists any r1,
      (match r with
       | TKw KAny :: r' => if allow then (true, r') else (false, r)
       | _ => (false, r)
       end) = (any, r1) /\ r = any_toks any ++ r1).
    { destruct r as [|t0 r']; [exists false; eexists; split; reflexivity|].
      destruct t0; try (exists false; eexists; split; reflexivity).
      destruct k; try (exists false; eexists; split; reflexivity).
      destruct allow; [exists true|exists false]; eexists; split; reflexivity. }
    destruct Hs as (any & r1 & Hs & Hr). rewrite Hs in H. subst r.
    repeat brk H; try (inversion H; subst; use_rec; subst; simp_np; node_goal).
  Qed.

  Lemma parse_in_ok e (neg : bool) r t rest :
    wf fl L e -> rspine_ge fl L (L (if neg then K_NOT_IN else K_IN)) e ->
    parse_in d rec e neg r = Ok (t, rest) ->
    yield e ++ not_toks neg ++ TKw KIn :: r = yield t ++ rest /\ wf fl L t /\
    (forall p, p < L (if neg then K_NOT_IN else K_IN) -> lspine_gt L p e -> lspine_gt L p t) /\
    rspine_ge fl L (np d rest) t.
  Proof.
    intros We Re H. unfold parse_in, expect_rparen in H.
    repeat brk H; try (inversion H; subst; use_rec; subst; simp_np; node_goal).
  Qed.

  Lemma parse_infix_ok e q ts t rest :
    wf fl L e -> rspine_ge fl L (np d ts) e -> q = np d ts ->
    parse_infix d rec e q ts = Ok (t, rest) ->
    yield e ++ ts = yield t ++ rest /\ wf fl L t /\
    (forall p, p < q -> lspine_gt L p e -> lspine_gt L p t) /\
    rspine_ge fl L (np d rest) t.
  Proof.
    intros We Re Hq H. subst q. unfold parse_infix, expect_rparen in H.
    all: destruct ts as [|t0 r]; [discriminate|].
    all: destruct t0; try discriminate.
    - (* TOp *)
      repeat brk H; try (inversion H; subst; use_rec; subst; simp_np; node_goal).
    - (* keywords *)
      destruct k; try discriminate;
      unfold parse_not_family, expect_rparen in H; cbn beta iota in H;
      repeat brk H;
      first [ apply parse_in_ok in H; [| assumption | simp_np; assumption]; simp_np; cbn [not_toks app] in H; exact H
            | apply parse_like_ok in H; [| assumption | simp_np; assumption]; simp_np; cbn [not_toks like_toks like_key app] in H; exact H
            | inversion H; subst; use_rec; subst; eqb_subst; simp_np; node_goal ].
    - (* :: *)
      repeat brk H; try (inversion H; subst; use_rec; subst; simp_np; node_goal).
    - (* ! *)
      repeat brk H; try (inversion H; subst; use_rec; subst; simp_np; node_goal).
    - (* [ *)
      repeat brk H; try (inversion H; subst; use_rec; subst; simp_np; node_goal).
  Qed.

  Lemma loop_ok g : forall p e ts t rest,
    wf fl L e -> lspine_gt L p e -> rspine_ge fl L (np d ts) e ->
    loop d rec g p e ts = Ok (t, rest) ->
    yield e ++ ts = yield t ++ rest /\ wf fl L t /\ lspine_gt L p t /\ np d rest <= p /\
    rspine_ge fl L (np d rest) t.
  Proof.
    induction g as [|g IH]; intros p e ts t rest We Le Re H; cbn [loop] in H; [discriminate|].
    destruct (np d ts <=? p) eqn:Hc.
    - inversion H; subst. repeat split; auto. lia.
    - destruct (parse_infix d rec e (np d ts) ts) as [[e' ts']| | |] eqn:E; cbn [bind] in H; try discriminate.
      apply parse_infix_ok in E; auto. destruct E as (Ey & Ew & El & Er).
      apply IH in H; auto.
      + destruct H as (Hy & Hw & Hl & Hp & Hr). repeat split; auto. congruence.
      + apply El; auto. lia.
  Qed.
End Invariant.

Section Main.
  Variable d : dialect.
  Hypothesis U0 : lvl d K_UNKNOWN = 0.
  Notation L := (lvl d).
  Notation fl := (flags_of d).

  Lemma parse_sub_ok fuel : rec_ok d (parse_sub d fuel).
  Proof.
    induction fuel as [|f IH]; intros p ts t rest H; cbn [parse_sub] in H; [discriminate|].
    destruct (parse_prefix d (parse_sub d f) ts) as [[e r]| | |] eqn:E; cbn [bind] in H; try discriminate.
    first [apply (parse_prefix_ok d (parse_sub d f) IH) in E | apply (parse_prefix_ok d U0 (parse_sub d f) IH) in E]. destruct E as (Ey & Ew & El & Er).
    first [apply (loop_ok d (parse_sub d f) IH) in H | apply (loop_ok d U0 (parse_sub d f) IH) in H]; auto.
    - destruct H as (Hy & Hw & Hl & Hp & Hr). unfold Inv. repeat split; auto.
      subst ts. exact Hy.
    - apply lspine_prefix_any; assumption.
  Qed.

  (** The tree returned by the parser is the precedence-climbing tree of the tokens it consumed,
      for the table [lvl d] and with the operand levels the code uses today ([flags_of d]); it
      stops at the first token whose power is not above the unknown level. *)
  Theorem pratt_invariant ts t rest :
    parse_expr d ts = Ok (t, rest) ->
    ts = yield t ++ rest /\ Correct_gen fl L t (yield t) /\ np d rest <= L K_UNKNOWN.
  Proof.
    unfold parse_expr. destruct (existsb is_other ts); [discriminate|]. intro H.
    apply parse_sub_ok in H. destruct H as (Hy & Hw & Hl & Hp & Hr).
    unfold Correct_gen, U. repeat split; auto.
  Qed.

  Theorem pratt_correct_gen ts t :
    parse_expr d ts = Ok (t, []) -> Correct_gen fl L t ts.
  Proof.
    intro H. apply pratt_invariant in H. destruct H as (Hy & Hc & _).
    rewrite app_nil_r in Hy. rewrite Hy. exact Hc.
  Qed.

  (** With both operand levels as published (no known finding left in the code) this is the
      property itself. *)
  Theorem pratt_correct ts t :
    isdf_fixed d = true -> div_fixed d = true ->
    parse_expr d ts = Ok (t, []) -> Correct L t ts.
  Proof.
    intros H1 H2 H. apply pratt_correct_gen in H. unfold Correct.
    replace published with fl; [exact H|]. unfold flags_of, published. rewrite H1, H2. reflexivity.
  Qed.
End Main.

(** * The boolean oracle decides the specification *)
Section Reflect.
  Variable fl : flags.
  Variable lvl : N -> N.

  Lemma lspine_gtb_iff p e : lspine_gtb lvl p e = true <-> lspine_gt lvl p e.
  Proof.
    induction e; cbn [lspine_gtb lspine_gt]; try tauto;
      rewrite andb_true_iff, N.ltb_lt; tauto.
  Qed.

  Lemma rspine_geb_iff p e : rspine_geb lvl fl p e = true <-> rspine_ge fl lvl p e.
  Proof.
    induction e; cbn [rspine_geb rspine_ge]; try tauto;
      try (rewrite andb_true_iff, N.leb_le; tauto).
    destruct esc; [tauto|]. rewrite andb_true_iff, N.leb_le; tauto.
  Qed.

  Lemma forallb_Forall {A} (f : A -> bool) (P : A -> Prop) l :
    (forall x, f x = true <-> P x) -> (forallb f l = true <-> Forall P l).
  Proof.
    intro Hf. induction l as [|x r IH]; cbn [forallb]; [split; auto|].
    rewrite andb_true_iff, Hf, IH. split; [intros [? ?]; constructor; auto|intro H; inversion H; auto].
  Qed.

  Lemma interiorb_iff e : interiorb lvl fl e = true <-> interior fl lvl e.
  Proof.
    destruct e; cbn [interiorb interior]; unfold U; try tauto;
      try apply lspine_gtb_iff;
      try (apply forallb_Forall; intro; apply lspine_gtb_iff).
    - destruct esc; [apply lspine_gtb_iff|tauto].
    - rewrite andb_true_iff, lspine_gtb_iff, rspine_geb_iff. tauto.
  Qed.

  Lemma localb_iff e : localb lvl fl e = true <-> local fl lvl e.
  Proof.
    unfold localb, local. rewrite !andb_true_iff, interiorb_iff.
    destruct (lhead e) as [[k l]|]; destruct (rhead fl e) as [[k' r]|];
      rewrite ?rspine_geb_iff, ?lspine_gtb_iff; tauto.
  Qed.

  Lemma wfb_all l :
    Forall (fun x => wfb lvl fl x = true <-> wf fl lvl x) l ->
    ((fix all (l : list expr) : bool := match l with [] => true | x :: r => wfb lvl fl x && all r end) l = true
     <-> Forall (wf fl lvl) l).
  Proof.
    induction 1 as [|x r Hx Hr IH]; [split; auto|].
    rewrite andb_true_iff, Hx, IH. split; [intros [? ?]; constructor; auto|intro H; inversion H; auto].
  Qed.

  Lemma wfb_iff e : wfb lvl fl e = true <-> wf fl lvl e.
  Proof.
    induction e using expr_rect';
      try (cbn [wfb wf]; rewrite ?andb_true_iff, localb_iff; tauto).
    - rewrite wf_tuple. cbn [wfb]. rewrite andb_true_iff, localb_iff, wfb_all by assumption. tauto.
    - rewrite wf_inlist. cbn [wfb]. rewrite !andb_true_iff, localb_iff, wfb_all by assumption. tauto.
  Qed.

  Lemma kwd_beq_eq a b : kwd_beq a b = true <-> a = b.
  Proof. split; [apply internal_kwd_dec_bl|apply internal_kwd_dec_lb]. Qed.

  Lemma tok_eqb_eq a b : tok_eqb a b = true <-> a = b.
  Proof.
    destruct a, b; cbn [tok_eqb]; try (split; [discriminate|congruence]); try tauto.
    - rewrite andb_true_iff, N.eqb_eq, Bool.eqb_true_iff. split; [intros [? ?]; congruence|intro H; inversion H; auto].
    - rewrite N.eqb_eq. split; congruence.
    - rewrite N.eqb_eq. split; congruence.
    - rewrite N.eqb_eq. split; congruence.
    - rewrite kwd_beq_eq. split; congruence.
  Qed.

  Lemma toks_eqb_eq a : forall b, toks_eqb a b = true <-> a = b.
  Proof.
    induction a as [|x a IH]; intros [|y b]; cbn [toks_eqb]; try (split; [discriminate|congruence]); try tauto.
    rewrite andb_true_iff, tok_eqb_eq, IH. split; [intros [? ?]; congruence|intro H; inversion H; auto].
  Qed.

  Theorem correctb_iff t ts : correctb fl lvl t ts = true <-> Correct_gen fl lvl t ts.
  Proof.
    unfold correctb, Correct_gen, U. rewrite !andb_true_iff, toks_eqb_eq, wfb_iff, lspine_gtb_iff. tauto.
  Qed.
End Reflect.

(** * Known-finding class: outside it, the as-is specification is the published one *)
Section Known.
  Variable fl : flags.
  Variable lvl : N -> N.
  Hypothesis U0 : lvl K_UNKNOWN = 0.

  Lemma rspine_ge_published p e : rspine_ge fl lvl p e -> rspine_ge published lvl p e.
  Proof.
    induction e; cbn [rspine_ge published isdf_ok div_ok]; try tauto.
    - destruct (isdf_ok fl); [tauto|]. rewrite U0. intros [H1 H2]. split; [lia|auto].
    - destruct esc; tauto.
    - destruct (div_ok fl); [tauto|]. rewrite U0. intros [H1 H2]. split; [lia|auto].
  Qed.

  Lemma loose_all l :
    (fix any (l : list expr) : bool := match l with [] => false | x :: r => loose lvl fl x || any r end) l = false ->
    Forall (fun x => loose lvl fl x = false) l.
  Proof.
    induction l as [|x r IH]; [constructor|]. intro H. apply orb_false_iff in H. destruct H.
    constructor; auto.
  Qed.

  Lemma Forall_impl2 {A} (P Q R : A -> Prop) l :
    Forall (fun x => P x -> Q x -> R x) l -> Forall P l -> Forall Q l -> Forall R l.
  Proof. induction 1; intros HP HQ; inversion HP; inversion HQ; subst; constructor; auto. Qed.

  Theorem not_loose_published e :
    wf fl lvl e -> loose lvl fl e = false -> wf published lvl e.
  Proof.
    induction e using expr_rect'; intros Hw Hl.
    all: try (rewrite wf_tuple in *); try (rewrite wf_inlist in *).
    all: cbn [wf loose] in *; repeat rewrite orb_false_iff in Hl.
    all: unfold local in *; cbn [lhead rhead interior published isdf_ok div_ok] in *.
    all: try (repeat split; intuition (auto using rspine_ge_published); fail).
    - (* tuple *) destruct Hw as [Hw1 Hw2]. apply loose_all in Hl. split; [tauto|].
      eapply Forall_impl2; [exact H|exact Hw2|exact Hl].
    - (* IS DISTINCT FROM *)
      destruct Hl as [[Hl0 Hl1] Hl2]. destruct Hw as [(Ha & Hb & Hc) [Hd He]].
      repeat split; auto using rspine_ge_published.
      destruct (isdf_ok fl); [exact Hb|]. cbn [negb andb] in Hl0. apply negb_false_iff in Hl0.
      apply lspine_gtb_iff in Hl0. exact Hl0.
    - (* IN list *) destruct Hl as [Hl1 Hl2]. apply loose_all in Hl2. destruct Hw as [Hw0 [Hw1 Hw2]].
      split; [intuition (auto using rspine_ge_published)|]. split; [auto|].
      eapply Forall_impl2; [exact H|exact Hw2|exact Hl2].
    - (* DIV *)
      destruct Hl as [[Hl0 Hl1] Hl2]. destruct Hw as [(Ha & Hb & Hc) [Hd He]].
      repeat split; auto using rspine_ge_published.
      destruct (div_ok fl); [exact Hb|]. cbn [negb andb] in Hl0. apply negb_false_iff in Hl0.
      apply lspine_gtb_iff in Hl0. exact Hl0.
  Qed.
End Known.

(** Decidable known-finding class of C04: the code parses the right operand of IS [NOT] DISTINCT
    FROM (MySQL: DIV) with [parse_expr], and the tree shows it. *)
Definition KnownClass_C04 (d : dialect) (t : expr) : Prop := loose (lvl d) (flags_of d) t = true.

Theorem pratt_correct_known d ts t :
  lvl d K_UNKNOWN = 0 ->
  parse_expr d ts = Ok (t, []) -> ~ KnownClass_C04 d t -> Correct (lvl d) t ts.
Proof.
  intros U0 H Hk. apply (pratt_correct_gen d U0) in H. destruct H as (Hy & Hw & Hl).
  unfold Correct, Correct_gen. repeat split; auto.
  apply (not_loose_published (flags_of d)); auto.
  unfold KnownClass_C04 in Hk. destruct (loose (lvl d) (flags_of d) t); congruence.
Qed.

(** * Corollaries *)
Section Corollaries.
  Variable lvl : N -> N.

  (** a binary operator nests to the right only under a strictly looser one: equal levels
      associate to the left *)
  Theorem pratt_right_nesting_tighter k l k' l' r' ts :
    Correct lvl (EBin k l (EBin k' l' r')) ts -> lvl k < lvl k'.
  Proof. intros (_ & Hw & _). cbn [wf] in Hw. unfold local in Hw; cbn in Hw. tauto. Qed.

  Theorem pratt_left_assoc k l k' l' r' ts :
    lvl k = lvl k' -> ~ Correct lvl (EBin k l (EBin k' l' r')) ts.
  Proof. intros E H. apply pratt_right_nesting_tighter in H. lia. Qed.

  (** a tighter operator never ends up above a looser one on the left either *)
  Theorem pratt_left_nesting_not_looser k k' l' r' r ts :
    Correct lvl (EBin k (EBin k' l' r') r) ts -> lvl k <= lvl k'.
  Proof. intros (_ & Hw & _). cbn [wf] in Hw. unfold local in Hw; cbn in Hw. tauto. Qed.

  (** operands stop at their documented level: what a prefix operator, a BETWEEN bound or a LIKE
      pattern captures binds tighter than that level *)
  Theorem pratt_not_operand k l r ts :
    Correct lvl (ENot (EBin k l r)) ts -> lvl C_UnaryNot < lvl k.
  Proof. intros (_ & Hw & _). cbn [wf] in Hw. unfold local in Hw; cbn in Hw. tauto. Qed.
  Theorem pratt_between_high k l r neg e lo ts :
    Correct lvl (EBetween neg e lo (EBin k l r)) ts -> lvl C_Between < lvl k.
  Proof. intros (_ & Hw & _). cbn [wf] in Hw. unfold local in Hw; cbn in Hw. tauto. Qed.
  Theorem pratt_like_pattern kd neg any e k l r ts :
    Correct lvl (ELike kd neg any e (EBin k l r) None) ts -> lvl C_Like < lvl k.
  Proof. intros (_ & Hw & _). cbn [wf] in Hw. unfold local in Hw; cbn in Hw. tauto. Qed.
  Theorem pratt_isdf_operand neg a k l r ts :
    Correct lvl (EIsDF neg a (EBin k l r)) ts -> lvl K_IS < lvl k.
  Proof. intros (_ & Hw & _). cbn [wf] in Hw. unfold local in Hw; cbn in Hw. tauto. Qed.

  (** parentheses override: a parenthesised expression is a leaf for both spines, whatever it
      contains, and is kept as a node of its own *)
  Theorem nested_closed p q x : lspine_gt lvl p (ENested x) /\ rspine_ge published lvl q (ENested x).
  Proof. cbn. auto. Qed.
End Corollaries.

Lemma parse_list_nonempty d rec g : forall ts l r, parse_list d rec g ts = Ok (l, r) -> l <> [].
Proof.
  induction g as [|g IH]; intros ts l r H; cbn [parse_list] in H; [discriminate|].
  destruct (rec (lvl d K_UNKNOWN) ts) as [[e r0]| | |]; cbn [bind] in H; try discriminate.
  destruct r0 as [|t0 r']; [inversion H; discriminate|].
  destruct t0; try (inversion H; discriminate).
  destruct (parse_list d rec g r') as [[l' r'']| | |]; cbn [bind] in H; try discriminate.
  inversion H; discriminate.
Qed.

(** an opening parenthesis in operand position always yields a node of its own (kept in the
    tree), whose content was parsed as a complete expression at the unknown level *)
Theorem nested_preserved d rec ts t rest :
  parse_prefix d rec (TLParen :: ts) = Ok (t, rest) ->
  (exists x r1, t = ENested x /\ rec (lvl d K_UNKNOWN) ts = Ok (x, TRParen :: r1) /\ rest = r1)
  \/ (exists l, t = ETuple l /\ (2 <= length l)%nat).
Proof.
  unfold parse_prefix. destruct (lambda d && lambda_ahead ts); [discriminate|].
  cbn [parse_list]. destruct (rec (lvl d K_UNKNOWN) ts) as [[e r]| | |] eqn:E; cbn [bind]; try discriminate.
  destruct r as [|t0 r']; [cbn; discriminate|].
  destruct t0; cbn [bind expect_rparen]; try discriminate.
  - intro H. inversion H; subst. left. eauto.
  - destruct (parse_list d rec (length ts) r') as [[l r'']| | |] eqn:E2; cbn [bind]; try discriminate.
    unfold expect_rparen. destruct r'' as [|t1 r3]; [discriminate|]. destruct t1; try discriminate.
    apply parse_list_nonempty in E2.
    destruct l as [|y l']; [congruence|]. intro H; inversion H; subst; right; eexists; split; eauto; cbn; lia.
Qed.


(** * [Correct] only depends on the order of the binding powers *)
Section Transfer.
  Variable fl : flags.
  Variables a b : N -> N.
  Hypothesis iso : forall i j, (a i <? a j) = (b i <? b j).

  Lemma iso_le i j : (a i <=? a j) = (b i <=? b j).
  Proof. rewrite !N.leb_antisym, iso. reflexivity. Qed.

  Lemma lspine_gtb_iso k e : lspine_gtb a (a k) e = lspine_gtb b (b k) e.
  Proof. induction e; cbn [lspine_gtb]; rewrite ?iso; congruence. Qed.

  Lemma rspine_geb_iso k e : rspine_geb a fl (a k) e = rspine_geb b fl (b k) e.
  Proof.
    induction e; cbn [rspine_geb]; rewrite ?iso_le; try congruence.
    destruct esc; congruence.
  Qed.

  Lemma forallb_ext' {A} (f g : A -> bool) l : (forall x, f x = g x) -> forallb f l = forallb g l.
  Proof. intro H. induction l; cbn; congruence. Qed.

  Lemma interiorb_iso e : interiorb a fl e = interiorb b fl e.
  Proof.
    destruct e; cbn [interiorb]; rewrite ?lspine_gtb_iso, ?rspine_geb_iso; try reflexivity;
      try (apply forallb_ext'; intro; apply lspine_gtb_iso);
      try (destruct esc; [apply lspine_gtb_iso|reflexivity]).
  Qed.

  Lemma localb_iso e : localb a fl e = localb b fl e.
  Proof.
    unfold localb. rewrite interiorb_iso.
    destruct (lhead e) as [[k l]|]; destruct (rhead fl e) as [[k' r]|];
      rewrite ?rspine_geb_iso, ?lspine_gtb_iso; reflexivity.
  Qed.

  Lemma wfb_all_iso l :
    Forall (fun x => wfb a fl x = wfb b fl x) l ->
    (fix all (l : list expr) : bool := match l with [] => true | x :: r => wfb a fl x && all r end) l =
    (fix all (l : list expr) : bool := match l with [] => true | x :: r => wfb b fl x && all r end) l.
  Proof. induction 1; [reflexivity|]. congruence. Qed.

  Lemma wfb_iso e : wfb a fl e = wfb b fl e.
  Proof.
    induction e using expr_rect'; cbn [wfb]; rewrite localb_iso; try congruence.
    - rewrite (wfb_all_iso l) by assumption. reflexivity.
    - rewrite (wfb_all_iso l) by assumption. congruence.
  Qed.

  Theorem correctb_iso t ts : correctb fl a t ts = correctb fl b t ts.
  Proof. unfold correctb. rewrite wfb_iso, lspine_gtb_iso. reflexivity. Qed.

  Theorem Correct_gen_iso t ts : Correct_gen fl a t ts <-> Correct_gen fl b t ts.
  Proof. rewrite <- !correctb_iff, correctb_iso. tauto. Qed.
End Transfer.

(** The generated side condition [published_order] gives the order isomorphism for all keys. *)
Lemma forallb_seq_N (f : N -> bool) n :
  forallb f (map N.of_nat (seq 0 n)) = true -> forall i, i < N.of_nat n -> f i = true.
Proof.
  intros H i Hi. rewrite forallb_forall in H. apply H. apply in_map_iff.
  exists (N.to_nat i). split; [lia|]. apply in_seq. lia.
Qed.

Lemma nthN_out l k : N.of_nat (length l) <= k -> nthN l k = 0.
Proof. intro H. unfold nthN. apply nth_overflow. lia. Qed.

Theorem published_order_iso f lv :
  published_order f lv = true ->
  forall i j, (pinned f i <? pinned f j) = (nthN lv i <? nthN lv j).
Proof.
  unfold published_order, same_order, pinned. intro H.
  apply andb_true_iff in H. destruct H as [H H0]. apply N.eqb_eq in H0.
  apply andb_true_iff in H. destruct H as [H Hall].
  apply andb_true_iff in H. destruct H as [Hla Hlb]. apply N.eqb_eq in Hla. apply N.eqb_eq in Hlb.
  set (pa := pinned_levels f) in *.
  assert (Hcmp : forall i j, i < n_keys -> j < n_keys ->
            (nthN pa i <? nthN pa j) = (nthN lv i <? nthN lv j)).
  { intros i j Hi Hj.
    pose proof (forallb_seq_N _ _ Hall i Hi) as H1. cbv beta in H1.
    pose proof (forallb_seq_N _ _ H1 j Hj) as H2. cbv beta in H2.
    destruct (N.compare_spec (nthN pa i) (nthN pa j)); destruct (N.compare_spec (nthN lv i) (nthN lv j));
      try discriminate; lia. }
  assert (Hpu : nthN pa K_UNKNOWN = 0).
  { subst pa. destruct f; vm_compute; reflexivity. }
  assert (HU : K_UNKNOWN < n_keys) by (vm_compute; reflexivity).
  intros i j.
  destruct (N.ltb_spec i n_keys) as [Hi|Hi]; destruct (N.ltb_spec j n_keys) as [Hj|Hj].
  - apply Hcmp; assumption.
  - rewrite (nthN_out pa j), (nthN_out lv j) by lia.
    destruct (N.ltb_spec (nthN pa i) 0); destruct (N.ltb_spec (nthN lv i) 0); lia.
  - rewrite (nthN_out pa i), (nthN_out lv i) by lia.
    pose proof (Hcmp K_UNKNOWN j HU Hj) as Hc. rewrite Hpu, H0 in Hc. exact Hc.
  - rewrite (nthN_out pa i), (nthN_out lv i), (nthN_out pa j), (nthN_out lv j) by lia. reflexivity.
Qed.
