(** MachineProofs.v — the relational program logic over Machine.v.

    [Respects Rs stop p p']: whenever the start states of two runs are related by [Rs], either
    the left run stops with an absorbing error ([stop]) or both runs have the same outcome and
    related final states.  Closure lemmas for every combinator of the interface, generic in the
    relation; then the instances
      - [Rlim]   (states equal except that the left run has less depth; stop = limit error),
      - [Frame]  (unary: [toks], [pst], [tc], [depth] are restored by every program),
    and the inductive family [Iface] of all programs built from the interface, with the
    soundness theorems "every [Iface] program respects R". *)
Require Import SqlV.Base SqlV.Machine.
From Coq Require Import Arith.

(** * Generic logic *)
Section Respects.
  Variable Rs : mstate -> mstate -> Prop.
  Variable stop_err : err -> Prop.

  Definition stopo {A} (o : outcome A) : Prop := exists e, o = Err e /\ stop_err e.
  Definition Rout {A} (x y : outcome A * mstate) : Prop :=
    stopo (fst x) \/ (fst x = fst y /\ Rs (snd x) (snd y)).
  Definition Respects {A} (p p' : M A) : Prop :=
    forall d s s', Rs s s' -> Rout (p d s) (p' d s').

  Lemma resp_ret A (a : A) : Respects (ret a) (ret a).
  Proof. intros d s s' H. right. cbn. auto. Qed.
  Lemma resp_fail A e : Respects (@fail A e) (fail e).
  Proof. intros d s s' H. right. cbn. auto. Qed.
  Lemma resp_diverge A : Respects (@diverge A) diverge.
  Proof. intros d s s' H. right. cbn. auto. Qed.
  Lemma resp_panic A : Respects (@panic A) panic.
  Proof. intros d s s' H. right. cbn. auto. Qed.

  Lemma resp_bind A B (p p' : M A) (k k' : A -> M B) :
    Respects p p' -> (forall a, Respects (k a) (k' a)) -> Respects (bind p k) (bind p' k').
  Proof.
    intros Hp Hk d s s' HR. unfold bind. specialize (Hp d s s' HR).
    destruct (p d s) as [o t], (p' d s') as [o' t'].
    destruct Hp as [[e [He Hs]] | [Heq HR']]; cbn in *.
    - subst o. left. exists e. cbn. auto.
    - subst o'. destruct o; cbn.
      + apply Hk. exact HR'.
      + right. cbn. auto.
      + right. cbn. auto.
      + right. cbn. auto.
  Qed.

  Lemma resp_mfix X A (F F' : (X -> M A) -> X -> M A) :
    (forall rec rec', (forall x, Respects (rec x) (rec' x)) -> forall x, Respects (F rec x) (F' rec' x)) ->
    forall n x, Respects (mfix F n x) (mfix F' n x).
  Proof.
    intros H n. induction n as [|n IH]; intro x; cbn [mfix].
    - apply resp_diverge.
    - apply H. exact IH.
  Qed.

  Lemma resp_if A (b : bool) (p p' q q' : M A) :
    Respects p p' -> Respects q q' -> Respects (if b then p else q) (if b then p' else q').
  Proof. destruct b; auto. Qed.

  (** Relations that do not constrain the cursor beyond "same tokens, same index". *)
  Hypothesis Rs_cursor : forall s s', Rs s s' -> toks s = toks s' /\ idx s = idx s'.
  Hypothesis Rs_set_idx : forall s s' i, Rs s s' -> Rs (set_idx i s) (set_idx i s').

  Ltac cursor :=
    let d := fresh "d" in let s := fresh "s" in let s' := fresh "s'" in let H := fresh "H" in
    intros d s s' H; destruct (Rs_cursor _ _ H) as [?Ht ?Hi]; right; cbn;
    repeat match goal with
           | Ht : toks _ = toks _ |- _ => rewrite <- Ht
           | Hi : idx _ = idx _ |- _ => rewrite <- Hi
           end; auto.

  Lemma resp_peek_nth n : Respects (peek_nth_token n) (peek_nth_token n).
  Proof. unfold peek_nth_token. cursor. Qed.
  Lemma resp_peek : Respects peek_token peek_token.
  Proof. apply resp_peek_nth. Qed.
  Lemma resp_peek_ns n : Respects (peek_nth_token_no_skip n) (peek_nth_token_no_skip n).
  Proof. unfold peek_nth_token_no_skip. cursor. Qed.
  Lemma resp_next : Respects next_token next_token.
  Proof.
    unfold next_token. intros d s s' H. destruct (Rs_cursor _ _ H) as [Ht Hi].
    rewrite <- Ht, <- Hi. destruct (next_from _ _) as [t i]. right. cbn. auto.
  Qed.
  Lemma resp_next_ns : Respects next_token_no_skip next_token_no_skip.
  Proof. unfold next_token_no_skip. cursor. Qed.
  Lemma resp_prev : Respects prev_token prev_token.
  Proof.
    unfold prev_token. intros d s s' H. destruct (Rs_cursor _ _ H) as [Ht Hi].
    rewrite <- Ht, <- Hi. destruct (prev_idx _ _); right; cbn; auto.
  Qed.
  Lemma resp_lookahead A g (p p' q q' : M A) :
    Respects p p' -> Respects q q' -> Respects (lookahead g p q) (lookahead g p' q').
  Proof.
    intros Hp Hq d s s' H. unfold lookahead. destruct (Rs_cursor _ _ H) as [Ht Hi].
    rewrite <- Ht, <- Hi. destruct (g _); auto.
  Qed.
  Lemma resp_get_idx : Respects get_idx get_idx.
  Proof. unfold get_idx. cursor. Qed.
  Lemma resp_put_idx i : Respects (put_idx i) (put_idx i).
  Proof. unfold put_idx. cursor. Qed.
  Lemma resp_ask_reserved : Respects ask_reserved ask_reserved.
  Proof. intros d s s' H. right. cbn. auto. Qed.
  Lemma resp_ask_proj_tc : Respects ask_proj_tc ask_proj_tc.
  Proof. intros d s s' H. right. cbn. auto. Qed.
  Lemma resp_dialect_is ids : Respects (dialect_is ids) (dialect_is ids).
  Proof. intros d s s' H. right. cbn. auto. Qed.
  Lemma resp_ask_flag n : Respects (ask_flag n) (ask_flag n).
  Proof. intros d s s' H. right. cbn. auto. Qed.
  Lemma resp_expected A what t : Respects (@expected A what t) (expected what t).
  Proof. apply resp_fail. Qed.

  Hint Resolve resp_ret resp_fail resp_diverge resp_bind resp_peek resp_peek_nth resp_peek_ns resp_next
       resp_next_ns resp_prev resp_get_idx resp_put_idx resp_expected resp_if resp_ask_reserved : resp.

  Lemma resp_parse_keyword k : Respects (parse_keyword k) (parse_keyword k).
  Proof. unfold parse_keyword. apply resp_bind; auto with resp; intro t; destruct (is_kw k t); auto with resp. Qed.
  Lemma resp_parse_keywords_from ks i : Respects (parse_keywords_from ks i) (parse_keywords_from ks i).
  Proof.
    induction ks as [|k r IH]; cbn [parse_keywords_from]; auto with resp.
    all: try (apply resp_bind; [apply resp_parse_keyword|]; intros []; auto with resp).
  Qed.
  Lemma resp_parse_keywords ks : Respects (parse_keywords ks) (parse_keywords ks).
  Proof. unfold parse_keywords. apply resp_bind; auto with resp; intro; apply resp_parse_keywords_from. Qed.
  Lemma resp_one_of ks : Respects (parse_one_of_keywords ks) (parse_one_of_keywords ks).
  Proof.
    unfold parse_one_of_keywords. apply resp_bind; auto with resp; intro t;
    destruct (tok t); auto with resp; destruct (find _ ks); auto with resp.
  Qed.
  Lemma resp_expect_keyword k : Respects (expect_keyword k) (expect_keyword k).
  Proof. unfold expect_keyword. apply resp_bind; [apply resp_parse_keyword|]; intros []; auto with resp. Qed.
  Lemma resp_expect_keywords ks : Respects (expect_keywords ks) (expect_keywords ks).
  Proof. induction ks; cbn [expect_keywords]; auto with resp. all: try (apply resp_bind; auto; apply resp_expect_keyword). Qed.
  Lemma resp_consume_token e : Respects (consume_token e) (consume_token e).
  Proof. unfold consume_token. apply resp_bind; auto with resp; intro t; destruct (token_eqb _ _); auto with resp. Qed.
  Lemma resp_consume_tokens_from ts i : Respects (consume_tokens_from ts i) (consume_tokens_from ts i).
  Proof.
    induction ts as [|t r IH]; cbn [consume_tokens_from]; auto with resp.
    all: try (apply resp_bind; [apply resp_consume_token|]; intros []; auto with resp).
  Qed.
  Lemma resp_consume_tokens ts : Respects (consume_tokens ts) (consume_tokens ts).
  Proof. unfold consume_tokens. apply resp_bind; auto with resp; intro; apply resp_consume_tokens_from. Qed.
  Lemma resp_expect_token e : Respects (expect_token e) (expect_token e).
  Proof. unfold expect_token. apply resp_bind; [apply resp_consume_token|]; intros []; auto with resp. Qed.
  Lemma resp_peek_two a b : Respects (peek_two_are a b) (peek_two_are a b).
  Proof. unfold peek_two_are. auto 6 with resp. Qed.

  Hint Resolve resp_parse_keyword resp_parse_keywords resp_one_of resp_expect_keyword resp_expect_keywords
       resp_consume_token resp_consume_tokens resp_expect_token resp_peek_two : resp.

  (** Speculation.  The error-swallowing helper is sound for a relation only if no absorbing
      error can reach it, or if it lets the absorbing error through. *)
  Lemma resp_maybe A rr (f f' : M A) :
    (forall e, stop_err e -> e = Limit /\ rr = true) ->
    Respects f f' -> Respects (maybe_with rr f) (maybe_with rr f').
  Proof.
    intros Hst Hf d s s' HR. unfold maybe_with. specialize (Hf d s s' HR).
    destruct (Rs_cursor _ _ HR) as [_ Hi].
    destruct (f d s) as [o t], (f' d s') as [o' t'].
    destruct Hf as [[e [He Hs]] | [Heq HR']]; cbn in *.
    - subst o. destruct (Hst e Hs) as [-> ->]. left. exists Limit. cbn. auto.
    - subst o'. destruct o as [a|e| |]; cbn; try (right; cbn; auto; fail).
      destruct e; try (right; cbn; rewrite Hi; auto; fail).
      destruct rr; right; cbn; auto. rewrite Hi; auto.
  Qed.

  Definition NoStop {A} (f : M A) : Prop := forall d s e, fst (f d s) = Err e -> ~ stop_err e.

  Lemma resp_maybe_nostop A rr (f f' : M A) :
    NoStop f -> Respects f f' -> Respects (maybe_with rr f) (maybe_with rr f').
  Proof.
    intros Hns Hf d s s' HR. unfold maybe_with. specialize (Hf d s s' HR).
    destruct (Rs_cursor _ _ HR) as [_ Hi]. specialize (Hns d s).
    destruct (f d s) as [o t], (f' d s') as [o' t'].
    destruct Hf as [[e [He Hs]] | [Heq HR']]; cbn in *.
    - subst o. exfalso. exact (Hns e eq_refl Hs).
    - subst o'. destruct o as [a|e| |]; cbn; try (right; cbn; auto; fail).
      destruct e; try (right; cbn; rewrite Hi; auto; fail).
      destruct rr; right; cbn; auto. rewrite Hi; auto.
  Qed.

  (** List combinators, given the end-of-list test. *)
  Lemma resp_comma_sep A n (f f' : M A) :
    Respects is_end is_end -> Respects f f' -> Respects (comma_sep n f) (comma_sep n f').
  Proof.
    intros He Hf. induction n as [|n IH]; cbn [comma_sep]; auto with resp.
    all: try (apply resp_bind; auto; intro x; apply resp_bind; auto; intros []; auto with resp).
  Qed.
  Lemma resp_kw_sep A n k (f f' : M A) : Respects f f' -> Respects (kw_sep n k f) (kw_sep n k f').
  Proof.
    intros Hf. induction n as [|n IH]; cbn [kw_sep]; auto with resp.
    all: try (apply resp_bind; auto; intro x; apply resp_bind; auto with resp; intros []; auto with resp).
  Qed.
  Lemma resp_parenthesized A (f f' : M A) : Respects f f' -> Respects (parenthesized f) (parenthesized f').
  Proof. intro Hf. unfold parenthesized. auto 8 with resp. Qed.

  Lemma resp_skip_semis n : Respects (skip_semis n) (skip_semis n).
  Proof. induction n; cbn [skip_semis]; auto with resp. all: try (apply resp_bind; auto with resp; intros []; auto with resp). Qed.
  Lemma resp_skip_all_semis : Respects skip_all_semis skip_all_semis.
  Proof.
    intros d s s' H. unfold skip_all_semis. destruct (Rs_cursor _ _ H) as [Ht _]. rewrite <- Ht.
    apply resp_skip_semis. exact H.
  Qed.
  Lemma resp_statements_loop A blk n (stmt stmt' : M A) :
    Respects stmt stmt' -> forall e acc, Respects (statements_loop blk n stmt e acc) (statements_loop blk n stmt' e acc).
  Proof.
    intro Hs. induction n as [|n IH]; intros e acc; cbn [statements_loop]; [apply resp_diverge|].
    apply resp_bind; [apply resp_peek|]. intro t0. apply resp_bind; [apply resp_skip_all_semis|]. intros _.
    apply resp_bind; [apply resp_peek|]. intro t.
    assert (G : Respects
                  (if blk && (if token_eqb (tok t0) (TP PSemi) then false else e) && is_kw (s2l "END") t
                   then ret (rev acc)
                   else if (if token_eqb (tok t0) (TP PSemi) then false else e)
                        then expected (s2l "end of statement") t
                        else a <- stmt ;; statements_loop blk n stmt true (a :: acc))
                  (if blk && (if token_eqb (tok t0) (TP PSemi) then false else e) && is_kw (s2l "END") t
                   then ret (rev acc)
                   else if (if token_eqb (tok t0) (TP PSemi) then false else e)
                        then expected (s2l "end of statement") t
                        else a <- stmt' ;; statements_loop blk n stmt' true (a :: acc))).
    { apply resp_if. apply resp_ret. apply resp_if. apply resp_expected. apply resp_bind; auto. }
    destruct (tok t); try exact G. apply resp_ret.
  Qed.
  Lemma resp_parse_statements A n (stmt stmt' : M A) :
    Respects stmt stmt' -> Respects (parse_statements n stmt) (parse_statements n stmt').
  Proof. intro. apply resp_statements_loop. assumption. Qed.
End Respects.

(** * R_lim: less depth on the left; the limit error is absorbing. *)
Definition Rlim (s s' : mstate) : Prop :=
  toks s = toks s' /\ idx s = idx s' /\ pst s = pst s' /\ tc s = tc s' /\ (depth s <= depth s')%nat.
Definition is_limit (e : err) : Prop := e = Limit.
Notation Mono p := (Respects Rlim is_limit p p).

Lemma Rlim_cursor s s' : Rlim s s' -> toks s = toks s' /\ idx s = idx s'.
Proof. intros (a & b & _). auto. Qed.
Lemma Rlim_set_idx s s' i : Rlim s s' -> Rlim (set_idx i s) (set_idx i s').
Proof. intros (a & b & c & d & e). repeat split; cbn; auto. Qed.
Lemma Rlim_refl s : Rlim s s.
Proof. repeat split; auto. Qed.

Lemma mono_get_tc : Mono get_tc.
Proof. intros d s s' (a & b & c & e & f). right. cbn. rewrite e. repeat split; auto. Qed.
Lemma mono_get_pst : Mono get_pst.
Proof. intros d s s' (a & b & c & e & f). right. cbn. rewrite c. repeat split; auto. Qed.

Lemma mono_is_end : Mono is_end.
Proof.
  unfold is_end. apply resp_bind. apply resp_consume_token; [apply Rlim_cursor|apply Rlim_set_idx].
  intros []; cbn [negb]; [|apply resp_ret].
  apply resp_bind. apply mono_get_tc. intros []; [|apply resp_ret].
  apply resp_bind. apply resp_peek, Rlim_cursor. intro t.
  apply resp_bind. apply resp_ask_reserved. intro r. apply resp_ret.
Qed.

Lemma mono_guard A (p : M A) : Mono p -> Mono (guard p).
Proof.
  intros Hp d s s' HR. unfold guard. destruct HR as (a & b & c & e & f).
  destruct (depth s) as [|n] eqn:Dn.
  - left. exists Limit. cbn. split; reflexivity.
  - destruct (depth s') as [|m] eqn:Dm; [lia|].
    assert (HR' : Rlim (set_depth n s) (set_depth m s')) by (repeat split; cbn; auto; lia).
    specialize (Hp d _ _ HR').
    destruct (p d (set_depth n s)) as [o t], (p d (set_depth m s')) as [o' t'].
    destruct Hp as [Hs | [Heq (a' & b' & c' & e' & f')]]; cbn in *.
    + left. exact Hs.
    + right. cbn. split; auto. repeat split; cbn; auto. lia.
Qed.

Lemma mono_with_state A st (f : M A) : Mono f -> Mono (with_state st f).
Proof.
  intros Hf d s s' HR. unfold with_state. destruct HR as (a & b & c & e & f0).
  assert (HR' : Rlim (set_pst st s) (set_pst st s')) by (repeat split; cbn; auto).
  specialize (Hf d _ _ HR').
  destruct (f d (set_pst st s)) as [o t], (f d (set_pst st s')) as [o' t'].
  destruct Hf as [[x [Hx Hl]] | [Heq (a' & b' & c' & e' & f')]]; cbn in *.
  - subst o. left. exists x. cbn. auto.
  - subst o'. rewrite c. right. destruct o; cbn; split; auto; repeat split; cbn; auto.
Qed.

Lemma mono_with_projection_tc A (f : M A) : Mono f -> Mono (with_projection_tc f).
Proof.
  intros Hf d s s' HR. unfold with_projection_tc. destruct HR as (a & b & c & e & f0).
  assert (HR' : Rlim (set_tc (tc s || d_proj_tc d) s) (set_tc (tc s' || d_proj_tc d) s'))
    by (rewrite e; repeat split; cbn; auto).
  specialize (Hf d _ _ HR').
  destruct (f d (set_tc (tc s || d_proj_tc d) s)) as [o t], (f d (set_tc (tc s' || d_proj_tc d) s')) as [o' t'].
  destruct Hf as [[x [Hx Hl]] | [Heq (a' & b' & c' & e' & f')]]; cbn in *.
  - subst o. left. exists x. cbn. auto.
  - subst o'. rewrite e. right. destruct o; cbn; split; auto; repeat split; cbn; auto.
Qed.

Lemma mono_with_tc_to A v (f : M A) : Mono f -> Mono (with_tc_to v f).
Proof.
  intros Hf d s s' HR. unfold with_tc_to. destruct HR as (a & b & c & e & f0).
  assert (HR' : Rlim (set_tc v s) (set_tc v s')) by (repeat split; cbn; auto).
  specialize (Hf d _ _ HR').
  destruct (f d (set_tc v s)) as [o t], (f d (set_tc v s')) as [o' t'].
  destruct Hf as [[x [Hx Hl]] | [Heq (a' & b' & c' & e' & f')]]; cbn in *.
  - subst o. left. exists x. cbn. auto.
  - subst o'. rewrite e. right. destruct o; cbn; split; auto; repeat split; cbn; auto.
Qed.

Lemma mono_projection A n (f : M A) : Mono f -> Mono (projection n f).
Proof.
  intros Hf d s s' HR. unfold projection.
  assert (E : tc s = tc s') by (destruct HR as (_ & _ & _ & e & _); exact e). rewrite <- E.
  apply (mono_with_projection_tc _ (comma_sep n (with_tc_to (tc s) f))); [|exact HR].
  apply resp_comma_sep; first [apply Rlim_cursor | apply Rlim_set_idx | apply mono_is_end | apply mono_with_tc_to; exact Hf].
Qed.

Lemma mono_comma_sep0 A n (f : M A) t : Mono f -> Mono (comma_sep0 n f t).
Proof.
  intro Hf. unfold comma_sep0.
  apply resp_bind. apply resp_peek, Rlim_cursor. intro t0.
  destruct (token_eqb _ _); [apply resp_ret|].
  apply resp_bind. apply mono_get_tc. intro b.
  apply resp_bind. apply resp_peek_two, Rlim_cursor. intro two.
  destruct (b && two).
  - apply resp_bind. apply resp_consume_token; [apply Rlim_cursor|apply Rlim_set_idx]. intro. apply resp_ret.
  - apply resp_comma_sep; first [apply Rlim_cursor | apply Rlim_set_idx | apply mono_is_end | exact Hf].
Qed.

Lemma mono_actions_list A n (f : M A) : Mono f -> Mono (actions_list n f).
Proof.
  intro Hf. induction n as [|n IH]; cbn [actions_list]. apply resp_diverge.
  apply resp_bind; auto. intro x.
  apply resp_bind. apply resp_consume_token; [apply Rlim_cursor|apply Rlim_set_idx].
  intros []; cbn [negb]; [|apply resp_ret].
  apply resp_bind. apply mono_get_tc. intros [].
  - apply resp_bind. apply resp_peek, Rlim_cursor. intro t.
    destruct (is_actions_term _); [apply resp_ret|].
    apply resp_bind; auto. intro. apply resp_ret.
  - apply resp_bind; auto. intro. apply resp_ret.
Qed.

(** * R_frame: every program of the interface leaves [toks], [pst], [tc], [depth] as it found
      them, whatever its outcome (a panic excepted: the parser is abandoned then). *)
Definition frame_eq (s t : mstate) : Prop :=
  toks t = toks s /\ pst t = pst s /\ tc t = tc s /\ depth t = depth s.
Definition Frame {A} (p : M A) : Prop :=
  forall d s, fst (p d s) <> Panic -> frame_eq s (snd (p d s)).

Lemma frame_refl s : frame_eq s s.
Proof. repeat split. Qed.
Lemma frame_trans s t u : frame_eq s t -> frame_eq t u -> frame_eq s u.
Proof. intros (a & b & c & d) (a' & b' & c' & d'). repeat split; congruence. Qed.
Lemma frame_set_idx s i : frame_eq s (set_idx i s).
Proof. repeat split. Qed.

Lemma frame_ret A (a : A) : Frame (ret a).
Proof. intros d s _. apply frame_refl. Qed.
Lemma frame_fail A e : Frame (@fail A e).
Proof. intros d s _. apply frame_refl. Qed.
Lemma frame_diverge A : Frame (@diverge A).
Proof. intros d s _. apply frame_refl. Qed.
Lemma frame_bind A B (p : M A) (k : A -> M B) : Frame p -> (forall a, Frame (k a)) -> Frame (bind p k).
Proof.
  intros Hp Hk d s. unfold bind. specialize (Hp d s).
  destruct (p d s) as [o t]; cbn in *. destruct o; cbn; intro Hn.
  - eapply frame_trans. apply Hp; discriminate. apply Hk. exact Hn.
  - apply Hp; discriminate.
  - congruence.
  - apply Hp; discriminate.
Qed.
Lemma frame_mfix X A (F : (X -> M A) -> X -> M A) :
  (forall rec, (forall x, Frame (rec x)) -> forall x, Frame (F rec x)) -> forall n x, Frame (mfix F n x).
Proof. intros H n. induction n; intro x; cbn [mfix]. apply frame_diverge. apply H. assumption. Qed.

Lemma frame_peek_nth n : Frame (peek_nth_token n).
Proof. intros d s _. apply frame_refl. Qed.
Lemma frame_peek_ns n : Frame (peek_nth_token_no_skip n).
Proof. intros d s _. apply frame_refl. Qed.
Lemma frame_next : Frame next_token.
Proof. intros d s _. unfold next_token. destruct (next_from _ _). apply frame_set_idx. Qed.
Lemma frame_next_ns : Frame next_token_no_skip.
Proof. intros d s _. apply frame_set_idx. Qed.
Lemma frame_prev : Frame prev_token.
Proof. intros d s. unfold prev_token. destruct (prev_idx _ _); cbn; intro H. apply frame_set_idx. congruence. Qed.
Lemma frame_get_idx : Frame get_idx. Proof. intros d s _. apply frame_refl. Qed.
Lemma frame_put_idx i : Frame (put_idx i). Proof. intros d s _. apply frame_set_idx. Qed.
Lemma frame_get_tc : Frame get_tc. Proof. intros d s _. apply frame_refl. Qed.
Lemma frame_ask_reserved : Frame ask_reserved. Proof. intros d s _. apply frame_refl. Qed.

Lemma frame_lookahead A g (p q : M A) : Frame p -> Frame q -> Frame (lookahead g p q).
Proof. intros Hp Hq d s. unfold lookahead. destruct (g _); auto. Qed.

Lemma frame_dialect_is ids : Frame (dialect_is ids). Proof. intros d s _. apply frame_refl. Qed.
Lemma frame_ask_flag n : Frame (ask_flag n). Proof. intros d s _. apply frame_refl. Qed.

Lemma frame_maybe A rr (f : M A) : Frame f -> Frame (maybe_with rr f).
Proof.
  intros Hf d s. unfold maybe_with. specialize (Hf d s). destruct (f d s) as [o t]; cbn in *.
  destruct o as [x|e| |]; cbn; intro Hn; try (apply Hf; discriminate); try congruence.
  assert (Hft : frame_eq s t) by (apply Hf; discriminate).
  destruct e; [| |destruct rr]; cbn; auto;
    (eapply frame_trans; [exact Hft|apply frame_set_idx]).
Qed.
Lemma frame_guard A (p : M A) : Frame p -> Frame (guard p).
Proof.
  intros Hp d s. unfold guard. destruct (depth s) as [|n] eqn:Dn; cbn. intros _; apply frame_refl.
  specialize (Hp d (set_depth n s)). destruct (p d (set_depth n s)) as [o t]; cbn in *.
  intro Hn. destruct (Hp Hn) as (h1 & h2 & h3 & h4). cbn in *. repeat split; cbn; auto. congruence.
Qed.
Lemma frame_with_state A st (f : M A) : Frame f -> Frame (with_state st f).
Proof.
  intros Hf d s. unfold with_state. specialize (Hf d (set_pst st s)).
  destruct (f d (set_pst st s)) as [o t]; cbn in *.
  destruct o; cbn; intro Hn; try congruence;
    (destruct Hf as (h1 & h2 & h3 & h4); [discriminate|]; cbn in *; repeat split; cbn; auto).
Qed.
Lemma frame_with_projection_tc A (f : M A) : Frame f -> Frame (with_projection_tc f).
Proof.
  intros Hf d s. unfold with_projection_tc. specialize (Hf d (set_tc (tc s || d_proj_tc d) s)).
  destruct (f d (set_tc (tc s || d_proj_tc d) s)) as [o t]; cbn in *.
  destruct o; cbn; intro Hn; try congruence;
    (destruct Hf as (h1 & h2 & h3 & h4); [discriminate|]; cbn in *; repeat split; cbn; auto).
Qed.

Lemma frame_with_tc_to A v (f : M A) : Frame f -> Frame (with_tc_to v f).
Proof.
  intros Hf d s. unfold with_tc_to. specialize (Hf d (set_tc v s)).
  destruct (f d (set_tc v s)) as [o t]; cbn in *.
  destruct o; cbn; intro Hn; try congruence;
    (destruct Hf as (h1 & h2 & h3 & h4); [discriminate|]; cbn in *; repeat split; cbn; auto).
Qed.

(** * All programs built from the interface *)
Section Iface.
  (** side conditions on the two configurable constructors *)
  Variable okmaybe : forall A, bool -> M A -> Prop.
  Variable okend : token -> Prop.

  Inductive Iface : forall A, M A -> Prop :=
  | I_ret A (a : A) : Iface A (ret a)
  | I_fail A e : Iface A (fail e)
  | I_diverge A : Iface A diverge
  | I_bind A B p k : Iface A p -> (forall a, Iface B (k a)) -> Iface B (bind p k)
  | I_peek_nth n : Iface _ (peek_nth_token n)
  | I_peek_ns n : Iface _ (peek_nth_token_no_skip n)
  | I_next : Iface _ next_token
  | I_next_ns : Iface _ next_token_no_skip
  | I_prev : Iface _ prev_token
  | I_parse_keywords ks : Iface _ (parse_keywords ks)
  | I_consume_tokens ts : Iface _ (consume_tokens ts)
  | I_maybe A rr f : Iface A f -> okmaybe A rr f -> Iface _ (maybe_with rr f)
  | I_guard A p : Iface A p -> Iface A (guard p)
  | I_with_state A st f : Iface A f -> Iface A (with_state st f)
  | I_with_projection_tc A f : Iface A f -> Iface A (with_projection_tc f)
  | I_projection A n f : Iface A f -> Iface _ (projection n f)
  | I_is_end : Iface _ is_end
  | I_comma_sep0 A n f t : Iface A f -> okend t -> Iface _ (comma_sep0 n f t)
  | I_actions_list A n f : Iface A f -> Iface _ (actions_list n f)
  | I_skip_all_semis : Iface _ skip_all_semis
  | I_lookahead A g p q : Iface A p -> Iface A q -> Iface A (lookahead g p q)
  | I_dialect_is ids : Iface _ (dialect_is ids)
  | I_ask_flag n : Iface _ (ask_flag n).

  (** Everything else of the interface is derived (it is defined from the constructors). *)
  Lemma I_if A (b : bool) p q : Iface A p -> Iface A q -> Iface A (if b then p else q).
  Proof. destruct b; auto. Qed.
  Lemma I_peek : Iface _ peek_token.
  Proof. apply I_peek_nth. Qed.
  Lemma I_expected A what t : Iface A (expected what t).
  Proof. apply I_fail. Qed.
  Lemma I_parse_keyword k : Iface _ (parse_keyword k).
  Proof. unfold parse_keyword. apply I_bind. apply I_peek. intro t. apply I_if.
    apply I_bind. apply I_next. intro. apply I_ret. apply I_ret. Qed.
  Lemma I_one_of ks : Iface _ (parse_one_of_keywords ks).
  Proof. unfold parse_one_of_keywords. apply I_bind. apply I_peek. intro t.
    destruct (tok t); try apply I_ret. destruct (find _ ks); try apply I_ret.
    apply I_bind. apply I_next. intro. apply I_ret. Qed.
  Lemma I_expect_keyword k : Iface _ (expect_keyword k).
  Proof. unfold expect_keyword. apply I_bind. apply I_parse_keyword. intros []. apply I_ret.
    apply I_bind. apply I_peek. intro. apply I_expected. Qed.
  Lemma I_expect_keywords ks : Iface _ (expect_keywords ks).
  Proof. induction ks; cbn [expect_keywords]. apply I_ret. apply I_bind. apply I_expect_keyword. auto. Qed.
  Lemma I_consume_token e : Iface _ (consume_token e).
  Proof. unfold consume_token. apply I_bind. apply I_peek. intro t. apply I_if.
    apply I_bind. apply I_next. intro. apply I_ret. apply I_ret. Qed.
  Lemma I_expect_token e : Iface _ (expect_token e).
  Proof. unfold expect_token. apply I_bind. apply I_consume_token. intros []. apply I_ret.
    apply I_bind. apply I_peek. intro. apply I_expected. Qed.
  Lemma I_comma_sep A n f : Iface A f -> Iface _ (comma_sep n f).
  Proof. intro Hf. induction n; cbn [comma_sep]. apply I_diverge.
    apply I_bind; auto. intro x. apply I_bind. apply I_is_end. intros []. apply I_ret.
    apply I_bind; auto. intro. apply I_ret. Qed.
  Lemma I_kw_sep A n k f : Iface A f -> Iface _ (kw_sep n k f).
  Proof. intro Hf. induction n; cbn [kw_sep]. apply I_diverge.
    apply I_bind; auto. intro x. apply I_bind. apply I_parse_keyword. intros []; [|apply I_ret].
    apply I_bind; auto. intro. apply I_ret. Qed.
  Lemma I_parenthesized A f : Iface A f -> Iface A (parenthesized f).
  Proof. intro Hf. unfold parenthesized. apply I_bind. apply I_expect_token. intro.
    apply I_bind; auto. intro r. apply I_bind. apply I_expect_token. intro. apply I_ret. Qed.
  Lemma I_mfix X A (F : (X -> M A) -> X -> M A) :
    (forall rec, (forall x, Iface A (rec x)) -> forall x, Iface A (F rec x)) ->
    forall n x, Iface A (mfix F n x).
  Proof. intros H n. induction n; intro x; cbn [mfix]. apply I_diverge. apply H. assumption. Qed.
  Lemma I_statements_loop A blk n stmt : Iface A stmt -> forall e acc, Iface _ (statements_loop blk n stmt e acc).
  Proof.
    intro Hs. induction n as [|n IH]; intros e acc; cbn [statements_loop]. apply I_diverge.
    apply I_bind. apply I_peek. intro t0. apply I_bind. apply I_skip_all_semis. intros _.
    apply I_bind. apply I_peek. intro t.
    assert (G : Iface _ (if blk && (if token_eqb (tok t0) (TP PSemi) then false else e) && is_kw (s2l "END") t
                         then ret (rev acc)
                         else if (if token_eqb (tok t0) (TP PSemi) then false else e)
                              then expected (s2l "end of statement") t
                              else a <- stmt ;; statements_loop blk n stmt true (a :: acc))).
    { apply I_if. apply I_ret. apply I_if. apply I_expected. apply I_bind; auto. }
    destruct (tok t); try exact G. apply I_ret.
  Qed.
  Lemma I_parse_statements A n stmt : Iface A stmt -> Iface _ (parse_statements n stmt).
  Proof. intro. apply I_statements_loop. assumption. Qed.
End Iface.

(** The closure-language programs are interface programs. *)
Lemma I_denote_p (okm : forall A, bool -> M A -> Prop) (oke : token -> Prop) rr (self : M val) :
  (forall A f, okm A rr f) -> (forall t, oke t) -> Iface okm oke _ self ->
  forall fuel p, Iface okm oke _ (denote_p rr self fuel p).
Proof.
  intros Hm He Hself fuel p.
  induction p; cbn [denote_p];
    try (apply I_bind; [|intro; apply I_ret]);
    try apply I_next; try apply I_peek_nth; try apply I_prev; try apply I_next_ns; try apply I_peek_ns;
    try apply I_parse_keyword; try apply I_parse_keywords; try apply I_one_of; try apply I_expect_keyword;
    try apply I_consume_token; try apply I_consume_tokens; try apply I_expect_token; try apply I_fail;
    auto.
  - apply I_bind. apply I_peek. intro. apply I_expected.
  - apply I_bind; auto.
  - apply I_bind; auto. intro v. apply I_if; auto.
  - apply I_maybe; auto.
  - apply I_comma_sep; auto.
  - apply I_comma_sep0; auto.
  - apply I_kw_sep; auto.
  - apply I_parenthesized; auto.
  - unfold stmt_probe. apply I_bind. apply I_peek. intro t. apply I_if. apply I_ret.
    apply I_guard. apply I_bind. apply I_next. intro t'. apply I_if; [|apply I_expected].
    unfold commit_chain. apply I_bind. apply I_one_of. intro. apply I_bind. apply I_parse_keyword.
    intros []; [|apply I_ret]. apply I_bind. apply I_parse_keyword. intro. apply I_bind.
    apply I_expect_keyword. intro. apply I_ret.
  - unfold stmts_probe. apply I_lookahead. apply I_ret. apply I_bind; [|intro; apply I_ret].
    apply I_parse_statements. unfold stmt_core.
    apply I_guard. apply I_bind. apply I_next. intro t'. apply I_if; [|apply I_expected].
    unfold commit_chain. apply I_bind. apply I_one_of. intro. apply I_bind. apply I_parse_keyword.
    intros []; [|apply I_ret]. apply I_bind. apply I_parse_keyword. intro. apply I_bind.
    apply I_expect_keyword. intro. apply I_ret.
  - unfold word_elem. apply I_bind. apply I_next. intro t. destruct (tok t); try apply I_expected. apply I_ret.
  - apply I_guard; auto.
  - apply I_with_state; auto.
  - apply I_projection; auto.
  - unfold block_probe. do 5 (apply I_bind; [apply I_peek_nth|intro]). apply I_if; [|apply I_ret].
    apply I_guard. apply I_bind. apply I_next. intro. apply I_bind. apply I_parse_keyword. intro.
    unfold create_procedure. apply I_bind. apply I_next. intro.
    apply I_bind. apply I_consume_token. intro. apply I_bind. apply I_consume_token. intro.
    apply I_bind. apply I_expect_keyword. intro. apply I_bind. apply I_expect_keyword. intro.
    apply I_bind; [|intro; apply I_bind; [apply I_expect_keyword|intro; apply I_ret]].
    unfold parse_statement_block. apply I_statements_loop. unfold stmt_core.
    apply I_guard. apply I_bind. apply I_next. intro t'. apply I_if; [|apply I_expected].
    unfold commit_chain. apply I_bind. apply I_one_of. intro. apply I_bind. apply I_parse_keyword.
    intros []; [|apply I_ret]. apply I_bind. apply I_parse_keyword. intro. apply I_bind.
    apply I_expect_keyword. intro. apply I_ret.
Qed.

Lemma I_denote (okm : forall A, bool -> M A -> Prop) (oke : token -> Prop) rr :
  (forall A f, okm A rr f) -> (forall t, oke t) ->
  forall fuel p, Iface okm oke _ (denote rr fuel p).
Proof.
  intros Hm He fuel p. unfold denote. apply I_denote_p; auto.
  induction fuel; cbn [denote_rec]. apply I_diverge. apply I_denote_p; auto.
Qed.
