(** Instances of the side conditions of LexerLookahead.v on the generated dialect tables
    (kept apart from the proofs so that regenerating gen/DialectTables.v does not rebuild them). *)
Require Import SqlV.Base SqlV.Lexer SqlV.LexerLookahead.
Require Import SqlVGen.DialectTables.
Local Open Scope N_scope.

Example generic_blank_neutral : blank_neutralb dl_generic std_uni = true.
Proof. vm_compute. reflexivity. Qed.

Example all_dialects_blank_neutral :
  forallb (fun d => blank_neutralb d std_uni) all_dialects = true.
Proof. vm_compute. reflexivity. Qed.

Definition piq_always (d : dialect) : bool := match d_piq d with PiqAlways => true | PiqRedshift => false end.

(** every generated dialect except Redshift never probes behind a delimited-identifier opener *)
Example probing_dialects :
  map piq_always all_dialects =
  [true; true; true; true; true; true; true; true; true; true; false; true; true].
Proof. vm_compute. reflexivity. Qed.
Example redshift_probes : piq_always dl_redshift = false.
Proof. reflexivity. Qed.

Lemma probe_always d u c : piq_always d = true -> probe d u c = false.
Proof. unfold piq_always, probe. destruct (d_piq d); [reflexivity|discriminate]. Qed.

(** C07 (lexer level) for every generated dialect without the probe: no further hypothesis *)
Theorem lookahead_blank_dialects d unesc c b r b' r' t :
  In d all_dialects -> piq_always d = true -> blank b -> blank b' -> not_ws t ->
  next_token d std_uni unesc (c ++ b :: r) = Ok (Some (t, b :: r)) ->
  next_token d std_uni unesc (c ++ b' :: r') = Ok (Some (t, b' :: r')).
Proof.
  intros Hd Hp. apply lookahead_blank.
  - apply blank_neutralb_spec.
    pose proof all_dialects_blank_neutral as H. rewrite forallb_forall in H. apply H. exact Hd.
  - apply probe_always. exact Hp.
Qed.

(** the refutation of LexerLookahead.lookahead_blank_refuted on the real Redshift tables *)
Example redshift_bracket_refuted :
  blank_neutralb dl_redshift std_uni = true /\ probe dl_redshift std_uni [cLBR] = true /\
  next_token dl_redshift std_uni true ([cLBR] ++ cSP :: [49; cRBR]) = Ok (Some (TFix FLBracket, cSP :: [49; cRBR])) /\
  next_token dl_redshift std_uni true ([cLBR] ++ cSP :: [120; cRBR]) = Ok (Some (TWord [cSP; 120] (Some cLBR), [])).
Proof. vm_compute. repeat split; reflexivity. Qed.

Print Assumptions lookahead_blank_dialects.
Print Assumptions redshift_bracket_refuted.

(** stream level for the same dialects: a blank gap after a prefix that lexes on its own (and
    does not end in a line comment) can be replaced by any other blank gap *)
Theorem tokenize_blank_gap_dialects d unesc a w w' rest tsa ts :
  In d all_dialects -> piq_always d = true ->
  blanks w -> blanks w' -> w <> [] -> w' <> [] ->
  tokenize d std_uni unesc a = LexOk tsa -> ~ ends_with_line (map fst tsa) ->
  tokenize d std_uni unesc (a ++ w ++ rest) = LexOk ts ->
  exists ts', tokenize d std_uni unesc (a ++ w' ++ rest) = LexOk ts' /\
              nows (map fst ts') = nows (map fst ts).
Proof.
  intros Hd Hp Hw Hw' Hne Hne'. apply tokenize_blank_gap; auto.
  - apply blank_neutralb_spec.
    pose proof all_dialects_blank_neutral as H. rewrite forallb_forall in H. apply H. exact Hd.
  - apply probe_freeb_always. unfold piq_always in Hp. destruct (d_piq d); [reflexivity|discriminate].
Qed.
Print Assumptions tokenize_blank_gap_dialects.
