(** BlockProbe.v — the block probe [PBlock] of the closure language (Machine.block_probe):
    [parse_statement] on  CREATE PROCEDURE <word> AS BEGIN <statements> END, the only route to
    the block variant of the statement loop ([parse_statement_block] = parse_statement_list(true)).

    The probe is an interface program that looks five non-whitespace tokens ahead and no
    further, so every generic theorem about the closure language covers it; the instances are
    spelled out here, together with what the probe does when it is not taken, at depth 0, and
    on a concrete well-formed procedure. *)
Require Import SqlV.Base SqlV.Machine SqlV.MachineProofs SqlV.MachineRel SqlV.LimitMono
               SqlV.WsInvariance SqlV.RecaseInvariance SqlV.CommaList SqlV.Script.
From Coq Require Import Arith.

(** The parser state ([toks], [pst], [tc], [depth]) is as before on every non-panicking exit:
    the depth taken by [parse_statement] and by each statement of the body is given back,
    whether the body, the closing END or the guard itself fails. *)
Theorem block_probe_frame rr fuel : Frame (denote rr fuel PBlock).
Proof.
  eapply iface_frame. apply (I_denote anymaybe anyend rr); intros; exact I.
Qed.

(** Less depth can only surface as the recursion-limit error. *)
Theorem block_probe_limit_mono fuel : LimitMonotone (denote true fuel PBlock).
Proof. exact (limit_mono_prog fuel PBlock). Qed.

(** The probe is skipping-only (bounded look-ahead through [peek_nth_token]) and compares the
    cursor token with punctuation only: whitespace between the tokens and the ASCII case of
    the keywords CREATE PROCEDURE AS BEGIN COMMIT END ... do not change what it returns. *)
Theorem block_probe_ws_invariant ts ts' tcf limit rr fuel d :
  same_nonws ts ts' ->
  Ro err_sim (val_rel tok_sim)
     (fst (denote rr fuel PBlock d (init_state ts tcf limit)))
     (fst (denote rr fuel PBlock d (init_state ts' tcf limit))).
Proof. intro H. apply ws_invariance_init; [exact H|reflexivity]. Qed.

Theorem block_probe_recase_invariant ts ts' tcf limit rr fuel d :
  recased ts ts' ->
  Ro err_recase (val_rel tok_recase)
     (fst (denote rr fuel PBlock d (init_state ts tcf limit)))
     (fst (denote rr fuel PBlock d (init_state ts' tcf limit))).
Proof. intro H. apply recase_invariance_init; [exact H|reflexivity]. Qed.

(** The look-ahead of the probe, as a function of the state. *)
Definition header_ahead (s : mstate) : bool :=
  let l := skipn (idx s) (toks s) in
  block_header (peek_from l 0) (peek_from l 1) (peek_from l 2) (peek_from l 3) (peek_from l 4).

(** Not in front of  CREATE PROCEDURE <plain word> AS BEGIN : nothing happens. *)
Theorem block_probe_not_taken fuel d s :
  header_ahead s = false -> block_probe fuel d s = (Ok VUnit, s).
Proof.
  unfold header_ahead, block_probe, bind, peek_nth_token. intro H. rewrite H. reflexivity.
Qed.

(** In front of it with no depth left: the limit error of [parse_statement]'s guard, nothing consumed. *)
Theorem block_probe_at_depth_0 fuel d s :
  header_ahead s = true -> depth s = 0%nat -> block_probe fuel d s = (Err Limit, s).
Proof.
  unfold header_ahead, block_probe, bind, peek_nth_token. intros H D. rewrite H. unfold guard. rewrite D. reflexivity.
Qed.

(** Taken: exactly [parse_statement]'s route to [parse_create_procedure] under one depth guard. *)
Theorem block_probe_taken fuel d s n :
  header_ahead s = true -> depth s = S n ->
  block_probe fuel d s =
  let '(o, s') := (next_token ;;; parse_keyword (s2l "PROCEDURE") ;;; create_procedure fuel) d (set_depth n s) in
  (o, set_depth (S (depth s')) s').
Proof.
  unfold header_ahead, block_probe, bind at 1 2 3 4 5, peek_nth_token. intros H D. rewrite H. unfold guard. rewrite D. reflexivity.
Qed.

(** Non-vacuity, on the model: a procedure whose body is  COMMIT ; ; commit AND CHAIN  followed
    by END, with whitespace; what follows the closing END is left alone; the same body without
    the closing END, and with a missing separator. *)
Definition bp_mk (t : token) : twl := {| tok := t; line := 1; col := 1 |}.
Definition bp_kw (v k : string) : twl := bp_mk (TWord (s2l v) None (s2l k)).
Definition bp_header : list twl :=
  [bp_kw "CREATE" "CREATE"; bp_mk (TWs 0); bp_kw "procedure" "PROCEDURE"; bp_mk (TWs 1);
   bp_mk (TWord (s2l "p") None no_keyword); bp_kw "AS" "AS"; bp_mk (TWs 2); bp_kw "BEGIN" "BEGIN"].
Definition bp_body : list twl :=
  [bp_mk (TWs 0); bp_kw "COMMIT" "COMMIT"; bp_mk (TP PSemi); bp_mk (TP PSemi); bp_mk (TWs 1);
   bp_kw "commit" "COMMIT"; bp_kw "AND" "AND"; bp_kw "CHAIN" "CHAIN"; bp_mk (TWs 0)].
Definition bp_run (ts : list twl) (limit : nat) : outcome val * nat * nat :=
  let '(o, s) := denote false 10 PBlock (mk_dial false false []) (init_state ts false limit) in (o, idx s, depth s).

Example block_probe_example :
  bp_run (bp_header ++ bp_body ++ [bp_kw "END" "END"; bp_mk (TP PSemi); bp_kw "COMMIT" "COMMIT"]) 2
    = (Ok (VList [VBool false; VBool true]), 18%nat, 2%nat)
  /\ bp_run (bp_header ++ bp_body) 2
    = (Err (Syntax (s2l "Expected: END, found: EOF")), 16%nat, 2%nat)
  /\ bp_run (bp_header ++ [bp_kw "COMMIT" "COMMIT"; bp_mk (TWs 0); bp_kw "COMMIT" "COMMIT"; bp_kw "END" "END"]) 2
    = (Err (Syntax (s2l "Expected: end of statement, found: COMMIT at Line: 1, Column: 1")), 9%nat, 2%nat)
  /\ bp_run (bp_header ++ bp_body ++ [bp_kw "END" "END"]) 1
    = (Err Limit, 8%nat, 1%nat)
  /\ bp_run (bp_header ++ bp_body ++ [bp_kw "END" "END"]) 0
    = (Err Limit, 0%nat, 0%nat)
  /\ bp_run (bp_mk (TP PSemi) :: bp_header ++ bp_body ++ [bp_kw "END" "END"]) 2
    = (Ok VUnit, 0%nat, 2%nat).
Proof. vm_compute. repeat split; reflexivity. Qed.

(** * The body of a block, generically: n statements, any separator layout, then END

    The counterpart of [Script.C11_script] for the block variant of the loop, with the final
    state (the caller goes on: it expects END).  [ok] is the set of states on which the
    statement parser is known (e.g. "some depth is left"). *)
Lemma kw_not_ws k t : is_kw k t = true -> is_ws t = false.
Proof. unfold is_kw, is_ws. destruct (tok t); congruence. Qed.

Lemma parse_keyword_at k d s pre0 ws t rest0 :
  toks s = pre0 ++ ws ++ t :: rest0 -> all_ws ws -> is_kw k t = true ->
  parse_keyword k d (set_idx (length pre0) s) = (Ok true, set_idx (length pre0 + length ws + 1) s).
Proof.
  intros Ht Hws Hk. pose proof (kw_not_ws _ _ Hk) as Hn. unfold parse_keyword, bind.
  rewrite (peek_at d s pre0 _ Ht). rewrite peek_from_ws by assumption. cbn [peek_from]. rewrite Hn, Hk.
  rewrite (next_at d s pre0 _ Ht). rewrite next_from_ws by assumption. cbn [next_from]. rewrite Hn.
  cbn [fst snd]. unfold ret.
  replace (S (length pre0 + length ws)) with (length pre0 + length ws + 1)%nat by lia. reflexivity.
Qed.
Lemma expect_keyword_at k d s pre0 ws t rest0 :
  toks s = pre0 ++ ws ++ t :: rest0 -> all_ws ws -> is_kw k t = true ->
  expect_keyword k d (set_idx (length pre0) s) = (Ok tt, set_idx (length pre0 + length ws + 1) s).
Proof. intros Ht Hws Hk. unfold expect_keyword, bind. rewrite (parse_keyword_at k d s pre0 ws t rest0 Ht Hws Hk). reflexivity. Qed.

Lemma one_of_none_at ks d s pre0 rest0 :
  toks s = pre0 ++ rest0 ->
  (forall v q k, tok (peek_from rest0 0) = TWord v q k -> find (fun k0 => str_eqb k0 k) ks = None) ->
  parse_one_of_keywords ks d (set_idx (length pre0) s) = (Ok None, set_idx (length pre0) s).
Proof.
  intros Ht H. unfold parse_one_of_keywords, bind. rewrite (peek_at d s pre0 _ Ht).
  destruct (tok (peek_from rest0 0)) eqn:E; try reflexivity. rewrite (H _ _ _ eq_refl). reflexivity.
Qed.
Lemma parse_keyword_no_at k d s pre0 rest0 :
  toks s = pre0 ++ rest0 -> is_kw k (peek_from rest0 0) = false ->
  parse_keyword k d (set_idx (length pre0) s) = (Ok false, set_idx (length pre0) s).
Proof. intros Ht H. unfold parse_keyword, bind. rewrite (peek_at d s pre0 _ Ht), H. reflexivity. Qed.

Definition follows_end (rest : list twl) : bool := is_kw (s2l "END") (peek_from rest 0).
Definition before_sep (rest : list twl) : bool := stmt_end (first_tok rest).

Section BlockScript.
  Variable A : Type.
  Variable stmt : M A.
  Variable d : dial.
  Variable ok : mstate -> Prop.

  (** wherever [ts] stands in front of a text satisfying [next], [stmt] returns [a] and stops
      exactly behind [ts] *)
  Definition LocalBefore (next : list twl -> bool) (ts : list twl) (a : A) : Prop :=
    forall pre rest s, ok s -> toks s = pre ++ ts ++ rest -> next rest = true ->
      stmt d (set_idx (length pre) s) = (Ok a, set_idx (length pre + length ts) s).

  (** every statement but the last is local in front of a separator, the last in front of END *)
  Fixpoint wf_block (ts : list twl) (a : A) (more : list (list semi * list twl)) (vals : list A) : Prop :=
    starts_stmt ts /\
    match more, vals with
    | [], [] => LocalBefore follows_end ts a
    | (seps, ts') :: m, a' :: v =>
        LocalBefore before_sep ts a /\ seps <> [] /\ all_semi_ok seps /\ wf_block ts' a' m v
    | _, _ => False
    end.

  Lemma loop_block : forall more vals ts a pre seps rest s n expecting acc,
    ok s -> wf_block ts a more vals -> all_semi_ok seps -> (expecting = true -> seps <> []) ->
    toks s = pre ++ semis_toks seps ++ script_text ts more ++ rest ->
    follows_end rest = true ->
    (length vals + 1 < n)%nat ->
    statements_loop true n stmt expecting acc d (set_idx (length pre) s)
    = (Ok (rev acc ++ a :: vals), set_idx (length (pre ++ semis_toks seps ++ script_text ts more)) s).
  Proof.
    induction more as [|[seps' ts'] m IH];
      intros vals ts a pre seps rest s n expecting acc Hok Hwf Hseps Hexp Ht Hend Hn.
    - destruct Hwf as [Hst Hloc]. destruct vals; [|contradiction]. cbn [script_text] in *.
      assert (Hw : exists w q k, tok (peek_from rest 0) = TWord w q k).
      { unfold follows_end, is_kw in Hend. destruct (tok (peek_from rest 0)); try discriminate. eauto. }
      destruct Hw as (w & q & k & Hw).
      assert (Hn1 : token_eqb (first_tok rest) (TP PSemi) = false) by (unfold first_tok; rewrite Hw; reflexivity).
      assert (Hnf2 : first_tok rest <> TEOF) by (unfold first_tok; rewrite Hw; discriminate).
      destruct n as [|n]; [lia|]. cbn [statements_loop]. unfold bind at 1.
      rewrite (peek_at d s pre _ Ht). unfold bind at 1.
      destruct (starts_first ts rest Hst) as [Hns Hne].
      rewrite (skip_all_semis_run d s seps pre _ Hseps Ht Hns). unfold bind at 1.
      assert (Ht1 : toks s = (pre ++ semis_toks seps) ++ ts ++ rest) by (rewrite Ht, <- !app_assoc; reflexivity).
      replace (length pre + length (semis_toks seps))%nat with (length (pre ++ semis_toks seps)) by (rewrite app_length; reflexivity).
      rewrite (peek_at d s _ _ Ht1). fold (first_tok (ts ++ rest)).
      rewrite (match_not_eof _ _ _ Hne).
      assert (Hexp' : (if token_eqb (tok (peek_from (semis_toks seps ++ ts ++ rest) 0)) (TP PSemi) then false else expecting) = false).
      { destruct seps as [|m0 seps0].
        - destruct expecting; [exfalso; apply Hexp; reflexivity|].
          match goal with |- (if ?c then _ else _) = _ => destruct c end; reflexivity.
        - fold (first_tok (semis_toks (m0 :: seps0) ++ ts ++ rest)).
          rewrite first_tok_semis by (auto; discriminate). reflexivity. }
      rewrite Hexp', Bool.andb_false_r. cbn [andb]. unfold bind at 1.
      rewrite (Hloc _ _ s Hok Ht1 Hend).
      destruct n as [|n]; [lia|]. cbn [statements_loop]. unfold bind at 1.
      assert (Ht2 : toks s = (pre ++ semis_toks seps ++ ts) ++ semis_toks [] ++ rest) by (rewrite Ht, <- !app_assoc; reflexivity).
      replace (length (pre ++ semis_toks seps) + length ts)%nat with (length (pre ++ semis_toks seps ++ ts))
        by (rewrite !app_length; lia).
      rewrite (peek_at d s _ _ Ht2). unfold bind at 1.
      rewrite (skip_all_semis_run d s [] _ rest I Ht2 Hn1). unfold bind at 1.
      cbn [semis_toks length app]. rewrite Nat.add_0_r.
      rewrite (peek_at d s _ _ Ht2). cbn [semis_toks app].
      fold (first_tok rest). rewrite Hn1. rewrite (match_not_eof _ _ _ Hnf2).
      unfold follows_end in Hend. rewrite Hend. cbn [andb ret rev]. reflexivity.
    - destruct Hwf as [Hst Hwf]. destruct vals as [|a' v]; [contradiction|].
      destruct Hwf as (Hloc & Hne' & Hseps' & Hwf). cbn [script_text] in Ht.
      destruct n as [|n]; [lia|]. cbn [statements_loop]. unfold bind at 1.
      rewrite (peek_at d s pre _ Ht). unfold bind at 1.
      assert (Ht0 : toks s = pre ++ semis_toks seps ++ (ts ++ semis_toks seps' ++ script_text ts' m ++ rest))
        by (rewrite Ht, <- !app_assoc; reflexivity).
      destruct (starts_first ts (semis_toks seps' ++ script_text ts' m ++ rest) Hst) as [Hns Hne].
      rewrite (skip_all_semis_run d s seps pre _ Hseps Ht0 Hns). unfold bind at 1.
      assert (Ht1 : toks s = (pre ++ semis_toks seps) ++ ts ++ (semis_toks seps' ++ script_text ts' m ++ rest))
        by (rewrite Ht, <- !app_assoc; reflexivity).
      replace (length pre + length (semis_toks seps))%nat with (length (pre ++ semis_toks seps)) by (rewrite app_length; reflexivity).
      rewrite (peek_at d s _ _ Ht1). fold (first_tok (ts ++ semis_toks seps' ++ script_text ts' m ++ rest)).
      rewrite (match_not_eof _ _ _ Hne).
      assert (Hexp' : (if token_eqb (tok (peek_from (semis_toks seps ++ (ts ++ semis_toks seps' ++ script_text ts' m) ++ rest) 0)) (TP PSemi) then false else expecting) = false).
      { destruct seps as [|m0 seps0].
        - destruct expecting; [exfalso; apply Hexp; reflexivity|].
          match goal with |- (if ?c then _ else _) = _ => destruct c end; reflexivity.
        - fold (first_tok (semis_toks (m0 :: seps0) ++ (ts ++ semis_toks seps' ++ script_text ts' m) ++ rest)).
          rewrite first_tok_semis by (auto; discriminate). reflexivity. }
      rewrite Hexp', Bool.andb_false_r. cbn [andb]. unfold bind at 1.
      assert (Hsep : before_sep (semis_toks seps' ++ script_text ts' m ++ rest) = true).
      { unfold before_sep, stmt_end. rewrite first_tok_semis by auto. reflexivity. }
      rewrite (Hloc _ _ s Hok Ht1 Hsep).
      assert (Ht2 : toks s = (pre ++ semis_toks seps ++ ts) ++ semis_toks seps' ++ script_text ts' m ++ rest)
        by (rewrite Ht, <- !app_assoc; reflexivity).
      replace (length (pre ++ semis_toks seps) + length ts)%nat with (length (pre ++ semis_toks seps ++ ts))
        by (rewrite !app_length; lia).
      rewrite (IH v ts' a' _ seps' rest s n true (a :: acc) Hok Hwf Hseps' (fun _ => Hne') Ht2 Hend)
        by (cbn [length] in Hn; lia).
      cbn [rev]. rewrite <- !app_assoc. reflexivity.
  Qed.

  (** BEGIN's continuation in [parse_create_procedure]: the block, then END. *)
  Theorem block_body : forall B (g : list A -> B) more vals ts a pre ws e rest s fuel,
    ok s -> wf_block ts a more vals -> all_ws ws -> is_kw (s2l "END") e = true ->
    toks s = pre ++ script_text ts more ++ ws ++ e :: rest ->
    (length vals + 1 < fuel)%nat ->
    (l <- parse_statement_block fuel stmt ;; expect_keyword (s2l "END") ;;; ret (g l)) d (set_idx (length pre) s)
    = (Ok (g (a :: vals)), set_idx (length (pre ++ script_text ts more ++ ws ++ [e])) s).
  Proof.
    intros B g more vals ts a pre ws e rest s fuel Hok Hwf Hws He Ht Hn.
    assert (Hfe : follows_end (ws ++ e :: rest) = true).
    { unfold follows_end. rewrite peek_from_ws by assumption. cbn [peek_from]. rewrite (kw_not_ws _ _ He). exact He. }
    unfold parse_statement_block, bind at 1.
    rewrite (loop_block more vals ts a pre [] (ws ++ e :: rest) s fuel false [] Hok Hwf I) by (auto; discriminate).
    cbn [semis_toks app rev]. unfold bind at 1.
    assert (Ht' : toks s = (pre ++ script_text ts more) ++ ws ++ e :: rest) by (rewrite Ht, <- !app_assoc; reflexivity).
    rewrite (expect_keyword_at _ d s _ ws e rest Ht' Hws He). unfold ret. f_equal. f_equal.
    rewrite !app_length. cbn [length]. lia.
  Qed.
End BlockScript.

(** * ... and through the probe, for the statement parser of the fragment *)
Definition has_depth (s : mstate) : Prop := depth s <> 0%nat.

(** the token after a bare COMMIT / END statement does not continue it *)
Definition quiet (t : twl) : bool :=
  match tok t with
  | TWord _ _ k => negb (str_eqb (s2l "TRANSACTION") k) && negb (str_eqb (s2l "WORK") k) && negb (str_eqb (s2l "AND") k)
  | _ => true
  end.

Lemma guard_at {A} (p : M A) d s n i o j :
  depth s = S n -> p d (set_idx i (set_depth n s)) = (o, set_idx j (set_depth n s)) ->
  guard p d (set_idx i s) = (o, set_idx j s).
Proof.
  intros D H. unfold guard. cbn [depth set_idx]. rewrite D.
  change (set_depth n (set_idx i s)) with (set_idx i (set_depth n s)). rewrite H.
  destruct s; cbn in *; subst; reflexivity.
Qed.

(** COMMIT (or END) alone, in front of anything that does not continue it, is one statement. *)
Lemma bare_commit_local d next ws c :
  all_ws ws -> is_kw (s2l "COMMIT") c || is_kw (s2l "END") c = true ->
  (forall rest, next rest = true -> quiet (peek_from rest 0) = true) ->
  LocalBefore val stmt_core d has_depth next (ws ++ [c]) (VBool false).
Proof.
  intros Hws Hc Hq pre rest s Hd Ht Hnext. specialize (Hq rest Hnext).
  assert (Hcw : is_ws c = false).
  { apply orb_true_iff in Hc as [Hc|Hc]; eapply kw_not_ws; exact Hc. }
  unfold has_depth in Hd. destruct (depth s) as [|n] eqn:D; [congruence|].
  unfold stmt_core. apply (guard_at _ d s n _ _ _ D).
  assert (Ht0 : toks (set_depth n s) = pre ++ ws ++ c :: rest) by (cbn [toks set_depth]; rewrite Ht, <- !app_assoc; reflexivity).
  unfold bind at 1. rewrite (next_at d _ pre _ Ht0). rewrite next_from_ws by assumption. cbn [next_from]. rewrite Hcw.
  cbn [fst snd]. rewrite Hc.
  assert (Ht1 : toks (set_depth n s) = (pre ++ ws ++ [c]) ++ rest) by (rewrite Ht0, <- !app_assoc; reflexivity).
  replace (S (length pre + length ws)) with (length (pre ++ ws ++ [c])) by (rewrite !app_length; cbn [length]; lia).
  replace (length pre + length (ws ++ [c]))%nat with (length (pre ++ ws ++ [c])) by (rewrite !app_length; cbn [length]; lia).
  unfold quiet in Hq.
  unfold commit_chain. unfold bind at 1.
  rewrite (one_of_none_at _ d _ _ _ Ht1).
  2:{ intros v q k0 E. rewrite E in Hq. apply andb_true_iff in Hq as [Hq _]. apply andb_true_iff in Hq as [Htr Hwk].
      apply negb_true_iff in Htr, Hwk. cbn [find]. rewrite Htr, Hwk. reflexivity. }
  unfold bind at 1. rewrite (parse_keyword_no_at _ d _ _ _ Ht1); [reflexivity|].
  unfold is_kw. destruct (tok (peek_from rest 0)); try reflexivity.
  apply andb_true_iff in Hq as [_ Ha]. apply negb_true_iff in Ha. exact Ha.
Qed.

Lemma quiet_before_sep rest : before_sep rest = true -> quiet (peek_from rest 0) = true.
Proof.
  unfold before_sep, stmt_end, first_tok, quiet. destruct (tok (peek_from rest 0)); cbn; try reflexivity. discriminate.
Qed.
Lemma quiet_follows_end rest : follows_end rest = true -> quiet (peek_from rest 0) = true.
Proof.
  unfold follows_end, is_kw, quiet. destruct (tok (peek_from rest 0)); try discriminate.
  intro H. apply str_eqb_eq in H. subst kw. reflexivity.
Qed.

(** The probe on a whole procedure: header, n statements with any separator layout, END. *)
Theorem block_probe_script : forall d c p nm a_ b more vals ts a ws e rest s fuel k,
  block_header c p nm a_ b = true ->
  wf_block val stmt_core d has_depth ts a more vals -> all_ws ws -> is_kw (s2l "END") e = true ->
  toks s = [c; p; nm; a_; b] ++ script_text ts more ++ ws ++ e :: rest -> idx s = 0%nat ->
  depth s = S (S k) -> (length vals + 1 < fuel)%nat ->
  block_probe fuel d s
  = (Ok (VList (a :: vals)), set_idx (length ([c; p; nm; a_; b] ++ script_text ts more ++ ws ++ [e])) s).
Proof.
  intros d c p nm a_ b more vals ts a ws e rest s fuel k Hh Hwf Hws He Ht Hi D Hn.
  pose proof Hh as Hh'. unfold block_header in Hh'.
  apply andb_true_iff in Hh' as [Hh' Hb]. apply andb_true_iff in Hh' as [Hh' Ha].
  apply andb_true_iff in Hh' as [Hh' Hnm]. apply andb_true_iff in Hh' as [Hc Hp].
  pose proof (kw_not_ws _ _ Hc) as Wc. pose proof (kw_not_ws _ _ Hp) as Wp.
  pose proof (kw_not_ws _ _ Ha) as Wa. pose proof (kw_not_ws _ _ Hb) as Wb.
  assert (Wn : is_ws nm = false) by (unfold is_ws; unfold plain_word in Hnm; destruct (tok nm); congruence).
  assert (Hah : header_ahead s = true).
  { unfold header_ahead. rewrite Hi, Ht. cbn [skipn app peek_from]. rewrite Wc, Wp, Wn, Wa, Wb. exact Hh. }
  rewrite (block_probe_taken fuel d s (S k) Hah D).
  set (s0 := set_depth (S k) s).
  assert (Ht0 : toks s0 = [c; p; nm; a_; b] ++ script_text ts more ++ ws ++ e :: rest) by exact Ht.
  assert (Hok : has_depth s0) by (unfold has_depth, s0; cbn; discriminate).
  replace s0 with (set_idx (length (@nil twl)) s0) at 1 by (unfold s0; destruct s; cbn in *; subst; reflexivity).
  assert (Hpunct : forall pu, token_eqb (tok a_) (TP pu) = false).
  { intro pu. unfold is_kw in Ha. destruct (tok a_); try discriminate. reflexivity. }
  assert (T0 : toks s0 = [] ++ c :: (p :: nm :: a_ :: b :: script_text ts more ++ ws ++ e :: rest)) by exact Ht0.
  assert (T1 : toks s0 = [c] ++ [] ++ p :: (nm :: a_ :: b :: script_text ts more ++ ws ++ e :: rest)) by exact Ht0.
  assert (T2 : toks s0 = [c; p] ++ nm :: (a_ :: b :: script_text ts more ++ ws ++ e :: rest)) by exact Ht0.
  assert (T3 : toks s0 = [c; p; nm] ++ [] ++ a_ :: (b :: script_text ts more ++ ws ++ e :: rest)) by exact Ht0.
  assert (T4 : toks s0 = [c; p; nm; a_] ++ [] ++ b :: (script_text ts more ++ ws ++ e :: rest)) by exact Ht0.
  pose proof (next_at d s0 [] _ T0) as E0. cbn [next_from length fst snd] in E0. rewrite Wc in E0. cbn [fst snd] in E0.
  pose proof (parse_keyword_at _ d s0 [c] [] p _ T1 eq_refl Hp) as E1. cbn [length Nat.add] in E1.
  pose proof (next_at d s0 [c; p] _ T2) as E2. cbn [next_from length fst snd] in E2. rewrite Wn in E2. cbn [fst snd] in E2.
  pose proof (consume_at (TP PPeriod) d s0 [c; p; nm] [] a_ _ T3 eq_refl Wa) as E3. rewrite Hpunct in E3. cbn [length] in E3.
  pose proof (consume_at (TP PLParen) d s0 [c; p; nm] [] a_ _ T3 eq_refl Wa) as E4. rewrite Hpunct in E4. cbn [length] in E4.
  pose proof (expect_keyword_at _ d s0 [c; p; nm] [] a_ _ T3 eq_refl Ha) as E5. cbn [length Nat.add] in E5.
  pose proof (expect_keyword_at _ d s0 [c; p; nm; a_] [] b _ T4 eq_refl Hb) as E6. cbn [length Nat.add] in E6.
  pose proof (block_body val stmt_core d has_depth val VList more vals ts a [c; p; nm; a_; b] ws e rest s0 fuel Hok Hwf Hws He Ht0 Hn) as E7.
  cbn [length] in E7.
  cbn [length]. unfold bind at 1. rewrite E0. unfold bind at 1. rewrite E1.
  unfold create_procedure. unfold bind at 1. rewrite E2. unfold bind at 1. rewrite E3. unfold bind at 1. rewrite E4.
  unfold bind at 1. rewrite E5. unfold bind at 1. rewrite E6. rewrite E7.
  unfold s0. destruct s; cbn in *; subst; reflexivity.
Qed.

(** Instance: n bare COMMIT / END statements, one or more [;] between two of them, whitespace
    anywhere in the body, then END: the probe returns n commits and stands behind the closing END. *)
Fixpoint bare_more (l : list (list semi * (list twl * twl))) : list (list semi * list twl) :=
  match l with [] => [] | (seps, (ws, c)) :: r => (seps, ws ++ [c]) :: bare_more r end.
Fixpoint bare_ok (l : list (list semi * (list twl * twl))) : Prop :=
  match l with
  | [] => True
  | (seps, (ws, c)) :: r =>
      seps <> [] /\ all_semi_ok seps /\ all_ws ws /\ is_kw (s2l "COMMIT") c || is_kw (s2l "END") c = true /\ bare_ok r
  end.

Lemma bare_wf d : forall l ws c,
  all_ws ws -> is_kw (s2l "COMMIT") c || is_kw (s2l "END") c = true -> bare_ok l ->
  wf_block val stmt_core d has_depth (ws ++ [c]) (VBool false) (bare_more l) (repeat (VBool false) (length l)).
Proof.
  induction l as [|[seps [ws' c']] r IH]; intros ws c Hws Hc Hl; cbn [bare_more repeat length wf_block].
  - split.
    + exists ws, c, []. repeat split; auto.
      * apply orb_true_iff in Hc as [Hc|Hc]; eapply kw_not_ws; exact Hc.
      * unfold is_kw in Hc. destruct (tok c); try discriminate. reflexivity.
      * unfold is_kw in Hc. destruct (tok c); try discriminate.
    + apply bare_commit_local; auto. exact quiet_follows_end.
  - destruct Hl as (Hne & Hseps & Hws' & Hc' & Hr). split; [|split; [|split; [|split]]]; auto.
    + exists ws, c, []. repeat split; auto.
      * apply orb_true_iff in Hc as [Hc|Hc]; eapply kw_not_ws; exact Hc.
      * unfold is_kw in Hc. destruct (tok c); try discriminate. reflexivity.
      * unfold is_kw in Hc. destruct (tok c); try discriminate.
    + apply bare_commit_local; auto. exact quiet_before_sep.
Qed.

Theorem block_probe_commits : forall d c p nm a_ b ws0 c0 l ws e rest s fuel k,
  block_header c p nm a_ b = true ->
  all_ws ws0 -> is_kw (s2l "COMMIT") c0 || is_kw (s2l "END") c0 = true -> bare_ok l ->
  all_ws ws -> is_kw (s2l "END") e = true ->
  toks s = [c; p; nm; a_; b] ++ script_text (ws0 ++ [c0]) (bare_more l) ++ ws ++ e :: rest -> idx s = 0%nat ->
  depth s = S (S k) -> (length l + 2 < fuel)%nat ->
  block_probe fuel d s
  = (Ok (VList (repeat (VBool false) (S (length l)))),
     set_idx (length ([c; p; nm; a_; b] ++ script_text (ws0 ++ [c0]) (bare_more l) ++ ws ++ [e])) s).
Proof.
  intros d c p nm a_ b ws0 c0 l ws e rest s fuel k Hh Hws0 Hc0 Hl Hws He Ht Hi D Hn.
  apply (block_probe_script d c p nm a_ b (bare_more l) (repeat (VBool false) (length l)) (ws0 ++ [c0]) (VBool false) ws e rest s fuel k); auto.
  - apply bare_wf; assumption.
  - rewrite repeat_length. lia.
Qed.

(** The hypotheses are satisfiable:  CREATE PROCEDURE p AS BEGIN␣COMMIT;␣END␣END;  (the first END
    is a statement: it follows a separator) — two commits, the cursor behind the second END. *)
Example block_probe_commits_instance :
  let h := [bp_kw "CREATE" "CREATE"; bp_kw "PROCEDURE" "PROCEDURE"; bp_mk (TWord (s2l "p") None no_keyword);
            bp_kw "AS" "AS"; bp_kw "BEGIN" "BEGIN"] in
  let sp := bp_mk (TWs 0) in
  let semi_ := bp_mk (TP PSemi) in
  let s := init_state (h ++ [sp; bp_kw "COMMIT" "COMMIT"; semi_; sp; bp_kw "END" "END"; sp; bp_kw "END" "END"; semi_]) false 2 in
  block_probe 5 (mk_dial false false []) s = (Ok (VList [VBool false; VBool false]), set_idx 12 s).
Proof.
  cbv zeta.
  apply (block_probe_commits (mk_dial false false [])
           (bp_kw "CREATE" "CREATE") (bp_kw "PROCEDURE" "PROCEDURE") (bp_mk (TWord (s2l "p") None no_keyword))
           (bp_kw "AS" "AS") (bp_kw "BEGIN" "BEGIN")
           [bp_mk (TWs 0)] (bp_kw "COMMIT" "COMMIT")
           [([{| m_ws := []; m_semi := bp_mk (TP PSemi) |}], ([bp_mk (TWs 0)], bp_kw "END" "END"))]
           [bp_mk (TWs 0)] (bp_kw "END" "END") [bp_mk (TP PSemi)] _ 5 0); try reflexivity.
  - cbn. repeat split; try reflexivity; discriminate.
  - cbn. lia.
Qed.
