(** Set-operation Pratt loop of sqlparser-rs: [Parser::parse_query_body] and
    [Parser::parse_remaining_set_exprs] (src/parser/mod.rs).

    Executable model (parametric in the binding-power table) and an algorithm independent
    specification of "the right tree".  Proofs are in [SetOpsProofs.v]. *)
From SqlV Require Import Base.

(** * Syntax *)

Inductive setop := Union | Except | Intersect.
Inductive squant := QNone | QAll | QDistinct.

(** Token alphabet of the fragment.  [SSel n] stands for a whole restricted SELECT (an opaque
    operand, identified by [n]); [SOther] is any token outside the fragment. *)
Inductive stok :=
| SSel (n : N) | SOpT (o : setop) | SAll | SDistinct | SLP | SRP | SOther.

Inductive sexpr :=
| SSelect (n : N)
| SQuery (e : sexpr)
| SSetOp (o : setop) (q : squant) (l r : sexpr).

Inductive sres :=
| SOk (e : sexpr) (rest : list stok)
| SErr
| SOutOfFragment
| SOutOfFuel.

(** * Boolean equalities *)

Definition setop_eqb (a b : setop) : bool :=
  match a, b with
  | Union, Union | Except, Except | Intersect, Intersect => true
  | _, _ => false
  end.

Definition squant_eqb (a b : squant) : bool :=
  match a, b with
  | QNone, QNone | QAll, QAll | QDistinct, QDistinct => true
  | _, _ => false
  end.

Definition stok_eqb (a b : stok) : bool :=
  match a, b with
  | SSel n, SSel m => N.eqb n m
  | SOpT o, SOpT o' => setop_eqb o o'
  | SAll, SAll | SDistinct, SDistinct | SLP, SLP | SRP, SRP | SOther, SOther => true
  | _, _ => false
  end.

Fixpoint stoks_eqb (a b : list stok) : bool :=
  match a, b with
  | [], [] => true
  | x :: a', y :: b' => stok_eqb x y && stoks_eqb a' b'
  | _, _ => false
  end.

Fixpoint sexpr_eqb (a b : sexpr) : bool :=
  match a, b with
  | SSelect n, SSelect m => N.eqb n m
  | SQuery e, SQuery e' => sexpr_eqb e e'
  | SSetOp o q l r, SSetOp o' q' l' r' =>
      setop_eqb o o' && squant_eqb q q' && sexpr_eqb l l' && sexpr_eqb r r'
  | _, _ => false
  end.

Definition sres_eqb (a b : sres) : bool :=
  match a, b with
  | SOk e r, SOk e' r' => sexpr_eqb e e' && stoks_eqb r r'
  | SErr, SErr | SOutOfFragment, SOutOfFragment | SOutOfFuel, SOutOfFuel => true
  | _, _ => false
  end.

(** * Yield: the token sequence of a tree *)

Definition squant_toks (q : squant) : list stok :=
  match q with
  | QNone => []
  | QAll => [SAll]
  | QDistinct => [SDistinct]
  end.

Fixpoint syield (t : sexpr) : list stok :=
  match t with
  | SSelect n => [SSel n]
  | SQuery e => SLP :: syield e ++ [SRP]
  | SSetOp o q l r => syield l ++ SOpT o :: squant_toks q ++ syield r
  end.

(** Number of nodes / number of parenthesised subqueries of a tree; number of '(' and ')'
    tokens of a token list. *)
Fixpoint ssize (t : sexpr) : nat :=
  match t with
  | SSelect _ => 1%nat
  | SQuery e => S (ssize e)
  | SSetOp _ _ l r => S (ssize l + ssize r)
  end.

Fixpoint squeries (t : sexpr) : nat :=
  match t with
  | SSelect _ => 0%nat
  | SQuery e => S (squeries e)
  | SSetOp _ _ l r => (squeries l + squeries r)%nat
  end.

Fixpoint scount_lp (ts : list stok) : nat :=
  match ts with
  | [] => 0%nat
  | SLP :: r => S (scount_lp r)
  | _ :: r => scount_lp r
  end.

Fixpoint scount_rp (ts : list stok) : nat :=
  match ts with
  | [] => 0%nat
  | SRP :: r => S (scount_rp r)
  | _ :: r => scount_rp r
  end.

(** * Executable model *)

(** [parse_set_quantifier] restricted to the fragment: optional ALL | DISTINCT.  A token that
    is neither is left in place; it is inspected next by [parse_body], which reports
    [SOutOfFragment] itself when that token is [SOther]. *)
Definition parse_squant (ts : list stok) : squant * list stok :=
  match ts with
  | SAll :: r => (QAll, r)
  | SDistinct :: r => (QDistinct, r)
  | _ => (QNone, ts)
  end.

Section Model.
  Variable sp : setop -> N.   (* binding power of a set operator *)

  (** [parse_remaining_set_exprs(expr, precedence)], open recursion: [rec] is
      [parse_query_body].  [g] is the loop's own fuel. *)
  Fixpoint sloop (rec : N -> list stok -> sres) (g : nat) (p : N) (e : sexpr)
           (ts : list stok) {struct g} : sres :=
    match g with
    | O => SOutOfFuel
    | S g' =>
        match ts with
        | SOpT o :: ts1 =>
            if sp o <=? p then SOk e ts          (* precedence >= next_precedence: break *)
            else
              let '(q, ts2) := parse_squant ts1 in
              match rec (sp o) ts2 with
              | SOk r ts3 => sloop rec g' p (SSetOp o q e r) ts3
              | x => x
              end
        | SOther :: _ => SOutOfFragment
        | _ => SOk e ts                          (* not a set operator / EOF: break *)
        end
    end.

  (** [parse_query_body(precedence)]. *)
  Fixpoint parse_body (fuel : nat) (p : N) (ts : list stok) {struct fuel} : sres :=
    match fuel with
    | O => SOutOfFuel
    | S f =>
        match ts with
        | SSel n :: r => sloop (parse_body f) (S (length r)) p (SSelect n) r
        | SLP :: r =>
            match parse_body f 0 r with
            | SOk e (SRP :: r') => sloop (parse_body f) (S (length r')) p (SQuery e) r'
            | SOk _ (SOther :: _) => SOutOfFragment
            | SOk _ _ => SErr                    (* expect_token(RParen) fails *)
            | x => x
            end
        | SOther :: _ => SOutOfFragment
        | _ => SErr                              (* "Expected SELECT, VALUES, or a subquery" *)
        end
    end.

  Definition parse_query_top (ts : list stok) : sres :=
    parse_body (S (length ts)) 0 ts.

  (** * Specification (does not mention the algorithm) *)

  (** Every set-operation node on the left spine binds strictly tighter than [p]. *)
  Fixpoint slspine_gt (p : N) (t : sexpr) : Prop :=
    match t with
    | SSetOp o _ l _ => p < sp o /\ slspine_gt p l
    | _ => True
    end.

  (** Every set-operation node on the right spine binds at least as tight as [p]. *)
  Fixpoint srspine_ge (p : N) (t : sexpr) : Prop :=
    match t with
    | SSetOp o _ _ r => p <= sp o /\ srspine_ge p r
    | _ => True
    end.

  (** Well-formed w.r.t. the table: at every operator node nothing looser-or-equal is captured
      on the right (left associativity, tighter operators nest deeper) and nothing strictly
      looser ends the left operand. *)
  Fixpoint swf (t : sexpr) : Prop :=
    match t with
    | SSelect _ => True
    | SQuery e => swf e
    | SSetOp o _ l r =>
        slspine_gt (sp o) r /\ srspine_ge (sp o) l /\ swf l /\ swf r
    end.

  Definition SCorrect (t : sexpr) (ts : list stok) : Prop :=
    syield t = ts /\ swf t.

  (** Boolean versions. *)
  Fixpoint slspine_gtb (p : N) (t : sexpr) : bool :=
    match t with
    | SSetOp o _ l _ => (p <? sp o) && slspine_gtb p l
    | _ => true
    end.

  Fixpoint srspine_geb (p : N) (t : sexpr) : bool :=
    match t with
    | SSetOp o _ _ r => (p <=? sp o) && srspine_geb p r
    | _ => true
    end.

  Fixpoint swfb (t : sexpr) : bool :=
    match t with
    | SSelect _ => true
    | SQuery e => swfb e
    | SSetOp o _ l r =>
        slspine_gtb (sp o) r && srspine_geb (sp o) l && swfb l && swfb r
    end.

  Definition scorrectb (t : sexpr) (ts : list stok) : bool :=
    stoks_eqb (syield t) ts && swfb t.

  (** What the loop's exit test guarantees about the unconsumed input, relative to [p]:
      it does not start with a set operator binding tighter than [p] (nor with a token
      outside the fragment). *)
  Definition sstop (p : N) (rest : list stok) : Prop :=
    match rest with
    | SOpT o :: _ => sp o <= p
    | SOther :: _ => False
    | _ => True
    end.

  (** Binding power of the operator token at the head of [rest]; 0 if there is none. *)
  Definition sheadpow (rest : list stok) : N :=
    match rest with
    | SOpT o :: _ => sp o
    | _ => 0
    end.
End Model.

(** The table in the code: UNION and EXCEPT 10, INTERSECT 20. *)
Definition sp_pinned (o : setop) : N :=
  match o with
  | Intersect => 20
  | _ => 10
  end.

(** A tree whose root is a UNION or EXCEPT node. *)
Definition s_is_union_except (t : sexpr) : bool :=
  match t with
  | SSetOp Union _ _ _ | SSetOp Except _ _ _ => true
  | _ => false
  end.

Definition s_is_setop (t : sexpr) : bool :=
  match t with
  | SSetOp _ _ _ _ => true
  | _ => false
  end.

(** No INTERSECT node has a UNION/EXCEPT node as a direct child (only through an [SQuery]),
    anywhere in the tree. *)
Fixpoint s_intersect_tight (t : sexpr) : Prop :=
  match t with
  | SSelect _ => True
  | SQuery e => s_intersect_tight e
  | SSetOp o _ l r =>
      (o = Intersect -> s_is_union_except l = false /\ s_is_union_except r = false)
      /\ s_intersect_tight l /\ s_intersect_tight r
  end.
