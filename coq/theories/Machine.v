(** Machine.v — the parser interface of /repo/src/parser/mod.rs as a state-error monad.
    Model only (executable Gallina); every proof lives in MachineProofs.v and its clients.

    [mstate] mirrors the private fields of [Parser]: the token vector, the index of the first
    unprocessed token, the [ParserState], the [trailing_commas] option and the remaining
    recursion depth.  Every definition below names the Rust method it transcribes. *)
Require Import SqlV.Base.
From Coq Require Import Arith.

(** * Tokens *)
Inductive punct :=
| PComma | PSemi | PLParen | PRParen | PLBracket | PRBracket | PLBrace | PRBrace
| PEq | PPeriod | PColon | PMul | PPlus | PMinus.

Inductive token :=
| TEOF
| TWs (k : N)                               (* 0 space, 1 newline, 2 tab *)
| TWord (v : str) (q : option N) (kw : str) (* kw = Debug name of the Keyword, "NoKeyword" if none *)
| TNum (s : str) (long : bool)
| TSQ (s : str)
| TP (p : punct).

Record twl := { tok : token; line : N; col : N }.

Definition punct_code (p : punct) : N :=
  match p with
  | PComma => 0 | PSemi => 1 | PLParen => 2 | PRParen => 3 | PLBracket => 4 | PRBracket => 5
  | PLBrace => 6 | PRBrace => 7 | PEq => 8 | PPeriod => 9 | PColon => 10 | PMul => 11
  | PPlus => 12 | PMinus => 13
  end.
Definition punct_eqb (a b : punct) : bool := N.eqb (punct_code a) (punct_code b).

Definition optN_eqb (a b : option N) : bool :=
  match a, b with
  | None, None => true | Some x, Some y => N.eqb x y | _, _ => false
  end.

(** [Token]'s derived [PartialEq]. *)
Definition token_eqb (a b : token) : bool :=
  match a, b with
  | TEOF, TEOF => true
  | TWs x, TWs y => N.eqb x y
  | TWord v q k, TWord v' q' k' => str_eqb v v' && optN_eqb q q' && str_eqb k k'
  | TNum s l, TNum s' l' => str_eqb s s' && Bool.eqb l l'
  | TSQ s, TSQ s' => str_eqb s s'
  | TP p, TP p' => punct_eqb p p'
  | _, _ => false
  end.

Definition is_ws (t : twl) : bool := match tok t with TWs _ => true | _ => false end.
Definition eof_twl : twl := {| tok := TEOF; line := 0; col := 0 |}.
Definition no_keyword : str := s2l "NoKeyword".
Definition kw_of (t : token) : option str :=
  match t with TWord _ _ k => Some k | _ => None end.

(** [Display for Token / Word / Location] (the fragment of tokens the model knows). *)
Definition show_punct (p : punct) : str :=
  match p with
  | PComma => s2l "," | PSemi => s2l ";" | PLParen => s2l "(" | PRParen => s2l ")"
  | PLBracket => s2l "[" | PRBracket => s2l "]" | PLBrace => s2l "{" | PRBrace => s2l "}"
  | PEq => s2l "=" | PPeriod => s2l "." | PColon => s2l ":" | PMul => s2l "*"
  | PPlus => s2l "+" | PMinus => s2l "-"
  end.
Definition end_quote (c : N) : N := if N.eqb c 91 then 93 else c.   (* '[' -> ']' *)
Definition show_token (t : token) : str :=
  match t with
  | TEOF => s2l "EOF"
  | TWs k => if N.eqb k 0 then [32] else if N.eqb k 1 then [10] else [9]
  | TWord v None _ => v
  | TWord v (Some c) _ => c :: v ++ [end_quote c]
  | TNum s l => s ++ (if l then s2l "L" else [])
  | TSQ s => 39 :: s ++ [39]
  | TP p => show_punct p
  end.

Fixpoint dec_digits (fuel : nat) (n : N) (acc : str) : str :=
  match fuel with
  | O => acc
  | S f => let acc' := (48 + N.modulo n 10) :: acc in
           if N.ltb n 10 then acc' else dec_digits f (N.div n 10) acc'
  end.
Definition show_N (n : N) : str := dec_digits 40 n [].
Definition show_loc (l c : N) : str :=
  if N.eqb l 0 then [] else s2l " at Line: " ++ show_N l ++ s2l ", Column: " ++ show_N c.

(** * State, errors, the monad *)
Inductive pstate := Normal | ConnectBy.
Record mstate := { toks : list twl; idx : nat; pst : pstate; tc : bool; depth : nat }.

Inductive err :=
| Syntax (msg : str)      (* ParserError::ParserError *)
| Lex (msg : str)         (* ParserError::TokenizerError *)
| Limit.                  (* ParserError::RecursionLimitExceeded *)

Inductive outcome (A : Type) :=
| Ok (a : A)
| Err (e : err)
| Panic                   (* the assert in prev_token *)
| Diverge.                (* loop fuel exhausted: the Rust loop would not terminate *)
Arguments Ok {A} a. Arguments Err {A} e. Arguments Panic {A}. Arguments Diverge {A}.

(** What the parser reads of a dialect and of the configuration through the interface. *)
Record dial := {
  d_tc : bool;            (* Dialect::supports_trailing_commas *)
  d_proj_tc : bool;       (* Dialect::supports_projection_trailing_commas *)
  d_reserved : list str;  (* keywords::RESERVED_FOR_COLUMN_ALIAS, Debug names *)
  d_id : N;               (* Dialect::dialect(): the identity the dialect REPORTS (what dialect_of! tests) *)
  d_flag : N -> bool      (* every other capability answer (supports_*, ...), by method code *)
}.
Definition mk_dial (tcf ptc : bool) (reserved : list str) : dial :=
  {| d_tc := tcf; d_proj_tc := ptc; d_reserved := reserved; d_id := 0; d_flag := fun _ => false |}.

Definition M (A : Type) := dial -> mstate -> outcome A * mstate.

Definition ret {A} (a : A) : M A := fun _ s => (Ok a, s).
Definition fail {A} (e : err) : M A := fun _ s => (Err e, s).
Definition panic {A} : M A := fun _ s => (Panic, s).
Definition diverge {A} : M A := fun _ s => (Diverge, s).
Definition bind {A B} (p : M A) (k : A -> M B) : M B :=
  fun d s => match p d s with
             | (Ok a, s') => k a d s'
             | (Err e, s') => (Err e, s')
             | (Panic, s') => (Panic, s')
             | (Diverge, s') => (Diverge, s')
             end.
Notation "x <- p ;; q" := (bind p (fun x => q)) (at level 61, p at next level, right associativity).
Notation "p ;;; q" := (bind p (fun _ => q)) (at level 61, right associativity).

Definition set_idx (i : nat) (s : mstate) : mstate :=
  {| toks := toks s; idx := i; pst := pst s; tc := tc s; depth := depth s |}.
Definition set_pst (p : pstate) (s : mstate) : mstate :=
  {| toks := toks s; idx := idx s; pst := p; tc := tc s; depth := depth s |}.
Definition set_tc (b : bool) (s : mstate) : mstate :=
  {| toks := toks s; idx := idx s; pst := pst s; tc := b; depth := depth s |}.
Definition set_depth (n : nat) (s : mstate) : mstate :=
  {| toks := toks s; idx := idx s; pst := pst s; tc := tc s; depth := n |}.

(** State access used only by the interface definitions below (save/restore shapes). *)
Definition get_idx : M nat := fun _ s => (Ok (idx s), s).
Definition put_idx (i : nat) : M unit := fun _ s => (Ok tt, set_idx i s).
Definition get_tc : M bool := fun _ s => (Ok (tc s), s).
Definition get_pst : M pstate := fun _ s => (Ok (pst s), s).
Definition ask_reserved : M (list str) := fun d s => (Ok (d_reserved d), s).
Definition ask_proj_tc : M bool := fun d s => (Ok (d_proj_tc d), s).
(** [dialect_of!(self is A | B | ...)]: the reported identity is one of the given ones. *)
Definition dialect_is (ids : list N) : M bool := fun d s => (Ok (existsb (N.eqb (d_id d)) ids), s).
(** [self.dialect.supports_xyz()] and the like. *)
Definition ask_flag (n : N) : M bool := fun d s => (Ok (d_flag d n), s).

(** * Cursor primitives *)

(** [peek_nth_token]: nth non-whitespace token from the cursor, EOF (0,0) past the end. *)
Fixpoint peek_from (l : list twl) (n : nat) : twl :=
  match l with
  | [] => eof_twl
  | t :: r => if is_ws t then peek_from r n
              else match n with O => t | S n' => peek_from r n' end
  end.
Definition peek_nth_token (n : nat) : M twl :=
  fun _ s => (Ok (peek_from (skipn (idx s) (toks s)) n), s).
Definition peek_token : M twl := peek_nth_token 0.

(** [peek_nth_token_no_skip] *)
Definition peek_nth_token_no_skip (n : nat) : M twl :=
  fun _ s => (Ok (nth (idx s + n) (toks s) eof_twl), s).

(** [next_token]: index += 1 until the token just passed is not whitespace. *)
Fixpoint next_from (l : list twl) (i : nat) : twl * nat :=
  match l with
  | [] => (eof_twl, S i)
  | t :: r => if is_ws t then next_from r (S i) else (t, S i)
  end.
Definition next_token : M twl :=
  fun _ s => let '(t, i) := next_from (skipn (idx s) (toks s)) (idx s) in (Ok t, set_idx i s).

(** [next_token_no_skip] *)
Definition next_token_no_skip : M (option twl) :=
  fun _ s => (Ok (nth_error (toks s) (idx s)), set_idx (S (idx s)) s).

(** [prev_token]: assert!(index > 0); index -= 1; repeat while tokens[index] is whitespace. *)
Fixpoint prev_idx (ts : list twl) (i : nat) : option nat :=
  match i with
  | O => None
  | S j => match nth_error ts j with
           | Some t => if is_ws t then prev_idx ts j else Some j
           | None => Some j
           end
  end.
Definition prev_token : M unit :=
  fun _ s => match prev_idx (toks s) (idx s) with
             | Some j => (Ok tt, set_idx j s)
             | None => (Panic, set_idx 0 s)
             end.

(** [expected]: "Expected: {expected}, found: {found}{found.location}" *)
Definition expected_msg (what : str) (found : twl) : str :=
  s2l "Expected: " ++ what ++ s2l ", found: " ++ show_token (tok found) ++ show_loc (line found) (col found).
Definition expected {A} (what : str) (found : twl) : M A := fail (Syntax (expected_msg what found)).

(** [parse_keyword] *)
Definition is_kw (k : str) (t : twl) : bool :=
  match tok t with TWord _ _ k' => str_eqb k k' | _ => false end.
Definition parse_keyword (k : str) : M bool :=
  t <- peek_token ;; if is_kw k t then next_token ;;; ret true else ret false.

(** [parse_keywords]: all or nothing (index restored). *)
Fixpoint parse_keywords_from (ks : list str) (saved : nat) : M bool :=
  match ks with
  | [] => ret true
  | k :: r => b <- parse_keyword k ;;
              if b then parse_keywords_from r saved else put_idx saved ;;; ret false
  end.
Definition parse_keywords (ks : list str) : M bool :=
  i <- get_idx ;; parse_keywords_from ks i.

(** [parse_one_of_keywords]: first keyword of the slice equal to the word's keyword. *)
Definition parse_one_of_keywords (ks : list str) : M (option str) :=
  t <- peek_token ;;
  match tok t with
  | TWord _ _ k' => match find (fun k => str_eqb k k') ks with
                    | Some k => next_token ;;; ret (Some k)
                    | None => ret None
                    end
  | _ => ret None
  end.

(** [expect_keyword]: the message names the keyword by its Debug name. *)
Definition expect_keyword (k : str) : M unit :=
  b <- parse_keyword k ;; if b then ret tt else t <- peek_token ;; expected k t.
Fixpoint expect_keywords (ks : list str) : M unit :=
  match ks with [] => ret tt | k :: r => expect_keyword k ;;; expect_keywords r end.

(** [consume_token], [consume_tokens], [expect_token] *)
Definition consume_token (e : token) : M bool :=
  t <- peek_token ;; if token_eqb (tok t) e then next_token ;;; ret true else ret false.
Fixpoint consume_tokens_from (ts : list token) (saved : nat) : M bool :=
  match ts with
  | [] => ret true
  | t :: r => b <- consume_token t ;;
              if b then consume_tokens_from r saved else put_idx saved ;;; ret false
  end.
Definition consume_tokens (ts : list token) : M bool :=
  i <- get_idx ;; consume_tokens_from ts i.
Definition expect_token (e : token) : M unit :=
  b <- consume_token e ;; if b then ret tt else t <- peek_token ;; expected (show_token e) t.

(** Unbounded pure look-ahead on the unprocessed tokens (what repeated [peek_nth_token] gives). *)
Definition lookahead {A} (g : list twl -> bool) (p q : M A) : M A :=
  fun d s => if g (skipn (idx s) (toks s)) then p d s else q d s.

(** * Speculation *)

(** [maybe_parse].  [reraise = false] is the helper as it stands (every [Err] becomes [None],
    index restored); [reraise = true] is the limit-transparent variant (the recursion-limit
    error propagates, any other error becomes [None]).  Which one the implementation is is
    decided by correspondence on every run. *)
Definition maybe_with {A} (reraise : bool) (f : M A) : M (option A) :=
  fun d s => match f d s with
             | (Ok a, s') => (Ok (Some a), s')
             | (Err Limit, s') => if reraise then (Err Limit, s') else (Ok None, set_idx (idx s) s')
             | (Err _, s') => (Ok None, set_idx (idx s) s')
             | (Panic, s') => (Panic, s')
             | (Diverge, s') => (Diverge, s')
             end.
Definition maybe {A} := @maybe_with A false.
Definition maybe_lt {A} := @maybe_with A true.

(** * Depth guard: [let _guard = self.recursion_counter.try_decrease()?;] scoped to [p].
    The [Drop] of the guard adds 1 back on every exit, including unwinding. *)
Definition guard {A} (p : M A) : M A :=
  fun d s => match depth s with
             | O => (Err Limit, s)
             | S n => let '(o, s') := p d (set_depth n s) in (o, set_depth (S (depth s')) s')
             end.

(** [with_state]: not restored when [f] panics (no RAII there). *)
Definition with_state {A} (st : pstate) (f : M A) : M A :=
  fun d s => let '(o, s') := f d (set_pst st s) in
             match o with Panic => (o, s') | _ => (o, set_pst (pst s) s') end.

(** [parse_projection]'s temporary enablement of trailing commas. *)
Definition with_projection_tc {A} (f : M A) : M A :=
  fun d s => let '(o, s') := f d (set_tc (tc s || d_proj_tc d) s) in
             match o with Panic => (o, s') | _ => (o, set_tc (tc s) s') end.

(** * List combinators *)
Definition is_closer (t : token) : bool :=
  match t with
  | TP PRParen | TP PSemi | TEOF | TP PRBracket | TP PRBrace => true
  | _ => false
  end.
(** The terminator set of [is_parse_comma_separated_end]. *)
Definition is_term (reserved : list str) (t : token) : bool :=
  match t with
  | TWord _ _ k => existsb (str_eqb k) reserved
  | _ => is_closer t
  end.

(** [is_parse_comma_separated_end] *)
Definition is_end : M bool :=
  c <- consume_token (TP PComma) ;;
  if negb c then ret true
  else b <- get_tc ;;
       if b then t <- peek_token ;; r <- ask_reserved ;; ret (is_term r (tok t))
       else ret false.

(** [parse_comma_separated]; [fuel] bounds the number of elements. *)
Fixpoint comma_sep {A} (fuel : nat) (f : M A) : M (list A) :=
  match fuel with
  | O => diverge
  | S n => x <- f ;; e <- is_end ;;
           if e then ret [x] else xs <- comma_sep n f ;; ret (x :: xs)
  end.

(** [peek_tokens::<2>() == [Comma, end_token]] *)
Definition peek_two_are (a b : token) : M bool :=
  x <- peek_nth_token 0 ;; y <- peek_nth_token 1 ;;
  ret (token_eqb (tok x) a && token_eqb (tok y) b).

(** [parse_comma_separated0] *)
Definition comma_sep0 {A} (fuel : nat) (f : M A) (end_token : token) : M (list A) :=
  t <- peek_token ;;
  if token_eqb (tok t) end_token then ret []
  else b <- get_tc ;;
       two <- peek_two_are (TP PComma) end_token ;;
       if b && two then consume_token (TP PComma) ;;; ret []
       else comma_sep fuel f.

(** [parse_keyword_separated] *)
Fixpoint kw_sep {A} (fuel : nat) (k : str) (f : M A) : M (list A) :=
  match fuel with
  | O => diverge
  | S n => x <- f ;; b <- parse_keyword k ;;
           if b then xs <- kw_sep n k f ;; ret (x :: xs) else ret [x]
  end.

(** [parse_parenthesized] *)
Definition parenthesized {A} (f : M A) : M A :=
  expect_token (TP PLParen) ;;; r <- f ;; expect_token (TP PRParen) ;;; ret r.

(** [parse_actions_list], generic in the element parser (it is [parse_grant_permission]). *)
Definition is_actions_term (t : token) : bool :=
  match t with
  | TWord _ _ k => str_eqb k (s2l "ON")
  | _ => is_closer t
  end.
Fixpoint actions_list {A} (fuel : nat) (f : M A) : M (list A) :=
  match fuel with
  | O => diverge
  | S n => x <- f ;; c <- consume_token (TP PComma) ;;
           if negb c then ret [x]
           else b <- get_tc ;;
                if b then t <- peek_token ;;
                          if is_actions_term (tok t) then ret [x]
                          else xs <- actions_list n f ;; ret (x :: xs)
                else xs <- actions_list n f ;; ret (x :: xs)
  end.

(** [parse_projection] = temporary flag around [parse_comma_separated]; each ITEM is parsed with the
    flag put back to the value found at entry (so that the lists of a subquery nested in an item do
    not inherit the projection-only trailing comma), and the flag is switched on again for the
    end-of-list test after the item. *)
Definition with_tc_to {A} (v : bool) (f : M A) : M A :=
  fun d s => let '(o, s') := f d (set_tc v s) in
             match o with Panic => (o, s') | _ => (o, set_tc (tc s) s') end.
Definition projection {A} (fuel : nat) (item : M A) : M (list A) :=
  fun d s => with_projection_tc (comma_sep fuel (with_tc_to (tc s) item)) d s.

(** * Fuelled recursion for clients *)
Fixpoint mfix {X A} (F : (X -> M A) -> X -> M A) (fuel : nat) (x : X) : M A :=
  match fuel with
  | O => diverge
  | S n => F (mfix F n) x
  end.

(** * The statement loop: [parse_statements], generic in the statement parser. *)
Fixpoint skip_semis (fuel : nat) : M unit :=
  match fuel with
  | O => diverge
  | S n => b <- consume_token (TP PSemi) ;; if b then skip_semis n else ret tt
  end.

Definition skip_all_semis : M unit := fun d s => skip_semis (S (length (toks s))) d s.

(** [expecting] = expecting_statement_delimiter; [acc] = statements so far, reversed. *)
Fixpoint statements_loop {A} (blk : bool) (fuel : nat) (stmt : M A) (expecting : bool) (acc : list A) : M (list A) :=
  match fuel with
  | O => diverge
  | S n =>
      (* while self.consume_token(&Token::SemiColon) { expecting_statement_delimiter = false } *)
      t0 <- peek_token ;;
      let expecting' := if token_eqb (tok t0) (TP PSemi) then false else expecting in
      skip_all_semis ;;;
      t <- peek_token ;;
      match tok t with
      | TEOF => ret (rev acc)
      | _ =>
          if blk && expecting' && is_kw (s2l "END") t then ret (rev acc)
          else if expecting' then expected (s2l "end of statement") t
          else a <- stmt ;; statements_loop blk n stmt true (a :: acc)
      end
  end.
(** [blk = false]: the public [Parser::parse_statements] (only the end of the input ends the list);
    [blk = true]: the body of a BEGIN .. END block (parse_create_procedure), which also ends in
    front of an END keyword that follows a statement. *)
Definition parse_statements {A} (fuel : nat) (stmt : M A) : M (list A) :=
  statements_loop false fuel stmt false [].
Definition parse_statement_block {A} (fuel : nat) (stmt : M A) : M (list A) :=
  statements_loop true fuel stmt false [].

(** * The closure language: first-order programs over the interface, interpreted here and
      (the fragment reachable through the public API) by harness/machx against the real parser. *)
Inductive val :=
| VUnit | VBool (b : bool) | VTok (t : twl) | VOpt (o : option val) | VList (l : list val) | VKw (k : str).

Inductive prog :=
| PNext | PPeekNth (n : nat) | PPrev | PNextNoSkip | PPeekNoSkip (n : nat)
| PKw (k : str) | PKws (ks : list str) | POneOf (ks : list str) | PExpectKw (k : str)
| PConsume (t : token) | PConsumes (ts : list token) | PExpectTok (t : token)
| PFail (e : err) | PExpected (msg : str)
| PSeq (p q : prog) | PIf (c p q : prog)
| PMaybe (p : prog) | PCommaSep (p : prog) | PCommaSep0 (p : prog) (t : token)
| PKwSep (k : str) (p : prog) | PParen (p : prog)
| PStmt | PStmts | PWord
| PGuard (p : prog) | PWithState (st : pstate) (p : prog) | PProjection (p : prog)
| PCall
| PBlock.

Definition truthy (v : val) : bool :=
  match v with VBool true => true | VOpt (Some _) => true | _ => false end.

(** The statement probe of the harness: a no-op before [(], otherwise [parse_statement]
    restricted to COMMIT [TRANSACTION|WORK] [AND [NO] CHAIN]; anything else is not a statement. *)
Definition commit_chain : M val :=
  parse_one_of_keywords [s2l "TRANSACTION"; s2l "WORK"] ;;;
  a <- parse_keyword (s2l "AND") ;;
  if a then n <- parse_keyword (s2l "NO") ;; expect_keyword (s2l "CHAIN") ;;; ret (VBool (negb n))
  else ret (VBool false).
Definition stmt_probe : M val :=
  t <- peek_token ;;
  if token_eqb (tok t) (TP PLParen) then ret VUnit
  else guard (t <- next_token ;;
              if is_kw (s2l "COMMIT") t || is_kw (s2l "END") t then commit_chain
              else expected (s2l "an SQL statement") t).

Definition stmt_core : M val :=
  guard (t <- next_token ;;
         if is_kw (s2l "COMMIT") t || is_kw (s2l "END") t then commit_chain
         else expected (s2l "an SQL statement") t).
(** [parse_statements] over the same fragment; a no-op when a [(] lies ahead. *)
Definition stmts_probe (fuel : nat) : M val :=
  lookahead (existsb (fun t => token_eqb (tok t) (TP PLParen)))
            (ret VUnit) (l <- parse_statements fuel stmt_core ;; ret (VList l)).

(** The block probe of the harness: [parse_statement] on
      CREATE PROCEDURE <unquoted non-keyword word> AS BEGIN <statements over the COMMIT/END fragment> END
    i.e. the only caller of [parse_statement_list(true)].  A no-op unless the five non-whitespace
    tokens at the cursor are exactly that header (a bounded look-ahead: five [peek_nth_token]).
    Under the header the route is fixed: [parse_statement] takes its depth guard and dispatches
    on CREATE to [parse_create], every earlier test of which declines the token PROCEDURE;
    [parse_create_procedure] = [parse_object_name] (one identifier, no period follows),
    [parse_optional_procedure_parameters] (no parenthesis follows), AS, BEGIN, the block, END. *)
Definition plain_word (t : token) : bool :=
  match t with TWord _ None k => str_eqb k no_keyword | _ => false end.
Definition block_header (t0 t1 t2 t3 t4 : twl) : bool :=
  is_kw (s2l "CREATE") t0 && is_kw (s2l "PROCEDURE") t1 && plain_word (tok t2)
  && is_kw (s2l "AS") t3 && is_kw (s2l "BEGIN") t4.
Definition create_procedure (fuel : nat) : M val :=
  next_token ;;; consume_token (TP PPeriod) ;;;   (* parse_object_name *)
  consume_token (TP PLParen) ;;;                  (* parse_optional_procedure_parameters *)
  expect_keyword (s2l "AS") ;;; expect_keyword (s2l "BEGIN") ;;;
  l <- parse_statement_block fuel stmt_core ;;
  expect_keyword (s2l "END") ;;; ret (VList l).
Definition block_probe (fuel : nat) : M val :=
  t0 <- peek_nth_token 0 ;; t1 <- peek_nth_token 1 ;; t2 <- peek_nth_token 2 ;;
  t3 <- peek_nth_token 3 ;; t4 <- peek_nth_token 4 ;;
  if block_header t0 t1 t2 t3 t4
  then guard (next_token ;;;                          (* parse_statement: CREATE *)
              parse_keyword (s2l "PROCEDURE") ;;;     (* parse_create *)
              create_procedure fuel)
  else ret VUnit.

Definition word_elem : M val :=
  t <- next_token ;;
  match tok t with TWord _ _ _ => ret (VTok t) | _ => expected (s2l "identifier") t end.

(** [rr]: does [maybe_parse] re-raise the limit error; [body]: the program [PCall] refers to;
    [fuel]: bound for loops and for [PCall]. *)
Section Denote.
  Variable rr : bool.
  Variable body : prog.

  Fixpoint denote_p (self : M val) (fuel : nat) (p : prog) : M val :=
    match p with
    | PNext => t <- next_token ;; ret (VTok t)
    | PPeekNth n => t <- peek_nth_token n ;; ret (VTok t)
    | PPrev => prev_token ;;; ret VUnit
    | PNextNoSkip => o <- next_token_no_skip ;; ret (VOpt (option_map VTok o))
    | PPeekNoSkip n => t <- peek_nth_token_no_skip n ;; ret (VTok t)
    | PKw k => b <- parse_keyword k ;; ret (VBool b)
    | PKws ks => b <- parse_keywords ks ;; ret (VBool b)
    | POneOf ks => o <- parse_one_of_keywords ks ;; ret (VOpt (option_map VKw o))
    | PExpectKw k => expect_keyword k ;;; ret VUnit
    | PConsume t => b <- consume_token t ;; ret (VBool b)
    | PConsumes ts => b <- consume_tokens ts ;; ret (VBool b)
    | PExpectTok t => expect_token t ;;; ret VUnit
    | PFail e => fail e
    | PExpected msg => t <- peek_token ;; expected msg t
    | PSeq a b => denote_p self fuel a ;;; denote_p self fuel b
    | PIf c a b => v <- denote_p self fuel c ;;
                   if truthy v then denote_p self fuel a else denote_p self fuel b
    | PMaybe a => o <- maybe_with rr (denote_p self fuel a) ;; ret (VOpt o)
    | PCommaSep a => l <- comma_sep fuel (denote_p self fuel a) ;; ret (VList l)
    | PCommaSep0 a t => l <- comma_sep0 fuel (denote_p self fuel a) t ;; ret (VList l)
    | PKwSep k a => l <- kw_sep fuel k (denote_p self fuel a) ;; ret (VList l)
    | PParen a => parenthesized (denote_p self fuel a)
    | PStmt => stmt_probe
    | PStmts => stmts_probe fuel
    | PWord => word_elem
    | PGuard a => guard (denote_p self fuel a)
    | PWithState st a => with_state st (denote_p self fuel a)
    | PProjection a => l <- projection fuel (denote_p self fuel a) ;; ret (VList l)
    | PCall => self
    | PBlock => block_probe fuel
    end.

  Fixpoint denote_rec (fuel : nat) : M val :=
    match fuel with
    | O => diverge
    | S n => denote_p (denote_rec n) fuel body
    end.
End Denote.

(** Top-level: run a program whose recursive calls refer to itself. *)
Definition denote (rr : bool) (fuel : nat) (p : prog) : M val :=
  denote_p rr (denote_rec rr p fuel) fuel p.

(** * Decidable equality on values, for the correspondence check *)
Definition twl_eqb (a b : twl) : bool :=
  token_eqb (tok a) (tok b) && N.eqb (line a) (line b) && N.eqb (col a) (col b).
Fixpoint val_eqb (a b : val) : bool :=
  match a, b with
  | VUnit, VUnit => true
  | VBool x, VBool y => Bool.eqb x y
  | VTok x, VTok y => twl_eqb x y
  | VOpt None, VOpt None => true
  | VOpt (Some x), VOpt (Some y) => val_eqb x y
  | VList l, VList l' =>
      (fix go (l l' : list val) : bool :=
         match l, l' with
         | [], [] => true
         | x :: r, y :: r' => val_eqb x y && go r r'
         | _, _ => false
         end) l l'
  | VKw x, VKw y => str_eqb x y
  | _, _ => false
  end.
Definition err_eqb (a b : err) : bool :=
  match a, b with
  | Syntax x, Syntax y => str_eqb x y
  | Lex x, Lex y => str_eqb x y
  | Limit, Limit => true
  | _, _ => false
  end.
Definition outcome_eqb (a b : outcome val) : bool :=
  match a, b with
  | Ok x, Ok y => val_eqb x y
  | Err x, Err y => err_eqb x y
  | Panic, Panic => true
  | Diverge, Diverge => true
  | _, _ => false
  end.

(** Run a sequence of top-level operations the way the harness does: every operation's
    outcome is recorded; a panic ends the case. *)
Fixpoint run_ops (rr : bool) (fuel : nat) (d : dial) (ops : list prog) (s : mstate) : list (outcome val) :=
  match ops with
  | [] => []
  | p :: r => let '(o, s') := denote rr fuel p d s in
              match o with
              | Panic => [o]
              | _ => o :: run_ops rr fuel d r s'
              end
  end.
Fixpoint outcomes_eqb (a b : list (outcome val)) : bool :=
  match a, b with
  | [], [] => true
  | x :: r, y :: r' => outcome_eqb x y && outcomes_eqb r r'
  | _, _ => false
  end.
Definition init_state (ts : list twl) (tcflag : bool) (limit : nat) : mstate :=
  {| toks := ts; idx := 0; pst := Normal; tc := tcflag; depth := limit |}.
