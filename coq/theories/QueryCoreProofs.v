(** C01 — the query core: well-formedness of query trees, the token-level round trip
    [query_roundtrip], and the evaluator of one correspondence case. *)
From SqlV Require Import Base PrecSpec Pratt PrattProofs SetOps PrinterCore PrinterCoreProofs QueryCore.
From Coq Require Import ZifyBool ZifyN ZifyNat.

(** * Well-formed trees (decidable) *)

(** an expression the round trip of the operator core applies to, in canonical spelling, with no
    construct outside the fragment at any position of its tokens ([frag_ok]) *)
Definition ewfg (s : bool) (d : dialect) (e : expr) : bool :=
  shapeb d e && wfb (lvl d) (flags_of d) e && lspine_gtb (lvl d) (lvl d K_UNKNOWN) e && canonical e &&
  (negb s || frag_ok d (yield e)).
Definition ewf := ewfg true.

Definition optb {A} (f : A -> bool) (x : option A) : bool :=
  match x with Some a => f a | None => true end.

(** the subquery atoms of an expression's tokens are where the parser makes them: [SQ_BASE + i] exactly
    as [( a )], not as [UNNEST ( a )] or [ANY ( ( a ) ..], [EX_BASE + i] not behind NOT (that is
    [NEX_BASE + i]), numbered from the left; parentheses balance, and outside them there is no comma
    and no FROM except in DISTINCT FROM (true of every printed expression).  [okts k i ts]: depth and
    next index after [ts], from depth [k] and index [i] *)
Definition in_sq (n : N) : bool := (SQ_BASE <=? n) && (n <? EX_BASE).
Definition in_ex (n : N) : bool := (EX_BASE <=? n) && (n <? NEX_BASE).
Definition is_not (w : kwd) : bool := match w with KNot => true | _ => false end.
Definition small (i : nat) : bool := N.of_nat i <? 1000000.

Fixpoint okts (k i : nat) (ts : list tok) : option (nat * nat) :=
  match ts with
  | [] => Some (k, i)
  | TLParen :: r =>
      match r with
      | TAtom false n :: r1 =>
          if in_sq n then
            match r1 with
            | TRParen :: r2 => if (n =? SQ_BASE + N.of_nat i) && small i then okts k (S i) r2 else None
            | _ => None
            end
          else okts (S k) i r
      | _ => okts (S k) i r
      end
  | TRParen :: r => match k with O => None | S k' => okts k' i r end
  | TComma :: r => match k with O => None | S _ => okts k i r end
  | TKw KDistinct :: r => match r with TKw KFrom :: r1 => okts k i r1 | _ => None end
  | TKw KFrom :: r => match k with O => None | S _ => okts k i r end
  | TKw w :: r =>
      if match w, r with
         | KUnnest, TLParen :: TAtom false n :: _ => in_sq n
         | KAny, TLParen :: TLParen :: TAtom false n :: _ | KAll, TLParen :: TLParen :: TAtom false n :: _
         | KSome, TLParen :: TLParen :: TAtom false n :: _ => in_sq n
         | _, _ => false
         end then None
      else if is_not w && match r with TAtom false n :: _ => in_ex n | _ => false end then None
      else okts k i r
  | TAtom false n :: r =>
      if n <? SQ_BASE then okts k i r
      else if ((n =? EX_BASE + N.of_nat i) || (n =? NEX_BASE + N.of_nat i)) && small i then okts k (S i) r
      else None
  | _ :: r => okts k i r
  end.

Definition sq_ok (e : expr) (n : nat) : bool :=
  match okts O O (yield e) with Some (O, m) => Nat.eqb m n | _ => false end.

(** the parser takes [( .. )] in operand position (and after IN) for a subquery when SELECT or WITH
    follows the parenthesis: the text of such a subquery does not start with a parenthesised operand
    of a set operation; so for EXISTS where EXISTS may be a function name *)
Fixpoint lead (b : setexpr) : bool :=
  match b with BSelect _ _ _ _ _ _ => true | BSetOp _ _ l _ => lead l | _ => false end.
Definition qlead (q : query) : bool :=
  match q with Query w b _ _ _ => match w with Some _ => true | None => lead b end end.
Fixpoint lead_ok (exfn : bool) (ts : list tok) (subs : list query) : bool :=
  match ts with
  | [] => true
  | TAtom false n :: r =>
      if n <? SQ_BASE then lead_ok exfn r subs
      else match subs with
           | q :: subs' => (qlead q || (negb exfn && negb (in_sq n))) && lead_ok exfn r subs'
           | [] => false
           end
  | _ :: r => lead_ok exfn r subs
  end.

(** a table name: any word, except UNNEST where FROM UNNEST(..) is a construct of its own, and TABLE
    (TABLE (..) is a table function) *)
Definition name_ok (d : qdialect) (w : qtok) : bool :=
  is_word w && negb (unnest_table d && qtok_eqb w (QE (TKw KUnnest))) && negb (qtok_eqb w (QK KTable)).

Fixpoint blspine_gtb (p : N) (b : setexpr) : bool :=
  match b with
  | BSetOp o _ l _ => (p <? sp_pinned o) && blspine_gtb p l
  | _ => true
  end.
Fixpoint brspine_geb (p : N) (b : setexpr) : bool :=
  match b with
  | BSetOp o _ _ r => (p <=? sp_pinned o) && brspine_geb p r
  | _ => true
  end.

(** with trailing commas on, a comma followed by a reserved word ends a list: the elements after
    the first one do not start with such a word (tables of FROM, columns of USING (..) and of a CTE,
    names of CTEs) *)
Definition later_ok (d : qdialect) (w : qtok) : bool := negb (trailing d && mem w (res_col d)).

Definition twj_head_ok (d : qdialect) (t : twj) : bool :=
  match t with Twj (TTable n _) _ => later_ok d n | _ => true end.
Definition later_names_ok (d : qdialect) (from : list twj) : bool :=
  match from with [] => true | _ :: r => forallb (twj_head_ok d) r end.

(** a column list: at least one column, words *)
Definition cols_wf (d : qdialect) (cols : list qtok) : bool :=
  match cols with
  | [] => false
  | _ :: r => forallb is_word cols && forallb (later_ok d) r
  end.
Definition ccols_wf (d : qdialect) (cols : list qtok) : bool :=
  match cols with [] => true | _ => cols_wf d cols end.

(** a parenthesised join: what [parse_table_factor] builds a NestedJoin from (a table with at least
    one join, or a nested join), and its first table is not named by a word that starts a query
    (the parser tries a derived table first) *)
Definition nested_ok (t : twj) : bool := nested_shape t && first_ok (first_of t).

Definition cte_name (c : cte) : qtok := match c with Cte n _ _ => n end.
(** WITH without RECURSIVE: the first CTE is not named RECURSIVE *)
Definition with_names_ok (d : qdialect) (rc : bool) (ctes : list cte) : bool :=
  match ctes with
  | [] => false
  | c :: r => (rc || negb (qtok_eqb (cte_name c) (QK KRecursive))) &&
              forallb (fun c => later_ok d (cte_name c)) r
  end.

(** [s = false]: without the conservative fragment test [frag_ok] on the expressions (what every
    output of the parser is checked against, per case); the theorems are about [s = true] *)
Fixpoint bwfg (s : bool) (d : qdialect) (b : setexpr) {struct b} : bool :=
  match b with
  | BSelect _ items from wh gb hv =>
      match items with [] => false | _ => true end &&
      forallb (item_wfg s d) items &&
      forallb (twj_wfg s d) from && later_names_ok d from &&
      match wh with Some x => xwfg s d x | None => true end && forallb (xwfg s d) gb &&
      match hv with Some x => xwfg s d x | None => true end
  | BSetOp o _ l r =>
      blspine_gtb (sp_pinned o) r && brspine_geb (sp_pinned o) l && bwfg s d l && bwfg s d r
  | BNested q => qwfg s d q
  | BValues rows => match rows with [] => false | _ => true end && forallb (vrow_wfg s d) rows
  | BTable n => is_word n
  end
with vrow_wfg (s : bool) (d : qdialect) (r : vrow) {struct r} : bool :=
  match r with
  | VRow l => (match l with [] => values_empty d | _ => true end) && forallb (xwfg s d) l
  end
with qwfg (s : bool) (d : qdialect) (q : query) {struct q} : bool :=
  match q with
  | Query w b ob lim off =>
      match w with Some x => with_wfg s d x | None => true end && bwfg s d b &&
      (forallb (oelem_wfg s d) ob && match lim with Some x => xwfg s d x | None => true end &&
       match off with Some x => xwfg s d x | None => true end)
  end
with tref_wfg (s : bool) (d : qdialect) (t : tref) {struct t} : bool :=
  match t with
  | TTable n a => name_ok d n && optb is_word a
  | TDerived q a => qwfg s d q && optb is_word a
  | TNested x a => twj_wfg s d x && nested_ok x && optb is_word a
  end
with twj_wfg (s : bool) (d : qdialect) (t : twj) {struct t} : bool :=
  match t with Twj r js => tref_wfg s d r && forallb (join_wfg s d) js end
with join_wfg (s : bool) (d : qdialect) (j : join) {struct j} : bool :=
  match j with Join o r => jop_wfg s d o && tref_wfg s d r end
with jop_wfg (s : bool) (d : qdialect) (o : jop) {struct o} : bool :=
  match o with JCross => true | JOp _ c => jcons_wfg s d c end
with jcons_wfg (s : bool) (d : qdialect) (c : jcons) {struct c} : bool :=
  match c with JOn x => xwfg s d x | JUsing cols => cols_wf d cols | _ => true end
with with_wfg (s : bool) (d : qdialect) (w : withc) {struct w} : bool :=
  match w with With rc ctes => with_names_ok d rc ctes && forallb (cte_wfg s d) ctes end
with cte_wfg (s : bool) (d : qdialect) (c : cte) {struct c} : bool :=
  match c with Cte n cols q => is_word n && ccols_wf d cols && qwfg s d q end
with item_wfg (s : bool) (d : qdialect) (i : item) {struct i} : bool :=
  match i with
  | IWild => true
  | IExpr x => xwfg s d x
  | IAlias x w => xwfg s d x && is_word w
  end
with oelem_wfg (s : bool) (d : qdialect) (o : oelem) {struct o} : bool :=
  match o with OElem x _ => xwfg s d x end
with xwfg (s : bool) (d : qdialect) (x : xexpr) {struct x} : bool :=
  match x with
  | X e subs =>
      ewfg s (base d) e && sq_ok e (length subs) && lead_ok (exists_fn d) (yield e) subs &&
      forallb (qwfg s d) subs
  end.

Definition bwf := bwfg true.       Definition qwf := qwfg true.         Definition tref_wf := tref_wfg true.
Definition twj_wf := twj_wfg true. Definition join_wf := join_wfg true. Definition jop_wf := jop_wfg true.
Definition jcons_wf := jcons_wfg true. Definition with_wf := with_wfg true. Definition cte_wf := cte_wfg true.
Definition item_wf := item_wfg true. Definition oelem_wf := oelem_wfg true. Definition xwf := xwfg true.
Definition vrow_wf := vrow_wfg true.

Definition wwf (d : qdialect) (w : option withc) : bool :=
  match w with Some x => with_wf d x | None => true end.
Definition oxwf (d : qdialect) (x : option xexpr) : bool :=
  match x with Some y => xwf d y | None => true end.
Definition tail_wf (d : qdialect) (ob : list oelem) (lim off : option xexpr) : bool :=
  forallb (oelem_wf d) ob && oxwf d lim && oxwf d off.

(** * The syntactic fragment test on the printed tokens (conservative, decidable): with trailing
    commas on no [, )]; no [* EXCEPT] / [* ILIKE] where these start a wildcard option *)
Fixpoint star_ok (d : qdialect) (l : list qtok) : bool :=
  match l with
  | [] => true
  | t :: r =>
      match t, r with
      | QE (TOp k), QK KExcept :: _ => negb ((k =? K_Mul) && wild_except d)
      | QE (TOp k), QE (TKw KILike) :: _ => negb ((k =? K_Mul) && wild_ilike d)
      | _, _ => true
      end && star_ok d r
  end.

Definition qfrag (d : qdialect) (l : list qtok) : bool :=
  negb ((trailing d || proj_trailing d) && comma_rparen l) && star_ok d l.

(** what may follow a query: end of input, [)] or [;] *)
Definition ender (rest : list qtok) : bool :=
  match rest with
  | [] => true
  | QE TRParen :: _ | QSemi :: _ => true
  | _ => false
  end.

(** * Evaluation of one correspondence case (adds to [qcase_core]): 16 = the implementation accepted
    the input but its tree (in canonical spelling) is not [qwfg false]; 32 = the conservative fragment
    tests fail: [frag_ok] on some expression of the tree (the rest of [qwf]) or [qfrag] on the printed
    tokens (counted, not an error: the theorem says nothing then) *)
Definition lastn {A} (n : nat) (l : list A) : list A := skipn (length l - n) l.

Definition qcase_full (d : qdialect) (ts : list qtok) (i : qires) : N :=
  let c := qcase_core d ts i in
  if c =? 8 then 8 else
  match i with
  | QIOk q n _ =>
      c + (if qwfg false d (qnorm q) then 0 else 16) +
      (if qwf d (qnorm q) && qfrag d (qtoks (qnorm q) ++ lastn n ts) && ender (lastn n ts) then 0 else 32)
  | _ => c
  end.

(** * Basic facts *)
Lemma ewf_parts d e : ewf d e = true ->
  shape d e /\ wf (flags_of d) (lvl d) e /\ lspine_gt (lvl d) (lvl d K_UNKNOWN) e /\ canonical e = true /\
  frag_ok d (yield e) = true.
Proof.
  unfold ewf, ewfg. intro H. repeat (apply andb_true_iff in H; destruct H as [H ?]).
  repeat split; [apply shapeb_iff|apply wfb_iff|apply lspine_gtb_iff| |]; assumption.
Qed.
Lemma ewf_ptoks d e : ewf d e = true -> ptoks e = yield e.
Proof. intro H. apply ewf_parts in H. unfold ptoks. rewrite norm_canonical; tauto. Qed.

(** what may follow an expression in the printed text: [,], [)], FROM, the end, or a token outside
    the expression alphabet other than SELECT, WITH, EXISTS *)
Definition estop (post : list qtok) : bool :=
  match post with
  | [] => true
  | QE TComma :: _ | QE TRParen :: _ | QE (TKw KFrom) :: _ => true
  | QE _ :: _ => false
  | QK KSelect :: _ | QK KWith :: _ | QK KExists :: _ => false
  | _ :: _ => true
  end.

(** the token the expression parser's view ends with, for such a follower *)
Definition stoptok (post : list qtok) : list tok :=
  match post with
  | [] => []
  | QE TComma :: _ => [TComma]
  | QE TRParen :: _ => [TRParen]
  | QE (TKw KFrom) :: _ => [TKw KFrom]
  | _ :: _ => [TType 0]
  end.

Lemma stoptok_np d post : estop post = true ->
  np d (stoptok post) = lvl d K_UNKNOWN /\ is_escape_head (stoptok post) = false.
Proof.
  destruct post as [|[t|k| |] r]; cbn [estop stoptok]; intro H; try (split; reflexivity).
  destruct t; try discriminate H; try (split; reflexivity).
  destruct k; try discriminate H. split; reflexivity.
Qed.

(** [frag_ok] does not mind the token the view ends with *)
Definition quiet (t : tok) : bool :=
  match t with TComma | TRParen | TKw _ | TType _ => true | _ => false end.

Lemma lambda_ahead_snoc t : quiet t = true -> forall n r, (length r <= n)%nat ->
  lambda_ahead (r ++ [t]) = lambda_ahead r.
Proof.
  intros Ht. induction n as [|n IH]; intros r Hn.
  - destruct r; [|cbn [length] in Hn; lia]. destruct t; try discriminate Ht; reflexivity.
  - destruct r as [|a r]; [destruct t; try discriminate Ht; reflexivity|].
    destruct a; try reflexivity. destruct s; try reflexivity.
    destruct r as [|b r]; [destruct t; try discriminate Ht; reflexivity|].
    destruct b; try reflexivity.
    + (* ) *) destruct r as [|c r]; [destruct t; try discriminate Ht; reflexivity|]. reflexivity.
    + (* , *) cbn [app lambda_ahead]. apply IH. cbn [length] in Hn. lia.
Qed.

Lemma frag_ok_snoc d t a : quiet t = true -> frag_ok d a = true -> frag_ok d (a ++ [t]) = true.
Proof.
  intros Ht. induction a as [|x r IH]; intro H.
  - destruct t; try discriminate Ht; reflexivity.
  - apply frag_ok_cons in H. destruct H as [Hb Hr]. cbn [app frag_ok]. rewrite (IH Hr), andb_true_r.
    apply negb_true_iff. destruct x; try exact Hb.
    + destruct s; [exact Hb|]. destruct r as [|y r']; [destruct t; try discriminate Ht; reflexivity|exact Hb].
    + destruct r as [|y r']; [destruct t; try discriminate Ht; reflexivity|exact Hb].
    + cbn [bad_here] in *. destruct (lambda d); [|reflexivity]. cbn [andb] in *.
      rewrite (lambda_ahead_snoc t Ht (length r) r (le_n _)). exact Hb.
Qed.

Lemma frag_ok_stop d e post : estop post = true -> frag_ok d (yield e) = true ->
  frag_ok d (yield e ++ stoptok post) = true.
Proof.
  intros Hs Hf. destruct post as [|[t|k| |] r]; cbn [stoptok]; try (rewrite app_nil_r; exact Hf);
    try (apply frag_ok_snoc; [reflexivity|exact Hf]).
  destruct t; try discriminate Hs; try (apply frag_ok_snoc; [reflexivity|exact Hf]).
  destruct k; try discriminate Hs. apply frag_ok_snoc; [reflexivity|exact Hf].
Qed.

(** * The fragment test is closed under suffixes *)
Lemma comma_rparen_cons t r : comma_rparen (t :: r) = false -> comma_rparen r = false.
Proof.
  cbn [comma_rparen]. destruct t as [x| | |]; auto. destruct x; auto.
  destruct r as [|[y| | |] r']; auto. destruct y; auto. discriminate.
Qed.

Lemma qfrag_cons d t r : qfrag d (t :: r) = true -> qfrag d r = true.
Proof.
  unfold qfrag. intro H. apply andb_true_iff in H. destruct H as [H2 H3].
  cbn [star_ok] in H3. apply andb_true_iff in H3. destruct H3 as [_ H3].
  rewrite H3. rewrite andb_true_r.
  destruct (trailing d || proj_trailing d); [|reflexivity]. cbn [andb negb] in *.
  apply negb_true_iff in H2. apply comma_rparen_cons in H2. rewrite H2. reflexivity.
Qed.

Lemma qfrag_app d a b : qfrag d (a ++ b) = true -> qfrag d b = true.
Proof. induction a as [|t a IH]; [auto|]. intro H. apply IH. eapply qfrag_cons. exact H. Qed.

Lemma qfrag_trail d l : qfrag d l = true -> trailing d = true \/ proj_trailing d = true -> comma_rparen l = false.
Proof.
  unfold qfrag. intros H Ht. apply andb_true_iff in H. destruct H as [H _]. apply negb_true_iff in H.
  destruct Ht as [Ht|Ht]; rewrite Ht in H; cbn [orb andb] in H; [exact H|].
  rewrite orb_true_r in H. exact H.
Qed.

(** * Side conditions on the generated dialect record (decidable; discharged by [vm_compute] on
    coq/gen/QueryTables.v) *)
Definition kw_only (w : qtok) : bool :=
  match w with
  | QK _ => true
  | QE (TKw k) => negb (kwd_beq k KNot)
  | _ => false
  end.

Definition clause_words : list qtok :=
  [QK KWhere; QK KGroup; QK KHaving; QK KUnion; QK KExcept; QK KIntersect; QK KOrder; QK KLimit; QK KOffset].

(** the keywords that may follow a table of a join in the printed text *)
Definition join_words : list qtok :=
  [QK KJoin; QK KInner; QK KLeft; QK KRight; QK KFull; QK KCross; QK KNatural; QK KOn; QK KUsing].

Definition dialect_ok (d : qdialect) : bool :=
  (lvl (base d) K_UNKNOWN =? 0) && (lvl (base d) K_AND <=? lvl (base d) C_Between) &&
  forallb (fun w => mem w (res_col d)) (QE (TKw KFrom) :: clause_words) &&
  forallb (fun w => mem w (res_tab d)) (clause_words ++ join_words) &&
  forallb kw_only (res_col d) && negb (mem (QK KExists) (res_col d)).

(** * Followers: the head of what comes after a clause of a printed query *)
Definition hrank (post : list qtok) : nat :=
  match post with
  | [] => 9
  | QE TRParen :: _ | QSemi :: _ => 9
  | QE (TKw KFrom) :: _ => 1
  | QK KWhere :: _ => 2
  | QK KGroup :: _ => 3
  | QK KHaving :: _ => 4
  | QK KUnion :: _ | QK KExcept :: _ | QK KIntersect :: _ => 5
  | QK KOrder :: _ => 6
  | QK KLimit :: _ => 7
  | QK KOffset :: _ => 8
  | _ => 0
  end%nat.

Ltac head_cases post :=
  destruct post as [|[[]|[]| |] ?];
  repeat match goal with k : kwd |- _ => destruct k end.

Lemma hrank_estop post : (1 <= hrank post)%nat -> estop post = true.
Proof. head_cases post; cbn [hrank estop]; intro; try reflexivity; lia. Qed.

Lemma ender_hrank post : ender post = true -> hrank post = 9%nat.
Proof. head_cases post; cbn [ender hrank]; intro; try reflexivity; discriminate. Qed.

(** [fol post]: [post] starts with a comma or with something that ends the list *)
Definition is_comma (post : list qtok) : bool :=
  match post with QE TComma :: _ => true | _ => false end.

(** the join keywords the printer writes at the start of a join / what may follow the table of a join *)
Definition jstart (post : list qtok) : bool :=
  match post with
  | QK KJoin :: _ | QK KLeft :: _ | QK KRight :: _ | QK KFull :: _ | QK KCross :: _ | QK KNatural :: _ => true
  | _ => false
  end.
Definition jhead (post : list qtok) : bool :=
  match post with
  | QK KOn :: _ | QK KUsing :: _ => true
  | _ => jstart post
  end.

Ltac qhead post := destruct post as [|[?|[]| |] ?].

Lemma jstart_jhead post : jstart post = true -> jhead post = true.
Proof. qhead post; cbn [jstart jhead]; intro H; try discriminate H; reflexivity. Qed.
Lemma jhead_estop post : jhead post = true -> estop post = true.
Proof. qhead post; cbn [jhead jstart]; intro H; try discriminate H; reflexivity. Qed.
Lemma jhead_hrank post : jhead post = true -> hrank post = 0%nat.
Proof. qhead post; cbn [jhead jstart]; intro H; try discriminate H; reflexivity. Qed.

(** * Aliases *)
Definition noalias (res : list qtok) (post : list qtok) : bool :=
  match post with
  | [] => true
  | QK KAs :: _ => false
  | w :: _ =>
      (negb (is_word w) || mem w res) &&
      match w with QE (TAtom true _) | QOther | QE TOther => false | _ => true end
  end.

Lemma parse_alias_none res post : noalias res post = true -> parse_alias res post = Ok (None, post).
Proof.
  unfold parse_alias, noalias. destruct post as [|w r]; [reflexivity|].
  destruct w as [t|k| |].
  - intro H. apply andb_true_iff in H. destruct H as [H1 H2]. cbn [orb].
    destruct (is_word (QE t)) eqn:W.
    + cbn [negb orb] in H1. rewrite H1. cbn [negb andb].
      destruct t; try discriminate H2; try reflexivity. destruct s; [discriminate H2|reflexivity].
    + cbn [andb]. destruct t; try discriminate H2; try reflexivity. destruct s; [discriminate H2|reflexivity].
  - destruct k; try discriminate.
    all: intro H; apply andb_true_iff in H; destruct H as [H1 _]; cbn [is_word negb orb] in H1 |- *;
      rewrite H1; reflexivity.
  - reflexivity.
  - discriminate.
Qed.

Lemma parse_alias_some res w post : is_word w = true -> parse_alias res (QK KAs :: w :: post) = Ok (Some w, post).
Proof. intro H. unfold parse_alias. rewrite H. reflexivity. Qed.

Lemma parse_alias_rt res a post :
  optb is_word a = true -> noalias res post = true ->
  parse_alias res (alias_toks a ++ post) = Ok (a, post).
Proof.
  destruct a as [w|]; cbn [optb alias_toks app]; intros Hw Hn.
  - apply parse_alias_some. exact Hw.
  - apply parse_alias_none. exact Hn.
Qed.

Definition not_lparen (post : list qtok) : bool :=
  match post with QE TLParen :: _ => false | _ => true end.

Lemma parse_talias_rt res a post :
  optb is_word a = true -> noalias res post = true -> not_lparen post = true ->
  parse_talias res (alias_toks a ++ post) = Ok (a, post).
Proof.
  intros Hw Hn Hl. unfold parse_talias. rewrite parse_alias_rt by assumption. cbn [bind].
  destruct a; [|reflexivity]. destruct post as [|[[]| | |] r]; try reflexivity. discriminate Hl.
Qed.

Lemma noalias_comma res post : is_comma post = true -> noalias res post = true.
Proof. head_cases post; cbn [is_comma]; intro H; try discriminate. reflexivity. Qed.
Lemma not_lparen_hrank post : (1 <= hrank post)%nat -> not_lparen post = true.
Proof. head_cases post; cbn [hrank]; intro H; try lia; reflexivity. Qed.
Lemma not_lparen_comma post : is_comma post = true -> not_lparen post = true.
Proof. head_cases post; cbn [is_comma]; intro H; try discriminate. reflexivity. Qed.

Section Followers.
  Variable d : qdialect.
  Hypothesis Hd : dialect_ok d = true.

  Lemma d_parts :
    lvl (base d) K_UNKNOWN = 0 /\ lvl (base d) K_AND <= lvl (base d) C_Between /\
    forallb (fun w => mem w (res_col d)) (QE (TKw KFrom) :: clause_words) = true /\
    forallb (fun w => mem w (res_tab d)) (clause_words ++ join_words) = true /\ forallb kw_only (res_col d) = true.
  Proof.
    pose proof Hd as H. unfold dialect_ok in H. apply andb_true_iff in H. destruct H as [H _].
    apply andb_true_iff in H. destruct H as [H H5]. apply andb_true_iff in H. destruct H as [H H4].
    apply andb_true_iff in H. destruct H as [H H3]. apply andb_true_iff in H. destruct H as [H1 H2].
    apply N.eqb_eq in H1. apply N.leb_le in H2. tauto.
  Qed.
  Lemma d_U0 : lvl (base d) K_UNKNOWN = 0.  Proof. apply d_parts. Qed.
  Lemma d_Hand : lvl (base d) K_AND <= lvl (base d) C_Between.  Proof. apply d_parts. Qed.
  Lemma d_col w : In w (QE (TKw KFrom) :: clause_words) -> mem w (res_col d) = true.
  Proof. destruct d_parts as (_ & _ & H & _). rewrite forallb_forall in H. apply H. Qed.
  Lemma d_tab w : In w (clause_words ++ join_words) -> mem w (res_tab d) = true.
  Proof. destruct d_parts as (_ & _ & _ & H & _). rewrite forallb_forall in H. apply H. Qed.
  Lemma d_kw w : mem w (res_col d) = true -> kw_only w = true.
  Proof.
    destruct d_parts as (_ & _ & _ & _ & H). rewrite forallb_forall in H.
    unfold mem. rewrite existsb_exists. intros (x & Hin & He).
    assert (x = w); [|subst; auto].
    destruct w as [t| k| |], x as [t'|k'| |]; cbn [qtok_eqb] in He; try discriminate; try reflexivity.
    - apply tok_eqb_eq in He. congruence.
    - f_equal. symmetry. apply internal_qkw_dec_bl. exact He.
  Qed.

  Lemma d_exists : mem (QK KExists) (res_col d) = false.
  Proof. pose proof Hd as H. unfold dialect_ok in H. apply andb_true_iff in H. destruct H as [_ H]. apply negb_true_iff in H. exact H. Qed.

  Lemma noalias_col post : (1 <= hrank post)%nat -> noalias (res_col d) post = true.
  Proof.
    head_cases post; cbn [hrank]; intro H; try lia; try reflexivity; cbn [noalias is_word negb orb andb];
      rewrite d_col; try reflexivity; cbn; tauto.
  Qed.
  Lemma noalias_tab post : (2 <= hrank post)%nat -> noalias (res_tab d) post = true.
  Proof.
    head_cases post; cbn [hrank]; intro H; try lia; try reflexivity; cbn [noalias is_word negb orb andb];
      rewrite d_tab; try reflexivity; cbn; tauto.
  Qed.
  Lemma noalias_jhead post : jhead post = true -> noalias (res_tab d) post = true.
  Proof.
    qhead post; cbn [jhead jstart]; intro H; try discriminate H; cbn [noalias is_word negb orb andb];
      rewrite d_tab; try reflexivity; cbn; tauto.
  Qed.
End Followers.

(** * Comma-separated lists *)
Lemma sepc_cons (x : list qtok) (y : list qtok) (l : list (list qtok)) :
  sepc (x :: y :: l) = x ++ QE TComma :: sepc (y :: l).
Proof. reflexivity. Qed.

Lemma sepc_length_ge (l : list (list qtok)) : (length l <= S (length (sepc l)))%nat.
Proof.
  induction l as [|x [|y l] IH]; cbn [length]; try lia.
  rewrite sepc_cons, app_length. cbn [length] in *. lia.
Qed.

Section CommaRT.
  Context {A : Type}.
  Variable elem : list qtok -> res (A * list qtok).
  Variable trail : option (list qtok).
  Variable toks : A -> list qtok.

  (** what follows an element: the rest of the list, then [post] *)
  Definition follow (suf : list A) (post : list qtok) : list qtok :=
    match suf with [] => post | _ => QE TComma :: sepc (map toks suf) ++ post end.

  Lemma sepc_follow x suf post : sepc (map toks (x :: suf)) ++ post = toks x ++ follow suf post.
  Proof.
    destruct suf as [|y suf]; [reflexivity|]. cbn [map]. rewrite sepc_cons. unfold follow.
    rewrite <- app_assoc. reflexivity.
  Qed.

  Definition notrail (ts : list qtok) : Prop :=
    match trail with Some reserved => comma_end reserved ts = false | None => True end.

  Fixpoint elems_ok (l : list A) (post : list qtok) : Prop :=
    match l with
    | [] => True
    | x :: suf =>
        elem (toks x ++ follow suf post) = Ok (x, follow suf post) /\
        (suf <> [] -> notrail (sepc (map toks suf) ++ post)) /\
        elems_ok suf post
    end.

  Lemma comma_list_rt l : forall post g,
    l <> [] -> elems_ok l post -> is_comma post = false -> (length l <= g)%nat ->
    comma_list elem trail g (sepc (map toks l) ++ post) = Ok (l, post).
  Proof.
    induction l as [|x suf IH]; intros post g Hne Hok Hc Hg; [congruence|].
    destruct g as [|g]; [cbn [length] in Hg; lia|].
    rewrite sepc_follow. cbn [comma_list]. destruct Hok as (He & Ht & Hrest). rewrite He. cbn [bind].
    destruct suf as [|y suf'].
    - cbn [follow]. destruct post as [|[[]| | |] r]; try reflexivity. discriminate Hc.
    - cbn [follow]. specialize (Ht ltac:(discriminate)). unfold notrail in Ht.
      assert (Hb : match trail with Some reserved => comma_end reserved (sepc (map toks (y :: suf')) ++ post) | None => false end = false).
      { destruct trail; [exact Ht|reflexivity]. }
      rewrite Hb. rewrite IH; [reflexivity|discriminate|exact Hrest|exact Hc|cbn [length] in *; lia].
  Qed.
End CommaRT.

Lemma fuel_commas {A} (toks : A -> list qtok) (l : list A) post :
  (length l <= S (length (sepc (map toks l) ++ post)))%nat.
Proof. pose proof (sepc_length_ge (map toks l)). rewrite map_length in H. rewrite app_length. lia. Qed.

(** * Heads of printed expressions *)
Lemma starts_facts t : starts t = true ->
  t <> TKw KAll /\ t <> TKw KDistinct /\ t <> TKw KFrom /\ t <> TRParen /\ t <> TComma /\ t <> TOp K_Mul /\
  t <> TRBracket /\ kw_only (QE t) = false.
Proof.
  intro H. repeat split; try (intro E; subst t; cbn in H; discriminate H).
  destruct t; cbn [starts] in H; try discriminate H; try reflexivity.
  destruct k; try discriminate H; reflexivity.
Qed.

Lemma yield_head e : exists t tl, yield e = t :: tl /\ starts t = true.
Proof. apply yield_starts. Qed.

(** a printed expression never starts with [( )] *)
Lemma yield_no_unit d e : shape d e ->
  exists t tl, yield e = t :: tl /\ starts t = true /\ (t = TLParen -> exists t2 tl2, tl = t2 :: tl2 /\ t2 <> TRParen).
Proof.
  induction e using expr_rect'; intro Hs.
  all: try (destruct Hs as [Hn Hs]).
  all: try (cbv zeta in Hs).
  all: try (cbn [yield]; eexists; eexists; split; [reflexivity|split; [reflexivity|intro; discriminate]]; fail).
  all: try (match goal with
       | IH : shape _ ?x -> _, Hs : shape _ ?x |- _ => destruct (IH Hs) as (t0 & tl0 & E & St & Hp)
       | IH : shape _ ?x -> _, Hs : shape _ ?x /\ _ |- _ => destruct (IH (proj1 Hs)) as (t0 & tl0 & E & St & Hp)
       end;
       cbn [yield]; rewrite E; cbn [app]; eexists; eexists; split; [reflexivity|split; [exact St|]];
       intro Et; destruct (Hp Et) as (t2 & tl2 & E2 & N2); rewrite E2; cbn [app]; eauto; fail).
  - (* nested *)
    destruct (yield_head e) as (t & tl & E & St). cbn [yield]. rewrite E. cbn [app].
    eexists; eexists; split; [reflexivity|split; [reflexivity|]]. intros _. eexists; eexists; split; [reflexivity|].
    apply starts_facts in St. tauto.
  - (* tuple *)
    cbn [node_ok] in Hn. destruct l as [|x [|y l']]; cbn [length] in Hn; try discriminate.
    destruct (yield_head x) as (t & tl & E & St). rewrite yield_tuple. cbn [commas]. rewrite E. cbn [app].
    eexists; eexists; split; [reflexivity|split; [reflexivity|]]. intros _. eexists; eexists; split; [reflexivity|].
    apply starts_facts in St. tauto.
  - (* prefix *)
    cbn [yield]. destruct ((k =? K_Plus) || (k =? K_Minus) || (k =? K_Tilde)) eqn:K;
      eexists; eexists; (split; [reflexivity|split; [cbn [starts]; auto|intro; discriminate]]).
Qed.

(** * Unfolding lemmas *)
Lemma btoks_select dist items from wh gb hv :
  btoks (BSelect dist items from wh gb hv) =
  QK KSelect :: dist_toks dist ++ sepc (map item_toks items) ++ from_toks (map twj_toks from) ++
  clause_toks (QK KWhere) (otoks wh) ++ group_toks (map xtoks gb) ++ clause_toks (QK KHaving) (otoks hv).
Proof. reflexivity. Qed.
Lemma btoks_nested q : btoks (BNested q) = QE TLParen :: qtoks q ++ [QE TRParen].
Proof. reflexivity. Qed.
Lemma btoks_setop o q l r : btoks (BSetOp o q l r) = btoks l ++ setop_kw o :: quant_toks q ++ btoks r.
Proof. reflexivity. Qed.
Lemma qtoks_query w b ob lim off :
  qtoks (Query w b ob lim off) =
  wtoks w ++ btoks b ++ order_toks (map oelem_toks ob) ++ clause_toks (QK KLimit) (otoks lim) ++
  clause_toks (QK KOffset) (otoks off).
Proof. reflexivity. Qed.
Lemma xtoks_x e subs : xtoks (X e subs) = unfoldl (map qtoks subs) (ptoks e).
Proof. reflexivity. Qed.

Lemma bwf_select d dist items from wh gb hv :
  bwf d (BSelect dist items from wh gb hv) =
  match items with [] => false | _ => true end && forallb (item_wf d) items &&
  forallb (twj_wf d) from && later_names_ok d from &&
  oxwf d wh && forallb (xwf d) gb && oxwf d hv.
Proof. reflexivity. Qed.
Lemma bwf_nested d q : bwf d (BNested q) = qwf d q.
Proof. reflexivity. Qed.
Lemma bwf_values d rows :
  bwf d (BValues rows) = match rows with [] => false | _ => true end && forallb (vrow_wf d) rows.
Proof. reflexivity. Qed.
Lemma vrow_wf_row d l :
  vrow_wf d (VRow l) = (match l with [] => values_empty d | _ => true end) && forallb (xwf d) l.
Proof. reflexivity. Qed.
Lemma qwf_query d w b ob lim off :
  qwf d (Query w b ob lim off) = wwf d w && bwf d b && tail_wf d ob lim off.
Proof. reflexivity. Qed.
Lemma xwf_x d e subs :
  xwf d (X e subs) = ewf (base d) e && sq_ok e (length subs) && lead_ok (exists_fn d) (yield e) subs &&
                     forallb (qwf d) subs.
Proof. reflexivity. Qed.

Lemma with_wf_with d rc ctes : with_wf d (With rc ctes) = with_names_ok d rc ctes && forallb (cte_wf d) ctes.
Proof. reflexivity. Qed.
Lemma cte_wf_cte d n cols q : cte_wf d (Cte n cols q) = is_word n && ccols_wf d cols && qwf d q.
Proof. reflexivity. Qed.
Lemma tref_wf_table d n a : tref_wf d (TTable n a) = name_ok d n && optb is_word a.
Proof. reflexivity. Qed.
Lemma tref_wf_derived d q a : tref_wf d (TDerived q a) = qwf d q && optb is_word a.
Proof. reflexivity. Qed.
Lemma tref_wf_nested d x a : tref_wf d (TNested x a) = twj_wf d x && nested_ok x && optb is_word a.
Proof. reflexivity. Qed.
Lemma twj_wf_twj d r js : twj_wf d (Twj r js) = tref_wf d r && forallb (join_wf d) js.
Proof. reflexivity. Qed.
Lemma join_wf_join d o r : join_wf d (Join o r) = jop_wf d o && tref_wf d r.
Proof. reflexivity. Qed.

Definition oxlevel (x : option xexpr) : nat := match x with Some y => xlevel y | None => O end.

Lemma blevel_select dist items from wh gb hv :
  blevel (BSelect dist items from wh gb hv) =
  S (Nat.max (maxl (map ilevel items)) (Nat.max (maxl (map twjlevel from))
     (Nat.max (oxlevel wh) (Nat.max (maxl (map xlevel gb)) (oxlevel hv))))).
Proof. reflexivity. Qed.
Lemma blevel_nested q : blevel (BNested q) = S (qlevel q).
Proof. reflexivity. Qed.
Lemma qlevel_query w b ob lim off :
  qlevel (Query w b ob lim off) =
  Nat.max (match w with Some x => S (wlevel x) | None => O end)
    (Nat.max (blevel b) (S (Nat.max (maxl (map oelevel ob)) (Nat.max (oxlevel lim) (oxlevel off))))).
Proof. reflexivity. Qed.

Lemma maxl_le l n : (maxl l <= n)%nat -> Forall (fun x => (x <= n)%nat) l.
Proof. induction l as [|x l IH]; cbn [maxl fold_right]; intro H; constructor; [lia|apply IH; unfold maxl; lia]. Qed.

Lemma maxl_map_le {A} (g : A -> nat) (l : list A) n : (maxl (map g l) <= n)%nat -> Forall (fun x => (g x <= n)%nat) l.
Proof.
  intro H. apply maxl_le in H. rewrite Forall_forall in *. intros x Hin. apply H. apply in_map. exact Hin.
Qed.

(** the head of a printed body is SELECT or an opening parenthesis *)
Definition bstart (post : list qtok) : bool :=
  match post with QK KSelect :: _ | QE TLParen :: _ | QK KValues :: _ | QK KTable :: _ => true | _ => false end.

Lemma btoks_head b : exists h r, btoks b = h :: r /\ (h = QK KSelect \/ h = QE TLParen \/ h = QK KValues \/ h = QK KTable).
Proof.
  induction b as [dist items from wh gb hv|o q l IHl r IHr|q|rows|n].
  - rewrite btoks_select. eexists; eexists; split; [reflexivity|auto].
  - destruct IHl as (h & r' & E & H). rewrite btoks_setop, E. cbn [app]. eexists; eexists; split; [reflexivity|exact H].
  - rewrite btoks_nested. eexists; eexists; split; [reflexivity|auto].
  - cbn [btoks]. eexists; eexists; split; [reflexivity|auto].
  - cbn [btoks]. eexists; eexists; split; [reflexivity|auto].
Qed.
Lemma btoks_bstart b X : bstart (btoks b ++ X) = true.
Proof. destruct (btoks_head b) as (h & r & E & [H|[H|[H|H]]]); rewrite E; subst h; reflexivity. Qed.

Definition headpow (post : list qtok) : N :=
  match set_op_of post with Some (o, _) => sp_pinned o | None => 0 end.

Lemma set_op_of_kw o r : set_op_of (setop_kw o :: r) = Some (o, r).
Proof. destruct o; reflexivity. Qed.

Lemma blspine_gtb_0 b : blspine_gtb 0 b = true.
Proof. induction b; cbn [blspine_gtb]; auto. rewrite IHb1. destruct o; reflexivity. Qed.
Lemma brspine_geb_0 b : brspine_geb 0 b = true.
Proof. induction b; cbn [brspine_geb]; auto. rewrite IHb2. destruct o; reflexivity. Qed.

(** [parse_query] did not find a query followed by a closing parenthesis *)
Definition notq {A} (x : res (A * list qtok)) : Prop :=
  match x with
  | Err => True
  | Ok (_, QE TRParen :: _) => False
  | Ok _ => True
  | _ => False
  end.

Definition bare_derived (t : tref) : bool :=
  match t with TDerived _ None => true | _ => false end.

(** what the tail of [parse_query] does not look at *)
Definition inert (post : list qtok) : bool :=
  match post with QK KAs :: _ => true | _ => jstart post end.

Lemma jstart_joins js post : js <> [] -> jstart (concat (map join_toks js) ++ post) = true.
Proof.
  destruct js as [|[o r] js']; [congruence|]. intros _. cbn [map concat join_toks]. rewrite <- !app_assoc.
  destruct o as [|k c]; [reflexivity|]. destruct c; destruct k; reflexivity.
Qed.

Lemma join_toks_length j : (1 <= length (join_toks j))%nat.
Proof. destruct j as [o r]. cbn [join_toks]. destruct o as [|k c]; [cbn; lia|]. destruct c; destruct k; cbn; lia. Qed.
Lemma joins_length js post : (length js <= length (concat (map join_toks js) ++ post))%nat.
Proof.
  induction js as [|j js IH]; [cbn; lia|]. cbn [map concat length]. rewrite <- app_assoc, app_length.
  pose proof (join_toks_length j). lia.
Qed.

Lemma comma_end_word res w r : is_word w = true -> comma_end res (w :: r) = mem w res.
Proof. destruct w as [[]| | |]; cbn [is_word]; intro H; try discriminate H; reflexivity. Qed.

Definition sqhead (r : list tok) : bool :=
  match r with TAtom false n :: _ => in_sq n | _ => false end.
Definition exhead (r : list tok) : bool :=
  match r with TAtom false n :: _ => in_ex n | _ => false end.

Lemma okts_lparen_plain k i r : sqhead r = false -> okts k i (TLParen :: r) = okts (S k) i r.
Proof.
  destruct r as [|t r']; [reflexivity|]. destruct t; try reflexivity. destruct s; [reflexivity|].
  cbn [sqhead]. intro H. cbn [okts]. rewrite H. reflexivity.
Qed.


(** * Expressions without subquery atoms: [sq_ok] and [lead_ok] hold by themselves *)
Definition nobig (ts : list tok) : bool := forallb (fun t => negb (is_big t)) ts.

(** parentheses balance; outside them no comma and no FROM except in DISTINCT FROM *)
Fixpoint okd (k : nat) (ts : list tok) : option nat :=
  match ts with
  | [] => Some k
  | TLParen :: r => okd (S k) r
  | TRParen :: r => match k with O => None | S k' => okd k' r end
  | TComma :: r => match k with O => None | S _ => okd k r end
  | TKw KDistinct :: r => match r with TKw KFrom :: r1 => okd k r1 | _ => None end
  | TKw KFrom :: r => match k with O => None | S _ => okd k r end
  | _ :: r => okd k r
  end.

Lemma small_not_sq n : (n <? SQ_BASE) = true -> in_sq n = false /\ in_ex n = false.
Proof.
  unfold in_sq, in_ex, SQ_BASE, EX_BASE. intro H. apply N.ltb_lt in H. split; apply andb_false_iff; left; apply N.leb_gt; lia.
Qed.

Lemma okts_okd : forall n ts, (length ts <= n)%nat -> nobig ts = true ->
  forall k i, okts k i ts = option_map (fun k' => (k', i)) (okd k ts).
Proof.
  induction n as [|n IH]; intros ts Hn Hb k i.
  - destruct ts; [reflexivity|cbn [length] in Hn; lia].
  - destruct ts as [|t r]; [reflexivity|]. cbn [length] in Hn. cbn [nobig forallb] in Hb.
    apply andb_true_iff in Hb. destruct Hb as [Ht Hb]. fold (nobig r) in Hb.
    assert (IH' : forall r', (length r' <= length r)%nat -> nobig r' = true ->
              forall k' i', okts k' i' r' = option_map (fun k'' => (k'', i')) (okd k' r'))
      by (intros r' Hr' Hb' k' i'; apply IH; [lia|exact Hb']).
    (* the look-ahead of [okts] finds no subquery atom *)
    assert (Hla : forall r1 n0, r = TAtom false n0 :: r1 -> (n0 <? SQ_BASE) = true).
    { intros r1 n0 ->. cbn [nobig forallb is_big] in Hb. apply andb_true_iff in Hb. destruct Hb as [Hb _].
      apply negb_true_iff in Hb. apply negb_false_iff in Hb. exact Hb. }
    assert (Hla2 : forall t1 r1 n0, r = t1 :: TAtom false n0 :: r1 -> (n0 <? SQ_BASE) = true).
    { intros t1 r1 n0 ->. cbn [nobig forallb is_big] in Hb. apply andb_true_iff in Hb. destruct Hb as [_ Hb].
      apply andb_true_iff in Hb. destruct Hb as [Hb _]. apply negb_true_iff in Hb. apply negb_false_iff in Hb. exact Hb. }
    assert (Hla3 : forall t1 t2 r1 n0, r = t1 :: t2 :: TAtom false n0 :: r1 -> (n0 <? SQ_BASE) = true).
    { intros t1 t2 r1 n0 ->. cbn [nobig forallb is_big] in Hb. apply andb_true_iff in Hb. destruct Hb as [_ Hb].
      apply andb_true_iff in Hb. destruct Hb as [_ Hb].
      apply andb_true_iff in Hb. destruct Hb as [Hb _]. apply negb_true_iff in Hb. apply negb_false_iff in Hb. exact Hb. }
    destruct t; try (cbn [okts okd]; apply IH'; [apply le_n|exact Hb]).
    + (* atom *) destruct s; [cbn [okts okd]; apply IH'; [apply le_n|exact Hb]|].
      cbn [is_big] in Ht. apply negb_true_iff in Ht. apply negb_false_iff in Ht.
      cbn [okts okd]. rewrite Ht. apply IH'; [apply le_n|exact Hb].
    + (* keyword *)
      destruct k0; cbn [okts okd is_not andb]; try (apply IH'; [apply le_n|exact Hb]).
      * (* NOT *) destruct r as [|[[] n0| | | | | | | | | | | | |] r1]; cbv beta iota; try (apply IH'; [apply le_n|exact Hb]).
        rewrite (proj2 (small_not_sq n0 (Hla _ _ eq_refl))). apply IH'; [apply le_n|exact Hb].
      * (* DISTINCT *) destruct r as [|[] r1]; try reflexivity. destruct k0; try reflexivity.
        apply IH'; [cbn [length]; lia|]. cbn [nobig forallb] in Hb. apply andb_true_iff in Hb. tauto.
      * (* FROM *) destruct k; [reflexivity|]. apply IH'; [apply le_n|exact Hb].
      * destruct r as [|[] [|[] [|[[] n0| | | | | | | | | | | | |] r1]]]; cbv beta iota; try (apply IH'; [apply le_n|exact Hb]).
        rewrite (proj1 (small_not_sq n0 (Hla3 _ _ _ _ eq_refl))). apply IH'; [apply le_n|exact Hb].
      * destruct r as [|[] [|[] [|[[] n0| | | | | | | | | | | | |] r1]]]; cbv beta iota; try (apply IH'; [apply le_n|exact Hb]).
        rewrite (proj1 (small_not_sq n0 (Hla3 _ _ _ _ eq_refl))). apply IH'; [apply le_n|exact Hb].
      * destruct r as [|[] [|[] [|[[] n0| | | | | | | | | | | | |] r1]]]; cbv beta iota; try (apply IH'; [apply le_n|exact Hb]).
        rewrite (proj1 (small_not_sq n0 (Hla3 _ _ _ _ eq_refl))). apply IH'; [apply le_n|exact Hb].
      * destruct r as [|[] [|[[] n0| | | | | | | | | | | | |] r1]]; cbv beta iota; try (apply IH'; [apply le_n|exact Hb]).
        rewrite (proj1 (small_not_sq n0 (Hla2 _ _ _ eq_refl))). apply IH'; [apply le_n|exact Hb].
    + (* ( *)
      cbn [okd]. rewrite okts_lparen_plain; [apply IH'; [apply le_n|exact Hb]|].
      destruct r as [|[[] n0| | | | | | | | | | | | |] r1]; try reflexivity. cbn [sqhead].
      exact (proj1 (small_not_sq n0 (Hla _ _ eq_refl))).
    + (* ) *) cbn [okts okd]. destruct k; [reflexivity|]. apply IH'; [apply le_n|exact Hb].
    + (* , *) cbn [okts okd]. destruct k; [reflexivity|]. apply IH'; [apply le_n|exact Hb].
Qed.

(** [dbal ts]: [okd] passes over [ts] at every depth; [dbal1]: inside parentheses *)
Definition dbal (ts : list tok) : Prop := forall k r, okd k (ts ++ r) = okd k r.
Definition dbal1 (ts : list tok) : Prop := forall k r, okd (S k) (ts ++ r) = okd (S k) r.

Lemma dbal_dbal1 a : dbal a -> dbal1 a.
Proof. intros H k r. apply H. Qed.
Lemma dbal_nil : dbal [].
Proof. intros k r. reflexivity. Qed.
Lemma dbal_app a b : dbal a -> dbal b -> dbal (a ++ b).
Proof. intros Ha Hb k r. rewrite <- app_assoc, Ha, Hb. reflexivity. Qed.
Lemma dbal1_app a b : dbal1 a -> dbal1 b -> dbal1 (a ++ b).
Proof. intros Ha Hb k r. rewrite <- app_assoc, Ha, Hb. reflexivity. Qed.
Definition dplain (t : tok) : bool :=
  match t with
  | TLParen | TRParen | TComma | TKw KDistinct | TKw KFrom => false
  | _ => true
  end.
Lemma dbal_cons t a : dplain t = true -> dbal a -> dbal (t :: a).
Proof.
  intros Ht Ha k r. cbn [app]. destruct t; try discriminate Ht; cbn [okd]; try apply Ha.
  destruct k0; try discriminate Ht; apply Ha.
Qed.
Lemma dbal_df a : dbal a -> dbal (TKw KDistinct :: TKw KFrom :: a).
Proof. intros Ha k r. cbn [app okd]. apply Ha. Qed.
Lemma dbal_paren a : dbal1 a -> dbal (TLParen :: a ++ [TRParen]).
Proof. intros Ha k r. cbn [app okd]. rewrite <- app_assoc, Ha. reflexivity. Qed.
Lemma dbal1_comma a : dbal1 a -> dbal1 (TComma :: a).
Proof. intros Ha k r. cbn [app okd]. apply Ha. Qed.

Lemma commas_dbal1 l : Forall (fun e => dbal (yield e)) l -> dbal1 (commas l).
Proof.
  induction 1 as [|x r Hx Hr IH]; [intros k r; reflexivity|].
  destruct r as [|y r']; [apply dbal_dbal1; exact Hx|].
  change (commas (x :: y :: r')) with (yield x ++ TComma :: commas (y :: r')).
  apply dbal1_app; [apply dbal_dbal1; exact Hx|apply dbal1_comma; exact IH].
Qed.

Ltac dbal :=
  repeat match goal with
  | |- dbal1 (yield _) => apply dbal_dbal1
  | |- dbal [] => apply dbal_nil
  | |- dbal (yield _) => assumption
  | |- dbal (TKw KDistinct :: TKw KFrom :: _) => apply dbal_df
  | |- dbal (TLParen :: _ ++ [TRParen]) => apply dbal_paren
  | |- dbal (_ :: _) => apply dbal_cons; [reflexivity|]
  | |- dbal (_ ++ _) => apply dbal_app
  end.

Lemma yield_dbal d e : shape d e -> dbal (yield e).
Proof.
  induction e using expr_rect'; intro Hs.
  all: try (destruct Hs as [Hn Hs]); try (cbv zeta in Hs).
  all: try (rewrite yield_tuple); try (rewrite yield_inlist); cbn [yield].
  all: try match goal with |- context [not_toks ?n] => destruct n end.
  all: try match goal with |- context [like_toks ?k] => destruct k end.
  all: try match goal with |- context [any_toks ?a] => destruct a end.
  all: try match goal with |- context [match ?esc with Some _ => _ | None => _ end] => destruct esc as [[? ?]|] end.
  all: try match goal with |- context [if ?c then TOp _ else TPre _] => destruct c end.
  all: cbn [not_toks like_toks any_toks app].
  all: repeat match goal with
       | IH : shape _ ?x -> _, Hs : shape _ ?x |- _ => specialize (IH Hs)
       | Hs : _ /\ _ |- _ => destruct Hs
       end.
  all: dbal.
  all: try match goal with |- dbal1 (commas _) => apply commas_dbal1 end.
  all: try match goal with
       | H : Forall _ ?l |- Forall _ ?l =>
           match goal with
           | Hl : _ |- _ => apply shape_all in Hl; rewrite Forall_forall in *; intros x Hin; apply H; [exact Hin|apply Hl; exact Hin]
           end
       end.
  - (* any / all *)
    cbn [node_ok] in Hn. apply andb_true_iff in Hn. destruct Hn as [_ Hq'].
    apply dbal_cons; [destruct q; try discriminate Hq'; reflexivity|]. dbal.
  - (* is *) cbn [node_ok] in Hn. apply dbal_cons; [destruct w; try discriminate Hn; reflexivity|apply dbal_nil].
  - cbn [node_ok] in Hn. apply dbal_cons; [destruct w; try discriminate Hn; reflexivity|apply dbal_nil].
Qed.

Lemma nobig_lead exfn ts : nobig ts = true -> lead_ok exfn ts [] = true.
Proof.
  induction ts as [|t r IH]; [reflexivity|]. cbn [nobig forallb]. intro H. apply andb_true_iff in H. destruct H as [Ht Hr].
  destruct t; try (cbn [lead_ok]; apply IH; exact Hr). destruct s; [cbn [lead_ok]; apply IH; exact Hr|].
  cbn [is_big] in Ht. apply negb_true_iff in Ht. apply negb_false_iff in Ht. cbn [lead_ok]. rewrite Ht. apply IH. exact Hr.
Qed.

(** an expression without subquery atoms is well formed as soon as the operator core accepts it *)
Theorem xwf_plain d e : nobig (yield e) = true -> xwf d (X e []) = ewf (base d) e.
Proof.
  intro Hb. rewrite xwf_x. cbn [length forallb]. rewrite (nobig_lead _ _ Hb), !andb_true_r.
  destruct (ewf (base d) e) eqn:E; [|reflexivity]. cbn [andb].
  destruct (ewf_parts _ _ E) as (Hs & _). unfold sq_ok.
  rewrite (okts_okd _ (yield e) (le_n _) Hb). pose proof (yield_dbal _ _ Hs O []) as Hd. rewrite app_nil_r in Hd.
  rewrite Hd. reflexivity.
Qed.

(** * The round trip, one nesting level at a time *)
Lemma lead_qstart b : lead b = true -> forall X, is_qstart (btoks b ++ X) = true.
Proof.
  induction b as [dist items from wh gb hv|o q l IHl r IHr|q|rows|n]; cbn [lead]; intros H X.
  - reflexivity.
  - rewrite btoks_setop, <- app_assoc. apply IHl. exact H.
  - discriminate H.
  - discriminate H.
  - discriminate H.
Qed.
Lemma qlead_qstart q X : qlead q = true -> is_qstart (qtoks q ++ X) = true.
Proof.
  destruct q as [w b ob lim off]. rewrite qtoks_query. cbn [qlead]. destruct w as [[rc ctes]|].
  - intros _. reflexivity.
  - cbn [wtoks app]. intro H. rewrite <- app_assoc. apply lead_qstart. exact H.
Qed.

Definition fpre (V : list (tok * list qtok)) (sl : list query) (F : folded) : folded :=
  {| fv := V ++ fv F; fsubs := sl ++ fsubs F; fstop := fstop F; ffuel := ffuel F |}.
Lemma fpre_nil F : fpre [] [] F = F.
Proof. destruct F; reflexivity. Qed.

Section RoundTrip.
  Variable d : qdialect.
  Hypothesis Hd : dialect_ok d = true.
  Notation bd := (base d).

  (** ** one level: the recursive calls are correct one level down *)
  Variable f : nat.
  Variable recq : list qtok -> res (query * list qtok).
  Variable recb : N -> list qtok -> res (setexpr * list qtok).
  Variable rect : list qtok -> res (twj * list qtok).
  Hypothesis Hq : forall q post,
    qwf d q = true -> (qlevel q <= f)%nat -> ender post = true -> qfrag d (qtoks q ++ post) = true ->
    recq (qtoks q ++ post) = Ok (q, post).

  Notation foldq := (fold recq (exists_fn d)).
  Definition Qok (q : query) : Prop := qwf d q = true /\ (qlevel q <= f)%nat.

  (** ** the expression parser's view of printed tokens *)
  (** the view of the printed [ts] (subqueries [sl]) followed by [post], from depth [k] and index [i]:
      the tokens [ts] themselves, then the view of [post] *)
  Definition folds (k i : nat) (sl : list query) (ts : list tok) (post : list qtok) (k' : nat) : Prop :=
    exists V m, (m <= length (unfoldl (map qtoks sl) ts))%nat /\ map fst V = ts /\
      (ts <> [] -> exists V0 t, V = V0 ++ [(t, post)]) /\
      forall g0, foldq (m + g0) k i (unfoldl (map qtoks sl) ts ++ post)
                 = fpre V sl (foldq g0 k' (i + length sl) post).

  Lemma folds_nil k i post : folds k i [] [] post k.
  Proof.
    exists [], O. repeat split; cbn [unfoldl map length app]; try lia; try congruence.
    intro g0. rewrite fpre_nil, PeanoNat.Nat.add_0_r. reflexivity.
  Qed.

  Lemma folds_step t k i k2 sl r post k' :
    (forall g rest, rest = unfoldl (map qtoks sl) r ++ post ->
                    foldq (S g) k i (QE t :: rest) = fcons t rest (foldq g k2 i rest)) ->
    unfoldl (map qtoks sl) (t :: r) = QE t :: unfoldl (map qtoks sl) r ->
    folds k2 i sl r post k' -> folds k i sl (t :: r) post k'.
  Proof.
    intros Hstep Hu (V & m & Hm & Hmap & Hlast & Hfold).
    exists ((t, unfoldl (map qtoks sl) r ++ post) :: V), (S m). rewrite Hu. repeat split.
    - cbn [length]. lia.
    - cbn [map fst]. rewrite Hmap. reflexivity.
    - intros _. destruct r as [|t2 r2].
      + destruct V; [|discriminate Hmap]. exists [], t. reflexivity.
      + destruct (Hlast ltac:(discriminate)) as (V0 & t0 & E). exists ((t, unfoldl (map qtoks sl) (t2 :: r2) ++ post) :: V0), t0.
        rewrite E. reflexivity.
    - intro g0. cbn [plus app]. rewrite (Hstep _ _ eq_refl), Hfold. reflexivity.
  Qed.

  (** *** what the look-ahead of [fold] finds in printed tokens *)
  Lemma okts_sq_atom k i n r : in_sq n = true -> okts k i (TAtom false n :: r) = None.
  Proof.
    unfold in_sq, SQ_BASE, EX_BASE. intro H. apply andb_true_iff in H. destruct H as [H1 H2].
    apply N.leb_le in H1. apply N.ltb_lt in H2. cbn [okts].
    assert (E1 : n <? SQ_BASE = false) by (unfold SQ_BASE; apply N.ltb_ge; lia). rewrite E1.
    assert (E2 : (n =? EX_BASE + N.of_nat i) = false) by (unfold EX_BASE; apply N.eqb_neq; lia).
    assert (E3 : (n =? NEX_BASE + N.of_nat i) = false) by (unfold NEX_BASE; apply N.eqb_neq; lia).
    rewrite E2, E3. reflexivity.
  Qed.

  (** the atom of an EXISTS: its printed tokens *)
  Lemma okts_big_atom k i n r x : (n <? SQ_BASE) = false -> okts k i (TAtom false n :: r) = Some x ->
    (n <? EX_BASE) = false /\ small i = true /\
    (n = EX_BASE + N.of_nat i \/ n = NEX_BASE + N.of_nat i) /\ okts k (S i) r = Some x.
  Proof.
    intros E H. cbn [okts] in H. rewrite E in H.
    destruct (((n =? EX_BASE + N.of_nat i) || (n =? NEX_BASE + N.of_nat i)) && small i) eqn:E2; [|discriminate H].
    apply andb_true_iff in E2. destruct E2 as [E2 E3]. apply orb_true_iff in E2.
    repeat split; auto.
    - apply N.ltb_ge. unfold EX_BASE, NEX_BASE in *. destruct E2 as [E2|E2]; apply N.eqb_eq in E2; lia.
    - destruct E2 as [E2|E2]; apply N.eqb_eq in E2; auto.
  Qed.

  Lemma wrap_ex i s : small i = true -> wrap (EX_BASE + N.of_nat i) s = QK KExists :: QE TLParen :: s ++ [QE TRParen].
  Proof.
    unfold small, wrap, EX_BASE, NEX_BASE. intro H. apply N.ltb_lt in H.
    assert (E1 : (2000000 + N.of_nat i <? 2000000) = false) by (apply N.ltb_ge; lia).
    assert (E2 : (2000000 + N.of_nat i <? 3000000) = true) by (apply N.ltb_lt; lia).
    rewrite E1, E2. reflexivity.
  Qed.
  Lemma wrap_nex i s : wrap (NEX_BASE + N.of_nat i) s = QE (TKw KNot) :: QK KExists :: QE TLParen :: s ++ [QE TRParen].
  Proof.
    unfold wrap, EX_BASE, NEX_BASE.
    assert (E1 : (3000000 + N.of_nat i <? 2000000) = false) by (apply N.ltb_ge; lia).
    assert (E2 : (3000000 + N.of_nat i <? 3000000) = false) by (apply N.ltb_ge; lia).
    rewrite E1, E2. reflexivity.
  Qed.
  Lemma wrap_sq n s : in_sq n = true -> wrap n s = s.
  Proof. unfold in_sq, wrap. intro H. apply andb_true_iff in H. destruct H as [_ H]. rewrite H. reflexivity. Qed.

  (** the first printed token of [r] (then [post]) *)
  Inductive uhead_spec (sl : list query) (r : list tok) (post : list qtok) : Prop :=
  | UHpost : r = [] -> uhead_spec sl r post
  | UHtok t r' : r = t :: r' -> is_big t = false ->
      unfoldl (map qtoks sl) r ++ post = QE t :: (unfoldl (map qtoks sl) r' ++ post) -> uhead_spec sl r post
  | UHex Z : unfoldl (map qtoks sl) r ++ post = QK KExists :: Z -> uhead_spec sl r post
  | UHnex Z : unfoldl (map qtoks sl) r ++ post = QE (TKw KNot) :: QK KExists :: Z -> exhead r = false ->
      uhead_spec sl r post
  | UHatom n Z : unfoldl (map qtoks sl) r ++ post = QE (TAtom false n) :: Z -> uhead_spec sl r post.

  Lemma uhead r : forall k i x sl post, okts k i r = Some x -> uhead_spec sl r post.
  Proof.
    intros k i x sl post H. destruct r as [|t r']; [apply UHpost; reflexivity|].
    destruct t; try (eapply UHtok; [reflexivity|reflexivity|reflexivity]).
    destruct s; [eapply UHtok; [reflexivity|reflexivity|reflexivity]|].
    destruct (n <? SQ_BASE) eqn:E.
    - eapply UHtok; [reflexivity|cbn [is_big]; rewrite E; reflexivity|cbn [unfoldl]; rewrite E; reflexivity].
    - destruct (okts_big_atom _ _ _ _ _ E H) as (E1 & Hs & Hn & _).
      destruct sl as [|q sl']; [eapply UHatom; cbn [unfoldl map]; rewrite E; reflexivity|].
      destruct Hn as [Hn|Hn]; subst n.
      + eapply UHex. cbn [unfoldl map]. rewrite E, wrap_ex by exact Hs. reflexivity.
      + eapply UHnex; [cbn [unfoldl map]; rewrite E, wrap_nex; reflexivity|]. cbn [exhead]. unfold in_ex, EX_BASE, NEX_BASE.
        apply andb_false_iff. right. apply N.ltb_ge. lia.
  Qed.

  Lemma look_qstart r k i x sl post : okts k i r = Some x -> estop post = true ->
    is_qstart (unfoldl (map qtoks sl) r ++ post) = false.
  Proof.
    intros H Hs. destruct (uhead r k i x sl post H) as [E|t r' E Hb Eu|Z Eu|Z Eu _|n Z Eu]; try (rewrite Eu; reflexivity).
    subst r. cbn [unfoldl app]. destruct post as [|[?|[]| |] ?]; try reflexivity; discriminate Hs.
  Qed.

  Definition nex (rest : list qtok) : bool :=
    match rest with QK KExists :: QE TLParen :: _ => true | _ => false end.

  Lemma look_nex r k i x sl post : okts k i r = Some x -> exhead r = false -> estop post = true ->
    nex (unfoldl (map qtoks sl) r ++ post) = false.
  Proof.
    intros H Hx Hs. destruct r as [|t r']; [cbn [unfoldl app]; destruct post as [|[?|[]| |] ?]; try reflexivity; discriminate Hs|].
    destruct t; try reflexivity. destruct s; [reflexivity|]. cbn [exhead] in Hx.
    destruct (n <? SQ_BASE) eqn:E; [cbn [unfoldl]; rewrite E; reflexivity|].
    destruct (okts_big_atom _ _ _ _ _ E H) as (E1 & Hsm & Hn & _).
    cbn [unfoldl]. rewrite E. destruct sl as [|q sl']; [reflexivity|]. cbn [map].
    destruct Hn as [Hn|Hn]; subst n.
    - exfalso. unfold in_ex, EX_BASE, NEX_BASE, small in *. apply N.ltb_lt in Hsm.
      apply andb_false_iff in Hx. destruct Hx as [Hx|Hx]; [apply N.leb_gt in Hx|apply N.ltb_ge in Hx]; lia.
    - rewrite wrap_nex. reflexivity.
  Qed.

  Lemma look_lparen r k i x sl post Z : okts k i r = Some x -> estop post = true ->
    unfoldl (map qtoks sl) r ++ post = QE TLParen :: Z ->
    exists r', r = TLParen :: r' /\ Z = unfoldl (map qtoks sl) r' ++ post.
  Proof.
    intros H Hs Eq. destruct (uhead r k i x sl post H) as [E|t r' E Hb Eu|Z' Eu|Z' Eu _|n Z' Eu];
      try (rewrite Eu in Eq; discriminate Eq).
    - subst r. cbn [unfoldl app] in Eq. subst post. discriminate Hs.
    - rewrite Eu in Eq. injection Eq as Et EZ. subst t r. exists r'. split; [reflexivity|]. symmetry. exact EZ.
  Qed.

  (** *** one step of [fold] *)
  Definition plain (t : tok) : bool :=
    match t with
    | TAtom true _ | TType _ | TOp _ | TPre _ | TDoubleColon | TExcl | TLBracket | TRBracket | TColon | TOther => true
    | _ => false
    end.
  Lemma fold_plain t g k i rest : plain t = true ->
    foldq (S g) k i (QE t :: rest) = fcons t rest (foldq g k i rest).
  Proof. destruct t; try discriminate; try reflexivity. destruct s; [reflexivity|discriminate]. Qed.

  Lemma fold_small n g k i rest : (n <? SQ_BASE) = true ->
    foldq (S g) k i (QE (TAtom false n) :: rest) = fcons (TAtom false n) rest (foldq g k i rest).
  Proof. intro H. cbn [fold]. rewrite H. reflexivity. Qed.

  Lemma fold_lparen g k i rest : is_qstart rest = false ->
    foldq (S g) k i (QE TLParen :: rest) = fcons TLParen rest (foldq g (S k) i rest).
  Proof. intro H. cbn [fold]. rewrite H. reflexivity. Qed.

  Definition kw_plain (w : kwd) : bool :=
    match w with KDistinct | KFrom | KNot | KUnnest | KAny | KAll | KSome => false | _ => true end.
  Lemma fold_kw w g k i rest : kw_plain w = true ->
    foldq (S g) k i (QE (TKw w) :: rest) = fcons (TKw w) rest (foldq g k i rest).
  Proof. destruct w; try discriminate; reflexivity. Qed.

  Lemma fold_not g k i rest : nex rest = false ->
    foldq (S g) k i (QE (TKw KNot) :: rest) = fcons (TKw KNot) rest (foldq g k i rest).
  Proof.
    intro H. destruct rest as [|[t|[]| |] rest']; try reflexivity.
    destruct rest' as [|[[]| | |] ?]; try reflexivity. discriminate H.
  Qed.

  Lemma fold_unsafe w g k i rest : sub_unsafe w rest = false -> kw_plain w = false ->
    w <> KDistinct -> w <> KFrom -> w <> KNot ->
    foldq (S g) k i (QE (TKw w) :: rest) = fcons (TKw w) rest (foldq g k i rest).
  Proof. intros H _ H1 H2 H3. destruct w; try congruence; cbn [fold]; rewrite H; reflexivity. Qed.

  (** one turn of [fold] reads the printed tokens [U1] of the tokens [ts1] (subqueries [sl1]) *)
  Lemma folds_comp (V1 : list qtok -> list (tok * list qtok)) sl1 ts1 U1 k i k2 sl r post k' :
    (forall g rest, rest = unfoldl (map qtoks sl) r ++ post ->
       foldq (S g) k i (U1 ++ rest) = fpre (V1 rest) sl1 (foldq g k2 (i + length sl1) rest)) ->
    unfoldl (map qtoks (sl1 ++ sl)) (ts1 ++ r) = U1 ++ unfoldl (map qtoks sl) r ->
    (forall rest, map fst (V1 rest) = ts1) ->
    (forall rest, exists V0 t, V1 rest = V0 ++ [(t, rest)]) ->
    (1 <= length U1)%nat ->
    folds k2 (i + length sl1) sl r post k' -> folds k i (sl1 ++ sl) (ts1 ++ r) post k'.
  Proof.
    intros Hstep Hu Hmap1 Hlast1 Hlen (V & m & Hm & Hmap & Hlast & Hfold).
    set (rest := unfoldl (map qtoks sl) r ++ post).
    exists (V1 rest ++ V), (S m). rewrite Hu. repeat split.
    - rewrite app_length. lia.
    - rewrite map_app, Hmap1, Hmap. reflexivity.
    - intros _. destruct r as [|t2 r2].
      + destruct V; [|discriminate Hmap]. rewrite app_nil_r. unfold rest. cbn [unfoldl app]. apply Hlast1.
      + destruct (Hlast ltac:(discriminate)) as (V0 & t0 & E). exists (V1 rest ++ V0), t0.
        rewrite E, app_assoc. reflexivity.
    - intro g0. cbn [plus]. rewrite <- app_assoc. fold rest. rewrite (Hstep _ _ eq_refl), Hfold.
      unfold fpre. cbn [fv fsubs fstop ffuel]. rewrite !app_assoc, app_length, PeanoNat.Nat.add_assoc. reflexivity.
  Qed.

  Lemma okts_mono : forall n ts, (length ts <= n)%nat -> forall k i x, okts k i ts = Some x -> (i <= snd x)%nat.
  Proof.
    induction n as [|n IH]; intros ts Hn k i x H.
    - destruct ts; [|cbn [length] in Hn; lia]. cbn [okts] in H. injection H as <-. cbn [snd]. lia.
    - destruct ts as [|t r]; [cbn [okts] in H; injection H as <-; cbn [snd]; lia|]. cbn [length] in Hn.
      assert (IH' : forall r' k' i', (length r' <= length r)%nat -> okts k' i' r' = Some x -> (i' <= snd x)%nat)
        by (intros r' k' i' Hr' H'; eapply (IH r'); [lia|exact H']).
      destruct t; try (cbn [okts] in H; eapply IH'; [|exact H]; lia).
      + (* atom *) destruct s; [cbn [okts] in H; eapply IH'; [|exact H]; lia|].
        destruct (n0 <? SQ_BASE) eqn:E; [cbn [okts] in H; rewrite E in H; eapply IH'; [|exact H]; lia|].
        destruct (okts_big_atom _ _ _ _ _ E H) as (_ & _ & _ & H'). apply IH' in H'; lia.
      + (* keyword *) destruct k0; cbn [okts is_not] in H;
          try (eapply IH'; [|exact H]; lia).
        * (* NOT *) cbn [andb] in H. destruct (match r with TAtom false n0 :: _ => in_ex n0 | _ => false end); [discriminate H|].
          eapply IH'; [|exact H]; lia.
        * (* DISTINCT *) destruct r as [|[]]; try discriminate H. destruct k0; try discriminate H.
          eapply IH'; [|exact H]. cbn [length]. lia.
        * (* FROM *) destruct k; [discriminate H|]. eapply IH'; [|exact H]; lia.
        * destruct (match r with TLParen :: TLParen :: TAtom false n0 :: _ => in_sq n0 | _ => false end); [discriminate H|].
          eapply IH'; [|exact H]; lia.
        * destruct (match r with TLParen :: TLParen :: TAtom false n0 :: _ => in_sq n0 | _ => false end); [discriminate H|].
          eapply IH'; [|exact H]; lia.
        * destruct (match r with TLParen :: TLParen :: TAtom false n0 :: _ => in_sq n0 | _ => false end); [discriminate H|].
          eapply IH'; [|exact H]; lia.
        * destruct (match r with TLParen :: TAtom false n0 :: _ => in_sq n0 | _ => false end); [discriminate H|].
          eapply IH'; [|exact H]; lia.
      + (* ( *) destruct (sqhead r) eqn:Sq.
        * destruct r as [|t1 r1]; [discriminate Sq|]. destruct t1; try discriminate Sq. destruct s; try discriminate Sq.
          rename n0 into n1. cbn [sqhead] in Sq. cbn [okts] in H. rewrite Sq in H.
          destruct r1 as [|[] r2]; try discriminate H.
          destruct ((n1 =? SQ_BASE + N.of_nat i) && small i); [|discriminate H].
          apply IH' in H; [lia|cbn [length]; lia].
        * rewrite okts_lparen_plain in H by exact Sq. eapply IH'; [|exact H]; lia.
      + (* ) *) destruct k; [discriminate H|]. cbn [okts] in H. eapply IH'; [|exact H]; lia.
      + (* , *) destruct k; [discriminate H|]. cbn [okts] in H. eapply IH'; [|exact H]; lia.
  Qed.

  (** UNNEST ( SELECT / ANY ( ( SELECT do not occur in the printed tokens *)
  Lemma unnest_ok r k i x sl post :
    okts k i r = Some x -> (match r with TLParen :: TAtom false n :: _ => in_sq n | _ => false end) = false ->
    estop post = true -> sub_unsafe KUnnest (unfoldl (map qtoks sl) r ++ post) = false.
  Proof.
    intros H Hc Hs. destruct (sub_unsafe KUnnest (unfoldl (map qtoks sl) r ++ post)) eqn:E; [exfalso|reflexivity].
    remember (unfoldl (map qtoks sl) r ++ post) as rest eqn:Er.
    destruct rest as [|[[]| | |] r1]; try discriminate E. cbn [sub_unsafe] in E. symmetry in Er.
    destruct (look_lparen _ _ _ _ _ _ _ H Hs Er) as (r' & -> & ->).
    assert (Sq : sqhead r' = false) by (destruct r' as [|[[]| | | | | | | | | | | | |] ?]; try reflexivity; exact Hc).
    rewrite okts_lparen_plain in H by exact Sq.
    rewrite (look_qstart _ _ _ _ sl post H Hs) in E. discriminate E.
  Qed.

  Lemma quant_ok w r k i x sl post :
    is_quant w = true -> okts k i r = Some x ->
    (match r with TLParen :: TLParen :: TAtom false n :: _ => in_sq n | _ => false end) = false ->
    lead_ok (exists_fn d) r sl = true -> estop post = true ->
    sub_unsafe w (unfoldl (map qtoks sl) r ++ post) = false.
  Proof.
    intros Hw H Hc Hl Hs. destruct (sub_unsafe w (unfoldl (map qtoks sl) r ++ post)) eqn:E; [exfalso|reflexivity].
    remember (unfoldl (map qtoks sl) r ++ post) as rest eqn:Er.
    assert (exists r2, rest = QE TLParen :: QE TLParen :: r2 /\ is_qstart r2 = true) as (r2 & -> & E2).
    { destruct w; try discriminate Hw; cbn [sub_unsafe] in E;
        (destruct rest as [|[[]| | |] [|[[]| | |] r2]]; try discriminate E; exists r2; split; [reflexivity|exact E]). }
    clear E. symmetry in Er.
    destruct (look_lparen _ _ _ _ _ _ _ H Hs Er) as (r' & -> & Er').
    destruct (sqhead r') eqn:Sq.
    - (* ANY ( sq ): the subquery's text starts with SELECT / WITH *)
      destruct r' as [|t1 r1]; [discriminate Sq|]. destruct t1; try discriminate Sq. destruct s; try discriminate Sq.
      cbn [sqhead] in Sq. cbn [lead_ok] in Hl.
      assert (E1 : n <? SQ_BASE = false).
      { unfold in_sq in Sq. apply andb_true_iff in Sq. destruct Sq as [Sq _]. apply N.leb_le in Sq. apply N.ltb_ge. exact Sq. }
      rewrite E1 in Hl. cbn [unfoldl] in Er'. rewrite E1 in Er'. destruct sl as [|q sl']; [discriminate Hl|].
      cbn [map] in Er'. rewrite wrap_sq in Er' by exact Sq.
      apply andb_true_iff in Hl. destruct Hl as [Hl _]. rewrite Sq in Hl. cbn [negb andb] in Hl. rewrite andb_false_r, orb_false_r in Hl.
      pose proof (qlead_qstart q (unfoldl (map qtoks sl') r1 ++ post) Hl) as Hq'.
      rewrite <- app_assoc in Er'. rewrite <- Er' in Hq'. discriminate Hq'.
    - rewrite okts_lparen_plain in H by exact Sq. symmetry in Er'.
      destruct (look_lparen _ _ _ _ _ _ _ H Hs Er') as (r'' & -> & ->).
      assert (Sq2 : sqhead r'' = false) by (destruct r'' as [|[[]| | | | | | | | | | | | |] ?]; try reflexivity; exact Hc).
      rewrite okts_lparen_plain in H by exact Sq2.
      rewrite (look_qstart _ _ _ _ sl post H Hs) in E2. discriminate E2.
  Qed.

  Lemma Forall_tl {A} (P : A -> Prop) x l : Forall P (x :: l) -> P x /\ Forall P l.
  Proof. intro H. inversion H; auto. Qed.

  (** the view of the printed tokens of an expression is the expression's tokens *)
  Lemma fold_rt : forall n ts, (length ts <= n)%nat -> forall k i x sl post,
    okts k i ts = Some x -> snd x = (i + length sl)%nat -> Forall Qok sl ->
    lead_ok (exists_fn d) ts sl = true -> estop post = true ->
    qfrag d (unfoldl (map qtoks sl) ts ++ post) = true ->
    folds k i sl ts post (fst x).
  Proof.
    induction n as [|n IH]; intros ts Hn k i x sl post H Hx Hsl Hl Hs Hf.
    { destruct ts; [|cbn [length] in Hn; lia]. cbn [okts] in H. injection H as <-. cbn [snd fst] in *.
      assert (sl = []) by (destruct sl; [reflexivity|cbn [length] in Hx; lia]). subst sl. apply folds_nil. }
    destruct ts as [|t r].
    { cbn [okts] in H. injection H as <-. cbn [snd fst] in *.
      assert (sl = []) by (destruct sl; [reflexivity|cbn [length] in Hx; lia]). subst sl. apply folds_nil. }
    cbn [length] in Hn.
    assert (IH' : forall r' k' i' x' sl', (length r' <= length r)%nat ->
              okts k' i' r' = Some x' -> snd x' = (i' + length sl')%nat -> Forall Qok sl' ->
              lead_ok (exists_fn d) r' sl' = true -> qfrag d (unfoldl (map qtoks sl') r' ++ post) = true ->
              folds k' i' sl' r' post (fst x'))
      by (intros r' k' i' x' sl' Hr' ? ? ? ? ?; apply (IH r'); auto; lia).
    (* a single ordinary token *)
    assert (Hone : forall k2, okts k2 i r = Some x -> lead_ok (exists_fn d) r sl = true ->
              unfoldl (map qtoks sl) (t :: r) = QE t :: unfoldl (map qtoks sl) r ->
              (forall g rest, rest = unfoldl (map qtoks sl) r ++ post ->
                 foldq (S g) k i (QE t :: rest) = fcons t rest (foldq g k2 i rest)) ->
              folds k i sl (t :: r) post (fst x)).
    { intros k2 H2 Hl2 Hu Hstep. eapply folds_step; [exact Hstep|exact Hu|].
      apply IH'; auto. rewrite Hu in Hf. eapply qfrag_cons. exact Hf. }
    destruct t.
    - (* atom *)
      destruct s; [apply (Hone k); [exact H|exact Hl|reflexivity|intros; apply fold_plain; reflexivity]|].
      destruct (n0 <? SQ_BASE) eqn:E.
      + apply (Hone k); [cbn [okts] in H; rewrite E in H; exact H|cbn [lead_ok] in Hl; rewrite E in Hl; exact Hl|
                         cbn [unfoldl]; rewrite E; reflexivity|intros; apply fold_small; exact E].
      + (* EXISTS / NOT EXISTS *)
        destruct (okts_big_atom _ _ _ _ _ E H) as (E1 & Hsm & Hn0 & H').
        pose proof (okts_mono _ r (le_n _) _ _ _ H') as Hmono.
        destruct sl as [|q sl']; [cbn [length] in Hx; clear - Hx Hmono; lia|].
        apply Forall_tl in Hsl. destruct Hsl as [[Hqw Hql] Hsl'].
        cbn [lead_ok] in Hl. rewrite E in Hl. apply andb_true_iff in Hl. destruct Hl as [Hlq Hl'].
        assert (Hex : exists_fn d && negb (is_qstart (qtoks q ++ QE TRParen :: unfoldl (map qtoks sl') r ++ post)) = false).
        { destruct (exists_fn d); [|reflexivity]. cbn [negb andb orb] in *. rewrite orb_false_r in Hlq.
          rewrite qlead_qstart by exact Hlq. reflexivity. }
        cbn [unfoldl map] in Hf. rewrite E in Hf.
        assert (Hgrp : exists_group recq (exists_fn d) (qtoks q ++ QE TRParen :: unfoldl (map qtoks sl') r ++ post)
                       = Some (q, unfoldl (map qtoks sl') r ++ post) /\
                       qfrag d (unfoldl (map qtoks sl') r ++ post) = true).
        { assert (Hf2 : qfrag d (qtoks q ++ QE TRParen :: unfoldl (map qtoks sl') r ++ post) = true).
          { destruct Hn0 as [Hn0|Hn0]; subst n0; [rewrite wrap_ex in Hf by exact Hsm|rewrite wrap_nex in Hf];
              cbn [app] in Hf; rewrite <- !app_assoc in Hf; cbn [app] in Hf; repeat (apply qfrag_cons in Hf); exact Hf. }
          split; [|apply qfrag_app in Hf2; eapply qfrag_cons; exact Hf2].
          unfold exists_group. rewrite Hex. rewrite Hq; auto. }
        destruct Hgrp as [Hgrp Hf'].
        change (q :: sl') with ([q] ++ sl'). change (TAtom false n0 :: r) with ([TAtom false n0] ++ r).
        destruct Hn0 as [Hn0|Hn0]; subst n0.
        * eapply (folds_comp (fun rest => [(TAtom false (EX_BASE + N.of_nat i), rest)]) [q] _
                    (QK KExists :: QE TLParen :: qtoks q ++ [QE TRParen]) k i k).
          -- intros g rest ->. cbn [app]. rewrite <- app_assoc. cbn [app fold]. rewrite Hgrp.
             cbn [length]. rewrite PeanoNat.Nat.add_1_r. reflexivity.
          -- cbn [app unfoldl map]. rewrite E, wrap_ex by exact Hsm. cbn [app]. rewrite <- !app_assoc. reflexivity.
          -- reflexivity.
          -- intro rest. exists [], (TAtom false (EX_BASE + N.of_nat i)). reflexivity.
          -- cbn [length]. apply le_n_S, PeanoNat.Nat.le_0_l.
          -- cbn [length]. rewrite PeanoNat.Nat.add_1_r. apply IH'; auto. cbn [length] in Hx. clear - Hx. lia.
        * eapply (folds_comp (fun rest => [(TAtom false (NEX_BASE + N.of_nat i), rest)]) [q] _
                    (QE (TKw KNot) :: QK KExists :: QE TLParen :: qtoks q ++ [QE TRParen]) k i k).
          -- intros g rest ->. cbn [app]. rewrite <- app_assoc. cbn [app fold]. rewrite Hgrp.
             cbn [length]. rewrite PeanoNat.Nat.add_1_r. reflexivity.
          -- cbn [app unfoldl map]. rewrite E, wrap_nex. cbn [app]. rewrite <- !app_assoc. reflexivity.
          -- reflexivity.
          -- intro rest. exists [], (TAtom false (NEX_BASE + N.of_nat i)). reflexivity.
          -- cbn [length]. apply le_n_S, PeanoNat.Nat.le_0_l.
          -- cbn [length]. rewrite PeanoNat.Nat.add_1_r. apply IH'; auto. cbn [length] in Hx. clear - Hx. lia.
    - apply (Hone k); [exact H|exact Hl|reflexivity|intros; apply fold_plain; reflexivity].
    - apply (Hone k); [exact H|exact Hl|reflexivity|intros; apply fold_plain; reflexivity].
    - apply (Hone k); [exact H|exact Hl|reflexivity|intros; apply fold_plain; reflexivity].
    - (* keyword *)
      destruct (kw_plain k0) eqn:Kp.
      + apply (Hone k); [destruct k0; try discriminate Kp; exact H|exact Hl|reflexivity|intros; apply fold_kw; exact Kp].
      + destruct k0; try discriminate Kp.
        * (* NOT *)
          cbn [okts is_not andb] in H.
          destruct (match r with TAtom false n0 :: _ => in_ex n0 | _ => false end) eqn:Ex; [discriminate H|].
          apply (Hone k); [exact H|exact Hl|reflexivity|].
          intros g rest ->. apply fold_not. eapply look_nex; eauto.
        * (* DISTINCT FROM *)
          cbn [okts] in H. destruct r as [|t2 r2]; [discriminate H|]. destruct t2; try discriminate H.
          destruct k0; try discriminate H.
          change (TKw KDistinct :: TKw KFrom :: r2) with ([TKw KDistinct; TKw KFrom] ++ r2). change sl with ([] ++ sl).
          eapply (folds_comp (fun rest => [(TKw KDistinct, QE (TKw KFrom) :: rest); (TKw KFrom, rest)]) [] _
                    [QE (TKw KDistinct); QE (TKw KFrom)] k i k).
          -- intros g rest ->. cbn [app fold length]. rewrite PeanoNat.Nat.add_0_r. reflexivity.
          -- reflexivity.
          -- reflexivity.
          -- intro rest. exists [(TKw KDistinct, QE (TKw KFrom) :: rest)], (TKw KFrom). reflexivity.
          -- cbn [length]. apply le_n_S, PeanoNat.Nat.le_0_l.
          -- cbn [length]. rewrite PeanoNat.Nat.add_0_r. cbn [unfoldl app] in Hf. do 2 apply qfrag_cons in Hf.
             apply IH'; auto; try (cbn [length]; clear; lia).
        * (* FROM inside parentheses *)
          cbn [okts] in H. destruct k as [|k1]; [discriminate H|].
          apply (Hone (S k1)); [exact H|exact Hl|reflexivity|intros; reflexivity].
        * (* ANY *)
          cbn [okts is_not andb] in H.
          destruct (match r with TLParen :: TLParen :: TAtom false n0 :: _ => in_sq n0 | _ => false end) eqn:Cq; [discriminate H|].
          apply (Hone k); [exact H|exact Hl|reflexivity|].
          intros g rest ->. apply fold_unsafe; try discriminate; try reflexivity. eapply quant_ok; eauto.
        * (* ALL *)
          cbn [okts is_not andb] in H.
          destruct (match r with TLParen :: TLParen :: TAtom false n0 :: _ => in_sq n0 | _ => false end) eqn:Cq; [discriminate H|].
          apply (Hone k); [exact H|exact Hl|reflexivity|].
          intros g rest ->. apply fold_unsafe; try discriminate; try reflexivity. eapply quant_ok; eauto.
        * (* SOME *)
          cbn [okts is_not andb] in H.
          destruct (match r with TLParen :: TLParen :: TAtom false n0 :: _ => in_sq n0 | _ => false end) eqn:Cq; [discriminate H|].
          apply (Hone k); [exact H|exact Hl|reflexivity|].
          intros g rest ->. apply fold_unsafe; try discriminate; try reflexivity. eapply quant_ok; eauto.
        * (* UNNEST *)
          cbn [okts is_not andb] in H.
          destruct (match r with TLParen :: TAtom false n0 :: _ => in_sq n0 | _ => false end) eqn:Cq; [discriminate H|].
          apply (Hone k); [exact H|exact Hl|reflexivity|].
          intros g rest ->. apply fold_unsafe; try discriminate; try reflexivity. eapply unnest_ok; eauto.
    - (* ( *)
      destruct (sqhead r) eqn:Sq.
      + (* ( subquery ) *)
        destruct r as [|t1 r1]; [discriminate Sq|]. destruct t1; try discriminate Sq. destruct s; try discriminate Sq.
        cbn [sqhead] in Sq. cbn [okts] in H. rewrite Sq in H. destruct r1 as [|t2 r2]; [discriminate H|].
        destruct t2; try discriminate H.
        destruct ((n0 =? SQ_BASE + N.of_nat i) && small i) eqn:En; [|discriminate H].
        apply andb_true_iff in En. destruct En as [En Hsm]. apply N.eqb_eq in En.
        assert (E1 : n0 <? SQ_BASE = false).
        { unfold in_sq in Sq. apply andb_true_iff in Sq. destruct Sq as [Sq' _]. apply N.leb_le in Sq'. apply N.ltb_ge. exact Sq'. }
        pose proof (okts_mono _ r2 (le_n _) _ _ _ H) as Hmono.
        destruct sl as [|q sl']; [cbn [length] in Hx; clear - Hx Hmono; lia|].
        apply Forall_tl in Hsl. destruct Hsl as [[Hqw Hql] Hsl'].
        cbn [lead_ok] in Hl. rewrite E1 in Hl. apply andb_true_iff in Hl. destruct Hl as [Hlq Hl'].
        rewrite Sq in Hlq. cbn [negb] in Hlq. rewrite andb_false_r, orb_false_r in Hlq.
        cbn [unfoldl map] in Hf. rewrite E1, wrap_sq in Hf by exact Sq. cbn [app] in Hf. rewrite <- app_assoc in Hf. cbn [app] in Hf.
        apply qfrag_cons in Hf.
        change (q :: sl') with ([q] ++ sl'). change (TLParen :: TAtom false n0 :: TRParen :: r2) with ([TLParen; TAtom false n0; TRParen] ++ r2).
        eapply (folds_comp (fun rest => [(TLParen, qtoks q ++ QE TRParen :: rest); (TAtom false n0, QE TRParen :: rest); (TRParen, rest)])
                  [q] _ (QE TLParen :: qtoks q ++ [QE TRParen]) k i k).
        * intros g rest ->. cbn [app]. rewrite <- app_assoc. cbn [app fold].
          rewrite qlead_qstart by exact Hlq. rewrite Hq; auto. subst n0.
          cbn [length]. rewrite PeanoNat.Nat.add_1_r. reflexivity.
        * cbn [app unfoldl map]. rewrite E1, wrap_sq by exact Sq. cbn [app]. rewrite <- !app_assoc. reflexivity.
        * reflexivity.
        * intro rest. exists [(TLParen, qtoks q ++ QE TRParen :: rest); (TAtom false n0, QE TRParen :: rest)], TRParen. reflexivity.
        * cbn [length]. apply le_n_S, PeanoNat.Nat.le_0_l.
        * cbn [length]. rewrite PeanoNat.Nat.add_1_r. apply IH'; auto; [cbn [length]; clear; lia|cbn [length] in Hx; clear - Hx; lia|].
          apply qfrag_app in Hf. eapply qfrag_cons. exact Hf.
      + rewrite okts_lparen_plain in H by exact Sq.
        apply (Hone (S k)); [exact H|exact Hl|reflexivity|].
        intros g rest ->. apply fold_lparen. eapply look_qstart; eauto.
    - (* ) *)
      cbn [okts] in H. destruct k as [|k1]; [discriminate H|].
      apply (Hone k1); [exact H|exact Hl|reflexivity|intros; reflexivity].
    - (* , *)
      cbn [okts] in H. destruct k as [|k1]; [discriminate H|].
      apply (Hone (S k1)); [exact H|exact Hl|reflexivity|intros; reflexivity].
    - apply (Hone k); [exact H|exact Hl|reflexivity|intros; apply fold_plain; reflexivity].
    - apply (Hone k); [exact H|exact Hl|reflexivity|intros; apply fold_plain; reflexivity].
    - apply (Hone k); [exact H|exact Hl|reflexivity|intros; apply fold_plain; reflexivity].
    - apply (Hone k); [exact H|exact Hl|reflexivity|intros; apply fold_plain; reflexivity].
    - apply (Hone k); [exact H|exact Hl|reflexivity|intros; apply fold_plain; reflexivity].
    - apply (Hone k); [exact H|exact Hl|reflexivity|intros; apply fold_plain; reflexivity].
  Qed.

  (** the atoms counted by [okts] are the subquery atoms *)
  Lemma nsub_cons t r : nsub (t :: r) = ((if is_big t then 1 else 0) + nsub r)%nat.
  Proof. unfold nsub. cbn [filter]. destruct (is_big t); reflexivity. Qed.

  Lemma okts_count : forall n ts, (length ts <= n)%nat -> forall k i x, okts k i ts = Some x -> snd x = (i + nsub ts)%nat.
  Proof.
    induction n as [|n IH]; intros ts Hn k i x H.
    - destruct ts; [|cbn [length] in Hn; lia]. cbn [okts] in H. injection H as <-. cbn [snd]. unfold nsub. cbn. lia.
    - destruct ts as [|t r]; [cbn [okts] in H; injection H as <-; cbn [snd]; unfold nsub; cbn; lia|]. cbn [length] in Hn.
      assert (IH' : forall r' k' i', (length r' <= length r)%nat -> okts k' i' r' = Some x -> snd x = (i' + nsub r')%nat)
        by (intros r' k' i' Hr' H'; eapply (IH r'); [lia|exact H']).
      rewrite nsub_cons.
      destruct t; try (cbn [okts is_big] in *; erewrite IH'; [|apply le_n|exact H]; lia).
      + (* atom *) destruct s; [cbn [okts is_big] in *; erewrite IH'; [|apply le_n|exact H]; lia|].
        cbn [is_big]. destruct (n0 <? SQ_BASE) eqn:E; [cbn [okts] in H; rewrite E in H; erewrite IH'; [|apply le_n|exact H]; cbn [negb]; lia|].
        destruct (okts_big_atom _ _ _ _ _ E H) as (_ & _ & _ & H'). erewrite IH'; [|apply le_n|exact H']. cbn [negb]. lia.
      + (* keyword *) cbn [is_big]. destruct k0; cbn [okts is_not] in H;
          try (erewrite IH'; [|apply le_n|exact H]; lia).
        * cbn [andb] in H. destruct (match r with TAtom false n0 :: _ => in_ex n0 | _ => false end); [discriminate H|].
          erewrite IH'; [|apply le_n|exact H]; lia.
        * destruct r as [|[]]; try discriminate H. destruct k0; try discriminate H.
          match type of H with okts ?k' ?i' ?r' = _ => rewrite (IH' r' k' i' ltac:(cbn [length]; lia) H) end.
          rewrite nsub_cons. cbn [is_big]. lia.
        * destruct k; [discriminate H|]. erewrite IH'; [|apply le_n|exact H]; lia.
        * destruct (match r with TLParen :: TLParen :: TAtom false n0 :: _ => in_sq n0 | _ => false end); [discriminate H|].
          erewrite IH'; [|apply le_n|exact H]; lia.
        * destruct (match r with TLParen :: TLParen :: TAtom false n0 :: _ => in_sq n0 | _ => false end); [discriminate H|].
          erewrite IH'; [|apply le_n|exact H]; lia.
        * destruct (match r with TLParen :: TLParen :: TAtom false n0 :: _ => in_sq n0 | _ => false end); [discriminate H|].
          erewrite IH'; [|apply le_n|exact H]; lia.
        * destruct (match r with TLParen :: TAtom false n0 :: _ => in_sq n0 | _ => false end); [discriminate H|].
          erewrite IH'; [|apply le_n|exact H]; lia.
      + (* ( *) cbn [is_big]. destruct (sqhead r) eqn:Sq.
        * destruct r as [|t1 r1]; [discriminate Sq|]. destruct t1; try discriminate Sq. destruct s; try discriminate Sq.
          rename n0 into n1. cbn [sqhead] in Sq. cbn [okts] in H. rewrite Sq in H.
          destruct r1 as [|[] r2]; try discriminate H.
          destruct ((n1 =? SQ_BASE + N.of_nat i) && small i); [|discriminate H].
          match type of H with okts ?k' ?i' ?r' = _ => rewrite (IH' r' k' i' ltac:(cbn [length]; lia) H) end.
          rewrite !nsub_cons. cbn [is_big].
          assert (E1 : n1 <? SQ_BASE = false).
          { unfold in_sq in Sq. apply andb_true_iff in Sq. destruct Sq as [Sq' _]. apply N.leb_le in Sq'. apply N.ltb_ge. exact Sq'. }
          rewrite E1. cbn [negb]. lia.
        * rewrite okts_lparen_plain in H by exact Sq. erewrite IH'; [|apply le_n|exact H]; lia.
      + cbn [is_big]. destruct k; [discriminate H|]. cbn [okts] in H. erewrite IH'; [|apply le_n|exact H]; lia.
      + cbn [is_big]. destruct k; [discriminate H|]. cbn [okts] in H. erewrite IH'; [|apply le_n|exact H]; lia.
  Qed.

  (** the view of what follows an expression: one token *)
  Lemma fold_post g i post : estop post = true ->
    exists F, foldq (S g) O i post = F /\ map fst (fv F) = stoptok post /\ fsubs F = [] /\ ffuel F = false /\
              fstop F = negb (Nat.eqb (length (stoptok post)) 0).
  Proof.
    intro Hs. eexists. split; [reflexivity|].
    destruct post as [|[t|q| |] r]; try (cbn; repeat split; reflexivity).
    - destruct t; try discriminate Hs; try (cbn; repeat split; reflexivity).
      destruct k; try discriminate Hs. cbn. repeat split; reflexivity.
    - destruct q; try discriminate Hs; cbn; repeat split; reflexivity.
  Qed.

  Lemma sq_ok_parts e n : sq_ok e n = true -> okts O O (yield e) = Some (O, n).
  Proof.
    unfold sq_ok. destruct (okts O O (yield e)) as [[[|k] m]|]; try discriminate.
    intro H. apply PeanoNat.Nat.eqb_eq in H. subst. reflexivity.
  Qed.

  Lemma nth_error_last {A} (V0 : list A) (a : A) W : nth_error ((V0 ++ [a]) ++ W) (length V0) = Some a.
  Proof. rewrite <- app_assoc. rewrite nth_error_app2 by lia. rewrite PeanoNat.Nat.sub_diag. reflexivity. Qed.

  Lemma xwf_parts e subs : xwf d (X e subs) = true ->
    ewf bd e = true /\ sq_ok e (length subs) = true /\ lead_ok (exists_fn d) (yield e) subs = true /\
    forallb (qwf d) subs = true.
  Proof.
    rewrite xwf_x. intro H. apply andb_true_iff in H. destruct H as [H H4]. apply andb_true_iff in H. destruct H as [H H3].
    apply andb_true_iff in H. destruct H as [H1 H2]. auto.
  Qed.

  Lemma pex_rt x post :
    xwf d x = true -> (xlevel x <= f)%nat -> qfrag d (xtoks x ++ post) = true -> estop post = true ->
    pex d recq (xtoks x ++ post) = Ok (x, post).
  Proof.
    destruct x as [e subs]. rewrite xtoks_x. cbn [xlevel]. intros Hw Hlv Hf Hs.
    apply xwf_parts in Hw. destruct Hw as (Hw & Hsq & Hld & Hsw).
    rewrite (ewf_ptoks _ _ Hw) in *.
    destruct (ewf_parts _ _ Hw) as (Hsh & Hwf & Hls & _ & Hfr).
    destruct (stoptok_np bd _ Hs) as [Hnp Hesc].
    pose proof (sq_ok_parts _ _ Hsq) as Hok.
    assert (Hsl : Forall Qok subs).
    { apply maxl_map_le in Hlv. rewrite Forall_forall in *. intros q Hin. split; [|apply Hlv; exact Hin].
      rewrite forallb_forall in Hsw. apply Hsw. exact Hin. }
    unfold pex.
    assert (Ht : trailing d && comma_rparen (unfoldl (map qtoks subs) (yield e) ++ post) = false).
    { destruct (trailing d) eqn:T; [|reflexivity]. cbn [andb]. eapply qfrag_trail; eauto. }
    rewrite Ht. unfold pexpr.
    destruct (fold_rt _ (yield e) (le_n _) O O (O, length subs) subs post Hok eq_refl Hsl Hld Hs Hf)
      as (V & m & Hm & Hmap & Hlast & Hfold).
    set (l := unfoldl (map qtoks subs) (yield e) ++ post) in *.
    assert (Hg : S (length l) = (m + S (length l - m))%nat) by (clear - Hm; unfold l; rewrite app_length; lia).
    rewrite Hg, Hfold. cbn [fst plus].
    destruct (fold_post (length l - m) (length subs) post Hs) as (F & -> & Hfv & Hfs & Hff & Hfst).
    unfold fpre. cbn [ffuel fv fsubs fstop]. rewrite Hff, map_app, Hmap, Hfv, Hfs, app_nil_r.
    rewrite (parse_expr_roundtrip bd (d_U0 d Hd) (d_Hand d Hd) e (stoptok post)); auto.
    - cbn [bind]. rewrite Hfst.
      assert (Hc : negb (Nat.eqb (length (stoptok post)) 0) && Nat.eqb (length (stoptok post)) 0 = false)
        by (destruct (Nat.eqb (length (stoptok post)) 0); reflexivity).
      rewrite Hc. rewrite app_length.
      rewrite PeanoNat.Nat.add_sub.
      rewrite firstn_app, PeanoNat.Nat.sub_diag, firstn_all. cbn [firstn]. rewrite app_nil_r.
      pose proof (okts_count _ (yield e) (le_n _) _ _ _ Hok) as Hcnt. cbn [snd plus] in Hcnt. rewrite <- Hcnt, firstn_all.
      destruct (yield_starts e) as (t0 & tl0 & Ey & _).
      destruct (Hlast ltac:(rewrite Ey; discriminate)) as (V0 & t1 & EV).
      assert (Hlen : length (yield e) = S (length V0)).
      { rewrite <- Hmap, EV, map_length, app_length. cbn [length]. apply PeanoNat.Nat.add_1_r. }
      rewrite Hlen. unfold rest_at. rewrite EV, nth_error_last. reflexivity.
    - rewrite Hnp, (d_U0 d Hd). apply rspine_ge_zero; auto using (d_U0 d Hd), (d_Hand d Hd).
    - rewrite Hnp. apply N.le_refl.
    - intros _. exact Hesc.
    - apply frag_ok_stop; assumption.
  Qed.

  (** *** the first printed tokens of an expression *)
  Definition xstart (h : qtok) : bool :=
    match h with QK KExists => true | QE t => starts t | _ => false end.

  Lemma xtoks_head x post : xwf d x = true ->
    exists h r, xtoks x ++ post = h :: r /\ xstart h = true /\
                (h = QE TLParen -> match r with QE TRParen :: _ => False | _ => True end).
  Proof.
    destruct x as [e subs]. rewrite xtoks_x. intro Hw.
    apply xwf_parts in Hw. destruct Hw as (Hw & Hsq & Hld & Hsw).
    rewrite (ewf_ptoks _ _ Hw). destruct (ewf_parts _ _ Hw) as (Hsh & _).
    pose proof (sq_ok_parts _ _ Hsq) as Hok.
    destruct (yield_no_unit _ _ Hsh) as (t & tl & Ey & St & Hu). rewrite Ey in *.
    destruct (uhead _ _ _ _ subs post Hok) as [E|t' r' E Hb Eu|Z Eu|Z Eu _|n Z Eu]; try discriminate E.
    - injection E as <- <-. rewrite Eu. eexists; eexists; split; [reflexivity|split; [exact St|]].
      intro Et. injection Et as ->. destruct (Hu eq_refl) as (t2 & tl2 & -> & Nt2).
      (* the token after the opening parenthesis *)
      destruct (sqhead (t2 :: tl2)) eqn:Sq.
      + destruct t2; try discriminate Sq. destruct s; try discriminate Sq. cbn [sqhead] in Sq.
        assert (E1 : n <? SQ_BASE = false).
        { unfold in_sq in Sq. apply andb_true_iff in Sq. destruct Sq as [Sq' _]. apply N.leb_le in Sq'. apply N.ltb_ge. exact Sq'. }
        pose proof Hld as Hl0. cbn [lead_ok] in Hl0. rewrite E1 in Hl0.
        cbn [unfoldl]. rewrite E1. destruct subs as [|q sl']; [discriminate Hl0|]. cbn [map]. rewrite wrap_sq by exact Sq.
        apply andb_true_iff in Hl0. destruct Hl0 as [Hl0 _]. rewrite Sq in Hl0. cbn [negb] in Hl0. rewrite andb_false_r, orb_false_r in Hl0.
        pose proof (qlead_qstart q (unfoldl (map qtoks sl') tl2 ++ post) Hl0) as Hq'. rewrite <- app_assoc.
        destruct (qtoks q ++ unfoldl (map qtoks sl') tl2 ++ post) as [|[[]|[]| |] ?]; try exact I; discriminate Hq'.
      + rewrite okts_lparen_plain in Hok by exact Sq.
        destruct (uhead _ _ _ _ subs post Hok) as [E|t' r'' E Hb' Eu'|Z Eu'|Z Eu' _|n Z Eu']; try discriminate E;
          try (rewrite Eu'; exact I).
        injection E as <- <-. rewrite Eu'. destruct t2; try exact I. congruence.
    - rewrite Eu. eexists; eexists; split; [reflexivity|split; [reflexivity|intro; discriminate]].
    - rewrite Eu. eexists; eexists; split; [reflexivity|split; [reflexivity|intro; discriminate]].
    - rewrite Eu. eexists; eexists; split; [reflexivity|split; [reflexivity|intro; discriminate]].
  Qed.

  (** after a list element: a comma, or the end of the clause *)
  Definition fol (n : nat) (post : list qtok) : Prop := is_comma post = true \/ (n <= hrank post)%nat.

  Lemma fol_comma n r : fol n (QE TComma :: r).
  Proof. left. reflexivity. Qed.

  Lemma fol_estop n post : (1 <= n)%nat -> fol n post -> estop post = true.
  Proof.
    intros Hn [H|H]; [|apply hrank_estop; lia].
    destruct post as [|[[]| | |] r]; try discriminate H; reflexivity.
  Qed.

  Lemma parse_item_x h r : xstart h = true -> parse_item d recq (h :: r) = parse_item_expr d recq (h :: r).
  Proof.
    destruct h as [t|[]| |]; cbn [xstart]; intro H; try discriminate H; try reflexivity.
    destruct t; cbn [starts] in H; try discriminate; try reflexivity.
    cbn [parse_item]. destruct (k =? K_Mul) eqn:E; [|reflexivity].
    apply N.eqb_eq in E. subst k. vm_compute in H. discriminate.
  Qed.

  Lemma item_rt i post :
    item_wf d i = true -> (ilevel i <= f)%nat -> qfrag d (item_toks i ++ post) = true -> fol 1 post ->
    parse_item d recq (item_toks i ++ post) = Ok (i, post).
  Proof.
    intros Hw Hlv Hf Hp. destruct i as [|x|x w]; cbn [item_toks item_wf item_wfg ilevel] in *.
    - (* wildcard *)
      cbn [app parse_item]. rewrite N.eqb_refl.
      assert (Hs : star_ok d (QE (TOp K_Mul) :: post) = true).
      { unfold qfrag in Hf. apply andb_true_iff in Hf. tauto. }
      cbn [app star_ok] in Hs. apply andb_true_iff in Hs. destruct Hs as [Hs _].
      destruct Hp as [Hp|Hp]; head_cases post; cbn [is_comma hrank] in Hp; try discriminate Hp; try lia; try reflexivity.
      all: rewrite N.eqb_refl in Hs; cbn [andb] in Hs; apply negb_true_iff in Hs; rewrite Hs; reflexivity.
    - destruct (xtoks_head x post Hw) as (h & r & E & Hh & _). rewrite E, parse_item_x by exact Hh. rewrite <- E.
      unfold parse_item_expr. rewrite pex_rt; auto; [|eapply fol_estop; eauto]. cbn [bind].
      rewrite parse_alias_none; [reflexivity|].
      destruct Hp as [Hp|Hp]; [apply noalias_comma; exact Hp|apply noalias_col; assumption].
    - apply andb_true_iff in Hw. destruct Hw as [He Hw]. rewrite <- app_assoc in *.
      destruct (xtoks_head x ([QK KAs; w] ++ post) He) as (h & r & E & Hh & _). rewrite E, parse_item_x by exact Hh. rewrite <- E.
      unfold parse_item_expr. rewrite pex_rt; auto. cbn [bind app]. rewrite parse_alias_some by exact Hw. reflexivity.
  Qed.

  Lemma order_elem_rt o post :
    oelem_wf d o = true -> (oelevel o <= f)%nat -> qfrag d (oelem_toks o ++ post) = true ->
    (is_comma post = true \/ (7 <= hrank post)%nat) ->
    parse_order_elem d recq (oelem_toks o ++ post) = Ok (o, post).
  Proof.
    destruct o as [x ad]. cbn [oelem_wf oelem_wfg oelevel oelem_toks]. intros He Hlv Hf Hp.
    rewrite <- app_assoc in *. unfold parse_order_elem.
    rewrite pex_rt; auto.
    - cbn [bind]. destruct ad as [[|]|]; try reflexivity. cbn [asc_toks app].
      destruct Hp as [Hp|Hp]; head_cases post; cbn [is_comma hrank] in Hp; try discriminate Hp; try lia; reflexivity.
    - destruct ad as [[|]|]; try reflexivity. cbn [asc_toks app].
      destruct Hp as [Hp|Hp]; [eapply (fol_estop 1); [lia|left; exact Hp]|apply hrank_estop; lia].
  Qed.

  Lemma group_elem_rt x post :
    xwf d x = true -> (xlevel x <= f)%nat -> qfrag d (xtoks x ++ post) = true -> fol 4 post ->
    parse_group_elem d recq (xtoks x ++ post) = Ok (x, post).
  Proof.
    intros He Hlv Hf Hp.
    assert (Hx : parse_group_elem d recq (xtoks x ++ post) = pex d recq (xtoks x ++ post)).
    { destruct (xtoks_head x post He) as (h & r & E & Hh & Hu). rewrite E.
      destruct h as [t| | |]; try reflexivity. destruct t; try reflexivity. specialize (Hu eq_refl).
      destruct r as [|[[]| | |] ?]; try reflexivity. contradiction. }
    rewrite Hx. apply pex_rt; auto. destruct Hp as [Hp|Hp]; [eapply (fol_estop 1); [lia|left; exact Hp]|apply hrank_estop; lia].
  Qed.

  (** ** lists *)
  Lemma hrank_not_comma n post : (1 <= n)%nat -> (n <= hrank post)%nat -> is_comma post = false.
  Proof. intros Hn H. head_cases post; cbn [hrank] in H; try lia; reflexivity. Qed.

  (** [F]: what may follow an element of the list (a comma always may) *)
  Lemma elems_ok_build {A} (elem : list qtok -> res (A * list qtok)) (trail : option (list qtok))
        (toks : A -> list qtok) (P : A -> bool) (F : list qtok -> Prop) :
    (forall r, F (QE TComma :: r)) ->
    (forall x post', P x = true -> qfrag d (toks x ++ post') = true -> F post' ->
                     elem (toks x ++ post') = Ok (x, post')) ->
    forall l post, forallb P l = true ->
      Forall (fun x => forall r, notrail trail (toks x ++ r)) (tl l) ->
      qfrag d (sepc (map toks l) ++ post) = true -> F post ->
      elems_ok elem trail toks l post.
  Proof.
    intros HFc Hel. induction l as [|x suf IH]; intros post HP Hnt Hf Hr; [exact I|].
    cbn [forallb] in HP. apply andb_true_iff in HP. destruct HP as [Hx HP]. cbn [tl] in Hnt.
    rewrite sepc_follow in Hf. cbn [elems_ok]. split; [|split].
    - apply Hel; auto. destruct suf; [exact Hr|apply HFc].
    - intro Hne. destruct suf as [|y suf']; [congruence|]. rewrite sepc_follow. inversion Hnt; subst. auto.
    - destruct suf as [|y suf']; [exact I|]. apply IH; auto.
      + inversion Hnt; subst. destruct suf'; [constructor|]. cbn [tl]. assumption.
      + cbn [follow] in Hf. apply qfrag_app in Hf. eapply qfrag_cons. exact Hf.
  Qed.

  Lemma comma_end_safe h r :
    xstart h = true \/ h = QE (TOp K_Mul) -> comma_end (res_col d) (h :: r) = false.
  Proof.
    intro H. assert (Hm : mem h (res_col d) = false).
    { destruct H as [H|H].
      - destruct h as [t|[]| |]; cbn [xstart] in H; try discriminate H; [|apply (d_exists d Hd)].
        destruct (mem (QE t) (res_col d)) eqn:M; [|reflexivity]. apply (d_kw d Hd) in M.
        apply starts_facts in H. destruct H as (_ & _ & _ & _ & _ & _ & _ & H). congruence.
      - subst h. destruct (mem (QE (TOp K_Mul)) (res_col d)) eqn:M; [|reflexivity]. apply (d_kw d Hd) in M. discriminate M. }
    destruct H as [H|H].
    - destruct h as [t|[]| |]; cbn [xstart] in H; try discriminate H; [|exact Hm].
      destruct t; cbn [starts] in H; try discriminate H; exact Hm.
    - subst. exact Hm.
  Qed.

  Lemma notrail_x trail x r :
    xwf d x = true -> (forall res, trail = Some res -> res = res_col d) -> notrail trail (xtoks x ++ r).
  Proof.
    intros Hw Ht. unfold notrail. destruct trail as [res|]; [|exact I]. rewrite (Ht res eq_refl).
    destruct (xtoks_head x r Hw) as (h & r' & E & Hh & _). rewrite E. apply comma_end_safe. auto.
  Qed.

  Lemma trail_proj_col res : trail_proj d = Some res -> res = res_col d.
  Proof. unfold trail_proj. destruct (trailing d || proj_trailing d); congruence. Qed.
  Lemma trail_all_col res : trail_all d = Some res -> res = res_col d.
  Proof. unfold trail_all. destruct (trailing d); congruence. Qed.

  (** an element that starts with a word which does not end a list *)
  Lemma notrail_word w r : is_word w = true -> later_ok d w = true -> notrail (trail_all d) (w :: r).
  Proof.
    intros Hw Hl. unfold notrail. destruct (trail_all d) as [res|] eqn:T; [|exact I].
    rewrite (trail_all_col _ T). unfold trail_all in T. destruct (trailing d) eqn:Tr; [|discriminate].
    rewrite comma_end_word by exact Hw. unfold later_ok in Hl. rewrite Tr in Hl. cbn [andb] in Hl.
    apply negb_true_iff in Hl. exact Hl.
  Qed.
  Lemma notrail_lparen r : notrail (trail_all d) (QE TLParen :: r).
  Proof.
    unfold notrail. destruct (trail_all d) as [res|] eqn:T; [|exact I]. rewrite (trail_all_col _ T).
    apply comma_end_safe. left. reflexivity.
  Qed.

  Lemma notrail_item i r : item_wf d i = true -> notrail (trail_proj d) (item_toks i ++ r).
  Proof.
    intro Hw. destruct i as [|x|x w]; cbn [item_toks item_wf item_wfg] in *.
    - unfold notrail. destruct (trail_proj d) as [res|] eqn:T; [|exact I]. rewrite (trail_proj_col _ T).
      apply comma_end_safe. auto.
    - apply notrail_x; [exact Hw|apply trail_proj_col].
    - apply andb_true_iff in Hw. destruct Hw as [He _]. rewrite <- app_assoc.
      apply notrail_x; [exact He|apply trail_proj_col].
  Qed.

  Lemma items_rt items post g :
    items <> [] -> forallb (item_wf d) items = true -> Forall (fun i => (ilevel i <= f)%nat) items ->
    qfrag d (sepc (map item_toks items) ++ post) = true -> (1 <= hrank post)%nat -> (length items <= g)%nat ->
    comma_list (parse_item d recq) (trail_proj d) g (sepc (map item_toks items) ++ post) = Ok (items, post).
  Proof.
    intros Hne Hw Hlv Hf Hr Hg. apply comma_list_rt; auto.
    - eapply (elems_ok_build _ _ _ (fun i => item_wf d i && Nat.leb (ilevel i) f) (fol 1)); eauto using fol_comma.
      + intros x post' Hx Hqf Hp. apply andb_true_iff in Hx. destruct Hx as [Hx1 Hx2]. apply PeanoNat.Nat.leb_le in Hx2.
        apply item_rt; auto.
      + rewrite forallb_forall in *. intros x Hin. rewrite (Hw x Hin). rewrite Forall_forall in Hlv.
        apply PeanoNat.Nat.leb_le. auto.
      + rewrite forallb_forall in Hw. apply Forall_forall. intros x Hin r. apply notrail_item. apply Hw.
        destruct items; [contradiction|right; exact Hin].
      + right; exact Hr.
    - eapply hrank_not_comma; [|exact Hr]. lia.
  Qed.

  Lemma exprs_rt (l : list xexpr) post g :
    l <> [] -> forallb (xwf d) l = true -> Forall (fun x => (xlevel x <= f)%nat) l ->
    qfrag d (sepc (map xtoks l) ++ post) = true -> (4 <= hrank post)%nat -> (length l <= g)%nat ->
    comma_list (parse_group_elem d recq) (trail_all d) g (sepc (map xtoks l) ++ post) = Ok (l, post).
  Proof.
    intros Hne Hw Hlv Hf Hr Hg. apply comma_list_rt; auto.
    - eapply (elems_ok_build _ _ _ (fun x => xwf d x && Nat.leb (xlevel x) f) (fol 4)); eauto using fol_comma.
      + intros x post' Hx Hqf Hp. apply andb_true_iff in Hx. destruct Hx as [Hx1 Hx2]. apply PeanoNat.Nat.leb_le in Hx2.
        apply group_elem_rt; auto.
      + rewrite forallb_forall in *. intros x Hin. rewrite (Hw x Hin). rewrite Forall_forall in Hlv.
        apply PeanoNat.Nat.leb_le. auto.
      + rewrite forallb_forall in Hw. apply Forall_forall. intros x Hin r.
        apply notrail_x; [|apply trail_all_col]. apply Hw. destruct l; [contradiction|right; exact Hin].
      + right; exact Hr.
    - eapply hrank_not_comma; [|exact Hr]. lia.
  Qed.

  Lemma exprs_like_rt (l : list xexpr) post g :
    l <> [] -> forallb (xwf d) l = true -> Forall (fun x => (xlevel x <= f)%nat) l ->
    qfrag d (sepc (map xtoks l) ++ post) = true -> hrank post = 9%nat -> (length l <= g)%nat ->
    comma_list (pex d recq) (trail_all d) g (sepc (map xtoks l) ++ post) = Ok (l, post).
  Proof.
    intros Hne Hw Hlv Hf Hr Hg. apply comma_list_rt; auto.
    - eapply (elems_ok_build _ _ _ (fun x => xwf d x && Nat.leb (xlevel x) f) (fol 9)); eauto using fol_comma.
      + intros x post' Hx Hqf Hp. apply andb_true_iff in Hx. destruct Hx as [Hx1 Hx2]. apply PeanoNat.Nat.leb_le in Hx2.
        apply pex_rt; auto. eapply (fol_estop 9); [lia|exact Hp].
      + rewrite forallb_forall in *. intros x Hin. rewrite (Hw x Hin). rewrite Forall_forall in Hlv.
        apply PeanoNat.Nat.leb_le. auto.
      + rewrite forallb_forall in Hw. apply Forall_forall. intros x Hin r.
        apply notrail_x; [|apply trail_all_col]. apply Hw. destruct l; [contradiction|right; exact Hin].
      + right; rewrite Hr; apply le_n.
    - eapply hrank_not_comma; [|rewrite Hr; apply le_n]. lia.
  Qed.

  Lemma orders_rt (l : list oelem) post g :
    l <> [] -> forallb (oelem_wf d) l = true -> Forall (fun o => (oelevel o <= f)%nat) l ->
    qfrag d (sepc (map oelem_toks l) ++ post) = true -> (7 <= hrank post)%nat -> (length l <= g)%nat ->
    comma_list (parse_order_elem d recq) (trail_all d) g (sepc (map oelem_toks l) ++ post) = Ok (l, post).
  Proof.
    intros Hne Hw Hlv Hf Hr Hg. apply comma_list_rt; auto.
    - eapply (elems_ok_build _ _ _ (fun o => oelem_wf d o && Nat.leb (oelevel o) f) (fol 7)); eauto using fol_comma.
      + intros x post' Hx Hqf Hp. apply andb_true_iff in Hx. destruct Hx as [Hx1 Hx2]. apply PeanoNat.Nat.leb_le in Hx2.
        apply order_elem_rt; auto.
      + rewrite forallb_forall in *. intros x Hin. rewrite (Hw x Hin). rewrite Forall_forall in Hlv.
        apply PeanoNat.Nat.leb_le. auto.
      + rewrite forallb_forall in Hw. apply Forall_forall. intros x Hin r. destruct x as [x ad]. cbn [oelem_toks].
        rewrite <- app_assoc. apply notrail_x; [|apply trail_all_col].
        assert (Hx : oelem_wf d (OElem x ad) = true) by (apply Hw; destruct l; [contradiction|right; exact Hin]). exact Hx.
      + right; exact Hr.
    - eapply hrank_not_comma; [|exact Hr]. lia.
  Qed.

  (** ** keyword look-ahead on followers *)
  Lemma opt_tok_hit k r : qtok_eqb k k = true -> opt_tok k (k :: r) = (true, r).
  Proof. intro H. cbn [opt_tok]. rewrite H. reflexivity. Qed.

  Lemma opt_from_miss ts : (2 <= hrank ts)%nat -> opt_tok (QE (TKw KFrom)) ts = (false, ts).
  Proof. intro H. head_cases ts; cbn [hrank] in H; try lia; reflexivity. Qed.
  Lemma opt_where_miss ts : (3 <= hrank ts)%nat -> opt_clause d recq (QK KWhere) ts = Ok (None, ts).
  Proof. intro H. head_cases ts; cbn [hrank] in H; try lia; reflexivity. Qed.
  Lemma opt_group_miss ts : (4 <= hrank ts)%nat -> opt_tok2 (QK KGroup) (QK KBy) ts = (false, ts).
  Proof. intro H. head_cases ts; cbn [hrank] in H; try lia; try reflexivity; destruct ts; reflexivity. Qed.
  Lemma opt_having_miss ts : (5 <= hrank ts)%nat -> opt_clause d recq (QK KHaving) ts = Ok (None, ts).
  Proof. intro H. head_cases ts; cbn [hrank] in H; try lia; reflexivity. Qed.
  Lemma opt_order_miss ts : (7 <= hrank ts)%nat -> opt_tok2 (QK KOrder) (QK KBy) ts = (false, ts).
  Proof. intro H. head_cases ts; cbn [hrank] in H; try lia; try reflexivity; destruct ts; reflexivity. Qed.
  Lemma opt_limit_miss ts : (8 <= hrank ts)%nat -> opt_tok (QK KLimit) ts = (false, ts).
  Proof. intro H. head_cases ts; cbn [hrank] in H; try lia; reflexivity. Qed.
  Lemma opt_offset_miss ts : (9 <= hrank ts)%nat -> opt_tok (QK KOffset) ts = (false, ts).
  Proof. intro H. head_cases ts; cbn [hrank] in H; try lia; reflexivity. Qed.
  Lemma opt_comma_miss ts : (1 <= hrank ts)%nat -> opt_tok (QE TComma) ts = (false, ts).
  Proof. intro H. head_cases ts; cbn [hrank] in H; try lia; reflexivity. Qed.
  Lemma opt_by_miss ts : (1 <= hrank ts)%nat -> opt_tok (QK KBy) ts = (false, ts).
  Proof. intro H. head_cases ts; cbn [hrank] in H; try lia; reflexivity. Qed.
  Lemma opt_with_miss ts : (1 <= hrank ts)%nat -> opt_tok (QK KWith) ts = (false, ts).
  Proof. intro H. head_cases ts; cbn [hrank] in H; try lia; reflexivity. Qed.
  Lemma set_op_miss ts : (6 <= hrank ts)%nat -> set_op_of ts = None.
  Proof. intro H. head_cases ts; cbn [hrank] in H; try lia; reflexivity. Qed.

  Lemma opt_start_miss k h r :
    k = QK KAs \/ k = QE (TKw KAll) \/ k = QE (TKw KDistinct) \/ k = QK KOn ->
    xstart h = true \/ h = QE (TOp K_Mul) -> opt_tok k (h :: r) = (false, h :: r).
  Proof.
    intros Hk [H|H].
    - destruct h as [t|[]| |]; cbn [xstart] in H; try discriminate H.
      + destruct t; cbn [starts] in H; try discriminate H; destruct Hk as [->|[->|[->| ->]]]; try reflexivity;
          destruct k0; try discriminate H; reflexivity.
      + destruct Hk as [->|[->|[->| ->]]]; reflexivity.
    - subst h. destruct Hk as [->|[->|[->| ->]]]; reflexivity.
  Qed.

  Lemma items_head items rest :
    items <> [] -> forallb (item_wf d) items = true ->
    exists h r, sepc (map item_toks items) ++ rest = h :: r /\ (xstart h = true \/ h = QE (TOp K_Mul)).
  Proof.
    destruct items as [|i suf]; [congruence|]. intros _ Hw. cbn [forallb] in Hw. apply andb_true_iff in Hw.
    destruct Hw as [Hw _]. rewrite sepc_follow.
    destruct i as [|x|x w]; cbn [item_toks item_wf item_wfg] in *.
    - eexists; eexists; split; [reflexivity|auto].
    - destruct (xtoks_head x (follow item_toks suf rest) Hw) as (h & r & E & Hh & _). rewrite E. eauto.
    - apply andb_true_iff in Hw. destruct Hw as [He _]. rewrite <- app_assoc.
      destruct (xtoks_head x ([QK KAs; w] ++ follow item_toks suf rest) He) as (h & r & E & Hh & _). rewrite E. eauto.
  Qed.

  Lemma exprs_head (l : list xexpr) rest :
    l <> [] -> forallb (xwf d) l = true ->
    exists h r, sepc (map xtoks l) ++ rest = h :: r /\ xstart h = true.
  Proof.
    destruct l as [|x suf]; [congruence|]. intros _ Hw. cbn [forallb] in Hw. apply andb_true_iff in Hw.
    destruct Hw as [Hw _]. rewrite sepc_follow.
    destruct (xtoks_head x (follow xtoks suf rest) Hw) as (h & r & E & Hh & _). rewrite E. eauto.
  Qed.

  (** ** followers of a table inside FROM: the end of the FROM element, or more of a join *)
  Definition tfol (post : list qtok) : Prop := fol 2 post \/ jhead post = true.
  (** ... of a join: the end of the FROM element, or the next join *)
  Definition jfol (post : list qtok) : Prop := fol 2 post \/ jstart post = true.

  Lemma jfol_tfol post : jfol post -> tfol post.
  Proof. intros [H|H]; [left; exact H|right; apply jstart_jhead; exact H]. Qed.
  Lemma jfol_estop post : jfol post -> estop post = true.
  Proof. intros [H|H]; [eapply (fol_estop 2); [lia|exact H]|apply jhead_estop, jstart_jhead; exact H]. Qed.
  Lemma joins_jfol js post : fol 2 post -> jfol (concat (map join_toks js) ++ post).
  Proof. intro H. destruct js as [|j js']; [left; exact H|right; apply jstart_joins; discriminate]. Qed.

  Lemma fol_noalias_tab post : tfol post -> noalias (res_tab d) post = true /\ not_lparen post = true.
  Proof.
    intros [[Hp|Hp]|Hp].
    - split; [apply noalias_comma|apply not_lparen_comma]; exact Hp.
    - split; [apply noalias_tab; auto|apply not_lparen_hrank; lia].
    - split; [apply noalias_jhead; auto|]. qhead post; cbn [jhead jstart] in Hp; try discriminate Hp; reflexivity.
  Qed.

  Lemma table_follow_ok a post : tfol post -> table_follow d (alias_toks a ++ post) = Ok tt.
  Proof.
    intro Hp. destruct a; [reflexivity|]. cbn [alias_toks app].
    destruct Hp as [[Hp|Hp]|Hp].
    - head_cases post; cbn [is_comma] in Hp; try discriminate Hp; reflexivity.
    - head_cases post; cbn [hrank] in Hp; try lia; reflexivity.
    - qhead post; cbn [jhead jstart] in Hp; try discriminate Hp; reflexivity.
  Qed.

  Lemma hint_miss {B} post (X Y : res B) :
    tfol post -> match post with QK KWith :: QE TLParen :: _ => X | _ => Y end = Y.
  Proof.
    intros [[Hp|Hp]|Hp].
    - head_cases post; cbn [is_comma] in Hp; try discriminate Hp; reflexivity.
    - head_cases post; cbn [hrank] in Hp; try lia; reflexivity.
    - qhead post; cbn [jhead jstart] in Hp; try discriminate Hp; reflexivity.
  Qed.

  Lemma parse_tref_word n r rq rt : is_word n = true -> qtok_eqb n (QK KTable) = false ->
    parse_tref d rq rt (n :: r) =
    if unnest_table d && qtok_eqb n (QE (TKw KUnnest)) then OutOfFragment
    else bind (table_follow d r) (fun _ =>
           bind (parse_talias (res_tab d) r) (fun '(a, r1) =>
             match r1 with
             | QK KWith :: QE TLParen :: _ => OutOfFragment
             | _ => Ok (TTable n a, r1)
             end)).
  Proof.
    intros H Ht. destruct n as [t|k| |]; try discriminate H; [destruct t; try discriminate H|destruct k; try discriminate Ht].
    all: cbn [parse_tref]; rewrite ?H; try reflexivity.
  Qed.

  (** ** column lists *)
  Lemma cols_elems cols post :
    forallb is_word cols = true -> forallb (later_ok d) (tl cols) = true ->
    elems_ok (parse_ident) (trail_all d) (fun c => [c]) cols post.
  Proof.
    induction cols as [|c r IH]; [intros; exact I|]. cbn [forallb tl]. intros Hw Hl.
    apply andb_true_iff in Hw. destruct Hw as [Hc Hw]. cbn [elems_ok]. split; [|split].
    - cbn [app]. unfold parse_ident. rewrite Hc. reflexivity.
    - intro Hne. destruct r as [|c2 r']; [congruence|].
      rewrite sepc_follow. cbn [app]. cbn [forallb] in Hl, Hw.
      apply andb_true_iff in Hl. destruct Hl as [Hl _]. apply andb_true_iff in Hw. destruct Hw as [Hw _].
      apply notrail_word; assumption.
    - apply IH; [exact Hw|]. destruct r as [|c2 r']; [reflexivity|]. cbn [tl forallb] in *.
      apply andb_true_iff in Hl. tauto.
  Qed.

  Lemma cols_rt cols post :
    cols_wf d cols = true ->
    parse_cols d (sepc (map (fun c => [c]) cols) ++ QE TRParen :: post) = Ok (cols, post).
  Proof.
    intro Hw. unfold cols_wf in Hw. destruct cols as [|c0 r0]; [discriminate|].
    apply andb_true_iff in Hw. destruct Hw as [Hw Hl]. unfold parse_cols.
    rewrite comma_list_rt; [reflexivity|discriminate|apply cols_elems; assumption|reflexivity|].
    apply fuel_commas.
  Qed.

  Hypothesis Hb : forall b p post,
    bwf d b = true -> (blevel b <= f)%nat -> blspine_gtb p b = true -> headpow post <= p ->
    brspine_geb (headpow post) b = true -> (5 <= hrank post)%nat -> qfrag d (btoks b ++ post) = true ->
    recb p (btoks b ++ post) = Ok (b, post).
  Hypothesis Ht : forall t post,
    twj_wf d t = true -> (S (twjlevel t) <= f)%nat -> qfrag d (twj_toks t ++ post) = true -> fol 2 post ->
    rect (twj_toks t ++ post) = Ok (t, post).
  Hypothesis Hn : forall r post,
    tref_wf d r = true -> first_ok r = true -> (S (tlevel r) <= f)%nat ->
    (bare_derived r = true -> jstart post = true) -> qfrag d (tref_toks r ++ post) = true ->
    notq (recq (tref_toks r ++ post)).

  Lemma parse_derived_err r : notq (recq r) -> parse_derived d recq r = Err.
  Proof.
    unfold parse_derived. destruct (recq r) as [[q0 [|[[]| | |] r0]]| | |]; cbn [notq]; intro H; try reflexivity; contradiction.
  Qed.

  Lemma tref_rt t post :
    tref_wf d t = true -> (tlevel t <= f)%nat -> qfrag d (tref_toks t ++ post) = true -> tfol post ->
    parse_tref d recq rect (tref_toks t ++ post) = Ok (t, post).
  Proof.
    intros Hw Hl Hf Hp. destruct (fol_noalias_tab _ Hp) as [Hna Hnl].
    destruct t as [n a|q a|x a]; cbn [tref_wf tref_toks tlevel] in *.
    - apply andb_true_iff in Hw. destruct Hw as [Hn' Ha]. unfold name_ok in Hn'.
      apply andb_true_iff in Hn'. destruct Hn' as [Hn' Htb]. apply negb_true_iff in Htb.
      apply andb_true_iff in Hn'. destruct Hn' as [Hn' Hu]. apply negb_true_iff in Hu.
      cbn [app]. rewrite parse_tref_word by assumption. rewrite Hu.
      rewrite table_follow_ok by exact Hp. cbn [bind].
      rewrite parse_talias_rt by assumption. cbn [bind]. apply hint_miss. exact Hp.
    - apply andb_true_iff in Hw. destruct Hw as [Hqw Ha].
      cbn [app parse_tref]. rewrite <- app_assoc. cbn [app]. unfold parse_derived.
      rewrite Hq; auto.
      + rewrite parse_talias_rt by assumption. reflexivity.
      + cbn [app] in Hf. apply qfrag_cons in Hf. rewrite <- app_assoc in Hf. exact Hf.
    - apply andb_true_iff in Hw. destruct Hw as [Hw Ha]. apply andb_true_iff in Hw. destruct Hw as [Hxw Hno].
      unfold nested_ok in Hno. apply andb_true_iff in Hno. destruct Hno as [Hsh Hfi].
      cbn [app parse_tref]. rewrite <- app_assoc. cbn [app].
      cbn [app] in Hf. apply qfrag_cons in Hf. rewrite <- app_assoc in Hf. cbn [app] in Hf.
      rewrite parse_derived_err.
      + rewrite Ht; [|exact Hxw|exact Hl|exact Hf|right; cbn [hrank]; lia]. cbn [bind]. rewrite Hsh.
        rewrite Hfi. cbn [negb]. rewrite parse_talias_rt by assumption. reflexivity.
      + destruct x as [r js]. cbn [twj_toks twj_wf twjlevel first_of] in *. rewrite <- app_assoc in *.
        apply andb_true_iff in Hxw. destruct Hxw as [Hrw _].
        apply Hn; [exact Hrw|exact Hfi|lia| |exact Hf].
        intro Hbd. apply jstart_joins. destruct r as [| q0 [a0|]|]; try discriminate Hbd.
        destruct js; [discriminate Hsh|discriminate].
  Qed.

  (** ** joins *)
  Lemma jkind_rt k X : parse_jkind (jkind_toks k ++ X) = Ok (Some (k, X)).
  Proof. destruct k; reflexivity. Qed.

  Lemma jcons_none rest : jfol rest -> parse_jcons d recq false rest = Ok (JNone, rest).
  Proof.
    intros [[Hp|Hp]|Hp].
    - head_cases rest; cbn [is_comma] in Hp; try discriminate Hp; reflexivity.
    - head_cases rest; cbn [hrank] in Hp; try lia; reflexivity.
    - qhead rest; cbn [jstart] in Hp; try discriminate Hp; reflexivity.
  Qed.

  Lemma jcons_rt c rest :
    jcons_wf d c = true -> (jclevel c <= f)%nat -> jfol rest -> qfrag d (jcons_toks c ++ rest) = true ->
    parse_jcons d recq (match c with JNatural => true | _ => false end) (jcons_toks c ++ rest) = Ok (c, rest).
  Proof.
    intros Hw Hlv Hp Hf. destruct c as [x|cols| |]; cbn [jcons_toks jcons_wf jcons_wfg jclevel app] in *.
    - cbn [parse_jcons].
      rewrite pex_rt; [reflexivity|exact Hw|exact Hlv|eapply qfrag_cons; exact Hf|apply jfol_estop; exact Hp].
    - cbn [parse_jcons]. unfold cols_toks. cbn [app]. rewrite <- app_assoc. cbn [app].
      rewrite cols_rt by exact Hw. reflexivity.
    - reflexivity.
    - apply jcons_none. exact Hp.
  Qed.

  Lemma join_loop_end g post : (0 < g)%nat -> fol 2 post -> join_loop d recq rect g post = Ok ([], post).
  Proof.
    intros Hg Hp. destruct g as [|g]; [lia|]. cbn [join_loop].
    destruct Hp as [Hp|Hp]; head_cases post; cbn [is_comma hrank] in Hp; try discriminate Hp; try lia; reflexivity.
  Qed.

  Lemma join_rt o r rest g :
    jop_wf d o = true -> (joplevel o <= f)%nat -> tref_wf d r = true -> (tlevel r <= f)%nat -> jfol rest ->
    qfrag d (join_toks (Join o r) ++ rest) = true ->
    join_loop d recq rect (S g) (join_toks (Join o r) ++ rest) =
    bind (join_loop d recq rect g rest) (fun '(js, r4) => Ok (Join o r :: js, r4)).
  Proof.
    intros Hw Hol Hrw Hl Hp Hf. cbn [join_toks] in *. rewrite <- !app_assoc in *.
    destruct o as [|k c].
    - cbn [jop_pre jop_suf app] in *. cbn [join_loop].
      rewrite tref_rt; [reflexivity|exact Hrw|exact Hl| |apply jfol_tfol; exact Hp].
      do 2 apply qfrag_cons in Hf. exact Hf.
    - assert (Hpre : jop_pre (JOp k c) = (match c with JNatural => [QK KNatural] | _ => [] end) ++ jkind_toks k)
        by (destruct c; reflexivity).
      rewrite Hpre in *. rewrite <- !app_assoc in *. cbn [jop_suf jop_wf jop_wfg joplevel] in *.
      assert (Htf : tfol (jcons_toks c ++ rest)).
      { destruct c; cbn [jcons_toks app]; try (apply jfol_tfol; exact Hp); right; reflexivity. }
      assert (Hf2 : qfrag d (tref_toks r ++ jcons_toks c ++ rest) = true).
      { apply qfrag_app in Hf. apply qfrag_app in Hf. exact Hf. }
      assert (Hf3 : qfrag d (jcons_toks c ++ rest) = true) by (apply qfrag_app in Hf2; exact Hf2).
      pose proof (jcons_rt c rest Hw Hol Hp Hf3) as Hc.
      destruct c as [e|cols| |]; destruct k;
        cbn [app jkind_toks join_loop opt_tok qtok_eqb qkw_beq parse_jkind expect_join bind];
        (rewrite tref_rt by assumption); cbn [bind]; rewrite Hc; reflexivity.
  Qed.

  Lemma joins_rt js : forall post g,
    forallb (join_wf d) js = true -> Forall (fun j => (jlevel j <= f)%nat) js ->
    qfrag d (concat (map join_toks js) ++ post) = true -> fol 2 post -> (length js < g)%nat ->
    join_loop d recq rect g (concat (map join_toks js) ++ post) = Ok (js, post).
  Proof.
    induction js as [|[o r] js IH]; intros post g Hw Hl Hf Hp Hg.
    - apply join_loop_end; [lia|exact Hp].
    - destruct g as [|g]; [lia|]. cbn [map concat] in *. rewrite <- app_assoc in *.
      cbn [forallb] in Hw. apply andb_true_iff in Hw. destruct Hw as [Hw Hws].
      assert (Hw' : jop_wf d o && tref_wf d r = true) by exact Hw.
      apply andb_true_iff in Hw'. destruct Hw' as [How Hrw]. inversion Hl as [|? ? Hl1 Hl2]; subst. cbn [jlevel] in Hl1.
      rewrite join_rt; [|exact How|lia|exact Hrw|lia|apply joins_jfol; exact Hp|exact Hf].
      rewrite IH; [reflexivity|exact Hws|exact Hl2|eapply qfrag_app; exact Hf|exact Hp|cbn [length] in Hg; lia].
  Qed.

  Lemma twj_rt t post :
    twj_wf d t = true -> (twjlevel t <= f)%nat -> qfrag d (twj_toks t ++ post) = true -> fol 2 post ->
    twj_step d recq rect (twj_toks t ++ post) = Ok (t, post).
  Proof.
    destruct t as [r js]. cbn [twjlevel twj_toks]. intros Hw Hl Hf Hp.
    assert (Hw' : tref_wf d r && forallb (join_wf d) js = true) by exact Hw.
    apply andb_true_iff in Hw'. destruct Hw' as [Hrw Hjw]. rewrite <- app_assoc in *. unfold twj_step.
    rewrite tref_rt; [|exact Hrw|lia|exact Hf|apply jfol_tfol, joins_jfol; exact Hp]. cbn [bind].
    rewrite joins_rt; [reflexivity|exact Hjw| |eapply qfrag_app; exact Hf|exact Hp|].
    - apply maxl_map_le. lia.
    - pose proof (joins_length js post). lia.
  Qed.

  Lemma notrail_twj t r :
    twj_wf d t = true -> twj_head_ok d t = true -> notrail (trail_all d) (twj_toks t ++ r).
  Proof.
    destruct t as [[n a|q a|x a] js]; cbn [twj_head_ok twj_toks tref_toks]; intros Hw Hl;
      rewrite <- ?app_assoc; cbn [app].
    - apply notrail_word; [|exact Hl].
      assert (Hw' : name_ok d n && optb is_word a && forallb (join_wf d) js = true) by exact Hw.
      apply andb_true_iff in Hw'. destruct Hw' as [Hw' _].
      apply andb_true_iff in Hw'. destruct Hw' as [Hw' _]. unfold name_ok in Hw'. apply andb_true_iff in Hw'.
      destruct Hw' as [Hw' _]. apply andb_true_iff in Hw'. tauto.
    - apply notrail_lparen.
    - apply notrail_lparen.
  Qed.

  Lemma twjs_rt from post g :
    from <> [] -> forallb (twj_wf d) from = true -> later_names_ok d from = true ->
    Forall (fun t => (twjlevel t <= f)%nat) from ->
    qfrag d (sepc (map twj_toks from) ++ post) = true -> (2 <= hrank post)%nat -> (length from <= g)%nat ->
    comma_list (twj_step d recq rect) (trail_all d) g (sepc (map twj_toks from) ++ post) = Ok (from, post).
  Proof.
    intros Hne Hw Hln Hlv Hf Hr Hg. apply comma_list_rt; auto.
    - eapply (elems_ok_build _ _ _ (fun t => twj_wf d t && Nat.leb (twjlevel t) f) (fol 2)); eauto using fol_comma.
      + intros x post' Hx Hqf Hp. apply andb_true_iff in Hx. destruct Hx as [Hx1 Hx2]. apply PeanoNat.Nat.leb_le in Hx2.
        apply twj_rt; auto.
      + rewrite forallb_forall in *. intros x Hin. rewrite (Hw x Hin). rewrite Forall_forall in Hlv.
        apply PeanoNat.Nat.leb_le. auto.
      + destruct from as [|t0 r0]; [constructor|]. cbn [tl later_names_ok] in *.
        apply Forall_forall. intros x Hin r. rewrite forallb_forall in Hw, Hln.
        apply notrail_twj; [apply Hw; right; exact Hin|apply Hln; exact Hin].
      + right; exact Hr.
    - eapply hrank_not_comma; [|exact Hr]. lia.
  Qed.

  (** ** clauses *)
  Lemma clause_rt k n x post :
    hrank [k] = n -> (1 <= n)%nat -> (k = QK KWhere \/ k = QK KHaving) ->
    oxwf d x = true -> (oxlevel x <= f)%nat -> qfrag d (clause_toks k (otoks x) ++ post) = true -> (S n <= hrank post)%nat ->
    opt_clause d recq k (clause_toks k (otoks x) ++ post) = Ok (x, post).
  Proof.
    intros Hk Hn' Hkk Hw Hlv Hf Hr. destruct x as [e|]; cbn [clause_toks otoks option_map oxwf oxlevel app] in *.
    - cbn [opt_clause].
      assert (Hkk' : qtok_eqb k k = true) by (destruct Hkk; subst; reflexivity). rewrite Hkk'.
      rewrite pex_rt; [reflexivity|assumption|assumption|eapply qfrag_cons; eauto|apply hrank_estop; lia].
    - destruct Hkk; subst k; cbn [hrank] in Hk; subst n; [apply opt_where_miss|apply opt_having_miss]; lia.
  Qed.

  Lemma from_rt from post :
    forallb (twj_wf d) from = true -> later_names_ok d from = true ->
    Forall (fun t => (twjlevel t <= f)%nat) from ->
    qfrag d (from_toks (map twj_toks from) ++ post) = true -> (2 <= hrank post)%nat ->
    parse_from d recq rect (from_toks (map twj_toks from) ++ post) = Ok (from, post).
  Proof.
    intros Hw Hl Hlv Hf Hr. unfold parse_from. destruct from as [|t0 r0].
    - cbn [map from_toks app]. rewrite opt_from_miss by assumption. reflexivity.
    - change (from_toks (map twj_toks (t0 :: r0)) ++ post)
        with (QE (TKw KFrom) :: sepc (map twj_toks (t0 :: r0)) ++ post) in *.
      rewrite opt_tok_hit by reflexivity.
      apply twjs_rt; [discriminate|exact Hw|exact Hl|exact Hlv|eapply qfrag_cons; eauto|exact Hr|apply fuel_commas].
  Qed.

  Lemma group_rt gb post :
    forallb (xwf d) gb = true -> Forall (fun x => (xlevel x <= f)%nat) gb ->
    qfrag d (group_toks (map xtoks gb) ++ post) = true -> (4 <= hrank post)%nat ->
    parse_group_by d recq (group_toks (map xtoks gb) ++ post) = Ok (gb, post).
  Proof.
    intros Hw Hlv Hf Hr. unfold parse_group_by. destruct gb as [|e0 r0].
    - cbn [map group_toks app]. rewrite opt_group_miss by assumption. reflexivity.
    - change (group_toks (map xtoks (e0 :: r0)) ++ post)
        with (QK KGroup :: QK KBy :: sepc (map xtoks (e0 :: r0)) ++ post) in *.
      change (opt_tok2 (QK KGroup) (QK KBy) (QK KGroup :: QK KBy :: sepc (map xtoks (e0 :: r0)) ++ post))
        with (true, sepc (map xtoks (e0 :: r0)) ++ post).
      destruct (exprs_head (e0 :: r0) post ltac:(discriminate) Hw) as (t & r & E & St).
      rewrite E at 1. rewrite opt_start_miss by auto. cbn [fst].
      rewrite exprs_rt; [|discriminate|exact Hw|exact Hlv|do 2 (eapply qfrag_cons in Hf); exact Hf|exact Hr|apply fuel_commas].
      cbn [bind]. rewrite opt_with_miss by lia. cbn [fst]. rewrite andb_false_r. reflexivity.
  Qed.

  Lemma order_rt ob post :
    forallb (oelem_wf d) ob = true -> Forall (fun o => (oelevel o <= f)%nat) ob ->
    qfrag d (order_toks (map oelem_toks ob) ++ post) = true -> (7 <= hrank post)%nat ->
    parse_order_by d recq (order_toks (map oelem_toks ob) ++ post) = Ok (ob, post).
  Proof.
    intros Hw Hlv Hf Hr. unfold parse_order_by. destruct ob as [|e0 r0].
    - cbn [map order_toks app]. rewrite opt_order_miss by assumption. reflexivity.
    - change (order_toks (map oelem_toks (e0 :: r0)) ++ post)
        with (QK KOrder :: QK KBy :: sepc (map oelem_toks (e0 :: r0)) ++ post) in *.
      change (opt_tok2 (QK KOrder) (QK KBy) (QK KOrder :: QK KBy :: sepc (map oelem_toks (e0 :: r0)) ++ post))
        with (true, sepc (map oelem_toks (e0 :: r0)) ++ post).
      apply orders_rt; [discriminate|exact Hw|exact Hlv|do 2 (eapply qfrag_cons in Hf); exact Hf|exact Hr|apply fuel_commas].
  Qed.

  (** ** SELECT *)
  Lemma select_prefix dist ts2 :
    (exists h r, ts2 = h :: r /\ (xstart h = true \/ h = QE (TOp K_Mul))) ->
    fst (opt_tok (QK KAs) (dist_toks dist ++ ts2)) = false /\
    opt_tok (QE (TKw KAll)) (dist_toks dist ++ ts2) = (false, dist_toks dist ++ ts2) /\
    opt_tok (QE (TKw KDistinct)) (dist_toks dist ++ ts2) = (dist, ts2) /\
    fst (opt_tok (QK KOn) ts2) = false.
  Proof.
    intros (t & r & E & St). subst ts2. rewrite (opt_start_miss (QK KOn)) by auto.
    destruct dist; cbn [dist_toks app].
    - repeat split; reflexivity.
    - rewrite !opt_start_miss by auto. repeat split; reflexivity.
  Qed.

  Lemma hrank_clause k (x : option (list qtok)) post n :
    (n <= hrank [k])%nat -> (n <= hrank post)%nat -> (n <= hrank (clause_toks k x ++ post))%nat.
  Proof. destruct x; cbn [clause_toks app]; auto. Qed.

  Lemma select_ranks (from : list twj) wh gb hv post :
    (5 <= hrank post)%nat ->
    (4 <= hrank (clause_toks (QK KHaving) (otoks hv) ++ post))%nat /\
    (3 <= hrank (group_toks (map xtoks gb) ++ clause_toks (QK KHaving) (otoks hv) ++ post))%nat /\
    (2 <= hrank (clause_toks (QK KWhere) (otoks wh) ++ group_toks (map xtoks gb) ++ clause_toks (QK KHaving) (otoks hv) ++ post))%nat /\
    (1 <= hrank (from_toks (map twj_toks from) ++ clause_toks (QK KWhere) (otoks wh) ++ group_toks (map xtoks gb) ++
                 clause_toks (QK KHaving) (otoks hv) ++ post))%nat.
  Proof.
    intro Hr.
    assert (R6 : (4 <= hrank (clause_toks (QK KHaving) (otoks hv) ++ post))%nat) by (apply hrank_clause; cbn [hrank]; lia).
    assert (R5 : (3 <= hrank (group_toks (map xtoks gb) ++ clause_toks (QK KHaving) (otoks hv) ++ post))%nat)
      by (destruct gb; cbn [map group_toks app hrank]; lia).
    assert (R4 : (2 <= hrank (clause_toks (QK KWhere) (otoks wh) ++ group_toks (map xtoks gb) ++ clause_toks (QK KHaving) (otoks hv) ++ post))%nat)
      by (apply hrank_clause; cbn [hrank]; lia).
    repeat split; auto. destruct from; cbn [map from_toks app hrank]; lia.
  Qed.

  Lemma tail_ranks (ob : list oelem) lim off post :
    hrank post = 9%nat ->
    (8 <= hrank (clause_toks (QK KOffset) (otoks off) ++ post))%nat /\
    (7 <= hrank (clause_toks (QK KLimit) (otoks lim) ++ clause_toks (QK KOffset) (otoks off) ++ post))%nat /\
    (6 <= hrank (order_toks (map oelem_toks ob) ++ clause_toks (QK KLimit) (otoks lim) ++ clause_toks (QK KOffset) (otoks off) ++ post))%nat.
  Proof.
    intro Hr.
    assert (R3 : (8 <= hrank (clause_toks (QK KOffset) (otoks off) ++ post))%nat) by (apply hrank_clause; cbn [hrank]; lia).
    assert (R2 : (7 <= hrank (clause_toks (QK KLimit) (otoks lim) ++ clause_toks (QK KOffset) (otoks off) ++ post))%nat)
      by (apply hrank_clause; cbn [hrank]; lia).
    repeat split; auto. destruct ob; cbn [map order_toks app hrank]; lia.
  Qed.

  Lemma select_rt dist items from wh gb hv post :
    bwf d (BSelect dist items from wh gb hv) = true ->
    (blevel (BSelect dist items from wh gb hv) <= S f)%nat ->
    (5 <= hrank post)%nat -> qfrag d (btoks (BSelect dist items from wh gb hv) ++ post) = true ->
    parse_operand d recq rect (btoks (BSelect dist items from wh gb hv) ++ post) = Ok (BSelect dist items from wh gb hv, post).
  Proof.
    intros Hw Hl Hr Hf. rewrite bwf_select in Hw. rewrite blevel_select in Hl. rewrite btoks_select in *.
    repeat (apply andb_true_iff in Hw; destruct Hw as [Hw ?]).
    assert (Hlv : Forall (fun t => (twjlevel t <= f)%nat) from) by (apply maxl_map_le; clear - Hl; lia).
    assert (Hli : Forall (fun i => (ilevel i <= f)%nat) items) by (apply maxl_map_le; clear - Hl; lia).
    assert (Hlg : Forall (fun x => (xlevel x <= f)%nat) gb) by (apply maxl_map_le; clear - Hl; lia).
    assert (Hlw : (oxlevel wh <= f)%nat) by (clear - Hl; lia).
    assert (Hlh : (oxlevel hv <= f)%nat) by (clear - Hl; lia).
    cbn [app parse_operand]. cbn [app] in Hf. apply qfrag_cons in Hf.
    repeat rewrite <- app_assoc in *.
    set (T6 := clause_toks (QK KHaving) (otoks hv) ++ post) in *.
    set (T5 := group_toks (map xtoks gb) ++ T6) in *.
    set (T4 := clause_toks (QK KWhere) (otoks wh) ++ T5) in *.
    set (T3 := from_toks (map twj_toks from) ++ T4) in *.
    set (ts2 := sepc (map item_toks items) ++ T3) in *.
    destruct (select_ranks from wh gb hv post Hr) as (R6 & R5 & R4 & R3).
    change (4 <= hrank T6)%nat in R6. change (3 <= hrank T5)%nat in R5. change (2 <= hrank T4)%nat in R4. change (1 <= hrank T3)%nat in R3.
    assert (Hne : items <> []) by (destruct items; [discriminate|discriminate]).
    assert (F2 : qfrag d ts2 = true) by (eapply qfrag_app; exact Hf).
    assert (F3 : qfrag d T3 = true) by (eapply qfrag_app; exact F2).
    assert (F4 : qfrag d T4 = true) by (eapply qfrag_app; exact F3).
    assert (F5 : qfrag d T5 = true) by (eapply qfrag_app; exact F4).
    assert (F6 : qfrag d T6 = true) by (eapply qfrag_app; exact F5).
    destruct (select_prefix dist ts2 (items_head items T3 Hne ltac:(assumption))) as (P1 & P2 & P3 & P4).
    unfold parse_select. rewrite P1, P2, P3, P4. cbn [andb]. rewrite andb_false_r.
    assert (Hpt : proj_trailing d && comma_rparen ts2 = false).
    { destruct (proj_trailing d) eqn:T; [|reflexivity]. cbn [andb]. eapply qfrag_trail; eauto. }
    rewrite Hpt.
    unfold ts2 at 2. rewrite items_rt; [|exact Hne|assumption|exact Hli|exact F2|exact R3|apply fuel_commas]. cbn [bind].
    unfold T3. rewrite from_rt; [|assumption|assumption|exact Hlv|exact F3|exact R4]. cbn [bind].
    assert (Hwh : oxwf d wh = true) by assumption.
    assert (Hhv : oxwf d hv = true) by assumption.
    unfold T4. rewrite (clause_rt (QK KWhere) 2 wh T5 eq_refl (le_S _ _ (le_n 1)) (or_introl eq_refl) Hwh Hlw F4 R5). cbn [bind].
    unfold T5. rewrite group_rt; [|assumption|exact Hlg|exact F5|exact R6]. cbn [bind].
    unfold T6. rewrite (clause_rt (QK KHaving) 4 hv post eq_refl (le_S _ _ (le_S _ _ (le_S _ _ (le_n 1)))) (or_intror eq_refl) Hhv Hlh F6 Hr). reflexivity.
  Qed.

  Lemma nested_rt q post :
    qwf d q = true -> (qlevel q <= f)%nat -> qfrag d (btoks (BNested q) ++ post) = true ->
    parse_operand d recq rect (btoks (BNested q) ++ post) = Ok (BNested q, post).
  Proof.
    intros Hw Hl Hf. rewrite btoks_nested in *. cbn [app parse_operand] in *. rewrite <- app_assoc in *. cbn [app] in *.
    rewrite Hq; [reflexivity|exact Hw|exact Hl|reflexivity|eapply qfrag_cons; exact Hf].
  Qed.

  (** ** VALUES and TABLE *)
  Lemma vrow_rt r post :
    vrow_wf d r = true -> (vrlevel r <= f)%nat -> qfrag d (vrow_toks r ++ post) = true ->
    parse_vrow d recq (vrow_toks r ++ post) = Ok (r, post).
  Proof.
    destruct r as [l]. rewrite vrow_wf_row. cbn [vrlevel vrow_toks]. intros Hw Hlv Hf.
    apply andb_true_iff in Hw. destruct Hw as [He Hw]. cbn [app parse_vrow]. rewrite <- app_assoc.
    cbn [app] in Hf. apply qfrag_cons in Hf. rewrite <- app_assoc in Hf.
    destruct l as [|x0 l0].
    - cbn [map sepc app]. rewrite He. reflexivity.
    - assert (Hx : xwf d x0 = true) by (cbn [forallb] in Hw; apply andb_true_iff in Hw; tauto).
      remember (sepc (map xtoks (x0 :: l0)) ++ [QE TRParen] ++ post) as R eqn:ER.
      assert (Hh : exists h r', R = h :: r' /\ xstart h = true).
      { subst R. rewrite sepc_follow.
        destruct (xtoks_head x0 (follow xtoks l0 ([QE TRParen] ++ post)) Hx) as (h & r' & E & Hh & _). eauto. }
      destruct Hh as (h & r' & E & Hh). rewrite E.
      destruct h as [t|k| |]; cbn [xstart] in Hh; try discriminate Hh.
      + destruct t; cbn [starts] in Hh; try discriminate Hh; rewrite <- E; subst R;
          (rewrite exprs_like_rt; [reflexivity|discriminate|exact Hw|apply maxl_map_le; exact Hlv|exact Hf|reflexivity|apply fuel_commas]).
      + rewrite <- E; subst R.
        rewrite exprs_like_rt; [reflexivity|discriminate|exact Hw|apply maxl_map_le; exact Hlv|exact Hf|reflexivity|apply fuel_commas].
  Qed.

  Lemma values_rt rows post :
    bwf d (BValues rows) = true -> (blevel (BValues rows) <= S f)%nat -> (5 <= hrank post)%nat ->
    qfrag d (btoks (BValues rows) ++ post) = true ->
    parse_operand d recq rect (btoks (BValues rows) ++ post) = Ok (BValues rows, post).
  Proof.
    rewrite bwf_values. cbn [blevel btoks]. intros Hw Hl Hr Hf. apply andb_true_iff in Hw. destruct Hw as [Hne Hw].
    cbn [app parse_operand]. cbn [app] in Hf. apply qfrag_cons in Hf.
    rewrite comma_list_rt; [reflexivity|destruct rows; [discriminate Hne|discriminate]| | |apply fuel_commas].
    - eapply (elems_ok_build _ _ _ (fun r => vrow_wf d r && Nat.leb (vrlevel r) f) (fol 5)); eauto using fol_comma.
      + intros x post' Hx Hqf Hp. apply andb_true_iff in Hx. destruct Hx as [Hx1 Hx2]. apply PeanoNat.Nat.leb_le in Hx2.
        apply vrow_rt; auto.
      + assert (Hlv : Forall (fun r => (vrlevel r <= f)%nat) rows) by (apply maxl_map_le; clear - Hl; lia).
        rewrite forallb_forall in *. intros x Hin. rewrite (Hw x Hin). rewrite Forall_forall in Hlv.
        apply PeanoNat.Nat.leb_le. auto.
      + apply Forall_forall. intros [l] Hin r. cbn [vrow_toks app]. apply notrail_lparen.
      + right; exact Hr.
    - eapply hrank_not_comma; [|exact Hr]. lia.
  Qed.

  Lemma table_rt n post :
    bwf d (BTable n) = true -> parse_operand d recq rect (btoks (BTable n) ++ post) = Ok (BTable n, post).
  Proof. intro Hw. cbn [btoks app parse_operand]. change (is_word n = true) in Hw. rewrite Hw. reflexivity. Qed.

  (** ** the set-operation loop *)
  Lemma bloop_stop g p e post :
    (0 < g)%nat -> headpow post <= p -> bloop recb g p e post = Ok (e, post).
  Proof.
    intros Hg Hp. destruct g as [|g]; [lia|]. cbn [bloop]. unfold headpow in Hp.
    destruct (set_op_of post) as [[o ts1]|]; [|reflexivity].
    destruct (N.leb_spec (sp_pinned o) p); [reflexivity|lia].
  Qed.

  Lemma parse_quant_rt q b post : parse_quant (quant_toks q ++ btoks b ++ post) = (q, btoks b ++ post).
  Proof.
    destruct q; cbn [quant_toks app parse_quant]; try reflexivity.
    destruct (btoks_head b) as (h & r & E & [H|[H|[H|H]]]); rewrite E; subst h; reflexivity.
  Qed.

  Lemma headpow_kw o r : headpow (setop_kw o :: r) = sp_pinned o.
  Proof. unfold headpow. rewrite set_op_of_kw. reflexivity. Qed.

  Lemma body_as_loop b : forall p post,
    bwf d b = true -> (blevel b <= S f)%nat -> blspine_gtb p b = true ->
    brspine_geb (headpow post) b = true -> (5 <= hrank post)%nat -> qfrag d (btoks b ++ post) = true ->
    exists g, (length post < g)%nat /\
      body_step d recq recb rect p (btoks b ++ post) = bloop recb g p b post.
  Proof.
    induction b as [dist items from wh gb hv|o q l IHl r IHr|q|rows|n]; intros p post Hw Hl Hls Hrs Hr Hf.
    - exists (S (length post)). split; [lia|]. unfold body_step. rewrite select_rt; auto.
    - cbn [bwf] in Hw. repeat (apply andb_true_iff in Hw; destruct Hw as [Hw ?]).
      cbn [blevel] in Hl.
      assert (Hll : (blevel l <= S f)%nat) by (clear - Hl; lia).
      assert (Hlr : (blevel r <= f)%nat) by (clear - Hl; lia).
      cbn [blspine_gtb] in Hls. apply andb_true_iff in Hls. destruct Hls as [Hpo Hls].
      apply N.ltb_lt in Hpo. cbn [brspine_geb] in Hrs. apply andb_true_iff in Hrs. destruct Hrs as [Hho Hrs].
      apply N.leb_le in Hho. rewrite btoks_setop in *. rewrite <- app_assoc in *. cbn [app] in *. rewrite <- app_assoc in *.
      assert (Hk5 : (5 <= hrank (setop_kw o :: quant_toks q ++ btoks r ++ post))%nat)
        by (destruct o; cbn [setop_kw hrank]; repeat constructor).
      destruct (IHl p (setop_kw o :: quant_toks q ++ btoks r ++ post)) as (g & Hg & E);
        [assumption|exact Hll|exact Hls|rewrite headpow_kw; assumption|exact Hk5|exact Hf|].
      destruct g as [|g]; [clear - Hg; lia|]. exists g. split.
      { cbn [length] in Hg. rewrite !app_length in Hg. clear - Hg. lia. }
      rewrite E. cbn [bloop]. rewrite set_op_of_kw.
      destruct (N.leb_spec (sp_pinned o) p) as [Hc|Hc]; [clear - Hc Hpo; lia|]. rewrite parse_quant_rt.
      rewrite Hb; [reflexivity|assumption|exact Hlr|assumption|exact Hho|exact Hrs|exact Hr|].
      apply qfrag_app in Hf. apply qfrag_cons in Hf. apply qfrag_app in Hf. exact Hf.
    - rewrite bwf_nested in Hw. rewrite blevel_nested in Hl.
      exists (S (length post)). split; [lia|]. unfold body_step. rewrite nested_rt; auto. lia.
    - exists (S (length post)). split; [lia|]. unfold body_step. rewrite values_rt; auto.
    - exists (S (length post)). split; [lia|]. unfold body_step. rewrite table_rt; auto.
  Qed.

  Lemma body_rt b p post :
    bwf d b = true -> (blevel b <= S f)%nat -> blspine_gtb p b = true -> headpow post <= p ->
    brspine_geb (headpow post) b = true -> (5 <= hrank post)%nat -> qfrag d (btoks b ++ post) = true ->
    body_step d recq recb rect p (btoks b ++ post) = Ok (b, post).
  Proof.
    intros Hw Hl Hls Hp Hrs Hr Hf.
    destruct (body_as_loop b p post Hw Hl Hls Hrs Hr Hf) as (g & Hg & E). rewrite E.
    apply bloop_stop; [lia|exact Hp].
  Qed.

  (** ** LIMIT / OFFSET *)
  Lemma opt_all_x x r : xwf d x = true -> opt_tok (QE (TKw KAll)) (xtoks x ++ r) = (false, xtoks x ++ r).
  Proof. intro Hw. destruct (xtoks_head x r Hw) as (h & r' & E & Hh & _). rewrite E. apply opt_start_miss; auto. Qed.

  Lemma limit_iter_first lim off post :
    oxwf d lim = true -> oxwf d off = true -> (oxlevel lim <= f)%nat -> (oxlevel off <= f)%nat -> ender post = true ->
    qfrag d (clause_toks (QK KLimit) (otoks lim) ++ clause_toks (QK KOffset) (otoks off) ++ post) = true ->
    limit_iter d recq (None, None) (clause_toks (QK KLimit) (otoks lim) ++ clause_toks (QK KOffset) (otoks off) ++ post) = Ok ((lim, off), post).
  Proof.
    intros Hl Ho Hll Hlo He Hf. pose proof (ender_hrank _ He) as Hr.
    assert (R3 : (8 <= hrank (clause_toks (QK KOffset) (otoks off) ++ post))%nat) by (apply hrank_clause; cbn [hrank]; lia).
    assert (F3 : qfrag d (clause_toks (QK KOffset) (otoks off) ++ post) = true) by (eapply qfrag_app; exact Hf).
    unfold limit_iter. destruct lim as [e|]; cbn [clause_toks otoks option_map oxwf oxlevel app] in *.
    - rewrite opt_tok_hit by reflexivity. rewrite opt_all_x by exact Hl.
      rewrite pex_rt; [|assumption|assumption|eapply qfrag_cons; eauto|apply hrank_estop; lia]. cbn [bind].
      destruct off as [e2|]; cbn [clause_toks otoks option_map oxwf oxlevel app] in *.
      + rewrite opt_tok_hit by reflexivity.
        rewrite pex_rt; [|assumption|assumption|eapply qfrag_cons; eauto|apply hrank_estop; lia]. reflexivity.
      + rewrite opt_offset_miss by lia. cbn [bind]. rewrite opt_comma_miss by lia. rewrite andb_false_r. reflexivity.
    - rewrite opt_limit_miss by lia. cbn [bind].
      destruct off as [e2|]; cbn [clause_toks otoks option_map oxwf oxlevel app] in *.
      + rewrite opt_tok_hit by reflexivity.
        rewrite pex_rt; [|assumption|assumption|eapply qfrag_cons; eauto|apply hrank_estop; lia]. reflexivity.
      + rewrite opt_offset_miss by lia. reflexivity.
  Qed.

  Lemma limit_iter_again lim off post :
    ender post = true -> limit_iter d recq (lim, off) post = Ok ((lim, off), post).
  Proof.
    intro He. pose proof (ender_hrank _ He) as Hr. unfold limit_iter.
    destruct lim as [l|]; [|rewrite opt_limit_miss by lia]; cbn [bind];
      (destruct off as [o|]; [|rewrite opt_offset_miss by lia]); cbn [bind]; try reflexivity.
    rewrite opt_comma_miss by lia. rewrite andb_false_r. reflexivity.
  Qed.

  (** ** WITH *)
  (** what follows a CTE: a comma or the query body *)
  Definition cfol (post : list qtok) : Prop := is_comma post = true \/ bstart post = true.

  Lemma cfol_from {B} post (X Y : res B) :
    cfol post -> match post with QE (TKw KFrom) :: _ => X | _ => Y end = Y.
  Proof.
    intros [Hp|Hp]; destruct post as [|[[]| | |] ?]; cbn [is_comma bstart] in Hp; try discriminate Hp; reflexivity.
  Qed.

  Lemma cte_body_rt n cs q post :
    qwf d q = true -> (qlevel q <= f)%nat -> cfol post ->
    qfrag d (QE TLParen :: qtoks q ++ QE TRParen :: post) = true ->
    parse_cte_body recq n cs (QE TLParen :: qtoks q ++ QE TRParen :: post) = Ok (Cte n cs q, post).
  Proof.
    intros Hqw Hl Hp Hf. unfold parse_cte_body. rewrite Hq; [|exact Hqw|exact Hl|reflexivity|eapply qfrag_cons; exact Hf].
    cbn [bind]. apply cfol_from. exact Hp.
  Qed.

  Lemma cte_rt c post :
    cte_wf d c = true -> (clevel c <= f)%nat -> qfrag d (cte_toks c ++ post) = true -> cfol post ->
    parse_cte d recq (cte_toks c ++ post) = Ok (c, post).
  Proof.
    destruct c as [n cols q]. rewrite cte_wf_cte. cbn [clevel cte_toks]. intros Hw Hl Hf Hp.
    apply andb_true_iff in Hw. destruct Hw as [Hw Hqw]. apply andb_true_iff in Hw. destruct Hw as [Hn' Hc].
    unfold parse_cte. cbn [app]. unfold parse_ident at 1. rewrite Hn'. cbn [bind].
    cbn [app] in Hf. apply qfrag_cons in Hf.
    destruct cols as [|c0 cr].
    - cbn [ccols_toks app] in *. rewrite <- app_assoc in *. cbn [app] in *.
      apply cte_body_rt; [exact Hqw|exact Hl|exact Hp|]. eapply qfrag_cons; exact Hf.
    - cbn [ccols_toks ccols_wf] in *. unfold cols_toks in *. cbn [app] in *. rewrite <- !app_assoc in *. cbn [app] in *.
      rewrite cols_rt by exact Hc. cbn [bind].
      replace ((qtoks q ++ [QE TRParen]) ++ post) with (qtoks q ++ QE TRParen :: post) in * by (rewrite <- app_assoc; reflexivity).
      apply cte_body_rt; [exact Hqw|exact Hl|exact Hp|].
      apply qfrag_cons in Hf. apply qfrag_app in Hf. do 2 apply qfrag_cons in Hf. exact Hf.
  Qed.

  Lemma notrail_cte c r : cte_wf d c = true -> later_ok d (cte_name c) = true -> notrail (trail_all d) (cte_toks c ++ r).
  Proof.
    destruct c as [n cols q]. rewrite cte_wf_cte. cbn [cte_name cte_toks app]. intros Hw Hl.
    apply andb_true_iff in Hw. destruct Hw as [Hw _]. apply andb_true_iff in Hw. destruct Hw as [Hn' _].
    apply notrail_word; assumption.
  Qed.

  Lemma with_rt w X :
    wwf d w = true -> (match w with Some x => (wlevel x <= f)%nat | None => True end) ->
    qfrag d (wtoks w ++ X) = true -> bstart X = true ->
    parse_with d recq (wtoks w ++ X) = Ok (w, X).
  Proof.
    intros Hw Hl Hf Hx. destruct w as [[rc ctes]|]; cbn [wwf wtoks with_toks wlevel] in *.
    - rewrite with_wf_with in Hw. apply andb_true_iff in Hw. destruct Hw as [Hnm Hcw]. unfold with_names_ok in Hnm.
      destruct ctes as [|c0 cr]; [discriminate|]. apply andb_true_iff in Hnm. destruct Hnm as [Hrec Hlater].
      cbn [app parse_with]. rewrite <- app_assoc. cbn [app] in Hf. apply qfrag_cons in Hf. rewrite <- app_assoc in Hf.
      assert (Hopt : opt_tok (QK KRecursive) (rec_toks rc ++ sepc (map cte_toks (c0 :: cr)) ++ X)
                     = (rc, sepc (map cte_toks (c0 :: cr)) ++ X)).
      { destruct rc; cbn [rec_toks app]; [reflexivity|]. cbn [orb negb] in Hrec. apply negb_true_iff in Hrec.
        rewrite sepc_follow. destruct c0 as [n cols q]. cbn [cte_toks app cte_name] in *. cbn [opt_tok]. rewrite Hrec. reflexivity. }
      rewrite Hopt.
      rewrite comma_list_rt; [reflexivity|discriminate| | |apply fuel_commas].
      + eapply (elems_ok_build _ _ _ (fun c => cte_wf d c && Nat.leb (clevel c) f) cfol).
        * intro r. left. reflexivity.
        * intros x post' Hx' Hqf Hp. apply andb_true_iff in Hx'. destruct Hx' as [Hx1 Hx2]. apply PeanoNat.Nat.leb_le in Hx2.
          apply cte_rt; auto.
        * apply maxl_map_le in Hl. rewrite forallb_forall in *. intros x Hin. rewrite (Hcw x Hin).
          rewrite Forall_forall in Hl. apply PeanoNat.Nat.leb_le. auto.
        * cbn [tl]. apply Forall_forall. intros x Hin r. rewrite forallb_forall in Hcw, Hlater.
          apply notrail_cte; [apply Hcw; right; exact Hin|apply Hlater; exact Hin].
        * apply qfrag_app in Hf. exact Hf.
        * right. exact Hx.
      + destruct X as [|[[]|[]| |] ?]; try discriminate Hx; reflexivity.
    - cbn [app]. destruct X as [|[[]|[]| |] ?]; try discriminate Hx; reflexivity.
  Qed.

  (** ** the query *)
  Lemma query_rt q post :
    qwf d q = true -> (qlevel q <= S f)%nat -> ender post = true -> qfrag d (qtoks q ++ post) = true ->
    query_step d recq recb rect (qtoks q ++ post) = Ok (q, post).
  Proof.
    destruct q as [w b ob lim off]. rewrite qwf_query, qtoks_query, qlevel_query. intros Hw Hl He Hf.
    apply andb_true_iff in Hw. destruct Hw as [Hw Ht']. apply andb_true_iff in Hw. destruct Hw as [Hww Hbw].
    unfold tail_wf in Ht'.
    apply andb_true_iff in Ht'. destruct Ht' as [Ht' Hoff]. apply andb_true_iff in Ht'. destruct Ht' as [Hob Hlim].
    assert (Hlo : Forall (fun o => (oelevel o <= f)%nat) ob) by (apply maxl_map_le; clear - Hl; lia).
    assert (Lw : match w with Some x => (wlevel x <= f)%nat | None => True end) by (clear - Hl; destruct w; [lia|exact I]).
    assert (Lb : (blevel b <= S f)%nat) by (clear - Hl; lia).
    assert (Ll : (oxlevel lim <= f)%nat) by (clear - Hl; lia).
    assert (Lo : (oxlevel off <= f)%nat) by (clear - Hl; lia). clear Hl.
    pose proof (ender_hrank _ He) as Hr. repeat rewrite <- app_assoc in *.
    set (T3 := clause_toks (QK KOffset) (otoks off) ++ post) in *.
    set (T2 := clause_toks (QK KLimit) (otoks lim) ++ T3) in *.
    set (T1 := order_toks (map oelem_toks ob) ++ T2) in *.
    destruct (tail_ranks ob lim off post Hr) as (R3 & R2 & R1).
    change (8 <= hrank T3)%nat in R3. change (7 <= hrank T2)%nat in R2. change (6 <= hrank T1)%nat in R1.
    assert (F0 : qfrag d (btoks b ++ T1) = true) by (eapply qfrag_app; exact Hf).
    assert (F1 : qfrag d T1 = true) by (eapply qfrag_app; exact F0).
    assert (F2 : qfrag d T2 = true) by (eapply qfrag_app; exact F1).
    assert (H0 : headpow T1 = 0) by (unfold headpow; rewrite set_op_miss by exact R1; reflexivity).
    unfold query_step.
    rewrite with_rt; [|exact Hww|exact Lw|exact Hf|apply btoks_bstart]. cbn [bind].
    rewrite (d_U0 d Hd).
    rewrite body_rt; [|assumption|exact Lb|apply blspine_gtb_0|rewrite H0; apply N.le_refl|rewrite H0; apply brspine_geb_0|
                      apply (PeanoNat.Nat.le_trans _ 6); [repeat constructor|exact R1]|exact F0].
    cbn [bind]. unfold T1. rewrite order_rt; [|assumption|exact Hlo|exact F1|exact R2]. cbn [bind].
    unfold T2, T3. rewrite limit_iter_first; [|assumption|assumption|exact Ll|exact Lo|exact He|exact F2]. cbn [bind].
    rewrite limit_iter_again by exact He. cbn [bind fst snd].
    rewrite opt_by_miss; [|rewrite Hr; repeat constructor]. cbn [fst]. rewrite !andb_false_r. reflexivity.
  Qed.

  (** ** what [parse_query] makes of the tokens of a parenthesised join: no query followed by [)] *)
  Lemma query_step_word n X : is_word n = true -> starter n = false -> query_step d recq recb rect (n :: X) = Err.
  Proof. destruct n as [[]|[]| |]; cbn [is_word]; intros H1 H2; try discriminate H1; try discriminate H2; reflexivity. Qed.

  Lemma inert_misses rest : inert rest = true ->
    opt_tok2 (QK KOrder) (QK KBy) rest = (false, rest) /\ opt_tok (QK KLimit) rest = (false, rest) /\
    opt_tok (QK KOffset) rest = (false, rest) /\ opt_tok (QK KBy) rest = (false, rest).
  Proof.
    intro H. qhead rest; cbn [inert jstart] in H; try discriminate H; repeat split; try reflexivity.
    all: match goal with |- opt_tok2 _ _ (_ :: ?l) = _ => destruct l; reflexivity end.
  Qed.

  Lemma inert_tail w b rest :
    inert rest = true ->
    bind (parse_order_by d recq rest) (fun '(ob, ts2) =>
    bind (limit_iter d recq (None, None) ts2) (fun '(st1, ts3) =>
    bind (limit_iter d recq st1 ts3) (fun '(st2, ts4) =>
      if limit_by d && (is_some (fst st2) && fst (opt_tok (QK KBy) ts4)) then OutOfFragment
      else Ok (Query w b ob (fst st2) (snd st2), ts4)))) = Ok (Query w b [] None None, rest).
  Proof.
    intro H. destruct (inert_misses rest H) as (M1 & M2 & M3 & M4).
    unfold parse_order_by. rewrite M1. cbn [bind].
    unfold limit_iter. rewrite M2. cbn [bind]. rewrite M3. cbn [bind]. rewrite M2. cbn [bind]. rewrite M3. cbn [bind].
    rewrite M4. cbn [fst snd is_some andb]. rewrite andb_false_r. reflexivity.
  Qed.

  Lemma bloop_inert g p e rest : inert rest = true -> (0 < g)%nat -> bloop recb g p e rest = Ok (e, rest).
  Proof.
    intros H Hg. apply bloop_stop; [exact Hg|]. unfold headpow.
    qhead rest; cbn [inert jstart] in H; try discriminate H; cbn [set_op_of]; lia.
  Qed.

  Lemma notq_nested (x : res (query * list qtok)) :
    notq x ->
    bind x (fun '(q, r1) => match r1 with QE TRParen :: r2 => Ok (BNested q, r2) | _ => Err end) = Err.
  Proof. destruct x as [[q0 [|[[]| | |] r0]]| | |]; cbn [notq bind]; intro H; try reflexivity; contradiction. Qed.

  Lemma notq_step r post :
    tref_wf d r = true -> first_ok r = true -> (tlevel r <= f)%nat ->
    (bare_derived r = true -> jstart post = true) -> qfrag d (tref_toks r ++ post) = true ->
    notq (query_step d recq recb rect (tref_toks r ++ post)).
  Proof.
    intros Hw Hfi Hl Hbd Hf. destruct r as [n a|q a|x a]; cbn [tref_wf tref_toks tlevel first_ok] in *.
    - apply andb_true_iff in Hw. destruct Hw as [Hw _]. unfold name_ok in Hw. apply andb_true_iff in Hw. destruct Hw as [Hw _].
      apply andb_true_iff in Hw. destruct Hw as [Hw _].
      apply negb_true_iff in Hfi. cbn [app]. rewrite query_step_word by assumption. exact I.
    - apply andb_true_iff in Hw. destruct Hw as [Hqw Ha]. cbn [app] in *. rewrite <- app_assoc in *. cbn [app] in *.
      assert (Hin : inert (alias_toks a ++ post) = true).
      { destruct a; [reflexivity|]. cbn [alias_toks app]. pose proof (Hbd eq_refl) as Hj.
        qhead post; cbn [jstart] in Hj; try discriminate Hj; reflexivity. }
      unfold query_step. cbn [parse_with bind]. unfold body_step. cbn [parse_operand].
      rewrite Hq; [|exact Hqw|exact Hl|reflexivity|eapply qfrag_cons; exact Hf]. cbn [bind].
      rewrite bloop_inert; [|exact Hin|lia]. cbn [bind]. rewrite inert_tail by exact Hin.
      cbn [notq]. destruct (alias_toks a ++ post) as [|[[]| | |] ?]; try exact I. discriminate Hin.
    - apply andb_true_iff in Hw. destruct Hw as [Hw Ha]. apply andb_true_iff in Hw. destruct Hw as [Hxw Hno].
      unfold nested_ok in Hno. apply andb_true_iff in Hno. destruct Hno as [Hsh Hfi'].
      destruct x as [r' js]. cbn [twj_toks twj_wf twjlevel first_of] in *. cbn [app] in *. rewrite <- !app_assoc in *.
      apply andb_true_iff in Hxw. destruct Hxw as [Hrw _].
      unfold query_step. cbn [parse_with bind]. unfold body_step. cbn [parse_operand].
      rewrite notq_nested; [exact I|].
      apply Hn; [exact Hrw|exact Hfi'|lia| |eapply qfrag_cons; exact Hf].
      intro Hb'. apply jstart_joins. destruct r' as [| q0 [a0|]|]; try discriminate Hb'.
      destruct js; [discriminate Hsh|discriminate].
  Qed.
End RoundTrip.

(** * Tying the knot: all nesting levels *)
Lemma blevel_pos b : (1 <= blevel b)%nat.
Proof. induction b as [dist items from wh gb hv|o q l IHl r IHr|q|rows|n]; [rewrite blevel_select|cbn [blevel]|rewrite blevel_nested|cbn [blevel]|cbn [blevel]]; lia. Qed.
Lemma qlevel_pos q : (1 <= qlevel q)%nat.
Proof. destruct q as [w b ob lim off]. cbn [qlevel]. pose proof (blevel_pos b). lia. Qed.

Section Knot.
  Variable d : qdialect.
  Hypothesis Hd : dialect_ok d = true.

  Lemma parse_lvl_rt f :
    (forall q post, qwf d q = true -> (qlevel q <= f)%nat -> ender post = true -> qfrag d (qtoks q ++ post) = true ->
       parse_query d f (qtoks q ++ post) = Ok (q, post)) /\
    (forall b p post, bwf d b = true -> (blevel b <= f)%nat -> blspine_gtb p b = true -> headpow post <= p ->
       brspine_geb (headpow post) b = true -> (5 <= hrank post)%nat -> qfrag d (btoks b ++ post) = true ->
       parse_body d f p (btoks b ++ post) = Ok (b, post)) /\
    (forall t post, twj_wf d t = true -> (S (twjlevel t) <= f)%nat -> qfrag d (twj_toks t ++ post) = true ->
       fol 2 post -> parse_twj d f (twj_toks t ++ post) = Ok (t, post)) /\
    (forall r post, tref_wf d r = true -> first_ok r = true -> (S (tlevel r) <= f)%nat ->
       (bare_derived r = true -> jstart post = true) -> qfrag d (tref_toks r ++ post) = true ->
       notq (parse_query d f (tref_toks r ++ post))).
  Proof.
    induction f as [|f (IHq & IHb & IHt & IHn)].
    - repeat split.
      + intros q post _ Hl. pose proof (qlevel_pos q). lia.
      + intros b p post _ Hl. pose proof (blevel_pos b). lia.
      + intros t post _ Hl. lia.
      + intros r post _ _ Hl. lia.
    - repeat split.
      + intros q post Hw Hl He Hf. unfold parse_query. cbn [parse_lvl pq].
        apply (query_rt d Hd f); auto.
      + intros b p post Hw Hl Hls Hp Hrs Hr Hf. unfold parse_body. cbn [parse_lvl pb].
        apply (body_rt d Hd f); auto.
      + intros t post Hw Hl Hf Hp. unfold parse_twj. cbn [parse_lvl pt].
        apply (twj_rt d Hd f (pq (parse_lvl d f)) (pb (parse_lvl d f)) (pt (parse_lvl d f))); auto. lia.
      + intros r post Hw Hfi Hl Hbd Hf. unfold parse_query. cbn [parse_lvl pq].
        apply (notq_step d Hd f (pq (parse_lvl d f)) (pb (parse_lvl d f)) (pt (parse_lvl d f))); auto. lia.
  Qed.

  (** The round trip of the query core: for every well-formed query tree [q] whose printed tokens
      pass the syntactic fragment test, whatever follows (end of input, [)] or [;]): parsing the
      printed tokens gives [q] back and leaves the rest, for every fuel from the nesting level up. *)
  Theorem query_roundtrip q rest fuel :
    qwf d q = true -> qfrag d (qtoks q ++ rest) = true -> ender rest = true -> (qlevel q <= fuel)%nat ->
    parse_query d fuel (qtoks q ++ rest) = Ok (q, rest).
  Proof. intros Hw Hf He Hl. apply (proj1 (parse_lvl_rt fuel)); assumption. Qed.

  (** the same for a query body (set-operation operand) at binding power [p] *)
  Theorem body_roundtrip b p rest fuel :
    bwf d b = true -> blspine_gtb p b = true -> headpow rest <= p -> brspine_geb (headpow rest) b = true ->
    (5 <= hrank rest)%nat -> qfrag d (btoks b ++ rest) = true -> (blevel b <= fuel)%nat ->
    parse_body d fuel p (btoks b ++ rest) = Ok (b, rest).
  Proof. intros. apply (proj1 (proj2 (parse_lvl_rt fuel))); assumption. Qed.

  (** the same for one element of FROM (a table with its joins); what follows is a comma or the end
      of the FROM clause (WHERE GROUP HAVING, a set operator, ORDER LIMIT OFFSET, [)] [;] or the end) *)
  Theorem twj_roundtrip t rest fuel :
    twj_wf d t = true -> qfrag d (twj_toks t ++ rest) = true ->
    (is_comma rest = true \/ (2 <= hrank rest)%nat) -> (S (twjlevel t) <= fuel)%nat ->
    parse_twj d fuel (twj_toks t ++ rest) = Ok (t, rest).
  Proof. intros. apply (proj1 (proj2 (proj2 (parse_lvl_rt fuel)))); assumption. Qed.

  (** printing is injective on well-formed queries *)
  Theorem qtoks_injective q1 q2 :
    qwf d q1 = true -> qwf d q2 = true -> qfrag d (qtoks q1) = true -> qtoks q1 = qtoks q2 -> q1 = q2.
  Proof.
    intros H1 H2 Hf E. set (m := Nat.max (qlevel q1) (qlevel q2)).
    assert (R1 : parse_query d m (qtoks q1 ++ []) = Ok (q1, [])).
    { apply query_roundtrip; auto; [rewrite app_nil_r; exact Hf|subst m; lia]. }
    assert (R2 : parse_query d m (qtoks q2 ++ []) = Ok (q2, [])).
    { apply query_roundtrip; auto; [rewrite app_nil_r, <- E; exact Hf|subst m; lia]. }
    rewrite <- E in R2. rewrite R1 in R2. inversion R2. reflexivity.
  Qed.
End Knot.
